import Fzf.Base.Str
/-
Model of the cancellation protocol of `Matcher.scan` (src/matcher.go) as a labelled transition
system: one worker per slice of chunks, the `cancelled` flag, the count channel and the result
channel; the main goroutine counts finished chunks, may observe a newer request after any count
but the last, and otherwise collects one result per worker. Chunk matching itself is abstract:
each chunk is represented by the list of matches the pattern yields on it.
-/
namespace Fzf.Scan
open Fzf

structure Worker where
  orig : List (List Int)             -- matches of each chunk of the slice
  done : List (List Int) := []       -- chunks matched so far
  todo : List (List Int)
  pending : Bool := false            -- matched a chunk, has not yet looked at `cancelled`
  quit : Bool := false               -- saw `cancelled` and returned without a result
  result : Option (List Int) := none -- what it put on resultChan

inductive Phase where
  | counting                         -- main loop over countChan
  | collecting                       -- all chunks counted: receiving the results
  | finished (out : Option (List (List Int)))   -- returned (none = cancelled)
deriving DecidableEq

structure S where
  ws : List Worker
  inChan : Nat := 0                  -- counts sitting in countChan
  received : Nat := 0
  cancelled : Bool := false
  phase : Phase := .counting

def numChunks (s : S) : Nat := (s.ws.map fun w => w.orig.length).sum

def init (slices : List (List (List Int))) : S :=
  { ws := slices.map fun sl => { orig := sl, todo := sl } }

inductive Label where
  | work (i : Nat)                   -- worker i matches its next chunk
  | check (i : Nat)                  -- worker i reads `cancelled`, then sends the count or returns
  | finish (i : Nat)                 -- worker i sends its result
  | recv (newer : Bool)              -- main receives a count; `newer`: a reset request is pending
  | collect                          -- main has received every result

def stepWorker (cancelled : Bool) (w : Worker) : Label → Option (Worker × Nat)
  | .work _ =>
    match w.todo with
    | c :: rest => if !w.pending ∧ !w.quit then some ({ w with done := w.done ++ [c], todo := rest, pending := true }, 0) else none
    | [] => none
  | .check _ =>
    if w.pending ∧ !w.quit then
      if cancelled then some ({ w with quit := true }, 0) else some ({ w with pending := false }, 1)
    else none
  | .finish _ =>
    if w.todo.isEmpty ∧ !w.pending ∧ !w.quit ∧ w.result.isNone then
      some ({ w with result := some w.done.flatten }, 0)
    else none
  | _ => none

/-- A worker transition of worker `i`. -/
def stepAt (s : S) (i : Nat) (l : Label) : Option S :=
  match s.ws[i]? with
  | some w =>
    match stepWorker s.cancelled w l with
    | some (w', sent) => some { s with ws := s.ws.set i w', inChan := s.inChan + sent }
    | none => none
  | none => none

/-- A transition of the main goroutine. -/
def stepMain (s : S) : Label → Option S
  | .recv newer =>
    if s.phase = .counting ∧ s.inChan > 0 then
      let s := { s with inChan := s.inChan - 1, received := s.received + 1 }
      if s.received = numChunks s then some { s with phase := .collecting }
      else if newer then some { s with cancelled := true, phase := .finished none }
      else some s
    else none
  | .collect =>
    if s.phase = .collecting ∧ s.ws.all (fun w => w.result.isSome) then
      some { s with phase := .finished (some (s.ws.map fun w => w.result.getD [])) }
    else none
  | _ => none

def step (s : S) (l : Label) : Option S :=
  match l with
  | .work i => stepAt s i l
  | .check i => stepAt s i l
  | .finish i => stepAt s i l
  | l => stepMain s l

/-- States reachable by a trace (disabled labels are skipped). -/
def run (s : S) (ls : List Label) : S := ls.foldl (fun s l => (step s l).getD s) s

/-- What a sequential scan of the same slices yields. -/
def expected (s : S) : List (List Int) := s.ws.map fun w => w.orig.flatten

end Fzf.Scan
