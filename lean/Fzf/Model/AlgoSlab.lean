import Fzf.Model.Algo
/-
Array-faithful layer ("L1") of FuzzyMatchV2: the arrays `H0 C0 B F T H C` are carved out of a
slab exactly as `alloc16/alloc32` do, every access to them is *syntax* (`Prog.read` /
`Prog.write`), and two interpreters give it meaning:

* `runRaw`  — what Go does: a read returns whatever the cell holds (stale data of earlier calls);
* `runChk`  — a read of a cell that this call has not written (and that is not freshly
               allocated, hence zeroed, memory) is an error, as is an index outside the memory.

`Fzf/Lemmas/Prog.lean` proves, for *every* program: if the checked run returns a value then the
raw run returns the same value for every initial content of the slab.
-/
namespace Fzf.Algo

/-- Programs over one flat memory of integer cells. -/
inductive Prog (α : Type) where
  | ret   : α → Prog α
  | fail  : String → Prog α
  | read  : Nat → (Int → Prog α) → Prog α
  | write : Nat → Int → Prog α → Prog α

namespace Prog

def bind : Prog α → (α → Prog β) → Prog β
  | ret a, f => f a
  | fail e, _ => fail e
  | read i k, f => read i (fun v => bind (k v) f)
  | write i v k, f => write i v (bind k f)

instance : Monad Prog where
  pure := ret
  bind := bind

/-- What Go does. -/
def runRaw : Prog α → Array Int → Except String α
  | ret a, _ => .ok a
  | fail e, _ => .error e
  | read i k, mem => if h : i < mem.size then runRaw (k mem[i]) mem else .error s!"index out of range [{i}]"
  | write i v k, mem => if i < mem.size then runRaw k (mem.setIfInBounds i v) else .error s!"index out of range [{i}]"

/-- Checked semantics: `w[i]` says cell `i` holds a value this call may rely on. -/
def runChk : Prog α → Array Int → Array Bool → Except String α
  | ret a, _, _ => .ok a
  | fail e, _, _ => .error e
  | read i k, mem, w =>
    if h : i < mem.size then
      if w.getD i false then runChk (k mem[i]) mem w else .error s!"uninit [{i}]"
    else .error s!"index out of range [{i}]"
  | write i v k, mem, w =>
    if i < mem.size then runChk k (mem.setIfInBounds i v) (w.setIfInBounds i true)
    else .error s!"index out of range [{i}]"

end Prog

/-- A Go slice into the flat memory: base address and length. Index checks are Go's. -/
structure Slice where
  base : Nat
  len  : Nat
deriving Repr

def Slice.get (s : Slice) (i : Int) (what : String) : Prog Int :=
  if 0 ≤ i ∧ i < s.len then .read (s.base + i.toNat) .ret
  else .fail s!"index out of range [{i}] with length {s.len} ({what})"

def Slice.set (s : Slice) (i : Int) (v : Int) (what : String) : Prog Unit :=
  if 0 ≤ i ∧ i < s.len then .write (s.base + i.toNat) v (.ret ())
  else .fail s!"index out of range [{i}] with length {s.len} ({what})"

/-- `s[from:]` / `s[from:to]` with Go's bounds rule (`0 ≤ from ≤ to ≤ len`; cap = len here). -/
def Slice.sub (s : Slice) (frm to : Int) (what : String) : Prog Slice :=
  if 0 ≤ frm ∧ frm ≤ to ∧ to ≤ s.len then .ret ⟨s.base + frm.toNat, (to - frm).toNat⟩
  else .fail s!"slice bounds out of range [{frm}:{to}] with length {s.len} ({what})"

/-- Memory layout: `[0, cap16)` = slab.I16, `[cap16, cap16+cap32)` = slab.I32, the rest is
    freshly allocated (zeroed) memory handed out by bumping `fresh`. -/
structure Layout where
  hasSlab : Bool
  cap16 : Nat
  cap32 : Nat
  /-- cells of each slab array actually represented in memory (a call never carves beyond
      `3N + 2NM` int16 and `N + M` int32 cells; an access beyond is an `index out of range`) -/
  phys16 : Nat := cap16
  phys32 : Nat := cap32

structure Alloc where
  off16 : Nat := 0
  off32 : Nat := 0
  fresh : Nat

def alloc16 (L : Layout) (a : Alloc) (size : Nat) : Alloc × Slice :=
  if L.hasSlab ∧ L.cap16 > a.off16 + size then ({ a with off16 := a.off16 + size }, ⟨a.off16, size⟩)
  else ({ a with fresh := a.fresh + size }, ⟨a.fresh, size⟩)

def alloc32 (L : Layout) (a : Alloc) (size : Nat) : Alloc × Slice :=
  if L.hasSlab ∧ L.cap32 > a.off32 + size then ({ a with off32 := a.off32 + size }, ⟨L.phys16 + a.off32, size⟩)
  else ({ a with fresh := a.fresh + size }, ⟨a.fresh, size⟩)

/-- Cells of fresh memory a call may need. -/
def freshNeeded (n m : Nat) : Nat := 4 * n + m + 2 * n * m + 8

structure LoopSt where
  pidx : Nat := 0
  lastIdx : Nat := 0
  pchar : Nat
  prevH0 : Int := 0
  prevClass : Nat
  inGap : Bool := false
  maxScore : Int := 0
  maxScorePos : Nat := 0
  stop : Bool := false

/-- `FuzzyMatchV2` from phase 1's result on (the V1 fallback and the early exits are handled by
    the caller exactly as in `fuzzyMatchV2`). Mirrors the Go statements one by one. -/
def v2Slab (cfg : Cfg) (L : Layout) (cs norm fwd : Bool) (t : Text) (p : Text) (withPos : Bool)
    (minIdx maxIdx : Nat) : Prog Res := do
  let M := p.size
  let N := maxIdx - minIdx
  let a : Alloc := { fresh := L.phys16 + L.phys32 }
  let (a, H0) := alloc16 L a N
  let (a, C0) := alloc16 L a N
  let (a, B) := alloc16 L a N
  let (a, F) := alloc32 L a M
  let (a, T) := alloc32 L a N
  -- input.CopyRunes(T, minIdx)
  for k in [0:N] do
    T.set k (t.getD (minIdx + k) 0) "CopyRunes"
  -- Phase 2
  let pchar0 := p.getD 0 0
  let mut st : LoopSt := { pchar := pchar0, prevClass := cfg.sch.initClass }
  for off in [0:N] do
    if st.stop then break
    let c0 ← T.get off "T[off]"
    let (cls, c) := v2Fold cfg cs norm c0.toNat
    if c != c0.toNat ∨ c0 > 127 then T.set off c "T[off] ="
    let bonus := bonusFor cfg.sch st.prevClass cls
    B.set off bonus "B[off] ="
    let mut s := { st with prevClass := cls }
    if c == s.pchar then
      if s.pidx < M then
        F.set s.pidx off "F[pidx] ="
        s := { s with pidx := s.pidx + 1, pchar := p.getD (min (s.pidx + 1) (M - 1)) 0 }
      s := { s with lastIdx := off }
    if c == pchar0 then
      let score := w16 (scoreMatch + w16 (bonus * bonusFirstCharMultiplier))
      H0.set off score "H0[off] ="
      C0.set off 1 "C0[off] ="
      if M == 1 && ((fwd && score > s.maxScore) || (!fwd && score ≥ s.maxScore)) then
        s := { s with maxScore := score, maxScorePos := off }
        if fwd && bonus ≥ bonusBoundary then
          st := { s with stop := true }
          continue
      s := { s with inGap := false }
    else
      let h := if s.inGap then max16 (w16 (s.prevH0 + scoreGapExtension)) 0
               else max16 (w16 (s.prevH0 + scoreGapStart)) 0
      H0.set off h "H0[off] ="
      C0.set off 0 "C0[off] ="
      s := { s with inGap := true }
    let h0 ← H0.get off "prevH0 = H0[off]"
    st := { s with prevH0 := h0 }
  if st.pidx != M then return Res.none
  if M == 1 then
    return ⟨minIdx + st.maxScorePos, minIdx + st.maxScorePos + 1, st.maxScore,
            if withPos then some [minIdx + st.maxScorePos] else Option.none⟩
  -- Phase 3
  let f0i ← F.get 0 "F[0]"
  let f0 := f0i.toNat
  let lastIdx := st.lastIdx
  let width := lastIdx - f0 + 1
  let (a, H) := alloc16 L a (width * M)
  let H0s ← H0.sub f0 (lastIdx + 1) "H0[f0:lastIdx+1]"
  for k in [0:min H.len H0s.len] do
    let v ← H0s.get k "copy(H, H0[..])"
    H.set k v "copy(H, H0[..])"
  let (_, C) := alloc16 L a (width * M)
  let C0s ← C0.sub f0 (lastIdx + 1) "C0[f0:lastIdx+1]"
  for k in [0:min C.len C0s.len] do
    let v ← C0s.get k "copy(C, C0[..])"
    C.set k v "copy(C, C0[..])"
  let mut maxScore := st.maxScore
  let mut maxScorePos := st.maxScorePos
  for off in [0:M - 1] do
    let fi ← F.get (off + 1 : Nat) "Fsub[off]"
    let f := fi.toNat
    let pchar := p.getD (off + 1) 0
    let pidx := off + 1
    let row := pidx * width
    let mut inGap := false
    let Tsub ← T.sub f (lastIdx + 1) "T[f:lastIdx+1]"
    let Bs ← B.sub f B.len "B[f:]"
    let Bsub ← Bs.sub 0 Tsub.len "B[f:][:len(Tsub)]"
    let mk (S : Slice) (o : Int) (what : String) : Prog Slice := do
      let s1 ← S.sub o S.len what
      s1.sub 0 Tsub.len what
    let Csub ← mk C ((row + f : Nat) - (f0 : Int)) "C[row+f-f0:]"
    let Cdiag ← mk C ((row + f : Nat) - (f0 : Int) - 1 - width) "C[row+f-f0-1-width:]"
    let Hsub ← mk H ((row + f : Nat) - (f0 : Int)) "H[row+f-f0:]"
    let Hdiag ← mk H ((row + f : Nat) - (f0 : Int) - 1 - width) "H[row+f-f0-1-width:]"
    let Hleft ← mk H ((row + f : Nat) - (f0 : Int) - 1) "H[row+f-f0-1:]"
    Hleft.set 0 0 "Hleft[0] = 0"
    for o in [0:Tsub.len] do
      let char ← Tsub.get o "Tsub[off]"
      let col := o + f
      let hl ← Hleft.get o "Hleft[off]"
      let s2 := w16 (hl + (if inGap then scoreGapExtension else scoreGapStart))
      let mut s1 : Int := 0
      let mut consecutive : Int := 0
      if pchar == char.toNat then
        let hd ← Hdiag.get o "Hdiag[off]"
        s1 := w16 (hd + scoreMatch)
        let b0 ← Bsub.get o "Bsub[off]"
        let mut b := b0
        let cd ← Cdiag.get o "Cdiag[off]"
        consecutive := w16 (cd + 1)
        if consecutive > 1 then
          let fb ← B.get ((col : Int) - consecutive + 1) "B[col-consecutive+1]"
          if b ≥ bonusBoundary ∧ b > fb then consecutive := 1
          else b := max16 b (max16 bonusConsecutive fb)
        if w16 (s1 + b) < s2 then
          let b1 ← Bsub.get o "Bsub[off]"
          s1 := w16 (s1 + b1)
          consecutive := 0
        else
          s1 := w16 (s1 + b)
      Csub.set o consecutive "Csub[off] ="
      inGap := s1 < s2
      let score := max16 (max16 s1 s2) 0
      if pidx == M - 1 && ((fwd && score > maxScore) || (!fwd && score ≥ maxScore)) then
        maxScore := score
        maxScorePos := col
      Hsub.set o score "Hsub[off] ="
  -- Phase 4
  if !withPos then
    return ⟨minIdx + f0, minIdx + maxScorePos + 1, maxScore, Option.none⟩
  let mut pos : List Nat := []
  let mut i : Int := M - 1
  let mut j : Int := maxScorePos
  let mut preferMatch := true
  let mut fin := false
  for _ in [0:N + M + 2] do
    if fin then break
    let I := i * width
    let j0 := j - f0
    let s ← H.get (I + j0) "H[I+j0]"
    let fi ← F.get i "F[i]"
    let s1 ← if i > 0 ∧ j ≥ fi then H.get (I - width + j0 - 1) "H[I-width+j0-1]" else pure 0
    let s2 ← if j > fi then H.get (I + j0 - 1) "H[I+j0-1]" else pure 0
    let fnext ← if i + 1 < M then F.get (i + 1) "F[i+1]" else pure 0
    let next : Bool := i + 1 < M && j + 1 ≥ fnext && j < lastIdx
    if s > s1 ∧ (s > s2 ∨ (s == s2 ∧ preferMatch)) then
      pos := pos ++ [(j + minIdx).toNat]
      if i == 0 then
        fin := true
        continue
      i := i - 1
    let c ← C.get (I + j0) "C[I+j0]"
    let c2 ← if next then C.get (I + width + j0 + 1) "C[I+width+j0+1]" else pure 0
    preferMatch := c > 1 || (next && c2 > 0)
    j := j - 1
  if !fin then Prog.fail "backtrace did not terminate"
  return ⟨minIdx + j, minIdx + maxScorePos + 1, maxScore, some pos⟩

/-- Initial memory: slab cells hold `junk`, fresh memory is zero. -/
def initMem (L : Layout) (freshCells : Nat) (junk : Nat → Int) : Array Int :=
  Array.ofFn (n := L.phys16 + L.phys32 + freshCells) fun i =>
    if i.val < L.phys16 then junk i.val
    else if i.val < L.phys16 + L.phys32 then junk (L.cap16 + (i.val - L.phys16)) else 0

/-- Initially reliable cells: exactly the fresh memory. -/
def initWritten (L : Layout) (freshCells : Nat) : Array Bool :=
  Array.ofFn (n := L.phys16 + L.phys32 + freshCells) fun i => decide (i.val ≥ L.phys16 + L.phys32)

/-- `slab != nil && N*M > cap(slab.I16)`. -/
def v2Fallback (slab : Option (Nat × Nat)) (n m : Nat) : Bool :=
  match slab with
  | some (cap16, _) => decide (n * m > cap16)
  | Option.none => false

def layoutOf (slab : Option (Nat × Nat)) (nn m : Nat) : Layout :=
  match slab with
  | some (c16, c32) => ⟨true, c16, c32, min c16 (3 * nn + 2 * nn * m + 8), min c32 (nn + m + 8)⟩
  | Option.none => ⟨false, 0, 0, 0, 0⟩

/-- Phases 2–4 over a slab with the given contents, raw or checked. -/
def v2Run (cfg : Cfg) (cs norm fwd : Bool) (t p : Text) (withPos : Bool) (slab : Option (Nat × Nat))
    (junk : Nat → Int) (checked : Bool) (mm : Nat × Nat) : M Res :=
  let L := layoutOf slab (mm.2 - mm.1) p.size
  let prog := v2Slab cfg L cs norm fwd t p withPos mm.1 mm.2
  let fc := freshNeeded (mm.2 - mm.1) p.size
  if checked then prog.runChk (initMem L fc junk) (initWritten L fc)
  else prog.runRaw (initMem L fc junk)

/-- Whole `FuzzyMatchV2` over a slab with the given contents, raw or checked. -/
def fuzzyMatchV2Slab (cfg : Cfg) (cs norm fwd : Bool) (t : Text) (isBytes : Bool) (p : Text) (withPos : Bool)
    (slab : Option (Nat × Nat)) (junk : Nat → Int) (checked : Bool) : M Res :=
  if p.size == 0 then .ok ⟨0, 0, 0, if withPos then some [] else Option.none⟩
  else if p.size > t.size then .ok Res.none
  else if v2Fallback slab t.size p.size then fuzzyMatchV1 cfg cs norm fwd t isBytes p withPos
  else
    match asciiFuzzyIndex t isBytes p cs with
    | Option.none => .ok Res.none
    | some mm => v2Run cfg cs norm fwd t p withPos slab junk checked mm

end Fzf.Algo
