import Fzf.Base.Str
/-
Model of the option loop (`parseOptions`, src/options.go) for a vocabulary of options, and of the
layering $FZF_DEFAULT_OPTS → command line. Every option of the vocabulary either sets a field
from the option itself (`flag`), from a string value, or from an integer value; values come
from `--opt=value` or from the next argument. Later occurrences overwrite earlier ones.
-/
namespace Fzf.Args
open Fzf

inductive Kind where
  | flag (field : String) (value : String)       -- sets field := value
  | str (field : String)                         -- field := the value
  | int (field : String)                         -- field := the integer value
  | layout                                       -- --layout VALUE
deriving Repr, DecidableEq

def table : List (String × Kind) := [
  ("--cycle", .flag "cycle" "1"), ("--no-cycle", .flag "cycle" "0"),
  ("--tac", .flag "tac" "1"), ("--no-tac", .flag "tac" "0"),
  ("-i", .flag "case" "1"), ("--ignore-case", .flag "case" "1"), ("+i", .flag "case" "2"), ("--no-ignore-case", .flag "case" "2"),
  ("--smart-case", .flag "case" "0"),
  ("-e", .flag "fuzzy" "0"), ("--exact", .flag "fuzzy" "0"), ("+e", .flag "fuzzy" "1"), ("--no-exact", .flag "fuzzy" "1"),
  ("-x", .flag "extended" "1"), ("--extended", .flag "extended" "1"), ("+x", .flag "extended" "0"), ("--no-extended", .flag "extended" "0"),
  ("+s", .flag "sort" "0"), ("--no-sort", .flag "sort" "0"),
  ("--ansi", .flag "ansi" "1"), ("--no-ansi", .flag "ansi" "0"),
  ("--read0", .flag "read0" "1"), ("--no-read0", .flag "read0" "0"),
  ("--print-query", .flag "printquery" "1"), ("--no-print-query", .flag "printquery" "0"),
  ("-1", .flag "select1" "1"), ("--select-1", .flag "select1" "1"), ("+1", .flag "select1" "0"), ("--no-select-1", .flag "select1" "0"),
  ("-0", .flag "exit0" "1"), ("--exit-0", .flag "exit0" "1"), ("+0", .flag "exit0" "0"), ("--no-exit-0", .flag "exit0" "0"),
  ("--literal", .flag "literal" "1"), ("--no-literal", .flag "literal" "0"),
  ("--sync", .flag "sync" "1"), ("--no-sync", .flag "sync" "0"),
  ("--reverse", .flag "layout" "1"), ("--no-reverse", .flag "layout" "0"),
  ("--layout", .layout),
  ("--prompt", .str "prompt"), ("-q", .str "query"), ("--query", .str "query"),
  ("--tabstop", .int "tabstop"), ("--scroll-off", .int "scrolloff"), ("--header-lines", .int "headerlines")]

abbrev Dump := List (String × String)

def Dump.set (d : Dump) (k v : String) : Dump := (k, v) :: d.filter (·.1 != k)
def Dump.get (d : Dump) (k : String) : String := ((d.find? (·.1 == k)).map (·.2)).getD ""

def defaults : Dump := [
  ("cycle", "0"), ("tac", "0"), ("case", "0"), ("fuzzy", "1"), ("extended", "1"), ("sort", "1"), ("ansi", "0"), ("read0", "0"),
  ("printquery", "0"), ("select1", "0"), ("exit0", "0"), ("literal", "0"), ("sync", "0"), ("layout", "0"), ("prompt", "> "),
  ("query", ""), ("tabstop", "8"), ("scrolloff", "3"), ("headerlines", "0")]

def atoi (s : String) : Option Int :=
  let cs := s.toList
  let (neg, ds) := match cs with
    | '-' :: r => (true, r)
    | '+' :: r => (false, r)
    | r => (false, r)
  if ds.isEmpty ∨ !ds.all Char.isDigit ∨ ds.length > 18 then none
  else
    let v : Nat := ds.foldl (fun a c => a * 10 + (c.toNat - 48)) 0
    some (if neg then -(v : Int) else v)

/-- Split `--name=value`. -/
def splitArg (arg : String) : String × Option String :=
  if arg.startsWith "--" ∧ (arg.splitOn "=").length > 1 ∧ !(arg.startsWith "--=") then
    let parts := arg.splitOn "="
    (parts.headD "", some ("=".intercalate (parts.drop 1)))
  else (arg, none)

/-- Apply a value to a valued option. -/
def applyValue (d : Dump) (k : Kind) (v : String) : Option Dump :=
  match k with
  | .str f => some (d.set f v)
  | .int f => (atoi v).map fun n => d.set f (toString n)
  | .layout =>
    if v == "default" then some (d.set "layout" "0")
    else if v == "reverse" then some (d.set "layout" "1")
    else if v == "reverse-list" then some (d.set "layout" "2")
    else none
  | .flag _ _ => none

/-- Parser state: the fields so far and, if the previous argument was a valued option without
    `=value`, that option (its value is the next argument). `none` = rejected. -/
abbrev PState := Option (Dump × Option Kind)

def step (st : PState) (arg : String) : PState :=
  match st with
  | none => none
  | some (d, some k) => (applyValue d k arg).map fun d' => (d', none)
  | some (d, none) =>
    let (name, val) := splitArg arg
    match table.find? (·.1 == name) with
    | none => none
    | some (_, .flag f v) => if val.isSome then none else some (d.set f v, none)
    | some (_, k) =>
      match val with
      | some v => (applyValue d k v).map fun d' => (d', none)
      | none => some (d, some k)

def valid (d : Dump) : Bool :=
  let n (k : String) := ((atoi (d.get k)).getD 0)
  !(n "headerlines" < 0 || n "scrolloff" < 0 || n "tabstop" < 1)

/-- One layer (`parseOptions` over one argument list); `none` = rejected (unknown option,
    missing or malformed value, or an invalid final value — checked at the end of every layer). -/
def parseLayer (d : Dump) (args : List String) : Option Dump :=
  match args.foldl step (some (d, none)) with
  | some (d', none) => if valid d' then some d' else none
  | _ => none

/-- `ParseOptions`: the environment layer first, then the command line. -/
def parse (env args : List String) : Option Dump :=
  (parseLayer defaults env).bind (parseLayer · args)

end Fzf.Args
