import Fzf.Base.Str
/-
Model of `handleHttpRequest` (src/server.go): the bufio.Scanner with fzf's split function over
the chunks a connection delivers, the section state machine (request line, headers, body), the
API-key check and the framing of the answer. The parsed action list itself is external
(`parseSingleActionList`, C17): the model says *which text* is handed to it.
-/
namespace Fzf.Http
open Fzf

inductive Resp where
  | getOk (limit offset : Int)         -- 200 with the state JSON
  | post (actionText : Str)            -- body accepted: this text goes to parseSingleActionList
  | bad (why : String)                 -- 400
  | unauthorized                       -- 401
deriving Repr, DecidableEq

/-- Position of the first CRLF. -/
def findCRLF : Str → Option Nat
  | 13 :: 10 :: _ => some 0
  | _ :: rest => (findCRLF rest).map (· + 1)
  | [] => none

/-- bufio.Scanner state: the unread part of the buffer is `data`; `start` is its offset in a
    buffer of `cap` bytes (`end = start + data.length`). -/
structure Scanner where
  data : Str := []
  start : Nat := 0
  cap : Nat := 0
  chunks : List Str           -- what the connection will still deliver (then EOF)
  eof : Bool := false
  done : Bool := false
  empties : Nat := 0

def startBufSize : Nat := 4096
def maxTokenSize : Nat := 65536

/-- One `Scan()`: the next token, or none when scanning stops (EOF without data, or an error such
    as a token longer than the buffer). `bodyLen`/`contentLength` feed fzf's split function. -/
def scan (s : Scanner) (bodyLen contentLength : Nat) (fuel : Nat) : Option Str × Scanner :=
  match fuel with
  | 0 => (none, { s with done := true })
  | fuel + 1 =>
    if s.done then (none, s)
    else
      -- try to split what is buffered (also at EOF with nothing buffered)
      let trySplit : Option (Option Str × Scanner) :=
        if !s.data.isEmpty ∨ s.eof then
          match findCRLF s.data with
          | some i =>
            let tok := s.data.take (i + 2)
            some (some tok, { s with data := s.data.drop (i + 2), start := s.start + i + 2 })
          | none =>
            if s.eof ∨ bodyLen + s.data.length ≥ contentLength then
              some (some s.data, { s with data := [], done := true })     -- ErrFinalToken
            else if s.eof then some (none, { s with done := true })
            else none
        else none
      match trySplit with
      | some r => r
      | none =>
        -- need more data: make room, then read once
        let endOff := s.start + s.data.length
        let s := if s.start > 0 ∧ (endOff = s.cap ∨ s.start > s.cap / 2) then { s with start := 0 } else s
        let endOff := s.start + s.data.length
        if endOff = s.cap ∧ s.cap ≥ maxTokenSize then (none, { s with done := true })   -- ErrTooLong
        else
          let s := if endOff = s.cap then
              { s with cap := min maxTokenSize (if s.cap = 0 then startBufSize else s.cap * 2), start := 0 }
            else s
          let room := s.cap - (s.start + s.data.length)
          match s.chunks with
          | [] => scan { s with eof := true } bodyLen contentLength fuel
          | c :: rest =>
            let n := min c.length room
            let s' := { s with data := s.data ++ c.take n,
                               chunks := if n = c.length then rest else c.drop n :: rest }
            if n = 0 then
              if s.empties + 1 ≥ 100 then (none, { s' with done := true }) else scan { s' with empties := s.empties + 1 } bodyLen contentLength fuel
            else scan { s' with empties := 0 } bodyLen contentLength fuel

def lowerAscii (s : Str) : Str := s.map fun c => if 65 ≤ c ∧ c ≤ 90 then c + 32 else c
def isWs (c : Nat) : Bool := c = 32 || (9 ≤ c && c ≤ 13)
def trimWs (s : Str) : Str := ((s.dropWhile isWs).reverse.dropWhile isWs).reverse

/-- `strconv.Atoi` for what matters here: optional sign, digits; none otherwise or when huge. -/
def atoi (s : Str) : Option Int :=
  let (neg, ds) := match s with
    | 45 :: r => (true, r)
    | 43 :: r => (false, r)
    | r => (false, r)
  if ds.isEmpty ∨ !ds.all (fun c => 48 ≤ c ∧ c ≤ 57) ∨ ds.length > 18 then none
  else
    let v : Nat := ds.foldl (fun a c => a * 10 + (c - 48)) 0
    some (if neg then -(v : Int) else v)

def isPrefix (p s : Str) : Bool := p.isPrefixOf s

/-- `getRegex`: `^GET /(?:\?([a-z0-9=&]+))? HTTP` — the captured query string. -/
def matchGet (t : Str) : Option Str :=
  if !isPrefix [71, 69, 84, 32, 47] t then none   -- "GET /"
  else
    let r := t.drop 5
    let http := [32, 72, 84, 84, 80]
    if isPrefix http r then some []
    else match r with
      | 63 :: q =>
        let qs := q.takeWhile fun c => (97 ≤ c ∧ c ≤ 122) ∨ (48 ≤ c ∧ c ≤ 57) ∨ c = 61 ∨ c = 38
        if !qs.isEmpty ∧ isPrefix http (q.drop qs.length) then some qs else none
      | _ => none

/-- `parseGetParams`. -/
def parseGetParams (q : Str) : Int × Int :=
  (splitOn 38 q).foldl (fun (acc : Int × Int) pair =>
    match splitOn 61 pair with
    | k :: v :: rest =>
      let v := joinWith 61 (v :: rest)
      match atoi v with
      | some n => if k = [108, 105, 109, 105, 116] then (n, acc.2)
                  else if k = [111, 102, 102, 115, 101, 116] then (acc.1, n) else acc
      | none => acc
    | _ => acc) (100, 0)

structure HS where
  section_ : Nat := 0
  get : Option Str := none
  contentLength : Nat := 0
  apiKey : Str := []
  body : Str := []
  result : Option Resp := none
  stop : Bool := false

def maxContentLength : Nat := 1024 * 1024

/-- One scanned token through the section machine. -/
def onToken (h : HS) (t : Str) : HS :=
  match h.section_ with
  | 0 =>
    let g := matchGet t
    if g.isNone ∧ !isPrefix [80, 79, 83, 84, 32, 47, 32, 72, 84, 84, 80] t then
      { h with result := some (.bad "invalid request method"), stop := true }
    else { h with get := g, section_ := 1 }
  | 1 =>
    if t = [13, 10] then
      if h.get.isSome then { h with stop := true }
      else if h.contentLength = 0 then { h with result := some (.bad "content-length header missing"), stop := true }
      else { h with section_ := 2 }
    else
      match t.idxOf? 58 with
      | none => h
      | some i =>
        let name := lowerAscii (t.take i)
        let value := trimWs (t.drop (i + 1))
        if name = [99, 111, 110, 116, 101, 110, 116, 45, 108, 101, 110, 103, 116, 104] then
          match atoi value with
          | some n => if n ≤ 0 ∨ n > maxContentLength then { h with result := some (.bad "invalid content length"), stop := true }
                      else { h with contentLength := n.toNat }
          | none => { h with result := some (.bad "invalid content length"), stop := true }
        else if name = [120, 45, 97, 112, 105, 45, 107, 101, 121] then { h with apiKey := value }
        else h
  | _ => { h with body := h.body ++ t }

/-- `strings.Trim(body, "\r\n")`. -/
def trimCRLF (s : Str) : Str :=
  let p := fun c => c = 13 || c = 10
  ((s.dropWhile p).reverse.dropWhile p).reverse

/-- The scanning loop of `handleHttpRequest`. -/
def scanLoop (sc : Scanner) (h : HS) (fuel : Nat) : HS :=
  match fuel with
  | 0 => h
  | fuel + 1 =>
    if h.stop then h
    else
      match scan sc h.body.length h.contentLength (sc.chunks.length * 40 + 2000) with
      | (none, _) => h
      | (some t, sc') => scanLoop sc' (onToken h t) fuel

/-- What is answered once scanning is over. -/
def conclude (serverKey : Str) (h : HS) : Resp :=
  match h.result with
  | some r => r
  | none =>
    if !serverKey.isEmpty ∧ h.apiKey ≠ serverKey then .unauthorized
    else match h.get with
      | some q => let (l, o) := parseGetParams q; .getOk l o
      | none =>
        if h.body.length < h.contentLength then .bad "incomplete request"
        else .post (trimCRLF (h.body.take h.contentLength))

/-- `handleHttpRequest` over the chunks a client writes before closing the connection. -/
def handle (serverKey : Str) (chunks : List Str) : Resp :=
  conclude serverKey (scanLoop { chunks := chunks } {} ((chunks.map List.length).sum + 10))

end Fzf.Http
