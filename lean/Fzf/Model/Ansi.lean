import Fzf.Base.Utf8
/-
Model of src/ansi.go: the hand-written escape-sequence scanner, `extractColor`, `parseAnsiCode`,
`interpretCode`, `ansiState.ToString`. Lines are byte arrays; offsets count runes as
`utf8.RuneCountInString` does.
-/
namespace Fzf.Ansi
open Fzf

abbrev Bytes := Array Nat

def isPrint (c : Nat) : Bool := 0x20 ≤ c && c ≤ 0x7e
def isNumeric (c : Nat) : Bool := 48 ≤ c && c ≤ 57
def isCtrlSeqStart (c : Nat) : Bool := c == 92 || c == 91 || c == 40 || c == 41
def isAlphaAt (c : Nat) : Bool := (97 ≤ c && c ≤ 122) || (65 ≤ c && c ≤ 90) || c == 64
def isParamByte (c : Nat) : Bool := isNumeric c || c == 59 || c == 58 || c == 63

/-- `matchControlSequence(s[i:])`: length of the match or none. -/
def matchControlSequence (s : Bytes) (i : Nat) : Option Nat :=
  let rec go (k : Nat) (fuel : Nat) : Option Nat :=
    match fuel with
    | 0 => none
    | fuel + 1 =>
      if h : i + k < s.size then
        let c := s[i + k]
        if isParamByte c then go (k + 1) fuel
        else if isAlphaAt c then some (k + 1) else none
      else none
  go 2 (s.size + 1)

/-- `matchOperatingSystemCommand(s[i:], start)`: length of the match or none. -/
def matchOSC (s : Bytes) (i : Nat) (start : Nat) : Option Nat :=
  let n := s.size - i
  let rec skip (k : Nat) (fuel : Nat) : Nat :=
    match fuel with
    | 0 => k
    | fuel + 1 => if k < n ∧ isPrint (s.getD (i + k) 0) then skip (k + 1) fuel else k
  let k := skip start (n + 1)
  if k < n ∧ s.getD (i + k) 0 == 7 then some (k + 1)
  else if k < n ∧ s.getD (i + k) 0 == 0x1b ∧ k + 1 < n ∧ s.getD (i + k + 1) 0 == 92 then some (k + 2)
  else if k < n ∧ (s.extract i (i + k + 1)).toList == [0x1b, 93, 56, 59, 59, 0x1b] then some (k + 1)
  else none

/-- `utf8.DecodeLastRuneInString(s[:e])`: width of the last rune. -/
def lastRuneWidth (s : Bytes) (e : Nat) : Nat :=
  if e = 0 then 0
  else if s.getD (e - 1) 0 < 0x80 then 1
  else
    let lim := e - 4
    -- walk back from e-2 while ≥ lim looking for a rune start byte
    let rec back (st : Int) (fuel : Nat) : Int :=
      match fuel with
      | 0 => st
      | fuel + 1 =>
        if st ≥ (lim : Int) then
          if !Utf8.isCont (s.getD st.toNat 0) then st else back (st - 1) fuel
        else st
    let st := back ((e : Int) - 2) 5
    let st := if st < 0 then 0 else st.toNat
    let (_, w) := Utf8.decodeRune (s.extract st e).toList
    if st + w != e then 1 else w

/-- `nextAnsiEscapeSequence(s[from:])` with absolute offsets. -/
def nextEscape (s : Bytes) (frm : Nat) : Option (Nat × Nat) :=
  let rec go (i : Nat) (fuel : Nat) : Option (Nat × Nat) :=
    match fuel with
    | 0 => none
    | fuel + 1 =>
      if h : i < s.size then
        let c := s[i]
        if c == 8 then
          if i > frm ∧ s.getD (i - 1) 0 != 10 then
            if s.getD (i - 1) 0 < 0x80 then some (i - 1, i + 1)
            else
              -- DecodeLastRuneInString on the slice s[from:i]
              let w := lastRuneWidth (s.extract frm i) (i - frm)
              some (i - w, i + 1)
          else go (i + 1) fuel
        else if c == 0x1b then
          let csi : Option (Nat × Nat) :=
            if i + 2 < s.size ∧ isCtrlSeqStart (s.getD (i + 1) 0) then
              (matchControlSequence s i).map fun j => (i, i + j)
            else none
          match csi with
          | some r => some r
          | none =>
            let osc : Option (Nat × Nat) :=
              if i + 5 < s.size ∧ s.getD (i + 1) 0 == 93 then
                let rec digits (j : Nat) (fuel : Nat) : Nat :=
                  match fuel with
                  | 0 => j
                  | fuel + 1 => if i + j < s.size ∧ isNumeric (s.getD (i + j) 0) then digits (j + 1) fuel else j
                let j := digits 2 (s.size + 1)
                if j > 2 ∧ i + j + 1 < s.size ∧ (s.getD (i + j) 0 == 59 || s.getD (i + j) 0 == 58) ∧ isPrint (s.getD (i + j + 1) 0) then
                  (matchOSC s i (j + 2)).map fun k => (i, i + k)
                else none
              else none
            match osc with
            | some r => some r
            | none =>
              if i + 1 < s.size ∧ s.getD (i + 1) 0 != 10 then
                if s.getD (i + 1) 0 < 0x80 then some (i, i + 2)
                else
                  let (_, w) := Utf8.decodeRune (s.extract (i + 1) s.size).toList
                  some (i, i + w + 1)
              else go (i + 1) fuel
        else if c == 0x0e || c == 0x0f then some (i, i + 1)
        else go (i + 1) fuel
      else none
  go frm (s.size - frm + 1)

/-! ### SGR interpretation -/

structure State where
  fg : Int := -1
  bg : Int := -1
  attr : Nat := 0
  lbg : Int := -1
  url : Option (Str × Str × Nat) := none     -- (uri, params, identity of the allocation: Go compares pointers)
deriving Repr, DecidableEq, Inhabited

def State.colored (s : State) : Bool := s.fg != -1 || s.bg != -1 || s.attr > 0 || s.lbg ≥ 0 || s.url.isSome

-- tui attribute bits (light renderer build)
abbrev aBold := 1
abbrev aDim := 2
abbrev aItalic := 4
abbrev aUnderline := 8
abbrev aBlink := 16
abbrev aReverse := 64
abbrev aStrike := 128

def toI64 (x : Int) : Int := (x + 9223372036854775808) % 18446744073709551616 - 9223372036854775808
def toI32 (x : Int) : Int := (x + 2147483648) % 4294967296 - 2147483648
def u32 (x : Int) : Nat := (x % 4294967296).toNat
def or32 (a b : Int) : Int := toI32 ((u32 a) ||| (u32 b) : Nat)

/-- `parseAnsiCode`: (number or -1, remaining). -/
def parseAnsiCode (s : Str) : Int × Str :=
  let i := match s.idxOf? 59 with
    | some i => some i
    | none => s.idxOf? 58
  let (s, remaining) := match i with
    | some i => (s.take i, s.drop (i + 1))
    | none => (s, [])
  if s.isEmpty then (-1, remaining)
  else
    let r := s.foldl (fun (acc : Option Int) ch =>
      match acc with
      | none => none
      | some code => if 48 ≤ ch ∧ ch ≤ 57 then some (toI64 (code * 10 + (ch - 48 : Nat))) else none) (some 0)
    (r.getD (-1), remaining)

def clearBits (a m : Nat) : Nat := a &&& (1023 ^^^ m)   -- attr &^ m within the low 10 bits

structure IS where
  st : State
  state256 : Nat := 0
  ptrFg : Bool := true
  count : Nat := 0

def setPtr (x : IS) (f : Int → Int) : IS :=
  if x.ptrFg then { x with st := { x.st with fg := f x.st.fg } } else { x with st := { x.st with bg := f x.st.bg } }

def sgrStep (x : IS) (num : Int) : IS :=
  let x := { x with count := x.count + 1 }
  let s := x.st
  match x.state256 with
  | 0 =>
    if num = 38 then { x with ptrFg := true, state256 := 1 }
    else if num = 48 then { x with ptrFg := false, state256 := 1 }
    else if num = 39 then { x with st := { s with fg := -1 } }
    else if num = 49 then { x with st := { s with bg := -1 } }
    else if num = 1 then { x with st := { s with attr := s.attr ||| aBold } }
    else if num = 2 then { x with st := { s with attr := s.attr ||| aDim } }
    else if num = 3 then { x with st := { s with attr := s.attr ||| aItalic } }
    else if num = 4 then { x with st := { s with attr := s.attr ||| aUnderline } }
    else if num = 5 then { x with st := { s with attr := s.attr ||| aBlink } }
    else if num = 7 then { x with st := { s with attr := s.attr ||| aReverse } }
    else if num = 9 then { x with st := { s with attr := s.attr ||| aStrike } }
    else if num = 22 then { x with st := { s with attr := clearBits (clearBits s.attr aBold) aDim } }
    else if num = 23 then { x with st := { s with attr := clearBits s.attr aItalic } }
    else if num = 24 then { x with st := { s with attr := clearBits s.attr aUnderline } }
    else if num = 25 then { x with st := { s with attr := clearBits s.attr aBlink } }
    else if num = 27 then { x with st := { s with attr := clearBits s.attr aReverse } }
    else if num = 29 then { x with st := { s with attr := clearBits s.attr aStrike } }
    else if num = 0 then { x with st := { s with fg := -1, bg := -1, attr := 0 }, state256 := 0 }
    else if 30 ≤ num ∧ num ≤ 37 then { x with st := { s with fg := num - 30 } }
    else if 40 ≤ num ∧ num ≤ 47 then { x with st := { s with bg := num - 40 } }
    else if 90 ≤ num ∧ num ≤ 97 then { x with st := { s with fg := num - 90 + 8 } }
    else if 100 ≤ num ∧ num ≤ 107 then { x with st := { s with bg := num - 100 + 8 } }
    else x
  | 1 => if num = 2 then { x with state256 := 10 } else if num = 5 then { x with state256 := 2 } else { x with state256 := 0 }
  | 2 => { setPtr x (fun _ => toI32 num) with state256 := 0 }
  | 10 => { setPtr x (fun _ => or32 16777216 (toI32 (toI64 (num * 65536)))) with state256 := 11 }
  | 11 => { setPtr x (fun c => or32 c (toI32 (toI64 (num * 256)))) with state256 := 12 }
  | 12 => { setPtr x (fun c => or32 c (toI32 num)) with state256 := 0 }
  | _ => x

def hasSuffix (s suf : Str) : Bool := suf.length ≤ s.length && s.drop (s.length - suf.length) == suf

/-- `interpretCode(ansiCode, prevState)`. -/
def interpretCode (code : Str) (prev : Option State) (newId : Nat := 0) : State :=
  let state : State := match prev with
    | none => {}
    | some p => p
  if code.getD 0 0 != 0x1b ∨ code.getD 1 0 != 91 ∨ code.getLast?.getD 0 != 109 then
    if prev.isSome ∧ hasSuffix code [48, 75] then { state with lbg := (prev.getD {}).bg }
    else if [0x1b, 93, 56, 59].isPrefixOf code ∧ (hasSuffix code [0x1b, 92] ∨ hasSuffix code [7]) then
      let stLen := if hasSuffix code [7] then 1 else 2
      if code.length = 5 + stLen ∧ code.getD 4 0 = 59 then { state with url := none }
      else match (code.drop 4).idxOf? 59 with
        | some pe =>
          let params := (code.drop 4).take pe
          let uri := (code.drop (5 + pe)).take (code.length - stLen - (5 + pe))
          { state with url := some (uri, params, newId) }
        | none => state
    else state
  else if code.length ≤ 3 then { state with fg := -1, bg := -1, attr := 0 }
  else
    let body := (code.drop 2).dropLast
    let rec loop (rest : Str) (x : IS) (fuel : Nat) : IS :=
      match fuel with
      | 0 => x
      | fuel + 1 =>
        if rest.isEmpty then x
        else
          let (num, rest') := parseAnsiCode rest
          loop rest' (if num != -1 then sgrStep x num else x) fuel
    let x := loop body { st := state } (body.length + 1)
    let x := if x.count = 0 then { x with st := { x.st with fg := -1, bg := -1, attr := 0 } } else x
    let x := if x.state256 > 0 then setPtr x (fun _ => -1) else x
    x.st

structure Offset where
  b : Nat
  e : Nat
  color : State
deriving Repr, DecidableEq

structure EX where
  state : Option State
  offsets : Array Offset
  out : Array Nat := #[]
  prevIdx : Nat := 0
  runeCount : Nat := 0
  idx : Nat := 0

def setLastEnd (offs : Array Offset) (e : Nat) : Array Offset :=
  if offs.size = 0 then offs else offs.modify (offs.size - 1) fun o => { o with e := e }

/-- The main loop of `extractColor`. -/
def extractLoop (s : Bytes) (idBase : Nat) (x : EX) (fuel : Nat) : EX :=
  match fuel with
  | 0 => x
  | fuel + 1 =>
    if x.idx < s.size then
      match nextEscape s x.idx with
      | none => x
      | some (start, stop) =>
        let prev := s.extract x.prevIdx start
        let rc := x.runeCount + (if prev.size != 0 then Utf8.runeCount prev.toList else 0)
        let out := x.out ++ prev
        let newState := interpretCode (s.extract start stop).toList x.state (idBase + start)
        let same := match x.state with
          | none => !newState.colored
          | some st => st == newState
        let x' : EX := { x with out := out, runeCount := rc, prevIdx := stop, idx := stop }
        if !same then
          let offs := if x.state.isSome then setLastEnd x.offsets rc else x.offsets
          if newState.colored then
            extractLoop s idBase { x' with state := some newState, offsets := offs.push ⟨rc, rc, newState⟩ } fuel
          else extractLoop s idBase { x' with state := none, offsets := offs } fuel
        else extractLoop s idBase x' fuel
    else x

/-- What `extractColor` returns once the loop is over. -/
def extractFinish (s : Bytes) (x : EX) : Bytes × Option (List Offset) × Option State :=
  let rest := s.extract x.prevIdx s.size
  let trimmed := if x.prevIdx = 0 then s else x.out ++ rest
  if x.offsets.size > 0 then
    let offs := if x.state.isSome then
        setLastEnd x.offsets (x.runeCount + Utf8.runeCount rest.toList)
      else x.offsets
    (trimmed, some offs.toList, x.state)
  else (trimmed, none, x.state)

/-- `extractColor(str, state, nil)`: (trimmed, offsets (none = nil), state). -/
def extractColor (s : Bytes) (state : Option State) (idBase : Nat := 1) : Bytes × Option (List Offset) × Option State :=
  extractFinish s (extractLoop s idBase
    { state, offsets := match state with | some st => #[⟨0, 0, st⟩] | none => #[] } (s.size + 1))

end Fzf.Ansi
