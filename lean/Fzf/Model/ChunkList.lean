import Fzf.Base.Str
/-
Model of src/chunklist.go: chunks are lists of item numbers; `snapshot` also performs the
--tail trimming of the list itself.
-/
namespace Fzf.ChunkList
open Fzf

abbrev Chunks := List (List Int)

/-- `ChunkList.Push`. -/
def push (chunkSize : Nat) (cs : Chunks) (item : Int) : Chunks :=
  match cs.getLast? with
  | some last => if last.length = chunkSize then cs ++ [[item]] else cs.dropLast ++ [last ++ [item]]
  | none => [[item]]

/-- `CountItems`: first + full middle chunks + last. -/
def countItems (chunkSize : Nat) (cs : Chunks) : Nat :=
  match cs with
  | [] => 0
  | [c] => c.length
  | c :: rest => c.length + chunkSize * (rest.length - 1) + (rest.getLast?.getD []).length

/-- Number of trailing chunks needed to hold `tail` items (the first loop of `Snapshot`). -/
def chunksToKeep (tail : Nat) (cs : Chunks) : Nat :=
  let rec go (left : Int) (rev : Chunks) (n : Nat) : Nat :=
    match rev with
    | [] => n
    | c :: rest => if left > 0 then go (left - c.length) rest (n + 1) else n
  go tail cs.reverse 0

/-- Trim the kept chunks so that exactly `tail` items remain (the second loop of `Snapshot`):
    walking from the last chunk, the first chunk that holds more than is left keeps its tail. -/
def trimKept (tail : Nat) (kept : Chunks) : Chunks :=
  let rec go (left : Int) (rev : Chunks) : Chunks :=   -- returns reversed
    match rev with
    | [] => []
    | c :: rest =>
      if (c.length : Int) > left then (lastN left.toNat c) :: rest
      else c :: go (left - c.length) rest
  (go tail kept.reverse).reverse

/-- `ChunkList.Snapshot(tail)`: the new list state and the snapshot (same chunk contents). -/
def snapshot (chunkSize : Nat) (tail : Nat) (cs : Chunks) : Chunks :=
  if tail > 0 ∧ countItems chunkSize cs > tail then
    let n := chunksToKeep tail cs
    trimKept tail (lastN n cs)
  else cs

end Fzf.ChunkList
