import Fzf.Model.Pattern
import Fzf.Model.Rank
import Fzf.Model.Tokenizer
/-
Model of filter mode (`fzf --filter`): src/core.go `Run` up to the `opts.Filter != nil` branch,
the item builder (with --with-nth / --header-lines), `Matcher.scan` as a sequential filter + sort,
`--tiebreak` parsing, and the derivation of scan direction / position tracking from the criteria.
-/
namespace Fzf.Filter
open Fzf Fzf.Algo Fzf.Pattern Fzf.Rank

/-- `parseTiebreak` (input already lower-cased ASCII). -/
def parseTiebreak (s : Str) : Option (List Criterion) :=
  let names := splitOn 44 s
  let rec go (ns : List Str) (acc : List Criterion) (seen : List Str) (hasIndex : Bool) : Option (List Criterion) :=
    match ns with
    | [] => if acc.length + 1 > 4 then none else some (Criterion.score :: acc.reverse)
    | n :: rest =>
      if seen.contains n ∨ hasIndex then none
      else if n = [105, 110, 100, 101, 120] then go rest acc (n :: seen) true
      else if n = [99, 104, 117, 110, 107] then go rest (.chunk :: acc) (n :: seen) false
      else if n = [112, 97, 116, 104, 110, 97, 109, 101] then go rest (.pathname :: acc) (n :: seen) false
      else if n = [108, 101, 110, 103, 116, 104] then go rest (.length :: acc) (n :: seen) false
      else if n = [98, 101, 103, 105, 110] then go rest (.begin_ :: acc) (n :: seen) false
      else if n = [101, 110, 100] then go rest (.end_ :: acc) (n :: seen) false
      else none
  go names [] [] false

/-- `parseScheme`: default criteria of a scheme. -/
def schemeCriteria (scheme : String) : List Criterion :=
  if scheme == "history" then [.score] else if scheme == "path" then [.score, .pathname, .length] else [.score, .length]

/-- core.go: scan direction and position tracking from the criteria after the first. -/
def dirAndPos (criteria : List Criterion) : Bool × Bool :=
  -- the Go loop runs from the last criterion down to index 1, so the earliest listed one wins
  (criteria.drop 1).reverse.foldl (fun (acc : Bool × Bool) c =>
    match c with
    | .chunk => (acc.1, true)
    | .end_ => (false, acc.2)
    | .begin_ => (true, acc.2)
    | .pathname => (false, true)
    | _ => acc) (true, false)

structure Opts where
  cfg : Cfg
  criteria : List Criterion
  fuzzy : Bool
  v2 : Bool
  extended : Bool
  caseMode : CaseMode
  normalize : Bool
  sort : Bool
  tac : Bool
  nth : Option (List Tokenizer.Range)
  withNth : Option (List Tokenizer.Range)
  delim : Tokenizer.Delim
  tail : Nat
  headerLines : Nat
  isSpace : Nat → Bool

structure Item where
  index : Nat
  text : Array Nat      -- searchable / display text
  isBytes : Bool
  orig : Str            -- what gets printed

/-- `util.ToChars(bytes)`. -/
def toChars (bs : Str) : Array Nat × Bool :=
  if Utf8.isAscii bs then (bs.toArray, true) else ((Utf8.toRunes bs).toArray, false)

/-- The item builder of core.go (no --ansi). -/
def buildItems (o : Opts) (lines : List Str) : List Item :=
  let rec go (ls : List Str) (hdr : Nat) (idx : Nat) : List Item :=
    match ls with
    | [] => []
    | l :: rest =>
      if hdr < o.headerLines then go rest (hdr + 1) idx
      else
        match o.withNth with
        | none => let (t, b) := toChars l; ⟨idx, t, b, l⟩ :: go rest hdr (idx + 1)
        | some rs =>
          let transformed := Tokenizer.joinTokens (Tokenizer.transform (Tokenizer.tokenize l o.delim) rs)
          let (t, b) := toChars transformed
          let n := t.size - (t.toList.reverse.takeWhile o.cfg.U.isSpace).length
          ⟨idx, t.extract 0 n, b, l⟩ :: go rest hdr (idx + 1)
  go lines 0 0

/-- `Pattern.transformInput` for AWK / literal delimiters. -/
def inputTokens (o : Opts) (it : Item) : List Tok :=
  match o.nth with
  | none => [⟨it.text, it.isBytes, 0⟩]
  | some rs =>
    let str := if it.isBytes then it.text.toList else Utf8.fromRunes it.text.toList
    let toks := Tokenizer.transform (Tokenizer.tokenize str o.delim) rs
    let toks : List Tokenizer.Token := match o.delim with
      | .awk => toks
      | d => match toks.reverse with
        | last :: rest =>
          ((⟨Tokenizer.stripLastDelimiter o.isSpace last.text d, last.prefixLength⟩ : Tokenizer.Token) :: rest).reverse
        | [] => toks
    toks.map fun (t : Tokenizer.Token) => let (r, b) := toChars t.text; (⟨r, b, t.prefixLength⟩ : Tok)

/-- Filter mode: the (item number, record) pairs printed, in order (`none` = a match function crashed). -/
def runIdx (o : Opts) (slabCap : Nat) (query : Str) (lines : List Str) : Option (List (Nat × Str)) :=
  let (forward, withPos) := dirAndPos o.criteria
  let pat := buildPattern o.cfg o.fuzzy o.v2 o.extended o.caseMode o.normalize forward false query
  let items := buildItems o lines
  let streaming := !o.sort && !o.tac
  let items := if o.tail > 0 ∧ !streaming then lastN o.tail items else items
  if pat.isEmpty ∧ !streaming then
    some ((if o.tac then items.reverse else items).map fun it => (it.index, it.orig))
  else
    let wp := if streaming then false else withPos
    let scored : Option (List (Option (R × (Nat × Str)))) := items.mapM fun it =>
      match matchItem o.cfg pat (inputTokens o it) wp slabCap with
      | .error _ => none
      | .ok none => some none
      | .ok (some m) =>
        some (some ((⟨buildPoints o.cfg o.criteria it.text m.offsets m.score, it.index⟩ : R), (it.index, it.orig)))
    match scored with
    | none => none
    | some rs =>
      let ms := rs.filterMap id
      let ordered :=
        if o.sort && pat.sortable then ms.mergeSort (fun (a b : R × (Nat × Str)) => compareRanks64 a.1 b.1 o.tac)
        else if o.tac then ms.reverse else ms
      some (ordered.map (·.2))

/-- Filter mode: the records printed, in order. -/
def run (o : Opts) (slabCap : Nat) (query : Str) (lines : List Str) : Option (List Str) :=
  (runIdx o slabCap query lines).map (·.map (·.2))

end Fzf.Filter
