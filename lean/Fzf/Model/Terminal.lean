import Fzf.Base.Str
/-
Model of the action interpreter of `Terminal.Loop` (src/terminal.go) for the bindable editing,
navigation and selection actions, in single-line mode (--no-multi-line). What matching returns
for a query is a parameter (`resultsOf`, justified by C01/C04): the model is about how the query
line, the cursor and the selection evolve.
-/
namespace Fzf.Terminal
open Fzf

inductive Layout | default | reverse | reverseList
deriving Repr, DecidableEq

structure Opts where
  multi : Nat                 -- 0: no multi-select, n: limit
  cycle : Bool
  layout : Layout
  maxItems : Nat              -- item rows of the list window (while the input section is shown)
  inputRows : Nat := 0        -- rows of the input section inside the list window: the list gains them while it is hidden
  total : Nat                 -- number of items loaded
  scrollOff : Nat := 3
  track : Bool := false       -- --track
  isWord : Nat → Bool         -- [\pL\pN]
  resultsOf : Str → Bool → List Nat   -- item numbers in display order for (query, sort)
  itemText : Nat → Str        -- runes of an item

inductive Outcome | accept | abort | printQuery
deriving Repr, DecidableEq

structure TS where
  input : Str := []
  cx : Nat := 0
  yanked : Str := []
  cy : Int := 0
  offset : Int := 0
  selected : List Nat := []     -- in selection order
  results : List Nat
  sort : Bool := true
  printQueue : List Str := []
  outcome : Option Outcome := none
  excluded : List Nat := []     -- items removed from the results by `exclude`
  inputless : Bool := false     -- the input section is hidden (--no-input / hide-input)
deriving Repr

inductive Action where
  | beginningOfLine | endOfLine | backwardChar | forwardChar
  | backwardWord | forwardWord
  | deleteChar | backwardDeleteChar | deleteCharEof | backwardDeleteCharEof
  | unixLineDiscard | unixWordRubout | backwardKillWord | killWord | killLine | yank
  | put (s : Str) | changeQuery (s : Str) | clearQuery | replaceQuery | cancel
  | up | down | first | last | pos (n : Int)
  | pageUp | pageDown | halfPageUp | halfPageDown
  | select | deselect | toggle | toggleUp | toggleDown | toggleIn | toggleOut
  | selectAll | deselectAll | toggleAll | clearSelection
  | toggleSort | exclude | excludeMulti | reload
  | changeMulti (n : Option Nat)      -- change-multi(N) / change-multi: see `changeMulti` (the limit is a session parameter)
  | toggleInput | showInput | hideInput
  | accept | acceptNonEmpty | acceptOrPrintQuery | abort | printQuery
  | print (s : Str)
deriving Repr, DecidableEq

/-- `Terminal.maxItems()`: the rows of the list; hiding the input section gives its rows to the list. -/
def rowsOf (op : Opts) (s : TS) : Nat := if s.inputless then op.maxItems + op.inputRows else op.maxItems

def constrainInt (v lo hi : Int) : Int := if v < lo then lo else if v > hi then hi else v

/-- `Terminal.vset`. -/
def vset (s : TS) (o : Int) : TS := { s with cy := constrainInt o 0 ((s.results.length : Int) - 1) }

/-- `Terminal.vmove(o, allowCycle = true)`. -/
def vmove (op : Opts) (s : TS) (o : Int) : TS :=
  let o := if op.layout != .default then -o else o
  let dest := s.cy + o
  let mx : Int := (s.results.length : Int) - 1
  let dest := if op.cycle then
      (if dest > mx then (if s.cy = mx then 0 else dest)
       else if dest < 0 then (if s.cy = 0 then mx else dest) else dest)
    else dest
  vset s dest

def currentItem (s : TS) : Option Nat :=
  if s.cy ≥ 0 ∧ s.cy < s.results.length then s.results[s.cy.toNat]? else none

/-- `selectItem`: false when the limit is reached. -/
def selectItem (op : Opts) (s : TS) (i : Nat) : TS × Bool :=
  if s.selected.length ≥ op.multi then (s, false)
  else if s.selected.contains i then (s, true)
  else ({ s with selected := s.selected ++ [i] }, true)

def deselectItem (s : TS) (i : Nat) : TS := { s with selected := s.selected.filter (· != i) }

/-- Select the items of `l` satisfying `p`, in order, until the limit is hit (`selectItem` fails). -/
def selectMany (op : Opts) (p : Nat → Bool) (s : TS) (l : List Nat) : TS :=
  (l.foldl (fun (acc : TS × Bool) i => if acc.2 ∧ p i then selectItem op acc.1 i else acc) (s, true)).1

def toggleCurrent (op : Opts) (s : TS) : TS × Bool :=
  match currentItem s with
  | none => (s, false)
  | some i =>
    if !s.selected.contains i then selectItem op s i else (deselectItem s i, true)

/-- Last position `i` with `¬w s[i] ∧ w s[i+1]`, plus one; 0 if none (`findLastMatch … + 1`). -/
def lastBoundary (w : Nat → Bool) (s : Str) : Nat :=
  let rec go (i : Nat) (l : Str) (best : Nat) : Nat :=
    match l with
    | a :: b :: rest => go (i + 1) (b :: rest) (if !w a && w b then i + 1 else best)
    | _ => best
  go 0 s 0

/-- `findFirstMatch(wordNext, s) + 1` for wordNext = `[w][^w]|(.$)`. -/
def nextBoundary (w : Nat → Bool) (s : Str) : Nat :=
  let rec go (i : Nat) (l : Str) : Nat :=
    match l with
    | [] => 0
    | [a] => if a = 10 then 0 else i + 1
    | a :: b :: rest => if w a && !w b then i + 1 else go (i + 1) (b :: rest)
  go 0 s

def isGoSpace (c : Nat) : Bool := c = 32 || c = 9 || c = 10 || c = 12 || c = 13

/-- `rubout(pattern)`: kill back to the start of the last word. -/
def rubout (w : Nat → Bool) (s : TS) : TS :=
  let ncx := lastBoundary w (s.input.take s.cx)
  { s with yanked := (s.input.take s.cx).drop ncx, input := s.input.take ncx ++ s.input.drop s.cx, cx := ncx }

def pageMove (op : Opts) (s : TS) (up half : Bool) : TS :=
  let lines : Int := if half then (rowsOf op s / 2 : Nat) else (rowsOf op s : Int) - 1
  let lines := max 1 lines
  let dir : Int := if up then 1 else -1
  let dir := if op.layout != .default then -dir else dir
  vset s (s.cy + dir * lines)

/-- `constrain()` in single-line mode: clamp the cursor, then keep it inside the window with the
    scroll-off margin. -/
def constrain (op : Opts) (s : TS) : TS :=
  let count : Int := s.results.length
  let maxLines : Int := rowsOf op s
  let cy := constrainInt s.cy 0 (max 0 (count - 1))
  let offset0 := constrainInt s.offset 0 count
  let step (offset : Int) : Int :=
    let minOffset := max (cy - maxLines + 1) 0
    let maxOffset := max (min (count - maxLines) cy) 0
    let offset := constrainInt offset minOffset maxOffset
    if op.scrollOff > 0 then
      let so : Int := min (maxLines / 2) op.scrollOff
      -- phase 0: move the window up while too few lines are shown before the cursor
      let rec phase0 (o : Int) (fuel : Nat) : Int :=
        match fuel with
        | 0 => o
        | fuel + 1 =>
          let before := cy - o
          let after := maxLines - (before + 1)
          if before < so ∧ after < so then o
          else if before < so then
            let o' := max minOffset (o - 1)
            if o' = o then o else phase0 o' fuel
          else o
      let rec phase1 (o : Int) (fuel : Nat) : Int :=
        match fuel with
        | 0 => o
        | fuel + 1 =>
          let before := cy - o
          let after := maxLines - (before + 1)
          if before < so ∧ after < so then o
          else if after < so then
            let o' := min maxOffset (o + 1)
            if o' = o then o else phase1 o' fuel
          else o
      phase1 (phase0 offset (rowsOf op s + 1)) (rowsOf op s + 1)
    else offset
  let rec iter (offset : Int) (fuel : Nat) : Int :=
    match fuel with
    | 0 => offset
    | fuel + 1 => let o' := step offset; if o' = offset then offset else iter o' fuel
  -- the Go loop runs at most maxLines times and compares with the offset before the iteration
  { s with cy := cy, offset := if rowsOf op s = 0 then offset0 else iter offset0 (rowsOf op s) }

def maxPatternLength : Nat := 1000

/-- One action (`doAction`). -/
def act (op : Opts) (s : TS) : Action → TS
  | .beginningOfLine => { s with cx := 0 }
  | .endOfLine => { s with cx := s.input.length }
  | .backwardChar => { s with cx := s.cx - 1 }
  | .forwardChar => if s.cx < s.input.length then { s with cx := s.cx + 1 } else s
  | .backwardWord => { s with cx := lastBoundary op.isWord (s.input.take s.cx) }
  | .forwardWord => { s with cx := s.cx + nextBoundary op.isWord (s.input.drop s.cx) }
  | .deleteChar =>
    if s.cx < s.input.length then { s with input := s.input.take s.cx ++ s.input.drop (s.cx + 1) } else s
  | .deleteCharEof =>
    if s.cx < s.input.length then { s with input := s.input.take s.cx ++ s.input.drop (s.cx + 1) }
    else if s.cx = 0 then { s with outcome := some .abort } else s
  | .backwardDeleteChar =>
    if s.cx > 0 then { s with input := s.input.take (s.cx - 1) ++ s.input.drop s.cx, cx := s.cx - 1 } else s
  | .backwardDeleteCharEof =>
    if s.input.isEmpty then { s with outcome := some .abort }
    else if s.cx > 0 then { s with input := s.input.take (s.cx - 1) ++ s.input.drop s.cx, cx := s.cx - 1 } else s
  | .unixLineDiscard => if s.cx > 0 then { s with yanked := s.input.take s.cx, input := s.input.drop s.cx, cx := 0 } else s
  | .unixWordRubout => if s.cx > 0 then rubout (fun c => !isGoSpace c) s else s
  | .backwardKillWord => if s.cx > 0 then rubout op.isWord s else s
  | .killWord =>
    let ncx := s.cx + nextBoundary op.isWord (s.input.drop s.cx)
    if ncx > s.cx then { s with yanked := (s.input.take ncx).drop s.cx, input := s.input.take s.cx ++ s.input.drop ncx } else s
  | .killLine => if s.cx < s.input.length then { s with yanked := s.input.drop s.cx, input := s.input.take s.cx } else s
  | .yank => { s with input := s.input.take s.cx ++ s.yanked ++ s.input.drop s.cx, cx := s.cx + s.yanked.length }
  | .put t => { s with input := s.input.take s.cx ++ t ++ s.input.drop s.cx, cx := s.cx + t.length }
  | .changeQuery t => { s with input := t, cx := t.length }
  | .clearQuery => { s with input := [], cx := 0 }
  | .replaceQuery =>
    match currentItem s with
    | some i => { s with input := op.itemText i, cx := (op.itemText i).length }
    | none => s
  | .cancel => if s.input.isEmpty then { s with outcome := some .abort } else { s with yanked := s.input, input := [], cx := 0 }
  | .up => vmove op s 1
  | .down => vmove op s (-1)
  | .first => constrain op (vset s 0)                                   -- first / last / pos constrain at once
  | .last => constrain op (vset s ((s.results.length : Int) - 1))
  | .pos n =>
    let n := if n > 0 then n - 1 else if n < 0 then n + s.results.length else n
    constrain op (vset s n)
  | .pageUp => pageMove op s true false
  | .pageDown => pageMove op s false false
  | .halfPageUp => pageMove op s true true
  | .halfPageDown => pageMove op s false true
  | .select =>
    match currentItem s with
    | some i => if op.multi > 0 ∧ !s.selected.contains i then (selectItem op s i).1 else s
    | none => s
  | .deselect =>
    match currentItem s with
    | some i => if op.multi > 0 then deselectItem s i else s
    | none => s
  | .toggle => if op.multi > 0 ∧ s.results.length > 0 then (toggleCurrent op s).1 else s
  | .toggleDown | .toggleUp | .toggleIn | .toggleOut => s   -- resolved by `actStep` below
  | .selectAll =>
    if op.multi > 0 then selectMany op (fun _ => true) s s.results else s
  | .deselectAll => if op.multi > 0 then { s with selected := s.selected.filter (fun i => !s.results.contains i) } else s
  | .toggleAll =>
    if op.multi > 0 then
      let prev := s.results.filter s.selected.contains
      let s1 := { s with selected := s.selected.filter (fun i => !s.results.contains i) }
      selectMany op (fun i => !prev.contains i) s1 s.results
    else s
  | .clearSelection => if op.multi > 0 then { s with selected := [] } else s
  | .toggleSort => { s with sort := !s.sort }
  -- reload (of the same input): the new list is a new generation of items — the selection and the
  -- exclusions are dropped, the query and the cursor position stay
  | .reload => { s with selected := [], excluded := [] }
  | .changeMulti _ => s       -- the limit lives in `Opts`: `stepM` threads it
  | .exclude =>
    match currentItem s with
    | some i => { deselectItem s i with excluded := i :: s.excluded }
    | none => s
  | .excludeMulti =>
    if s.selected.length > 0 then { s with excluded := s.selected ++ s.excluded, selected := [] }
    else match currentItem s with
      | some i => { s with excluded := i :: s.excluded }
      | none => s
  | .toggleInput => { s with inputless := !s.inputless }
  | .showInput => { s with inputless := false }
  | .hideInput => { s with inputless := true }
  | .accept => { s with outcome := some .accept }
  | .acceptNonEmpty =>
    if s.selected.length > 0 ∨ s.results.length > 0 ∨ op.total = 0 then { s with outcome := some .accept } else s
  | .acceptOrPrintQuery =>
    if s.selected.length > 0 ∨ s.results.length > 0 then { s with outcome := some .accept } else { s with outcome := some .printQuery }
  | .abort => { s with outcome := some .abort }
  | .printQuery => { s with outcome := some .printQuery }
  | .print t => { s with printQueue := s.printQueue ++ [t] }

/-- `actToggleDown` / `actToggleUp`: toggle the current item and move if that succeeded. -/
def toggleMove (op : Opts) (s : TS) (d : Int) : TS :=
  if op.multi > 0 ∧ s.results.length > 0 then
    (if (toggleCurrent op s).2 then vmove op (toggleCurrent op s).1 d else s)
  else s

/-- The epilogue of `doAction`: while the input section is hidden, whatever the action did to the
    query is discarded (the query is what it was before the action, the cursor at its end);
    everything else the action did — kill buffer included — stays. -/
def hideEdits (before s : TS) : TS :=
  if s.inputless then { s with input := before.input, cx := before.input.length } else s

def actStep (op : Opts) (s : TS) (a : Action) : TS :=
  if s.outcome.isSome then s else
  hideEdits s (match a with
  | .toggleDown => toggleMove op s (-1)
  | .toggleUp => toggleMove op s 1
  | .toggleIn => toggleMove op s (if op.layout != .default then 1 else -1)
  | .toggleOut => toggleMove op s (if op.layout != .default then -1 else 1)
  | a => act op s a)

/-- `Terminal.UpdateList`: the new result list arrives. With `--track` the cursor follows the item
    it was on (looked up by item number in the new list) and keeps its distance to the top of the
    window; an item that is gone leaves the cursor where it was, pulled back when it is beyond the
    end of the list. Without `--track` the cursor position is kept as a number. -/
def updateList (op : Opts) (s : TS) (new : List Nat) : TS :=
  if op.track then
    let prev : Option Nat :=
      if s.results.length > 0 then currentItem s else new.head?
    match prev with
    | none => { s with results := new }
    | some i =>
      let pos := s.cy - s.offset
      let count : Int := new.length
      match new.findIdx? (· == i) with
      | some k => { s with results := new, cy := (k : Int), offset := (k : Int) - pos }
      | none =>
        if s.cy > count then { s with results := new, cy := count - min count (rowsOf op s : Int) + pos }
        else { s with results := new }
  else { s with results := new }

/-- After a batch of actions: truncate the query, re-run the search if it changed, render. -/
def afterActions (op : Opts) (before : TS) (s : TS) : TS :=
  let s := { s with input := s.input.take maxPatternLength, cx := min s.cx (min s.input.length maxPatternLength) }
  -- the list is rendered (and the scroll offset settled) with the old results first; the new result
  -- list arrives from the matcher afterwards
  let s := if s.input != before.input ∨ s.sort != before.sort ∨ s.excluded != before.excluded
    then updateList op (constrain op s) ((op.resultsOf s.input s.sort).filter (fun i => !s.excluded.contains i)) else s
  constrain op s

/-- One POSTed action list. -/
def step (op : Opts) (s : TS) (as : List Action) : TS :=
  afterActions op s (as.foldl (actStep op) s)

/-- `change-multi(N)` (no argument: unlimited): the limit changes; the selection is dropped when
    multi-select was on and the limit is a different one. -/
def unlimitedMulti : Nat := 2147483647

def changeMulti (op : Opts) (s : TS) (n : Option Nat) : Opts × TS :=
  let m := n.getD unlimitedMulti
  ({ op with multi := m }, if op.multi > 0 ∧ m ≠ op.multi then { s with selected := [] } else s)

/-- One POSTed action list when the list may change the --multi limit on its way. -/
def stepM (op : Opts) (s : TS) (as : List Action) : Opts × TS :=
  let r := as.foldl (fun (acc : Opts × TS) a => match a with
    | .changeMulti n => if acc.2.outcome.isSome then acc else changeMulti acc.1 acc.2 n
    | a => (acc.1, actStep acc.1 acc.2 a)) (op, s)
  (r.1, afterActions r.1 s r.2)

/-- What fzf prints and its exit status when the session ends (`Terminal.output`, exit codes):
    `--print-query` line, the `--expect` line, queued `print` texts, then the selection in
    selection order or else the current line. -/
def exitOutput (printQuery : Bool) (lineOf : Nat → Str) (queryBytes : Str) (s : TS) (expectLine : Option Str := none) :
    Nat × List Str :=
  match s.outcome with
  | some .abort => (130, [])
  | some .printQuery => (0, [queryBytes])
  | some .accept =>
    -- with --expect a line naming the key that ended the session (empty for any other way of accepting)
    let head := (if printQuery then [queryBytes] else []) ++ expectLine.toList ++ s.printQueue
    let body := if s.selected.length > 0 then s.selected.map lineOf
      else match currentItem s with | some i => [lineOf i] | none => []
    (if body.isEmpty then 1 else 0, head ++ body)
  | none => (999, [])

end Fzf.Terminal
