import Fzf.Base.Str
import Fzf.Generated.Bind
/-
Model of `maskActionContents` (src/options.go): the arguments of argument-taking actions are
blanked out (length-preservingly) so that the bind string can be split on `+ , :` without
looking inside them. The set of argument-taking action names is `Generated.argActions`,
regenerated from `executeRegexp` on every run.
-/
namespace Fzf.Bind
open Fzf

def lowerAscii (c : Nat) : Nat := if 65 ≤ c ∧ c ≤ 90 then c + 32 else c

/-- `executeRegexp.FindStringIndex(s)`: leftmost `[:+]` followed (case-insensitively) by one of
    the action names; the preferred name among those matching. Returns (start, end). -/
def findExecute (names : List Str) (s : Str) : Option (Nat × Nat) :=
  let rec go (i : Nat) (rest : Str) : Option (Nat × Nat) :=
    match rest with
    | [] => none
    | c :: tl =>
      if c = 58 ∨ c = 43 then
        match names.find? (fun n => n.isPrefixOf (tl.map lowerAscii)) with
        | some n => some (i, i + 1 + n.length)
        | none => go (i + 1) tl
      else go (i + 1) tl
  go 0 s

/-- Closing delimiter for an opening one (none: not a delimiter). -/
def closer (c : Nat) : Option Nat :=
  if c = 40 then some 41 else if c = 123 then some 125 else if c = 91 then some 93 else if c = 60 then some 62
  else if [126, 33, 64, 35, 36, 37, 94, 38, 42, 59, 47, 124].contains c then some c else none

/-- `(?s)^CS.*?(CE[+,]|CE$)`: index of the first CE at position ≥ 1 that is followed by `+`, `,`
    or the end of the string. -/
def findClose (ce : Nat) (s : Str) : Option Nat :=
  let rec go (i : Nat) (rest : Str) : Option Nat :=
    match rest with
    | [] => none
    | c :: tl =>
      if c = ce ∧ (tl.isEmpty ∨ tl.head? = some 43 ∨ tl.head? = some 44) then some i else go (i + 1) tl
  go 1 (s.drop 1)

def spaces (n : Nat) : Str := List.replicate n 32

/-- The masking loop. -/
def maskLoop (names : List Str) (action : Str) (fuel : Nat) : Str :=
  match fuel with
  | 0 => action
  | fuel + 1 =>
    if action.isEmpty then []
    else match findExecute names action with
      | none => action
      | some (_, e) =>
        let head := action.take e
        let rest := action.drop e
        match rest with
        | [] => head
        | c :: _ =>
          if c = 58 then head ++ spaces rest.length
          else match closer c with
            | none => head ++ maskLoop names rest fuel
            | some ce =>
              match findClose ce rest with
              | none => head ++ rest
              | some p => head ++ spaces (p + 1) ++ maskLoop names (rest.drop (p + 1)) fuel

/-- `strings.ReplaceAll(s, old, new)` for equal-length old/new (leftmost, non-overlapping). -/
def replaceAll (old new : Str) (s : Str) (fuel : Nat) : Str :=
  match fuel with
  | 0 => s
  | fuel + 1 =>
    match s with
    | [] => []
    | c :: tl => if old.isPrefixOf s ∧ !old.isEmpty then new ++ replaceAll old new (s.drop old.length) fuel else c :: replaceAll old new tl fuel

/-- `maskActionContents`. -/
def mask (names : List Str) (action : Str) : Str :=
  let m := maskLoop names action (action.length + 1)
  let n := m.length + 1
  let m := replaceAll [44, 44, 44] [44, 1, 44] m n
  let m := replaceAll [44, 58, 44] [44, 0, 44] m n
  let m := replaceAll [58, 58] [0, 58] m n
  let m := replaceAll [44, 58] [1, 58] m n
  replaceAll [43, 58] [2, 58] m n

end Fzf.Bind
