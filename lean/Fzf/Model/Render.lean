import Fzf.Model.Terminal
/-
Model of what `Terminal.printAll` draws (src/terminal.go: printList / printItem / printHighlighted /
printPrompt / printInfoImpl / printHeaderImpl / move) for single-line items of width-1 characters,
without colours, borders, margins, preview or scrollbar: the window is the whole W×H screen.

A screen is a list of H rows of exactly W cells (code points; 32 = blank).  `fullRender` draws a
state from scratch; `paintItemRow` is the incremental repaint of one list row over whatever the
row held before (it only erases as far as the previous text reached).
-/
namespace Fzf.Render
open Fzf Fzf.Terminal

inductive Info | default | inline | hidden | inlineRight | right
deriving Repr, DecidableEq

structure ROpts where
  W : Nat
  H : Nat
  layout : Layout
  info : Info
  separator : Bool            -- a separator is configured (default "─")
  sepChar : Nat := 0x2500
  prompt : Str := [62, 32]
  pointer : Str := [0x258C]
  marker : Str := [0x2503]
  ellipsis : Str := [0xB7, 0xB7]
  hscroll : Bool := true
  keepRight : Bool := false
  hscrollOff : Nat := 10
  header0 : List Str := []     -- lines of --header
  headerItems : List Str := [] -- the first --header-lines records
  multi : Nat := 0             -- 0 = off
  infoPrefix : Str := [32, 60, 32]
  inputless : Bool := false    -- the input section (prompt and info line) is hidden
  headerFirst : Bool := false  -- --header-first: the --header lines are next to the edge, the input section after them

def maxMulti : Nat := 2147483647

/-- What a list row shows. -/
structure RowIn where
  text : Str
  maxe : Nat := 0          -- largest end of a highlighted range (0 = none)
  hasPos : Bool := false   -- the match reported positions (any non-empty pattern in extended mode)
  current : Bool := false
  selected : Bool := false
deriving Repr, DecidableEq

def blanks (n : Nat) : Str := List.replicate n 32

def ind (o : ROpts) : Nat := o.pointer.length + o.marker.length

/-- `noSeparatorLine`. -/
def noSepLine (o : ROpts) : Bool :=
  match o.info with
  | .inline => true
  | .hidden => !o.separator
  | .inlineRight => !o.separator
  | .default => false
  | .right => false

/-- Rows of the input section: none when it is hidden, else the prompt row and, unless the info is
    inline or hidden without separator, the info row. -/
def promptLines (o : ROpts) : Nat := if o.inputless then 0 else if noSepLine o then 1 else 2

/-- The truncation of `printHighlighted` for a line wider than `mw` columns (width-1 characters). -/
def fit (o : ROpts) (mw : Nat) (line : Str) (maxe0 : Nat) (hasPos : Bool) : Str :=
  if line.length ≤ mw then line
  else
    let ell := o.ellipsis.take (mw / 2)
    let ew := ell.length
    let room := mw - ew
    let maxe := min (maxe0 + min (mw / 2 - ew) o.hscrollOff) line.length
    if o.hscroll then
      if o.keepRight && !hasPos then ell ++ lastN room line
      else if maxe ≤ room then line.take room ++ ell
      else
        let line' := if line.length - maxe > ew then line.take maxe ++ ell else line
        ell ++ lastN room line'
    else line.take room ++ ell

/-- The cells `preTask` + text of a list row occupy, from column 0. -/
def itemCells (o : ROpts) (r : RowIn) : Str :=
  let mw := o.W - (ind o + 1)
  (if r.current then o.pointer else blanks o.pointer.length) ++
  (if r.selected then o.marker else blanks o.marker.length) ++
  (if mw > 0 then fit o mw r.text r.maxe r.hasPos else [])

/-- A row of exactly `W` cells holding `cells` from column 0 (cut at the window edge). -/
def rowOf (W : Nat) (cells : Str) : Str := (cells ++ blanks W).take W

def itemRow (o : ROpts) (r : RowIn) : Str := rowOf o.W (itemCells o r)

/-- Header rows are printed like unselected, non-current items whose indent is blank; no match. -/
def headerRow (o : ROpts) (text : Str) : Str :=
  let mw := o.W - (ind o + 1)
  rowOf o.W (blanks (ind o) ++ (if mw > 0 then fit o mw text 0 false else []))

/-- Overwrite `seg` at column `col` of `row`. -/
def put (row : Str) (col : Nat) (seg : Str) : Str :=
  (row.take col ++ seg ++ row.drop (col + seg.length)).take row.length

def natStr (n : Nat) : Str := (toString n).toList.map Char.toNat

/-- The counter text of the info line. -/
def infoText (o : ROpts) (found total nsel : Nat) : Str :=
  natStr found ++ [47] ++ natStr (max found total) ++
  (if o.multi = 0 then [] else
   if o.multi = maxMulti then [32, 40] ++ natStr nsel ++ [41]
   else [32, 40] ++ natStr nsel ++ [47] ++ natStr o.multi ++ [41])

/-- `trimMessage`. -/
def trimMessage (msg : Str) (maxWidth : Nat) : Str :=
  if msg.length ≤ maxWidth then msg else msg.take (maxWidth - 2) ++ List.replicate (min maxWidth 2) 46

/-- Query part of the prompt line when the whole query fits (no horizontal scrolling). -/
def queryFits (o : ROpts) (input : Str) : Bool := input.length ≤ max 1 (o.W - o.prompt.length - 1)

/-- `updatePromptOffset` for width-1 characters: the horizontal scroll offset of the query is kept
    between what is needed to keep the cursor visible and half of the text left of the cursor
    (history-dependent: a query that was scrolled stays partly scrolled). Returns the new offset
    and the part of the query that is shown. -/
def promptScroll (o : ROpts) (input : Str) (cx xoffset : Nat) : Nat × Str :=
  let maxWidth := max 1 (o.W - o.prompt.length - 1)
  let minOffset := cx - maxWidth
  let maxOffset := minOffset + (maxWidth - (maxWidth - cx)) / 2
  let xo := if xoffset < minOffset then minOffset else if xoffset > maxOffset then maxOffset else xoffset
  let before := (input.take cx).drop xo
  let after := (input.drop cx).take (maxWidth - before.length)
  (xo, before ++ after)

def promptRow (o : ROpts) (input : Str) (found total nsel : Nat) : Str :=
  let base := rowOf o.W ((fit o (o.W - 2) o.prompt 0 false) ++ input)
  match o.info with
  | .inline =>
    let pos := o.prompt.length + input.length + 1
    let pre := o.infoPrefix.take (o.W - pos)
    let pos' := pos + pre.length
    let maxWidth := o.W - pos' - 1
    let out := trimMessage (infoText o found total nsel) maxWidth
    let fill := maxWidth - (infoText o found total nsel).length - 1
    let row := put (put base pos pre) pos' out
    if o.separator ∧ fill > 0 then put row (pos' + out.length + 1) (List.replicate fill o.sepChar) else row
  | .inlineRight =>
    -- the counter at the right end of the prompt row: blanks from the end of the query, one cell for the
    -- spinner and one margin cell where there is room, then the counter (trimmed to what is left)
    let pos := o.prompt.length + input.length + 1
    let p1 := max pos (o.W - (infoText o found total nsel).length - 3)
    let p2 := if p1 < o.W then p1 + 1 else p1
    let p3 := if p2 < o.W - 1 then p2 + 1 else p2
    let out := trimMessage (infoText o found total nsel) (o.W - p3 - 1)
    put (put base pos (blanks (p3 - pos))) p3 out
  | _ => base

/-- The line under the prompt (only when `promptLines = 2`). -/
def infoRow (o : ROpts) (found total nsel : Nat) : Str :=
  match o.info with
  | .default =>
    let maxWidth := o.W - 2 - 1
    let out := trimMessage (infoText o found total nsel) maxWidth
    let fill := maxWidth - (infoText o found total nsel).length - 1
    let row := put (blanks o.W) 2 out
    if o.separator ∧ fill > 0 then put row (2 + out.length + 1) (List.replicate fill o.sepChar) else row
  | .hidden => if o.separator then rowOf o.W (List.replicate (o.W - 1) o.sepChar) else blanks o.W
  | .inlineRight => if o.separator then rowOf o.W (List.replicate (o.W - 1) o.sepChar) else blanks o.W
  | .right =>
    -- separator, one blank, the counter, one margin cell
    let out := trimMessage (infoText o found total nsel) (o.W - 1)
    let fill := o.W - out.length - 2
    rowOf o.W ((if o.separator then List.replicate fill o.sepChar else blanks fill) ++ [32] ++ out)
  | .inline => blanks o.W

structure View where
  input : Str
  found : Nat
  total : Nat
  nsel : Nat
  rows : List RowIn          -- the visible results, first = result number `offset`

/-- Number of list rows (`maxItems`). -/
def maxItems (o : ROpts) : Nat := o.H - (promptLines o + o.header0.length + o.headerItems.length)

/-- The rows of the input section: the prompt row and, unless it is inline or hidden without
    separator, the info row; none while the input section is hidden. -/
def inputRows (o : ROpts) (v : View) : List Str :=
  (if o.inputless then [] else [promptRow o v.input v.found v.total v.nsel]) ++
  (if promptLines o = 2 then [infoRow o v.found v.total v.nsel] else [])

/-- The rows of --header, in the order they are counted from the prompt edge. -/
def hdr0Rows (o : ROpts) : List Str :=
  let hdr0 := o.header0.map (headerRow o)
  if o.layout = .reverse then hdr0 else hdr0.reverse

/-- The logical lines, counted from the prompt: prompt, info, --header (then --header-lines, list). -/
def logical (o : ROpts) (v : View) : List Str := inputRows o v ++ hdr0Rows o

/-- The fixed rows counted from the prompt edge (layouts reverse and default): input section,
    --header, --header-lines — with --header-first the headers come first. -/
def fixedBlock (o : ROpts) (v : View) : List Str :=
  let hl := o.headerItems.map (headerRow o)
  if o.headerFirst then hdr0Rows o ++ hl ++ inputRows o v else logical o v ++ hl

def listRows (o : ROpts) (v : View) : List Str :=
  let shown := (v.rows.take (maxItems o)).map (itemRow o)
  shown ++ List.replicate (maxItems o - shown.length) (blanks o.W)

/-- The whole screen, top row first. -/
def fullRender (o : ROpts) (v : View) : List Str :=
  let hl := o.headerItems.map (headerRow o)
  match o.layout with
  | .reverse => ((fixedBlock o v ++ listRows o v).take o.H)
  | .default => ((fixedBlock o v ++ listRows o v).take o.H).reverse
  | .reverseList => (hl ++ listRows o v ++ (if o.headerFirst then hdr0Rows o ++ inputRows o v else logical o v).reverse)

/-! ### Incremental repaint of one list row (`printItem` with `prevLines`) -/

/-- What `prevLines[line]` remembers about a row that holds an item. -/
structure Prev where
  width : Nat                -- display width of the text printed last time

/-- Repaint over the old contents: pointer, marker and text from column 0, then blanks up to where
    the previous text ended (`fillSpaces = prev.width - width`). -/
def paintItemRow (o : ROpts) (old : Str) (prev : Prev) (r : RowIn) : Str × Prev :=
  let mw := o.W - (ind o + 1)
  let txt := if mw > 0 then fit o mw r.text r.maxe r.hasPos else []
  let cells := itemCells o r
  let fill := prev.width - txt.length
  (put (put old 0 cells) cells.length (blanks fill), ⟨txt.length⟩)

/-- The row is blank beyond the recorded text: the invariant `prevLines` maintains. -/
def RowInv (o : ROpts) (row : Str) (prev : Prev) : Prop :=
  row.length = o.W ∧ ∀ i, ind o + prev.width ≤ i → i < o.W → row[i]? = some 32

end Fzf.Render
