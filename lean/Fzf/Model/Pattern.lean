import Fzf.Model.Algo
/-
Model of src/pattern.go: query parsing (`parseTerms`, `BuildPattern`) and the evaluation of a
parsed pattern on one item (`extendedMatch`, `basicMatch`).  Queries are rune strings.
-/
namespace Fzf.Pattern
open Fzf Fzf.Algo

inductive TermType | fuzzy | exact | boundary | prefix | suffix | equal
deriving Repr, DecidableEq, Inhabited

def TermType.toNat : TermType → Nat
  | .fuzzy => 0 | .exact => 1 | .boundary => 2 | .prefix => 3 | .suffix => 4 | .equal => 5

structure Term where
  typ  : TermType
  inv  : Bool
  text : Str
  cs   : Bool
  norm : Bool
deriving Repr, DecidableEq, Inhabited

abbrev TermSet := List Term

inductive CaseMode | smart | ignore | respect
deriving Repr, DecidableEq

/-- `strings.ToLower` on a rune string. -/
def lowerStr (cfg : Cfg) (s : Str) : Str := s.map (toLower cfg)

/-- `algo.NormalizeRunes`. -/
def normStr (cfg : Cfg) (s : Str) : Str := s.map cfg.norm

/-- `strings.ReplaceAll(str, "\\ ", "\t")`: leftmost, non-overlapping. -/
def escSpaceToTab : Str → Str
  | 92 :: 32 :: rest => 9 :: escSpaceToTab rest
  | c :: rest => c :: escSpaceToTab rest
  | [] => []

/-- `regexp.MustCompile(" +").Split(str, -1)`: maximal runs of spaces separate tokens; a
    leading / trailing run yields an empty first / last token. -/
def splitSpaces (s : Str) : List Str :=
  let rec go (cur : Str) (inSep : Bool) : Str → List Str
    | [] => [cur.reverse]
    | c :: rest =>
      if c = 32 then
        if inSep then go cur true rest else cur.reverse :: go [] true rest
      else go (c :: cur) false rest
  go [] false s

def tabToSpace (s : Str) : Str := s.map fun c => if c = 9 then 32 else c

structure PState where
  sets : List TermSet := []   -- reversed
  set : TermSet := []         -- reversed
  switchSet : Bool := false
  afterBar : Bool := false

def hasPrefix (s : Str) (c : Nat) : Bool := s.head? == some c
def hasSuffix (s : Str) (c : Nat) : Bool := s.getLast? == some c

/-- One token of `parseTerms`. -/
def parseToken (cfg : Cfg) (fuzzy : Bool) (caseMode : CaseMode) (normalize : Bool) (st : PState) (token : Str) : PState :=
  let text := tabToSpace token
  let lowerText := lowerStr cfg text
  let caseSensitive := caseMode == .respect || (caseMode == .smart && text != lowerText)
  let normalizeTerm := normalize && lowerText == normStr cfg lowerText
  let text := if !caseSensitive then lowerText else text
  let typ := if !fuzzy then TermType.exact else TermType.fuzzy
  if !st.set.isEmpty && !st.afterBar && text == [124] then
    { st with switchSet := false, afterBar := true }
  else
    let st := { st with afterBar := false }
    let (inv, typ, text) := if hasPrefix text 33 then (true, TermType.exact, text.drop 1) else (false, typ, text)
    let (typ, text) := if text != [36] && hasSuffix text 36 then (TermType.suffix, text.dropLast) else (typ, text)
    let (typ, text) :=
      if text.length > 2 && hasPrefix text 39 && hasSuffix text 39 then (TermType.boundary, (text.drop 1).dropLast)
      else if hasPrefix text 39 then
        ((if fuzzy && !inv then TermType.exact else TermType.fuzzy), text.drop 1)
      else if hasPrefix text 94 then
        ((if typ == .suffix then TermType.equal else TermType.prefix), text.drop 1)
      else (typ, text)
    if text.length > 0 then
      let (sets, set) := if st.switchSet then (st.set.reverse :: st.sets, []) else (st.sets, st.set)
      let textRunes := if normalizeTerm then normStr cfg text else text
      { st with sets := sets, set := ⟨typ, inv, textRunes, caseSensitive, normalizeTerm⟩ :: set, switchSet := true }
    else st

/-- `parseTerms(fuzzy, caseMode, normalize, str)`. -/
def parseTerms (cfg : Cfg) (fuzzy : Bool) (caseMode : CaseMode) (normalize : Bool) (str : Str) : List TermSet :=
  let tokens := splitSpaces (escSpaceToTab str)
  let st := tokens.foldl (parseToken cfg fuzzy caseMode normalize) {}
  let sets := if !st.set.isEmpty then st.set.reverse :: st.sets else st.sets
  sets.reverse

structure Pattern where
  fuzzy : Bool
  v2 : Bool                 -- fuzzyAlgo = FuzzyMatchV2
  extended : Bool
  cs : Bool
  norm : Bool
  forward : Bool
  text : Str
  termSets : List TermSet
  sortable : Bool
  cacheable : Bool
deriving Repr, DecidableEq

/-- Trimming of the query in extended mode: leading spaces, then trailing spaces unless escaped. -/
def trimQueryExtended (s : Str) : Str :=
  let s := s.dropWhile (· == 32)
  let rec strip (r : Str) (fuel : Nat) : Str :=   -- r is the reversed string
    match fuel with
    | 0 => r
    | fuel + 1 =>
      match r with
      | 32 :: 92 :: _ => r
      | 32 :: rest => strip rest fuel
      | _ => r
  (strip s.reverse s.length).reverse

/-- The `sortable` / `cacheable` computation of BuildPattern (the labelled loop). -/
def sortCache (fuzzy : Bool) (cacheable : Bool) (termSets : List TermSet) : Bool × Bool := Id.run do
  let mut sortable := false
  let mut cacheable := cacheable
  for ts in termSets do
    let mut idx := 0
    let mut brk := false
    for t in ts do
      if !t.inv then sortable := true
      if !cacheable || idx > 0 || t.inv || (fuzzy && t.typ != .fuzzy) || (!fuzzy && t.typ != .exact) then
        cacheable := false
        if sortable then
          brk := true
          break
      idx := idx + 1
    if brk then break
  return (sortable, cacheable)

/-- `BuildPattern` (without the pattern cache, nth and denylist). -/
def buildPattern (cfg : Cfg) (fuzzy v2 extended : Bool) (caseMode : CaseMode) (normalize forward : Bool)
    (cacheable : Bool) (runes : Str) : Pattern :=
  if extended then
    let asString := trimQueryExtended runes
    let termSets := parseTerms cfg fuzzy caseMode normalize asString
    let (sortable, cacheable) := sortCache fuzzy cacheable termSets
    { fuzzy, v2, extended, cs := true, norm := normalize, forward, text := asString, termSets, sortable, cacheable }
  else
    let lowerString := lowerStr cfg runes
    let normalize := normalize && lowerString == normStr cfg lowerString
    let caseSensitive := caseMode == .respect || (caseMode == .smart && lowerString != runes)
    let asString := if !caseSensitive then lowerString else runes
    { fuzzy, v2, extended, cs := caseSensitive, norm := normalize, forward, text := asString, termSets := [],
      sortable := true, cacheable }

def Pattern.isEmpty (p : Pattern) : Bool :=
  if !p.extended then p.text.isEmpty else p.termSets.isEmpty

/-- `buildCacheKey`. -/
def Pattern.cacheKey (p : Pattern) : Str :=
  if !p.extended then p.text
  else
    let ts := p.termSets.filterMap fun ts =>
      match ts with
      | [t] => if !t.inv && (p.fuzzy || t.typ == .exact) then some t.text else none
      | _ => none
    joinWith 9 ts

/-- A token of the line a term is matched against: the text and its rune offset in the line. -/
structure Tok where
  text : Array Nat
  isBytes : Bool
  prefixLength : Nat

/-- Run the match function of a term type. `slabCap`: the workers always pass a slab. -/
def runTerm (cfg : Cfg) (v2 : Bool) (typ : TermType) (cs norm fwd : Bool) (t : Array Nat) (isBytes : Bool)
    (p : Array Nat) (withPos : Bool) (slabCap : Nat) : M Res :=
  match typ with
  | .fuzzy => if v2 then fuzzyMatchV2 cfg cs norm fwd t isBytes p withPos (some slabCap)
              else fuzzyMatchV1 cfg cs norm fwd t isBytes p withPos
  | .exact => exactMatchNaive cfg cs norm fwd false t isBytes p
  | .boundary => exactMatchNaive cfg cs norm fwd true t isBytes p
  | .prefix => prefixMatch cfg cs norm t p
  | .suffix => suffixMatch cfg cs norm t p
  | .equal => equalMatch cfg cs norm t p

/-- `Pattern.iter`: first token in which the term matches; offsets shifted by the prefix length. -/
def iter (cfg : Cfg) (v2 : Bool) (typ : TermType) (toks : List Tok) (cs norm fwd : Bool) (p : Array Nat)
    (withPos : Bool) (slabCap : Nat) : M (Option (Int × Int × Int × Option (List Nat))) := do
  for tk in toks do
    let r ← runTerm cfg v2 typ cs norm fwd tk.text tk.isBytes p withPos slabCap
    if r.start ≥ 0 then
      return some (r.start + tk.prefixLength, r.stop + tk.prefixLength, r.score,
                   r.pos.map (·.map (· + tk.prefixLength)))
  return none

/-- Result of `MatchItem`: the offsets (one per term set), total score, positions. -/
structure MatchRes where
  offsets : List (Int × Int)
  score : Int
  pos : Option (List Nat)
deriving Repr, DecidableEq

/-- What one term contributes when it decides its OR-group. -/
structure Hit where
  s : Int
  e : Int
  score : Int
  pos : Option (List Nat)
deriving Repr, DecidableEq, Inhabited

def Hit.zero : Hit := ⟨0, 0, 0, none⟩

/-- The inner loop of `extendedMatch` over one OR-group: a non-inverse term that matches decides
    the group (`break`); an inverse term that does not match satisfies it with an empty offset
    but lets later terms override; an inverse term that matches, or a non-inverse one that does
    not, is skipped. `none` = the group is not satisfied. -/
def setMatch (run : Term → M (Option Hit)) : TermSet → M (Option Hit)
  | [] => pure none
  | t :: ts => do
    match ← run t with
    | some h => if t.inv then setMatch run ts else pure (some h)
    | none =>
      if t.inv then do
        let r ← setMatch run ts
        pure (some (r.getD Hit.zero))
      else setMatch run ts

/-- The outer loop: offsets of the satisfied groups, total score, all positions. -/
def setsMatch (run : Term → M (Option Hit)) (withPos : Bool) :
    List TermSet → M (List (Int × Int) × Int × List Nat)
  | [] => pure ([], 0, [])
  | ts :: rest => do
    let r ← setMatch run ts
    let (offs, total, allPos) ← setsMatch run withPos rest
    match r with
    | some h =>
      let ps := if withPos then (match h.pos with
        | some ps => ps
        | none => (List.range (h.e - h.s).toNat).map (· + h.s.toNat)) else []
      pure ((h.s, h.e) :: offs, h.score + total, ps ++ allPos)
    | none => pure (offs, total, allPos)

def runTermOn (cfg : Cfg) (pat : Pattern) (toks : List Tok) (withPos : Bool) (slabCap : Nat) (t : Term) : M (Option Hit) := do
  match ← iter cfg pat.v2 t.typ toks t.cs t.norm pat.forward t.text.toArray withPos slabCap with
  | some (s, e, score, pos) => pure (some ⟨s, e, score, pos⟩)
  | none => pure none

def extendedMatch (cfg : Cfg) (pat : Pattern) (toks : List Tok) (withPos : Bool) (slabCap : Nat) :
    M (List (Int × Int) × Int × Option (List Nat)) := do
  let (offs, total, allPos) ← setsMatch (runTermOn cfg pat toks withPos slabCap) withPos pat.termSets
  pure (offs, total, if withPos then some allPos else none)

/-- `MatchItem`: `none` = no match. -/
def matchItem (cfg : Cfg) (pat : Pattern) (toks : List Tok) (withPos : Bool) (slabCap : Nat) : M (Option MatchRes) := do
  if pat.extended then
    let (offsets, score, pos) ← extendedMatch cfg pat toks withPos slabCap
    if offsets.length == pat.termSets.length then return some ⟨offsets, score, pos⟩
    return none
  else
    let typ := if pat.fuzzy then TermType.fuzzy else TermType.exact
    match ← iter cfg pat.v2 typ toks pat.cs pat.norm pat.forward pat.text.toArray withPos slabCap with
    | some (s, e, score, pos) => return some ⟨[(s, e)], score, pos⟩
    | none => return none

end Fzf.Pattern
