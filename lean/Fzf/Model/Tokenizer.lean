import Fzf.Base.Utf8
/-
Model of src/tokenizer.go. Lines are byte strings; a token is a byte string together with the
number of *characters* of the line that precede it (`prefixLength`, as `util.Chars.Length`
counts them). Regular-expression delimiters are external: the model receives the match
locations `regexp.FindAllStringIndex` returned.
-/
namespace Fzf.Tokenizer
open Fzf

structure Range where
  begin_ : Int
  end_ : Int
deriving Repr, DecidableEq, Inhabited

/-- `newRange`. -/
def newRange (b e : Int) : Range :=
  let b := if b = 1 ∧ e ≠ 1 then 0 else b
  let e := if e = -1 then 0 else e
  ⟨b, e⟩

/-- `strconv.Atoi` on bytes: optional sign, at least one digit, nothing else (64-bit range is
    not modelled: the harness keeps numbers small). -/
def atoi (s : Str) : Option Int :=
  let (neg, ds) := match s with
    | 45 :: r => (true, r)
    | 43 :: r => (false, r)
    | r => (false, r)
  if ds.isEmpty ∨ !ds.all (fun c => 48 ≤ c ∧ c ≤ 57) then none
  else
    let v : Nat := ds.foldl (fun a c => a * 10 + (c - 48)) 0
    some (if neg then -(v : Int) else v)

def isPrefixOf2 (s : Str) : Bool := match s with | 46 :: 46 :: _ => true | _ => false

/-- Position of the first ".." in `s`. -/
def findDots : Str → Option Nat
  | 46 :: 46 :: _ => some 0
  | _ :: rest => (findDots rest).map (· + 1)
  | [] => none

/-- `strings.Split(s, "..")` (non-overlapping, left to right). -/
def splitDots (s : Str) : List Str :=
  let rec go (cur : Str) (s : Str) (fuel : Nat) : List Str :=
    match fuel with
    | 0 => [cur.reverse]
    | fuel + 1 =>
      match s with
      | 46 :: 46 :: rest => cur.reverse :: go [] rest fuel
      | c :: rest => go (c :: cur) rest fuel
      | [] => [cur.reverse]
  go [] s (s.length + 1)

/-- `ParseRange`. -/
def parseRange (s : Str) : Option Range :=
  if s = [46, 46] then some (newRange 0 0)
  else if isPrefixOf2 s then
    match atoi (s.drop 2) with
    | some e => if e = 0 then none else some (newRange 0 e)
    | none => none
  else if isPrefixOf2 (s.reverse) then
    match atoi (s.take (s.length - 2)) with
    | some b => if b = 0 then none else some (newRange b 0)
    | none => none
  else if (findDots s).isSome then
    match splitDots s with
    | [a, b] =>
      match atoi a, atoi b with
      | some b', some e' => if b' = 0 ∨ e' = 0 ∨ (b' < 0 ∧ e' > 0) then none else some (newRange b' e')
      | _, _ => none
    | _ => none
  else
    match atoi s with
    | some n => if n = 0 then none else some (newRange n n)
    | none => none

/-- `splitNth`: only the characters `0-9 , - .` may occur; every comma-separated part must parse. -/
def splitNth (s : Str) : Option (List Range) :=
  if s.isEmpty ∨ !s.all (fun c => (48 ≤ c ∧ c ≤ 57) ∨ c = 44 ∨ c = 45 ∨ c = 46) then none
  else (splitOn 44 s).mapM parseRange

structure Token where
  text : Str            -- bytes
  prefixLength : Nat
deriving Repr, DecidableEq, Inhabited

/-- `util.ToChars(bytes).Length()`. -/
def charLen (bs : Str) : Nat := if Utf8.isAscii bs then bs.length else Utf8.runeCount bs

def withPrefixLengths (toks : List Str) (begin_ : Nat) : List Token :=
  let rec go (toks : List Str) (pl : Nat) : List Token :=
    match toks with
    | [] => []
    | t :: rest => ⟨t, pl⟩ :: go rest (pl + charLen t)
  go toks begin_

def isAwkWhite (c : Nat) : Bool := c == 9 || c == 32

/-- `awkTokenizer`: fields are maximal non-blank runs each with its trailing blanks; the
    leading blanks are counted, not returned. -/
def awkTokenizer (s : Str) : List Str × Nat :=
  let lead := (s.takeWhile isAwkWhite).length
  let rec go (cur : Str) (inWhite : Bool) : Str → List Str
    | [] => if cur.isEmpty then [] else [cur.reverse]
    | c :: rest =>
      if isAwkWhite c then go (c :: cur) true rest
      else if inWhite then cur.reverse :: go [c] false rest
      else go (c :: cur) false rest
  (go [] false (s.drop lead), lead)

/-- `strings.SplitAfter(s, sep)` for a non-empty separator. -/
def splitAfter (sep : Str) (s : Str) : List Str :=
  let rec go (cur : Str) (s : Str) (fuel : Nat) : List Str :=
    match fuel with
    | 0 => [cur.reverse]
    | fuel + 1 =>
      if s.isEmpty then [cur.reverse]
      else if sep.isPrefixOf s then (cur.reverse ++ sep) :: go [] (s.drop sep.length) fuel
      else match s with
        | c :: rest => go (c :: cur) rest fuel
        | [] => [cur.reverse]
  go [] s (s.length + 1)

inductive Delim where
  | awk
  | str (sep : Str)
  | regex (locs : List (Nat × Nat))   -- FindAllStringIndex on the text being tokenized

/-- Tokens for a regex delimiter from the match locations. -/
def regexTokens (s : Str) (locs : List (Nat × Nat)) : List Str :=
  let rec go (begin_ : Nat) : List (Nat × Nat) → List Str
    | [] => if begin_ < s.length then [s.drop begin_] else []
    | (_, e) :: rest => ((s.drop begin_).take (e - begin_)) :: go e rest
  go 0 locs

/-- `Tokenize`. `strings.SplitAfter` with an empty separator splits after every UTF-8 sequence;
    fzf never builds such a delimiter (an empty --delimiter is rejected), so it is not modelled. -/
def tokenize (s : Str) : Delim → List Token
  | .awk => let (ts, pl) := awkTokenizer s; withPrefixLengths ts pl
  | .str sep => withPrefixLengths (splitAfter sep s) 0
  | .regex locs => withPrefixLengths (regexTokens s locs) 0

def joinTokens (ts : List Token) : Str := ts.flatMap (·.text)

/-- `Transform` (with-nth / nth): one output token per range. -/
def transform (tokens : List Token) (ranges : List Range) : List Token :=
  let n : Int := tokens.length
  ranges.map fun r =>
    let pm : List Str × Int :=
      if r.begin_ = r.end_ then
        let idx := r.begin_
        if idx = 0 then ([joinTokens tokens], 0)
        else
          let idx := if idx < 0 then idx + n + 1 else idx
          if idx ≥ 1 ∧ idx ≤ n then ([(tokens.getD (idx - 1).toNat default).text], idx - 1) else ([], 0)
      else
        let be : Int × Int :=
          if r.begin_ = 0 then (1, if r.end_ < 0 then r.end_ + n + 1 else r.end_)
          else if r.end_ = 0 then ((if r.begin_ < 0 then r.begin_ + n + 1 else r.begin_), n)
          else ((if r.begin_ < 0 then r.begin_ + n + 1 else r.begin_), (if r.end_ < 0 then r.end_ + n + 1 else r.end_))
        let b := be.1
        let e := be.2
        let idxs : List Int := (List.range (e - b + 1).toNat).map fun (k : Nat) => b + (k : Int)
        ((idxs.filter fun i => i ≥ 1 ∧ i ≤ n).map (fun i => (tokens.getD (i - 1).toNat default).text), max 0 (b - 1))
    let parts := pm.1
    let minIdx := pm.2
    let merged := parts.flatten
    let pl := if minIdx < n then (tokens.getD minIdx.toNat default).prefixLength else 0
    ⟨merged, pl⟩

/-- `strings.TrimRightFunc(s, unicode.IsSpace)` on bytes (decoded right to left as Go does:
    a trailing byte that does not end a valid sequence is U+FFFD, not a space). -/
def trimRightSpace (isSpace : Nat → Bool) (s : Str) : Str :=
  let rs := Utf8.toRunes s
  -- works on valid UTF-8 (the harness only feeds valid lines to this function)
  Utf8.fromRunes (rs.reverse.dropWhile isSpace).reverse

/-- `StripLastDelimiter`. -/
def stripLastDelimiter (isSpace : Nat → Bool) (s : Str) : Delim → Str
  | .awk => trimRightSpace isSpace s
  | .str sep =>
    let s := if sep.length ≤ s.length ∧ s.drop (s.length - sep.length) = sep then s.take (s.length - sep.length) else s
    trimRightSpace isSpace s
  | .regex locs =>
    let s := match locs.getLast? with
      | some (b, e) => if e = s.length then s.take b else s
      | none => s
    trimRightSpace isSpace s

end Fzf.Tokenizer
