import Fzf.Base.Str
/-
Model of `Reader.feed` (src/reader.go) over a script of `io.Reader.Read` results.
The slab bookkeeping (`slab = slab[n:]`, fresh slab when exhausted, read scope limited to
min(len(slab), readerBufferSize)) is explicit so that the script can be cut the way the real
reader is cut.
-/
namespace Fzf.Reader
open Fzf

inductive Err | nil | eof | other
deriving Repr, DecidableEq

/-- One `Read` call's result. -/
structure Read where
  data : Str
  err : Err
deriving Repr, DecidableEq

/-- The inner `for len(buf) > 0` loop: records completed in this buffer (reversed onto `acc`),
    the new leftover, and the value of `buf` when the loop is left. -/
def splitBuf (delim : Nat) (errNil : Bool) (leftover : Str) (buf : Str) (acc : List Str) : List Str × Str × Str :=
  let rec go (cur : Str) (rest : Str) (leftover : Str) (acc : List Str) (whole : Str) (fuel : Nat) : List Str × Str × Str :=
    -- `cur` (reversed) = bytes of `whole` scanned so far without meeting the delimiter
    match fuel with
    | 0 => (acc, leftover, whole)
    | fuel + 1 =>
      match rest with
      | [] =>
        -- no delimiter in `whole`: leftover = append(leftover, buf...); break  (buf stays = whole)
        if whole.isEmpty then (acc, leftover, []) else (acc, leftover ++ whole, whole)
      | c :: rest' =>
        if c = delim then
          let slice := leftover ++ cur.reverse
          let acc := if errNil ∨ slice ≠ [] then slice :: acc else acc
          go [] rest' [] acc rest' fuel
        else go (c :: cur) rest' leftover acc whole fuel
  go [] buf leftover acc buf (buf.length + 1)

structure St where
  leftover : Str := []
  pushed : List Str := []     -- reversed
  zeros : Nat := 0            -- consecutive (0, nil) reads
  done : Bool := false

/-- One read result. -/
def step (delim : Nat) (s : St) (r : Read) : St :=
  if s.done then s
  else if r.data.isEmpty then
    if r.err = .nil then
      -- no progress: retried up to 100 times
      if s.zeros + 1 ≥ 100 then { s with done := true } else { s with zeros := s.zeros + 1 }
    else { s with done := true }
  else
    let (acc, leftover, bufAtExit) := splitBuf delim (r.err = .nil) s.leftover r.data s.pushed
    if r.err = .eof then { leftover := leftover ++ bufAtExit, pushed := acc, done := true }
    else { leftover := leftover, pushed := acc, zeros := 0 }

/-- After the loop: a non-empty leftover is the final, unterminated record. -/
def finish (s : St) : List Str :=
  (if s.leftover ≠ [] then s.leftover :: s.pushed else s.pushed).reverse

/-- `Reader.feed`: the records pushed, in order. -/
def feed (delim : Nat) (reads : List Read) : List Str :=
  finish (reads.foldl (step delim) {})

/-- How the real reader cuts a scripted stream: each call may return at most
    min(len(slab), bufSize) bytes; the slab shrinks by what was read and is renewed when empty. -/
def cutReads (slabSize bufSize : Nat) (stream : Str) (script : List (Nat × Err)) : List Read :=
  let rec go (stream : Str) (script : List (Nat × Err)) (slabLeft : Nat) (fuel : Nat) : List Read :=
    match fuel with
    | 0 => []
    | fuel + 1 =>
      let scope := min slabLeft bufSize
      match script with
      | (want, err) :: rest =>
        let n := min (min want stream.length) scope
        let slabLeft' := if slabLeft - n = 0 then slabSize else slabLeft - n
        ⟨stream.take n, err⟩ :: go (stream.drop n) rest (if n = 0 then slabLeft else slabLeft') fuel
      | [] =>
        if stream.isEmpty then [⟨[], .eof⟩]
        else
          let n := min stream.length scope
          let slabLeft' := if slabLeft - n = 0 then slabSize else slabLeft - n
          ⟨stream.take n, .nil⟩ :: go (stream.drop n) [] slabLeft' fuel
  go stream script slabSize (script.length + stream.length + 2)

end Fzf.Reader
