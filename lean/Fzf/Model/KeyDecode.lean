import Fzf.Base.Utf8
import Fzf.Generated.Keys
/-
Model of the input decoder of the light renderer (src/tui/light.go: GetChar, escSequence,
mouseSequence) over an arbitrary byte buffer. Every index expression of the Go code is a checked
access here (`idx`): an access out of range is `.error` — the panic the Go code would raise.
-/
namespace Fzf.KeyDecode
open Fzf
open Fzf.Generated

structure Mouse where
  y : Int
  x : Int
  scroll : Int
  left : Bool
  down : Bool
  double : Bool
  ctrl : Bool
  alt : Bool
  shift : Bool
deriving Repr, DecidableEq

structure Ev where
  typ : Nat
  ch : Nat := 0
  mouse : Option Mouse := none
deriving Repr, DecidableEq

abbrev M := Except Unit

/-- `buffer[i]` of Go: panics when out of range. -/
def idx (b : List Nat) (i : Nat) : M Nat :=
  match b[i]? with
  | some x => .ok x
  | none => .error ()

def isDigit (c : Nat) : Bool := 48 ≤ c && c ≤ 57

/-- Length of the match of `^\x1b\[[0-9]+;[0-9]+R` (cursor position report), if any. -/
def cursorReport (b : List Nat) : Option Nat :=
  match b with
  | 27 :: 91 :: rest =>
    let d1 := rest.takeWhile isDigit
    if d1.isEmpty then none else
    match rest.drop d1.length with
    | 59 :: rest2 =>
      let d2 := rest2.takeWhile isDigit
      if d2.isEmpty then none else
      match rest2.drop d2.length with
      | 82 :: _ => some (2 + d1.length + 1 + d2.length + 1)
      | _ => none
    | _ => none
  | _ => none

/-- `strconv.Atoi` with a default: optional sign, at least one digit, nothing else, int64 range. -/
def atoi (s : List Nat) (dflt : Int) : Int :=
  let (neg, ds) := match s with
    | 45 :: r => (true, r)
    | 43 :: r => (false, r)
    | r => (false, r)
  if ds.isEmpty || !ds.all isDigit then dflt else
  let n : Nat := ds.foldl (fun acc d => acc * 10 + (d - 48)) 0
  if neg then (if n ≤ 9223372036854775808 then -(n : Int) else dflt)
  else (if n ≤ 9223372036854775807 then (n : Int) else dflt)

/-- `strings.SplitN(s, ";", 3)`. -/
def splitN3 (s : List Nat) : List (List Nat) :=
  let a := s.takeWhile (· != 59)
  if a.length = s.length then [a] else
  let r := s.drop (a.length + 1)
  let b := r.takeWhile (· != 59)
  if b.length = r.length then [a, b] else
  [a, b, r.drop (b.length + 1)]

/-- What the decoder remembers between events: the recent left clicks, and whether a button went
    down before (all events of one buffer are decoded within the double-click interval). -/
structure Clicks where
  clicks : List (Int × Int) := []
  hadDown : Bool := false
deriving Repr, DecidableEq

/-- `mouseSequence`: `sz` is 3 on entry. Returns the event, the new `sz` and the click state. -/
def mouseSequence (mouse : Bool) (yoffset : Int) (cs : Clicks) (b : List Nat) : Ev × Nat × Clicks :=
  if b.length < 9 || !mouse then (⟨Key.invalid, 0, none⟩, 3, cs) else
  let rest := b.drop 3
  let pre := rest.takeWhile (fun c => c != 109 && c != 77)
  if pre.length = rest.length then (⟨Key.invalid, 0, none⟩, 3, cs) else
  let endc := rest.getD pre.length 0
  match splitN3 pre with
  | [e0, e1, e2] =>
    let t := atoi e0 (-1)
    let x := atoi e1 (-1) - 1
    let y := atoi e2 (-1) - 1 - yoffset
    if t < 0 || x < 0 then (⟨Key.invalid, 0, none⟩, 3, cs) else
    let sz := 3 + pre.length + 1
    let down := endc == 77
    let t := t.toNat
    let (t, scroll) : Nat × Int := if t ≥ 64 then (t - 64, if (t - 64) % 2 == 1 then -1 else 1) else (t, 0)
    let left := t % 4 == 0
    let ctrl := (t / 16) % 2 == 1
    let alt := (t / 8) % 2 == 1
    let shift := (t / 4) % 2 == 1
    let drag := (t / 32) % 2 == 1
    if scroll != 0 then (⟨Key.mouse, 0, some ⟨y, x, scroll, false, false, false, ctrl, alt, shift⟩⟩, sz, cs) else
    if down && !drag then
      let cs' : Clicks :=
        if !left then { clicks := [], hadDown := true }
        else if cs.hadDown then { clicks := cs.clicks ++ [(x, y)], hadDown := true }
        else { clicks := [(x, y)], hadDown := true }
      (⟨Key.mouse, 0, some ⟨y, x, 0, left, down, false, ctrl, alt, shift⟩⟩, sz, cs')
    else
      let n := cs.clicks.length
      let double := n > 1 && cs.clicks[n - 2]? == cs.clicks[n - 1]? && cs.hadDown
      (⟨Key.mouse, 0, some ⟨y, x, 0, left, down, double, ctrl, alt, shift⟩⟩, sz, if double then { cs with clicks := [] } else cs)
  | _ => (⟨Key.invalid, 0, none⟩, 3, cs)

def arrow (alt altShift : Bool) (plainK altK altShiftK : Nat) : Ev :=
  if alt then ⟨altK, 0, none⟩ else if altShift then ⟨altShiftK, 0, none⟩ else ⟨plainK, 0, none⟩

def inv : Ev := ⟨Key.invalid, 0, none⟩

/-- The end of `escSequence`: `bytes.NewBuffer(buffer[1:]).ReadRune()` gives an ALT-key. -/
def fallbackKey (b : List Nat) : Ev × Nat :=
  if (b.drop 1).isEmpty then (inv, 2) else (⟨Key.alt, (Utf8.decodeRune (b.drop 1)).1, none⟩, 1 + (Utf8.decodeRune (b.drop 1)).2)

/-- `ESC [ 1 ; …` (modified arrows); `len(buffer) ≥ 4` is known. -/
def seqModified (b : List Nat) : M (Ev × Nat) := do
  if b.length < 6 then return (inv, 4)
  let b4 ← idx b 4
  let b5 ← idx b 5
  if 49 ≤ b4 && b4 ≤ 53 then
    let alt' := b4 == 51
    if b4 == 49 && b5 == 48 then
      if b.length < 7 then return (inv, 6)
      let ch ← idx b 6
      if ch == 65 then return (arrow alt' true Key.shiftUp Key.altUp Key.altShiftUp, 7)
      if ch == 66 then return (arrow alt' true Key.shiftDown Key.altDown Key.altShiftDown, 7)
      if ch == 67 then return (arrow alt' true Key.shiftRight Key.altRight Key.altShiftRight, 7)
      if ch == 68 then return (arrow alt' true Key.shiftLeft Key.altLeft Key.altShiftLeft, 7)
      return fallbackKey b
    let altShift := b4 == 52
    if b5 == 65 then return (arrow alt' altShift Key.shiftUp Key.altUp Key.altShiftUp, 6)
    if b5 == 66 then return (arrow alt' altShift Key.shiftDown Key.altDown Key.altShiftDown, 6)
    if b5 == 67 then return (arrow alt' altShift Key.shiftRight Key.altRight Key.altShiftRight, 6)
    if b5 == 68 then return (arrow alt' altShift Key.shiftLeft Key.altLeft Key.altShiftLeft, 6)
    return fallbackKey b
  else return fallbackKey b

def isPaste (b : List Nat) (b3 : Nat) : Bool :=
  b.length > 5 && b3 == 48 && (b[4]? == some 48 || b[4]? == some 49) && b[5]? == some 126

/-- `ESC [ <digit> …`; `len(buffer) ≥ 3` is known, `b2` is the digit. -/
def seqDigit (b : List Nat) (b2 : Nat) : M (Ev × Nat) := do
  if b.length < 4 then return (inv, 3)
  let b3 ← idx b 3
  if b2 == 50 then
    if b3 == 126 then return (⟨Key.insert, 0, none⟩, 4)
    if b.length > 4 && b[4]? == some 126 then
      if b3 == 48 then return (⟨Key.f9, 0, none⟩, 5)
      if b3 == 49 then return (⟨Key.f10, 0, none⟩, 5)
      if b3 == 51 then return (⟨Key.f11, 0, none⟩, 5)
      if b3 == 52 then return (⟨Key.f12, 0, none⟩, 5)
      return (inv, 5)
    if isPaste b b3 then
      return (if b[4]? == some 48 then ⟨Key.bracketedPasteBegin, 0, none⟩ else ⟨Key.bracketedPasteEnd, 0, none⟩, 6)
    return (inv, 4)
  if b2 == 51 then
    if b3 == 126 then return (⟨Key.delete, 0, none⟩, 4)
    if b.length == 6 && b[5]? == some 126 then
      let b4 ← idx b 4
      if b4 == 53 then return (⟨Key.ctrlDelete, 0, none⟩, 6)
      if b4 == 50 then return (⟨Key.shiftDelete, 0, none⟩, 6)
      return (inv, 6)
    return (inv, 4)
  if b2 == 52 then return (⟨Key.end_, 0, none⟩, 4)
  if b2 == 53 then return (⟨Key.pageUp, 0, none⟩, 4)
  if b2 == 54 then return (⟨Key.pageDown, 0, none⟩, 4)
  if b2 == 55 then return (⟨Key.home, 0, none⟩, 4)
  if b2 == 56 then return (⟨Key.end_, 0, none⟩, 4)
  -- b2 == '1'
  if b3 == 126 then return (⟨Key.home, 0, none⟩, 4)
  if b3 == 49 || b3 == 50 || b3 == 51 || b3 == 52 || b3 == 53 || b3 == 55 || b3 == 56 || b3 == 57 then
    if b.length == 5 && b[4]? == some 126 then
      let k := if b3 == 49 then Key.f1 else if b3 == 50 then Key.f2 else if b3 == 51 then Key.f3 else if b3 == 52 then Key.f4
        else if b3 == 53 then Key.f5 else if b3 == 55 then Key.f6 else if b3 == 56 then Key.f7 else Key.f8
      return (⟨k, 0, none⟩, 5)
    return (inv, 4)
  if b3 == 59 then seqModified b
  else return fallbackKey b

/-- `ESC [ …` / `ESC O …`; `len(buffer) ≥ 2` is known. -/
def seqCSI (mouse : Bool) (yoffset : Int) (cs : Clicks) (alt : Bool) (b : List Nat) : M (Ev × Nat × Clicks) := do
  if b.length < 3 then return (inv, 2, cs)
  let b2 ← idx b 2
  if b2 == 68 then return (if alt then ⟨Key.altLeft, 0, none⟩ else ⟨Key.left, 0, none⟩, 3, cs)
  if b2 == 67 then return (if alt then ⟨Key.altRight, 0, none⟩ else ⟨Key.right, 0, none⟩, 3, cs)
  if b2 == 66 then return (if alt then ⟨Key.altDown, 0, none⟩ else ⟨Key.down, 0, none⟩, 3, cs)
  if b2 == 65 then return (if alt then ⟨Key.altUp, 0, none⟩ else ⟨Key.up, 0, none⟩, 3, cs)
  if b2 == 90 then return (⟨Key.shiftTab, 0, none⟩, 3, cs)
  if b2 == 72 then return (⟨Key.home, 0, none⟩, 3, cs)
  if b2 == 70 then return (⟨Key.end_, 0, none⟩, 3, cs)
  if b2 == 60 then return mouseSequence mouse yoffset cs b
  if b2 == 80 then return (⟨Key.f1, 0, none⟩, 3, cs)
  if b2 == 81 then return (⟨Key.f2, 0, none⟩, 3, cs)
  if b2 == 82 then return (⟨Key.f3, 0, none⟩, 3, cs)
  if b2 == 83 then return (⟨Key.f4, 0, none⟩, 3, cs)
  if 49 ≤ b2 && b2 ≤ 56 then
    let (ev, sz) ← seqDigit b b2
    return (ev, sz, cs)
  else
    let (ev, sz) := fallbackKey b
    return (ev, sz, cs)

/-- `escSequence`: the event, the number of bytes to drop (`sz`), the buffer it is dropped from
    (one byte shorter when a doubled ESC was skipped) and the click state. -/
def escSequence (mouse : Bool) (yoffset : Int) (cs : Clicks) (b : List Nat) : M (Ev × Nat × List Nat × Clicks) := do
  if b.length < 2 then return (⟨Key.esc, 0, none⟩, 1, b, cs)
  match cursorReport b with
  | some n => return (inv, n, b, cs)
  | none =>
  let b1 ← idx b 1
  if b1 ≥ 1 && b1 ≤ 26 then return (⟨Key.ctrlAlt, b1 + 97 - 1, none⟩, 2, b, cs)
  let alt := b.length > 2 && b1 == 27
  let b := if alt then b.drop 1 else b
  let b1 ← idx b 1
  if b1 == 27 then return (⟨Key.esc, 0, none⟩, 2, b, cs)
  if b1 == 127 then return (⟨Key.altBackspace, 0, none⟩, 2, b, cs)
  if b1 == 91 || b1 == 79 then
    let (ev, sz, cs') ← seqCSI mouse yoffset cs alt b
    return (ev, sz, b, cs')
  else
    let (ev, sz) := fallbackKey b
    return (ev, sz, b, cs)

abbrev Step := Option (Ev × List Nat × List Nat × Clicks)

/-- The ESC branch of `GetChar`, with the "second chance": when the sequence is not recognised the
    pending terminal input is appended to the buffer and decoded again (`none` = it waits). -/
def escChar (mouse : Bool) (yoffset : Int) (cs : Clicks) (b : List Nat) (tty : List Nat) : M Step := do
  let (ev, sz, b', cs') ← escSequence mouse yoffset cs b
  if ev.typ == Key.invalid then
    if tty.isEmpty then return none
    let (ev2, sz2, b'', cs'') ← escSequence mouse yoffset cs' (b' ++ tty)
    if sz2 > b''.length then throw ()          -- `buffer[sz:]` out of range
    return some (ev2, b''.drop sz2, [], cs'')
  else
    if sz > b'.length then throw ()
    return some (ev, b'.drop sz, tty, cs')

/-- One `GetChar` on a non-empty buffer. `tty` is what the terminal still has to deliver (read on
    the "second chance" after an incomplete escape sequence; `none` = it waits for input).
    Returns the event, the remaining buffer, the remaining tty bytes and the click state. -/
def getChar (mouse : Bool) (yoffset : Int) (cs : Clicks) (b : List Nat) (tty : List Nat) : M Step := do
  let b0 ← idx b 0
  let simple (k : Nat) : M Step := pure (some (⟨k, 0, none⟩, b.drop 1, tty, cs))
  if b0 == Key.ctrlC then simple Key.ctrlC
  else if b0 == Key.ctrlG then simple Key.ctrlG
  else if b0 == Key.ctrlQ then simple Key.ctrlQ
  else if b0 == 127 then simple Key.backspace
  else if b0 == 0 then simple Key.ctrlSpace
  else if b0 == 28 then simple Key.ctrlBackSlash
  else if b0 == 29 then simple Key.ctrlRightBracket
  else if b0 == 30 then simple Key.ctrlCaret
  else if b0 == 31 then simple Key.ctrlSlash
  else if b0 == Key.esc then escChar mouse yoffset cs b tty
  else if b0 ≤ Key.ctrlZ then simple b0
  else if (Utf8.decodeRune b).1 == 0xFFFD then simple Key.esc
  else return some (⟨Key.rune, (Utf8.decodeRune b).1, none⟩, b.drop (Utf8.decodeRune b).2, tty, cs)

end Fzf.KeyDecode

namespace Fzf.KeyDecode

inductive DrainEnd | done | waiting | outOfFuel
deriving Repr, DecidableEq

/-- The event loop's use of the decoder: decode until the buffer is used up or the decoder waits
    for the terminal. -/
def drain (mouse : Bool) (yoffset : Int) : Nat → Clicks → List Nat → List Nat → M (List Ev × DrainEnd)
  | 0, _, b, _ => pure ([], if b.isEmpty then .done else .outOfFuel)
  | fuel + 1, cs, b, tty =>
    if b.isEmpty then pure ([], .done) else
    match getChar mouse yoffset cs b tty with
    | .error e => .error e
    | .ok none => pure ([], .waiting)
    | .ok (some (ev, b', tty', cs')) =>
      match drain mouse yoffset fuel cs' b' tty' with
      | .error e => .error e
      | .ok (evs, e) => pure (ev :: evs, e)

end Fzf.KeyDecode
