import Fzf.Base.Str
/-
Models of the three pieces of state that stand between a search request and the list the user
sees (src/matcher.go, src/cache.go, src/pattern.go):

* `Box`  — the matcher's mailbox: one slot per request kind (retry / reset), requests numbered;
* `QC`   — the per-chunk query cache with exact lookup and prefix/suffix search;
* `LS`   — the merger cache of `Matcher.Loop`, invalidated by sort / revision / item count.
-/
namespace Fzf.Matcher
open Fzf

/-! ### Mailbox -/

structure Req (α : Type) where
  seq : Nat
  body : α
deriving Repr

structure Box (α : Type) where
  retry : Option (Req α) := none
  reset : Option (Req α) := none
  next : Nat := 0

/-- `Matcher.Reset`: number the request and put it in the slot of its kind (overwriting). -/
def post {α : Type} (b : Box α) (cancel : Bool) (body : α) : Box α :=
  let r : Req α := ⟨b.next + 1, body⟩
  if cancel then { b with reset := some r, next := b.next + 1 }
  else { b with retry := some r, next := b.next + 1 }

/-- What `Loop` takes when it wakes up: of the pending requests the one posted last; both slots
    are cleared. -/
def take {α : Type} (b : Box α) : Option (Req α) × Box α :=
  let pick := match b.retry, b.reset with
    | some a, some c => some (if c.seq > a.seq then c else a)
    | some a, none => some a
    | none, some c => some c
    | none, none => none
  (pick, { b with retry := none, reset := none })

/-! ### Chunk cache -/

/-- A pattern as the cache sees it. -/
structure Pat (Item : Type) where
  key : Str                 -- `cacheKey`: the cacheable terms joined by tabs
  cacheable : Bool
  sat : Item → Bool         -- does the pattern match the item

/-- The sub-keys `ChunkCache.Search` tries, in its order: ever shorter prefixes and suffixes. -/
def subkeys (k : Str) : List Str :=
  (List.range (k.length - 1)).flatMap fun i => [k.take (k.length - (i + 1)), k.drop (i + 1)]

/-- The query cache of one chunk. -/
abbrev QC (Item : Type) := List (Str × List Item)

def qcGet {Item : Type} (qc : QC Item) (k : Str) : Option (List Item) := (qc.find? (·.1 == k)).map (·.2)

def lookup {Item : Type} (qc : QC Item) (full : Bool) (k : Str) : Option (List Item) :=
  if k.isEmpty ∨ !full then none else qcGet qc k

def search {Item : Type} (qc : QC Item) (full : Bool) (k : Str) : Option (List Item) :=
  if k.isEmpty ∨ !full then none else (subkeys k).findSome? (qcGet qc)

def add {Item : Type} (qc : QC Item) (full : Bool) (cacheMax : Nat) (k : Str) (l : List Item) : QC Item :=
  if k.isEmpty ∨ !full ∨ l.length > cacheMax then qc else (k, l) :: qc

/-- `Pattern.Match` on one chunk: the matches and the cache afterwards. -/
def matchChunk {Item : Type} (cacheMax : Nat) (p : Pat Item) (items : List Item) (full : Bool) (qc : QC Item) :
    List Item × QC Item :=
  match (if p.cacheable then lookup qc full p.key else none) with
  | some cached => (cached, qc)
  | none =>
    let space := (search qc full p.key).getD items
    let ms := space.filter p.sat
    (ms, if p.cacheable then add qc full cacheMax p.key ms else qc)

/-! ### Merger cache of `Matcher.Loop` -/

/-- A search request as the loop's caching sees it. -/
structure SReq where
  pat : Nat           -- the pattern string
  snap : Nat          -- identity of the snapshot's contents
  count : Nat         -- number of items in it
  final : Bool
  sort : Bool
  rev : Nat
deriving Repr, DecidableEq

structure LS (R : Type) where
  sort : Bool
  rev : Nat
  prevCount : Nat := 0
  cache : List (Nat × R × Bool) := []     -- pattern ↦ (merger, its `final` flag)

/-- One iteration of `Loop` (the scan is not cancelled): the merger published for the request. -/
def serve {R : Type} (scan : SReq → R) (cacheable : R → Bool) (st : LS R) (r : SReq) : LS R × R :=
  -- a changed sort flag or revision drops the merger cache; what it will hold is for `r.count` items
  let cleared := r.sort != st.sort || r.rev != st.rev
  let hit : Option R :=
    if cleared then none
    else if r.count = st.prevCount then
      (st.cache.find? fun e => e.1 == r.pat && e.2.2 == r.final).map (·.2.1)
    else none
  let cache1 := if cleared then [] else if r.count = st.prevCount then st.cache else []
  let prev1 := r.count
  let res := hit.getD (scan r)
  let cache2 := if cacheable res then (r.pat, res, r.final) :: cache1.filter (·.1 != r.pat) else cache1
  ({ sort := r.sort, rev := r.rev, prevCount := prev1, cache := cache2 }, res)

/-- Serving a history of requests one after the other: what is published for each. -/
def serveAll {R : Type} (scan : SReq → R) (cacheable : R → Bool) (st : LS R) : List SReq → List R
  | [] => []
  | r :: rs => (serve scan cacheable st r).2 :: serveAll scan cacheable (serve scan cacheable st r).1 rs

end Fzf.Matcher
