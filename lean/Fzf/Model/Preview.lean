import Fzf.Base.Str
/-
Model of the previewer (src/terminal.go): the mailbox `previewBox` holding only the most recent
request, the previewer goroutine that runs one command at a time, the watcher goroutine that
receives cancel / kill tokens on the unbuffered `killChan` (a token sent while no watcher is
receiving is dropped) and periodically looks into the mailbox for a newer request, the version counter, and the display requests handed to the render loop.
Commands are abstract: request `r` runs a command that either ends by itself or never does.
-/
namespace Fzf.Preview
open Fzf

structure Running where
  req : Nat                 -- the request whose command is running
  version : Nat
  watcher : Bool := false   -- the watcher goroutine has reached its `select` on killChan
  killed : Bool := false    -- a cancel / kill token was received: the process group gets killed
deriving Repr, DecidableEq

structure S where
  enq : Nat := 0                    -- requests enqueued so far (ids 1..enq)
  box : Option Nat := none          -- previewBox: the pending request
  run : Option Running := none      -- the command being run (the previewer runs one at a time)
  version : Nat := 0
  started : List Nat := []          -- invocation log: requests whose command was started, in order
  shown : Option (Nat × Nat) := none  -- last reqPreviewDisplay: (version, request whose complete output it carries)
  quit : Bool := false
deriving Repr, DecidableEq

inductive Label where
  | refresh        -- render loop: focus / query / version changed: cancelPreview, then enqueue
  | take           -- previewer: dequeue the pending request and start its command
  | ready          -- the watcher goroutine reaches its select
  | poll           -- the watcher's ticker fires and finds a newer request waiting in the box
  | finish         -- the command ends by itself: its complete output is handed to the render loop
  | die            -- a killed command ends (nothing more is displayed for it)
  | exit           -- end of session: reqQuit to the previewer, killPreview
deriving Repr, DecidableEq

/-- `ends r`: does the command of request `r` end by itself? -/
def step (ends : Nat → Bool) (s : S) : Label → Option S
  | .refresh =>
    if s.quit then none else
    -- the token reaches the watcher only if it is receiving
    let run := s.run.map fun p => if p.watcher then { p with killed := true } else p
    some { s with enq := s.enq + 1, box := some (s.enq + 1), run := run }
  | .take =>
    match s.run, s.box with
    | none, some r =>
      if s.quit then none else
      some { s with box := none, version := s.version + 1, started := s.started ++ [r],
                    run := some { req := r, version := s.version + 1 } }
    | _, _ => none
  | .ready =>
    match s.run with
    | some p => if p.watcher then none else some { s with run := some { p with watcher := true } }
    | none => none
  | .poll =>
    match s.run with
    | some p => if p.watcher ∧ s.box.isSome ∧ !p.killed then some { s with run := some { p with killed := true } } else none
    | none => none
  | .finish =>
    match s.run with
    | some p => if ends p.req ∧ !p.killed then some { s with run := none, shown := some (p.version, p.req) } else none
    | none => none
  | .die =>
    match s.run with
    | some p => if p.killed then some { s with run := none } else none
    | none => none
  | .exit =>
    if s.quit then none else
    let run := s.run.map fun p => if p.watcher then { p with killed := true } else p
    some { s with quit := true, box := none, run := run }

def run (ends : Nat → Bool) (s : S) (ls : List Label) : S := ls.foldl (fun s l => (step ends s l).getD s) s

/-- Nothing is pending and nothing is running. -/
def quiescent (s : S) : Bool := s.box.isNone && s.run.isNone

end Fzf.Preview
