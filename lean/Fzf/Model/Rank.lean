import Fzf.Model.Algo
/-
Model of src/result.go (`buildResult`, `compareRanks` in both variants) and src/merger.go.
-/
namespace Fzf.Rank
open Fzf Fzf.Algo

inductive Criterion | score | chunk | length | begin_ | end_ | pathname
deriving Repr, DecidableEq, Inhabited

def maxU16 : Nat := 65535

/-- `util.AsUint16`. -/
def asUint16 (v : Int) : Nat := if v > 65535 then 65535 else if v < 0 then 0 else v.toNat

/-- `Chars.TrimLength`. -/
def trimLength (cfg : Cfg) (t : Array Nat) : Nat :=
  let l := t.toList
  let trail := (l.reverse.takeWhile cfg.U.isSpace).length
  if trail = l.length then 0
  else
    let lead := (l.takeWhile cfg.U.isSpace).length
    asUint16 ((l.length - trail : Nat) - (lead : Int))

/-- `ByOrder.Less` is a total preorder on (begin, end); sorting by it yields the offsets ordered
    by begin then end. -/
def sortOffsets (offs : List (Int × Int)) : List (Int × Int) :=
  offs.mergeSort fun a b => a.1 < b.1 || (a.1 == b.1 && a.2 ≤ b.2)

/-- UTF-8 length of a rune (Go `string(runes)`; invalid runes become U+FFFD = 3 bytes). -/
def utf8Len (r : Nat) : Nat :=
  if r < 0x80 then 1 else if r < 0x800 then 2
  else if 0xD800 ≤ r ∧ r ≤ 0xDFFF then 3 else if r < 0x10000 then 3
  else if r ≤ 0x10FFFF then 4 else 3

/-- Byte index of the last '/' or '\\' in the UTF-8 encoding of the text (-1 if none). -/
def lastDelimByte (t : Array Nat) : Int := Id.run do
  let mut off : Nat := 0
  let mut last : Int := -1
  for r in t do
    if r == 47 || r == 92 then last := off
    off := off + utf8Len r
  return last

/-- `buildResult`: the four rank points (index 0..3 as in `points`), given the criteria. -/
def buildPoints (cfg : Cfg) (criteria : List Criterion) (text : Array Nat) (offsets : List (Int × Int)) (score : Int) :
    List Nat := Id.run do
  let offsets := if offsets.length > 1 then sortOffsets offsets else offsets
  let numChars := text.size
  let mut minBegin : Int := 65535
  let mut minEnd : Int := 65535
  let mut maxEnd : Int := 0
  let mut valid := false
  for (b, e) in offsets do
    if b < e then
      minBegin := min b minBegin
      minEnd := min e minEnd
      maxEnd := max e maxEnd
      valid := true
  let mut pts : Array Nat := #[0, 0, 0, 0]
  let mut idx := 0
  for c in criteria do
    let mut val : Nat := maxU16
    match c with
    | .score => val := maxU16 - asUint16 score
    | .chunk =>
      if valid then
        let mut b := minBegin
        let mut e := maxEnd
        for _ in [0:numChars + 1] do
          if b ≥ 1 ∧ !cfg.U.isSpace (text.getD (b - 1).toNat 0) then b := b - 1 else break
        for _ in [0:numChars + 1] do
          if e < numChars ∧ !cfg.U.isSpace (text.getD e.toNat 0) then e := e + 1 else break
        val := asUint16 (e - b)
    | .length => val := trimLength cfg text
    | .pathname =>
      if valid then
        let lastDelim := lastDelimByte text
        if lastDelim ≤ minBegin then val := asUint16 (minBegin - lastDelim)
    | .begin_ | .end_ =>
      if valid then
        let mut white : Nat := 0
        for i in [0:numChars] do
          white := i
          if (i : Int) == minBegin || !cfg.U.isSpace (text.getD i 0) then break
        if c == .begin_ then val := asUint16 (minEnd - white)
        else val := asUint16 (65535 - Int.tdiv (65535 * (maxEnd - white)) ((trimLength cfg text : Int) + 1))
    if idx < 4 then pts := pts.set! (3 - idx) val
    idx := idx + 1
  return pts.toList

/-- A result as the merger sees it: rank points and the item index. -/
structure R where
  pts : List Nat     -- points[0..3]
  index : Int
deriving Repr, DecidableEq, Inhabited

/-- result_x86.go: the points read as one little-endian uint64. -/
def packed (r : R) : Nat :=
  r.pts.getD 0 0 + 65536 * (r.pts.getD 1 0 + 65536 * (r.pts.getD 2 0 + 65536 * r.pts.getD 3 0))

def compareRanks64 (a b : R) (tac : Bool) : Bool :=
  if packed a < packed b then true
  else if packed a > packed b then false
  else (decide (a.index ≤ b.index)) != tac

/-- result_others.go: compare points[3], points[2], points[1], points[0]. -/
def compareRanksGeneric (a b : R) (tac : Bool) : Bool :=
  let rec go : List (Nat × Nat) → Bool
    | [] => (decide (a.index ≤ b.index)) != tac
    | (l, r) :: rest => if l < r then true else if l > r then false else go rest
  go [(a.pts.getD 3 0, b.pts.getD 3 0), (a.pts.getD 2 0, b.pts.getD 2 0),
      (a.pts.getD 1 0, b.pts.getD 1 0), (a.pts.getD 0 0, b.pts.getD 0 0)]

/-! ### Merger -/

/-- `minRank()`: points {65535,0,0,0}, index MinInt32. -/
def minRank : R := ⟨[65535, 0, 0, 0], -2147483648⟩

structure Merger where
  lists : List (List R)
  merged : List R := []        -- in order
  cursors : List Nat           -- next unread position of each list (Go marks an exhausted list with -1)
  sorted : Bool
  tac : Bool
deriving Repr

def Merger.new (lists : List (List R)) (sorted tac : Bool) : Merger :=
  { lists, cursors := lists.map fun _ => 0, sorted, tac }

def Merger.count (m : Merger) : Nat := (m.lists.map List.length).sum

/-- The inner loop of `mergedGet`: scanning the lists left to right, the head of a list that is not
    exhausted replaces the candidate when it compares less. -/
def bestHead (tac : Bool) : List (List R × Nat) → Nat → Option (R × Nat) → Option (R × Nat)
  | [], _, best => best
  | (l, c) :: rest, li, best =>
    match l[c]? with
    | none => bestHead tac rest (li + 1) best
    | some r =>
      match best with
      | none => bestHead tac rest (li + 1) (some (r, li))
      | some (mr, mi) => bestHead tac rest (li + 1) (if compareRanks64 r mr tac then some (r, li) else some (mr, mi))

/-- One round of `mergedGet`'s outer loop: pick the best head, append it. `none` = panic. -/
def Merger.mergeStep (m : Merger) : Option Merger :=
  match bestHead m.tac (m.lists.zip m.cursors) 0 none with
  | none => none
  | some (r, i) => some { m with merged := m.merged ++ [r], cursors := m.cursors.set i (m.cursors.getD i 0 + 1) }

/-- `Merger.Get idx` (not the pass-through variant): new state and the result; `none` = panic. -/
def Merger.get (m : Merger) (idx : Nat) : Option (Merger × R) :=
  if m.sorted then
    let rec fill (m : Merger) (fuel : Nat) : Option Merger :=
      match fuel with
      | 0 => some m
      | fuel + 1 => if m.merged.length ≤ idx then (m.mergeStep).bind (fill · fuel) else some m
    match fill m (idx + 1 - m.merged.length) with
    | none => none
    | some m' => (m'.merged[idx]?).map (m', ·)
  else
    let i : Int := if m.tac then (m.count : Int) - idx - 1 else idx
    if i < 0 then none else ((m.lists.flatten)[i.toNat]?).map (m, ·)

/-- Chunk layout of a snapshot: item indices per chunk. `PassMerger.Get`. -/
def passGet (chunkSize : Nat) (chunks : List (List Int)) (tac : Bool) (idx : Nat) : Option Int :=
  let count := (chunks.map List.length).sum
  let i : Int := if tac then (count : Int) - idx - 1 else idx
  if i < 0 then none else
  let i := i.toNat
  match chunks with
  | [] => none
  | first :: _ =>
    if first.length < chunkSize ∧ i ≥ first.length then
      let j := i - first.length
      (chunks[j / chunkSize + 1]?).bind (·[j % chunkSize]?)
    else (chunks[i / chunkSize]?).bind (·[i % chunkSize]?)

/-- `partitions` consecutive slices of `perSlice` chunks each; the last one takes the rest. -/
def sliceGo (perSlice : Nat) : Nat → List α → List (List α)
  | 0, _ => []
  | 1, l => [l]
  | k + 2, l => l.take perSlice :: sliceGo perSlice (k + 1) (l.drop perSlice)

/-- `Matcher.sliceChunks`. -/
def sliceChunks (partitions : Nat) (chunks : List α) : List (List α) :=
  let perSlice0 := chunks.length / partitions
  if perSlice0 = 0 then sliceGo 1 chunks.length chunks else sliceGo perSlice0 partitions chunks

end Fzf.Rank
