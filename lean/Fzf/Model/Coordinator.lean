/-
An abstract transition system of the interplay of reader, coordinator (src/core.go event loop),
matcher mailbox / scan (src/matcher.go) and terminal (`UpdateList`): who tells whom about what,
and what can be overwritten or cancelled. Items, queries and results are abstracted to the key of a
search request: (query and other search settings, number of items loaded, final flag).

It is tied to the implementation by observation: the convergence sessions of C08 drive the real
fzf with racing input and edits and judge the quiescent state it reaches; the in-process
request histories cover the matcher part step by step (Model/Matcher.lean).
-/
namespace Fzf.Coordinator

/-- The key of a search: the search settings (query, sort flag, exclusions, nth — as one number),
    how many items the snapshot holds, and whether input had ended. -/
structure Req where
  q : Nat
  n : Nat
  fin : Bool
deriving Repr, DecidableEq

structure Co where
  -- the world
  n : Nat := 0                    -- items loaded so far
  reading : Bool := true          -- the reader has not finished
  q : Nat := 0                    -- search settings on the terminal
  -- the coordinator's event box (one slot per event type: a newer value overwrites an older one)
  evRead : Bool := false          -- EvtReadNew / EvtReadFin
  evSearch : Bool := false        -- EvtSearchNew
  evFin : Option Req := none      -- EvtSearchFin, carrying the merger for a request
  -- the matcher
  box : Option Req := none        -- request mailbox: the latest request
  running : Option Req := none    -- the scan in progress
  -- the terminal
  shown : Option Req := none      -- the merger on display
deriving Repr

inductive Label where
  | push            -- the reader appends an item
  | eof             -- the reader finishes
  | edit (q : Nat)  -- the user changes the query / sort flag / exclusions / nth
  | reload          -- reload: the list is emptied and a new reader starts
  | coordRead       -- the coordinator handles EvtReadNew / EvtReadFin
  | coordSearch     -- the coordinator handles EvtSearchNew
  | take            -- the matcher loop picks up the latest request
  | cancel          -- a running scan notices a newer request and gives up
  | finish          -- a scan completes and posts EvtSearchFin
  | coordFin        -- the coordinator hands the merger to the terminal
deriving Repr

def cur (s : Co) : Req := ⟨s.q, s.n, !s.reading⟩

/-- One transition; `none` when it is not enabled. -/
def step (s : Co) : Label → Option Co
  | .push => if s.reading then some { s with n := s.n + 1, evRead := true } else none
  | .eof => if s.reading then some { s with reading := false, evRead := true } else none
  | .edit q => some { s with q := q, evSearch := true }
  | .reload => some { s with n := 0, reading := true, evSearch := true }
  | .coordRead => if s.evRead then some { s with evRead := false, box := some (cur s) } else none
  | .coordSearch => if s.evSearch then some { s with evSearch := false, box := some (cur s) } else none
  | .take => match s.running, s.box with
    | none, some r => some { s with running := some r, box := none }
    | _, _ => none
  | .cancel => match s.running, s.box with
    | some _, some _ => some { s with running := none }
    | _, _ => none
  | .finish => match s.running with
    | some r => some { s with running := none, evFin := some r }
    | none => none
  | .coordFin => match s.evFin with
    | some r => some { s with evFin := none, shown := some r }
    | none => none

/-- Executions: enabled transitions from the initial state. -/
def run : Co → List Label → Option Co
  | s, [] => some s
  | s, l :: ls => (step s l).bind (run · ls)

/-- Nothing is pending anywhere and input has ended. -/
def Quiescent (s : Co) : Prop :=
  s.reading = false ∧ s.evRead = false ∧ s.evSearch = false ∧ s.evFin = none ∧ s.box = none ∧ s.running = none

end Fzf.Coordinator
