import Fzf.Base.Str
/-
Model of src/history.go.  The file system is an explicit value: `load` takes the
file's bytes, `append` returns the bytes written (if any).
-/
namespace Fzf.History
open Fzf

structure Hist where
  lines    : List Str
  modified : List (Nat × Str)   -- Go map[int]string, newest binding first
  maxSize  : Nat
  cursor   : Nat
deriving Repr, DecidableEq

/-- `NewHistory` after the file has been read (`data`; a missing file reads as empty). -/
def load (data : Str) (maxSize : Nat) : Hist :=
  let ls := splitOn 10 (trim 10 data)
  let ls := if ls.getLast?.getD [] ≠ [] then ls ++ [[]] else ls
  { lines := ls, modified := [], maxSize := maxSize, cursor := ls.length - 1 }

/-- `History.append`: new state and the bytes written to the file, if any. -/
def append (h : Hist) (line : Str) : Hist × Option Str :=
  if line = [] then (h, none)
  else
    let ls := lastN h.maxSize (h.lines.dropLast ++ [line])
    let ls' := ls ++ [[]]
    ({ h with lines := ls' }, some (joinWith 10 ls'))

def override (h : Hist) (s : Str) : Hist :=
  if h.cursor + 1 = h.lines.length then { h with lines := h.lines.set h.cursor s }
  else if h.cursor + 1 < h.lines.length then { h with modified := (h.cursor, s) :: h.modified }
  else h

/-- `History.current`; `none` models the index panic. -/
def current (h : Hist) : Option Str :=
  match h.modified.lookup h.cursor with
  | some s => some s
  | none => h.lines[h.cursor]?

def previous (h : Hist) : Hist := if h.cursor > 0 then { h with cursor := h.cursor - 1 } else h
def next (h : Hist) : Hist :=
  if h.cursor + 1 < h.lines.length then { h with cursor := h.cursor + 1 } else h

/-- What the terminal does on the `previous-history` / `next-history` actions
    (before `trimQuery`): save the input line in the slot, move, read the slot. -/
inductive Nav where
  | prev | next
  | edit (s : Str)
deriving Repr, DecidableEq

structure Sess where
  h     : Hist
  input : Str
deriving Repr, DecidableEq

def navStep (s : Sess) : Nav → Sess
  | .edit t => { s with input := t }
  | .prev => let h := previous (override s.h s.input); { h := h, input := (current h).getD [] }
  | .next => let h := next (override s.h s.input); { h := h, input := (current h).getD [] }

/-- One whole session: load, navigate/edit, optionally submit the input line. -/
def session (file : Str) (maxSize : Nat) (navs : List Nav) (submit : Bool) : Str :=
  let s := navs.foldl navStep { h := load file maxSize, input := [] }
  if submit then
    match (append s.h s.input).2 with
    | some bytes => bytes
    | none => file
  else file

end Fzf.History
