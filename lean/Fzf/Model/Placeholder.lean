import Fzf.Model.Quote
import Fzf.Model.Tokenizer
/-
Model of `replacePlaceholder` (src/terminal.go) for templates given as a list of blank-separated
parts, each either a literal word or one placeholder. (Recognising placeholders inside arbitrary
template text is the job of a regular expression in the Go code; the correspondence check covers
it only for templates of this shape.)
-/
namespace Fzf.Placeholder
open Fzf Fzf.Quote Fzf.Tokenizer

structure Ctx where
  query : Str
  current : Option (Str × Nat)        -- text, index
  selected : List (Str × Nat)
  delim : Delim
  isSpace : Nat → Bool

/-- `strings.TrimSpace` on valid UTF-8. -/
def trimSpace (isSpace : Nat → Bool) (s : Str) : Str :=
  let rs := Utf8.toRunes s
  Utf8.fromRunes ((rs.dropWhile isSpace).reverse.dropWhile isSpace).reverse

structure Flags where
  plus : Bool := false
  preserveSpace : Bool := false
  number : Bool := false
  file : Bool := false
  raw : Bool := false

/-- `parsePlaceholder` for an unescaped `{…}`: flags and the placeholder without flag characters. -/
def parseFlags (m : Str) : Flags × Str :=
  let body := m.drop 1
  let fl := body.foldl (fun (f : Flags) c =>
    if c = 43 then { f with plus := true } else if c = 115 then { f with preserveSpace := true }
    else if c = 110 then { f with number := true } else if c = 102 then { f with file := true }
    else if c = 114 then { f with raw := true } else f) {}
  (fl, 123 :: body.filter fun c => !(c = 43 || c = 115 || c = 110 || c = 102 || c = 114))

def natToStr (n : Nat) : Str := (toString n).toList.map (·.toNat)

/-- Expansion of one part of the template. -/
def expandPart (cx : Ctx) (part : Str) : Str :=
  match part with
  | 92 :: rest => if rest.head? = some 123 then rest else part      -- escaped placeholder: left literal
  | 123 :: _ =>
    let (fl, m) := parseFlags part
    let items := if fl.plus then cx.selected else cx.current.toList
    let joinRepl (f : Str × Nat → Str) : Str := joinWith 32 (items.map f)
    if m = [123, 113, 125] then quoteEntry cx.query
    else if m = [123, 125] then
      joinRepl fun (t, i) =>
        if fl.number then natToStr i
        else if fl.file ∨ fl.raw then t else quoteEntry t
    else
      let exprs := splitOn 44 ((m.drop 1).dropLast)
      match exprs.mapM parseRange with
      | none => m
      | some ranges =>
        joinRepl fun (t, _) =>
          let str := joinTokens (transform (tokenize t cx.delim) ranges)
          let str := match cx.delim with
            | .str sep => if sep.length ≤ str.length ∧ str.drop (str.length - sep.length) = sep
                          then str.take (str.length - sep.length) else str
            | _ => str
          let str := if fl.preserveSpace then str else trimSpace cx.isSpace str
          if fl.file ∨ fl.raw then str else quoteEntry str
  | _ => part

def expand (cx : Ctx) (parts : List Str) : Str := joinWith 32 (parts.map (expandPart cx))

end Fzf.Placeholder
