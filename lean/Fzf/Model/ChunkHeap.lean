import Fzf.Base.Str
/-
Model of the *memory* behind src/chunklist.go: chunks are cells of a heap addressed by ids, the
live list and every snapshot are lists of ids, so that sharing between the growing list and the
snapshots handed to the matcher is explicit. `push` appends to the cell of the list's last chunk
in place (or allocates a new cell when that chunk is full); `snapshot` shares all full chunks
and hands out *copies* of the last chunk (and of a chunk it trims for --tail).
-/
namespace Fzf.ChunkHeap
open Fzf

structure CL where
  ids : List Nat              -- the live list of chunks
  cells : List (List Int)     -- heap: cell id ↦ items (ids are indices; cells are never freed)
deriving Repr

def CL.cell (cl : CL) (id : Nat) : List Int := cl.cells.getD id []

def alloc (cl : CL) (c : List Int) : CL × Nat := ({ cl with cells := cl.cells ++ [c] }, cl.cells.length)

/-- `ChunkList.Push`. -/
def push (chunkSize : Nat) (cl : CL) (item : Int) : CL :=
  match cl.ids.getLast? with
  | some lastId =>
    if (cl.cell lastId).length = chunkSize then
      let (cl', id) := alloc cl [item]
      { cl' with ids := cl.ids ++ [id] }
    else { cl with cells := cl.cells.set lastId (cl.cell lastId ++ [item]) }
  | none =>
    let (cl', id) := alloc cl [item]
    { cl' with ids := [id] }

def countItems (cl : CL) (ids : List Nat) : Nat := (ids.map fun i => (cl.cell i).length).sum

/-- `ChunkList.Snapshot(tail)`: new list state and the ids handed out. -/
def snapshot (tail : Nat) (cl : CL) : CL × List Nat :=
  -- --tail trimming: keep the trailing chunks holding `tail` items, the first of them cut to size
  let cl :=
    if tail > 0 ∧ countItems cl cl.ids > tail then
      let rec keep (rev : List Nat) (left : Int) (acc : List Nat) : List Nat × Int :=
        match rev with
        | [] => (acc, left)
        | id :: rest => if left > 0 then keep rest (left - (cl.cell id).length) (id :: acc) else (acc, left)
      let (kept, left) := keep cl.ids.reverse tail []
      -- `left ≤ 0` now; the first kept chunk holds `-left` items too many
      match kept with
      | [] => cl
      | first :: rest =>
        if left < 0 then
          let c := cl.cell first
          let (cl', id) := alloc cl (c.drop (-left).toNat)
          { cl' with ids := id :: rest }
        else { cl with ids := kept }
    else cl
  -- hand out copies of the first (under --tail) and of the last chunk
  match cl.ids.reverse with
  | [] => (cl, [])
  | lastId :: restRev =>
    let (cl1, lastCopy) := alloc cl (cl.cell lastId)
    let front := restRev.reverse
    match front with
    | [] => (cl1, [lastCopy])
    | firstId :: mid =>
      if tail > 0 then
        let (cl2, firstCopy) := alloc cl1 (cl1.cell firstId)
        (cl2, firstCopy :: mid ++ [lastCopy])
      else (cl1, front ++ [lastCopy])

inductive Op where
  | push (item : Int)
  | snap (tail : Nat)

def step (chunkSize : Nat) (cl : CL) : Op → CL
  | .push i => push chunkSize cl i
  | .snap t => (snapshot t cl).1

/-- The items reachable from a snapshot, in order. -/
def contents (cl : CL) (snap : List Nat) : List Int := snap.flatMap cl.cell

end Fzf.ChunkHeap
