import Fzf.Base.Str
/-
Model of the *memory* behind src/chunklist.go: chunks are cells of a heap addressed by ids, the
live list and every snapshot are lists of ids, so that sharing between the growing list and the
snapshots handed to the matcher is explicit. `push` appends to the cell of the list's last chunk
in place (or allocates a new cell when that chunk is full); `snapshot` shares all full chunks
and hands out *copies* of the last chunk (and of a chunk it trims for --tail).
-/
namespace Fzf.ChunkHeap
open Fzf

structure CL where
  ids : List Nat              -- the live list of chunks
  cells : List (List Int)     -- heap: cell id ↦ items (ids are indices; cells are never freed)
deriving Repr

def CL.cell (cl : CL) (id : Nat) : List Int := cl.cells.getD id []

def alloc (cl : CL) (c : List Int) : CL × Nat := ({ cl with cells := cl.cells ++ [c] }, cl.cells.length)

/-- `ChunkList.Push`. -/
def push (chunkSize : Nat) (cl : CL) (item : Int) : CL :=
  match cl.ids.getLast? with
  | some lastId =>
    if (cl.cell lastId).length = chunkSize then
      let (cl', id) := alloc cl [item]
      { cl' with ids := cl.ids ++ [id] }
    else { cl with cells := cl.cells.set lastId (cl.cell lastId ++ [item]) }
  | none =>
    let (cl', id) := alloc cl [item]
    { cl' with ids := [id] }

def countItems (cl : CL) (ids : List Nat) : Nat := (ids.map fun i => (cl.cell i).length).sum

/-- The trailing chunks that hold `left` items (first loop of `Snapshot`), and what is left over. -/
def keep (cl : CL) : List Nat → Int → List Nat → List Nat × Int
  | [], left, acc => (acc, left)
  | id :: rest, left, acc =>
    if left > 0 then keep cl rest (left - (cl.cell id).length) (id :: acc) else (acc, left)

/-- --tail trimming inside `Snapshot`: keep the trailing chunks holding `tail` items, the first of
    them replaced by a cut-down copy. -/
def trim (tail : Nat) (cl : CL) : CL :=
  if tail > 0 ∧ countItems cl cl.ids > tail then
    match keep cl cl.ids.reverse tail [] with
    | ([], _) => cl
    | (first :: rest, left) =>
      if left < 0 then
        let (cl', id) := alloc cl ((cl.cell first).drop (-left).toNat)
        { cl' with ids := id :: rest }
      else { cl with ids := first :: rest }
  else cl

/-- The `changed` result of `Snapshot`: items were dropped from the list. -/
def changed (tail : Nat) (cl : CL) : Bool := decide (tail > 0 ∧ countItems cl cl.ids > tail)

/-- Handing out the snapshot: full chunks are shared, the last chunk (and under --tail the first)
    is copied. -/
def handOut (tail : Nat) (cl : CL) : CL × List Nat :=
  match cl.ids.reverse with
  | [] => (cl, [])
  | lastId :: restRev =>
    let n := cl.cells.length
    match restRev.reverse with
    | [] => ({ cl with cells := cl.cells ++ [cl.cell lastId] }, [n])
    | firstId :: mid =>
      if tail > 0 then
        ({ cl with cells := cl.cells ++ [cl.cell lastId, cl.cell firstId] }, (n + 1) :: mid ++ [n])
      else ({ cl with cells := cl.cells ++ [cl.cell lastId] }, (firstId :: mid) ++ [n])

/-- `ChunkList.Snapshot(tail)`: new list state and the ids handed out. -/
def snapshot (tail : Nat) (cl : CL) : CL × List Nat := handOut tail (trim tail cl)

inductive Op where
  | push (item : Int)
  | snap (tail : Nat)

def step (chunkSize : Nat) (cl : CL) : Op → CL
  | .push i => push chunkSize cl i
  | .snap t => (snapshot t cl).1

/-- The items reachable from a snapshot, in order. -/
def contents (cl : CL) (snap : List Nat) : List Int := snap.flatMap cl.cell

end Fzf.ChunkHeap
