import Fzf.Base.Str
/-
Model of the built-in walker (`Reader.readFiles`, src/reader.go) over a finite tree. The
traversal itself (fastwalk) is external: it is assumed to visit every entry under the root once,
children after their parent, unless the callback prunes a directory; symbolic links to
directories are entered only with `follow`. Results are compared as multisets.
-/
namespace Fzf.Walker
open Fzf

inductive Kind | dir | file | link
deriving Repr, DecidableEq

structure Entry where
  kind : Kind
  path : Str              -- relative to the tree root, components separated by '/'
  target : Str := []      -- for links: path of the target relative to the tree root
deriving Repr, DecidableEq

structure Opts where
  file : Bool
  dir : Bool
  hidden : Bool
  follow : Bool
  skips : List Str

def parentOf (p : Str) : Str :=
  match (splitOn 47 p).dropLast with
  | [] => []
  | cs => joinWith 47 cs

def baseOf (p : Str) : Str := (splitOn 47 p).getLast?.getD []

def hasSuffix (s suf : Str) : Bool := suf.length ≤ s.length && s.drop (s.length - suf.length) == suf

/-- Is the directory at printed path `path` pruned? (`filepath.SkipDir` in the callback) -/
def pruned (o : Opts) (path : Str) : Bool :=
  let base := baseOf path
  (!o.hidden && base.head? == some 46 && base != [46, 46]) ||
  o.skips.any fun ig =>
    if ig.contains 47 then
      if ig.head? == some 47 then hasSuffix path ig
      else ig == path || hasSuffix path (47 :: ig)
    else ig == base

def kindOfTarget (es : List Entry) (t : Str) : Option Kind := (es.find? (·.path == t)).map (·.kind)

/-- Visit the entry whose real location is `real` and which is printed as `shown`. -/
def visit (o : Opts) (es : List Entry) (fuel : Nat) (e : Entry) (real shown : Str) : List Str :=
  match fuel with
  | 0 => []
  | fuel + 1 =>
    let isDir := e.kind == .dir
    let symDir := o.follow && e.kind == .link && kindOfTarget es e.target == some .dir
    if isDir || symDir then
      if pruned o shown then []
      else
        let out := shown ++ [47]
        let self := if (o.file && !isDir) || (o.dir && isDir) then [out] else []
        let dirReal := if isDir then real else e.target
        let kids := es.filter fun c => parentOf c.path == dirReal && c.path != dirReal && !c.path.isEmpty
        self ++ kids.flatMap fun c =>
          visit o es fuel c c.path (shown ++ [47] ++ baseOf c.path)
    else
      if (o.file && !isDir) || (o.dir && isDir) then [shown] else []

/-- Where a root given with `.`, `..`, doubled or trailing separators leads (through real
    directories: `..` is taken lexically), and how it is printed: as given, without trailing
    separators and without leading `./` (with the separators that follow it: `.//d` is `d`). -/
def resolveRoot (root : Str) : Str × Str :=
  let comps := (splitOn 47 root).filter fun c => !c.isEmpty && c != [46]
  let path := comps.foldl (fun (acc : Str) c => if c == [46, 46] then parentOf acc else if acc.isEmpty then c else acc ++ [47] ++ c) []
  let trimmed := (root.reverse.dropWhile (· == 47)).reverse
  -- `trimPath`: every leading `./` goes, together with the separators that follow it
  let rec strip (t : Str) (fuel : Nat) : Str :=
    match fuel, t with
    | fuel + 1, 46 :: 47 :: rest => strip (rest.dropWhile (· == 47)) fuel
    | _, t => t
  (path, strip trimmed trimmed.length)

/-- `readFiles` for one root (`[46]` = "." = the tree root). -/
def walk (o : Opts) (es : List Entry) (root : Str) : List Str :=
  if root == [46] then
    (es.filter fun c => parentOf c.path == [] && !c.path.isEmpty).flatMap fun c => visit o es (es.length + 2) c c.path c.path
  else
    match es.find? (·.path == root) with
    | some e => visit o es (es.length + 2) e e.path root
    | none =>
      let (path, shown) := resolveRoot root
      if path.isEmpty then
        -- back at the tree root under another name: its entries are printed below that name
        if pruned o shown then []
        else
          (if o.dir then [shown ++ [47]] else []) ++
          (es.filter fun c => parentOf c.path == [] && !c.path.isEmpty).flatMap fun c =>
            visit o es (es.length + 2) c c.path (shown ++ [47] ++ baseOf c.path)
      else
        match es.find? (·.path == path) with
        | some e => visit o es (es.length + 2) e e.path shown
        | none => []

/-- `readFiles` for one root given relative to the working directory `cwd` (a directory of the
    tree, `[]` = the tree root): `.` lists the working directory without prefix, `..` its parent
    with the prefix `../`. -/
def walkCwd (o : Opts) (es : List Entry) (cwd root : Str) : List Str :=
  if cwd.isEmpty then walk o es root
  else
    let kids (real : Str) := es.filter fun c => parentOf c.path == real && c.path != real && !c.path.isEmpty
    if root == [46] then
      (kids cwd).flatMap fun c => visit o es (es.length + 2) c c.path (baseOf c.path)
    else if root == [46, 46] then
      if pruned o root then []
      else
        (if o.dir then [root ++ [47]] else []) ++
        (kids (parentOf cwd)).flatMap fun c => visit o es (es.length + 2) c c.path (root ++ [47] ++ baseOf c.path)
    else
      match es.find? (·.path == cwd ++ [47] ++ root) with
      | some e => visit o es (es.length + 2) e e.path root
      | none => []

end Fzf.Walker
