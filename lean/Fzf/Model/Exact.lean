import Fzf.Model.Algo
/-
`exactMatchNaive` (ExactMatchNaive / ExactMatchBoundary of src/algo/algo.go) with its scanning
loop written as a step function iterated with fuel, so that invariants can be stated per step.
`Fzf.Algo.exactMatchNaive` is this function.
-/
namespace Fzf.Algo

/-- The bonus of the current attempt: taken at the term's first character. -/
def exBonus (cfg : Cfg) (t : Text) (pidx_ index_ : Nat) (cur : Int) : M Int :=
  if pidx_ == 0 then bonusAt cfg t index_ else pure cur

/-- ExactMatchBoundary: is the neighbour at `j` (if the text has one there) not a word character? -/
def exNbr (cfg : Cfg) (t : Text) (atEdge : Bool) (j : Nat) : M Bool :=
  if atEdge then pure true else do
    let c ← get t (j : Nat) "exact"
    pure (decide (charClassOf cfg c ≤ cDelim))

def exLeft (cfg : Cfg) (t : Text) (ok1 : Bool) (pidx_ index_ : Nat) : M Bool :=
  if ok1 && pidx_ == 0 then exNbr cfg t (index_ == 0) (index_ - 1) else pure ok1

def exRight (cfg : Cfg) (t : Text) (ok2 : Bool) (pidx_ index_ m : Nat) : M Bool :=
  if ok2 && pidx_ == m - 1 then exNbr cfg t (index_ == t.size - 1) (index_ + 1) else pure ok2

/-- The comparison of one iteration: does the text character at the scan position agree with the
    pattern character (and, for ExactMatchBoundary, do the boundary conditions hold at the first /
    last pattern character), and the bonus remembered for the current attempt. -/
def exDecide (cfg : Cfg) (cs norm fwd boundary : Bool) (t p : Text) (st : EX) : M (Bool × Int) := do
  let c0 ← get t (indexAt st.index t.size fwd) "exact"
  let pc ← get p (indexAt st.pidx p.size fwd) "exact pattern"
  if pc == foldRune cfg cs norm c0 then do
    let bonus ← exBonus cfg t (indexAt st.pidx p.size fwd) (indexAt st.index t.size fwd) st.bonus
    if boundary then do
      let ok2 ← exLeft cfg t (indexAt st.pidx p.size fwd > 0 || bonus ≥ bonusBoundary) (indexAt st.pidx p.size fwd) (indexAt st.index t.size fwd)
      let ok ← exRight cfg t ok2 (indexAt st.pidx p.size fwd) (indexAt st.index t.size fwd) p.size
      pure (ok, bonus)
    else pure (true, bonus)
  else pure (false, st.bonus)

/-- What the loop does with the verdict: advance inside the attempt, record a complete
    occurrence (and stop at one with a boundary bonus, else restart right after the attempt's
    start), or restart after a mismatch. Includes the loop's own `index++`. -/
def exNext (m : Nat) (st : EX) (ok : Bool) (bonus : Int) : EX :=
  if ok then
    let pidx := st.pidx + 1
    if pidx == m then
      let (bp, bb) := if bonus > st.bestBonus then (some st.index, bonus) else (st.bestPos, st.bestBonus)
      if bonus ≥ bonusBoundary then
        { st with pidx := pidx, bonus := bonus, bestPos := bp, bestBonus := bb, done := true }
      else
        { index := st.index - (pidx - 1) + 1, pidx := 0, bonus := 0, bestPos := bp, bestBonus := bb }
    else
      { st with index := st.index + 1, pidx := pidx, bonus := bonus }
  else
    { st with index := st.index - st.pidx + 1, pidx := 0, bonus := 0 }

/-- One iteration of the scanning loop. -/
def exStep (cfg : Cfg) (cs norm fwd boundary : Bool) (t p : Text) (st : EX) : M EX := do
  let r ← exDecide cfg cs norm fwd boundary t p st
  pure (exNext p.size st r.1 r.2)

/-- The loop: stops when a boundary-bonus occurrence was found or the text is exhausted. -/
def exLoop (cfg : Cfg) (cs norm fwd boundary : Bool) (t p : Text) : Nat → EX → M EX
  | 0, st => pure st
  | fuel + 1, st =>
    if st.done || st.index ≥ t.size then pure st
    else do
      let st' ← exStep cfg cs norm fwd boundary t p st
      exLoop cfg cs norm fwd boundary t p fuel st'

/-- Is there an underscore at `j` (asked only when `cond` says the position exists)? -/
def underscoreAt (t : Text) (cond : Bool) (j : Nat) : M Bool :=
  if cond then do
    let c ← get t (j : Nat) "exact score"
    pure (c == 95)
  else pure false

/-- The score ExactMatchBoundary gives: the boundary bonus, reduced when the occurrence is
    delimited by underscores, plus 16 and the whitespace bonus per character. -/
def exBoundaryScore (cfg : Cfg) (t : Text) (bonus : Int) (sidx eidx m : Nat) : M Int := do
  let u1 ← underscoreAt t (sidx > 0) (sidx - 1)
  let u2 ← underscoreAt t (eidx < t.size) eidx
  let deduct0 : Int := (bonus - bonusBoundary) + 1
  let score1 : Int := if u1 then bonus - (deduct0 + 1) else bonus
  let deduct1 : Int := if u1 then 1 else deduct0
  let score2 : Int := if u2 then score1 - deduct1 else score1
  pure (score2 + scoreMatch * m + cfg.sch.bWhite * (m + 1))

/-- The range the best occurrence occupies in the text. -/
def exRange (fwd : Bool) (n m bestPos : Nat) : Nat × Nat :=
  if fwd then (bestPos + 1 - m, bestPos + 1) else (n - (bestPos + 1), n - (bestPos + 1 - m))

def exFinish (cfg : Cfg) (cs norm fwd boundary : Bool) (t p : Text) (st : EX) : M Res :=
  match st.bestPos with
  | Option.none => pure Res.none
  | some bestPos =>
    let r := exRange fwd t.size p.size bestPos
    if boundary then do
      let score ← exBoundaryScore cfg t st.bonus r.1 r.2 p.size
      pure ⟨r.1, r.2, score, Option.none⟩
    else do
      let sc ← calculateScore cfg cs norm t p r.1 r.2 false
      pure ⟨r.1, r.2, sc.1, Option.none⟩

def exactNaive (cfg : Cfg) (cs norm fwd boundary : Bool) (t : Text) (isBytes : Bool) (p : Text) : M Res :=
  if p.size == 0 then pure ⟨0, 0, 0, Option.none⟩
  else if t.size < p.size then pure Res.none
  else if (asciiFuzzyIndex t isBytes p cs).isNone then pure Res.none
  else do
    -- the Go loop moves `index` back on a mismatch; it visits at most n*(m+1) positions
    let st ← exLoop cfg cs norm fwd boundary t p (t.size * (p.size + 1) + 1) {}
    exFinish cfg cs norm fwd boundary t p st

end Fzf.Algo
