import Fzf.Base.Str
/-
Model of the quoting used for command templates (src/util/util_unix.go `QuoteEntry`) and for
re-launching fzf inside tmux (src/proxy.go `escapeSingleQuote`). Strings are byte strings.
-/
namespace Fzf.Quote
open Fzf

/-- `strings.NewReplacer("'", "'\\''").Replace`. -/
def escPosix (s : Str) : Str := s.flatMap fun c => if c = 39 then [39, 92, 39, 39] else [c]

/-- POSIX `QuoteEntry` and `escapeSingleQuote`: `'` + s with `'` ↦ `'\''` + `'`. -/
def quoteEntry (s : Str) : Str := 39 :: escPosix s ++ [39]

/-- fish: `strings.NewReplacer("\\", "\\\\", "'", "\\'")`. -/
def escFish (s : Str) : Str := s.flatMap fun c => if c = 92 then [92, 92] else if c = 39 then [92, 39] else [c]

def quoteEntryFish (s : Str) : Str := 39 :: escFish s ++ [39]

end Fzf.Quote
