import Fzf.Base.Str
/-
Model of src/algo/algo.go (all match functions) — the functional layer ("L2" in DESIGN.md):
texts and patterns are arrays of runes, scores are integers with explicit int16 wrapping
where the Go code stores into int16, and every index expression that could panic in Go is a
checked access in `Except String`.  Scratch memory (the slab) does not appear here: the
array-faithful layer that carves `H0 C0 B F T H C` out of a slab with arbitrary initial
contents is `Fzf/Model/AlgoSlab.lean`.

External to the model (parameters): the Go `unicode` tables (`Unicode`), the normalisation map
of `normalize.go` (`norm`), the scheme-dependent globals set by `algo.Init` (`Scheme`).
-/
namespace Fzf.Algo

/-- Go `unicode` package, as far as algo.go uses it. -/
structure Unicode where
  lower   : Nat → Nat    -- unicode.ToLower = unicode.To(unicode.LowerCase, ·)
  isSpace : Nat → Bool   -- unicode.IsSpace
  classNA : Nat → Nat    -- charClassOfNonAscii (0 white,1 nonWord,2 delim,3 lower,4 upper,5 letter,6 number)

/-- Globals assigned by `algo.Init(scheme)`. -/
structure Scheme where
  bWhite    : Int       -- bonusBoundaryWhite
  bDelim    : Int       -- bonusBoundaryDelimiter
  initClass : Nat       -- initialCharClass
  delims    : List Nat  -- delimiterChars
deriving Repr, DecidableEq

def schemeDefault : Scheme := ⟨10, 9, 0, [47, 44, 58, 59, 124]⟩
def schemePath    : Scheme := ⟨8, 9, 2, [47]⟩
def schemeHistory : Scheme := ⟨8, 8, 0, [47, 44, 58, 59, 124]⟩

structure Cfg where
  U    : Unicode
  sch  : Scheme
  norm : Nat → Nat       -- normalizeRune

/-- `normalizeRune` over the map of normalize.go (`tbl`, regenerated into `Fzf.Generated`). -/
def normalizeRune (tbl : List (Nat × Nat)) (r : Nat) : Nat :=
  if r < 0x00C0 ∨ r > 0x2184 then r
  else match tbl.lookup r with
    | some n => if n > 0 then n else r
    | none => r

-- character classes
abbrev cWhite := 0
abbrev cNonWord := 1
abbrev cDelim := 2
abbrev cLower := 3
abbrev cUpper := 4
abbrev cLetter := 5
abbrev cNumber := 6

-- scoring constants (algo.go `const` block)
abbrev scoreMatch : Int := 16
abbrev scoreGapStart : Int := -3
abbrev scoreGapExtension : Int := -1
abbrev bonusBoundary : Int := 8
abbrev bonusNonWord : Int := 8
abbrev bonusCamel123 : Int := 7
abbrev bonusConsecutive : Int := 4
abbrev bonusFirstCharMultiplier : Int := 2

/-- const whiteChars = " \t\n\v\f\r\x85\xA0" restricted to ASCII. -/
def whiteAscii : List Nat := [32, 9, 10, 11, 12, 13]

/-- `asciiCharClasses[c]` as computed by `Init`. -/
def asciiClass (sch : Scheme) (c : Nat) : Nat :=
  if 97 ≤ c ∧ c ≤ 122 then cLower
  else if 65 ≤ c ∧ c ≤ 90 then cUpper
  else if 48 ≤ c ∧ c ≤ 57 then cNumber
  else if whiteAscii.contains c then cWhite
  else if sch.delims.contains c then cDelim
  else cNonWord

def charClassOf (cfg : Cfg) (c : Nat) : Nat :=
  if c ≤ 127 then asciiClass cfg.sch c else cfg.U.classNA c

/-- `bonusFor(prevClass, class)` (= `bonusMatrix[prev][class]`). -/
def bonusFor (sch : Scheme) (prev cls : Nat) : Int :=
  if cls > cNonWord ∧ prev = cWhite then sch.bWhite
  else if cls > cNonWord ∧ prev = cDelim then sch.bDelim
  else if cls > cNonWord ∧ prev = cNonWord then bonusBoundary
  else if (prev = cLower ∧ cls = cUpper) ∨ (prev ≠ cNumber ∧ cls = cNumber) then bonusCamel123
  else if cls = cNonWord ∨ cls = cDelim then bonusNonWord
  else if cls = cWhite then sch.bWhite
  else 0

/-- int16 wrap-around. -/
def w16 (x : Int) : Int := (x + 32768) % 65536 - 32768

def max16 (a b : Int) : Int := if a ≥ b then a else b

abbrev Text := Array Nat

structure Res where
  start : Int
  stop  : Int
  score : Int
  pos   : Option (List Nat)   -- nil pointer = none
deriving Repr, DecidableEq, Inhabited

def Res.none : Res := ⟨-1, -1, 0, Option.none⟩

abbrev M := Except String

def get (a : Array α) (i : Int) (what : String) : M α :=
  if i < 0 then .error s!"index out of range [{i}] ({what})"
  else match a[i.toNat]? with
    | some v => pure v
    | none => .error s!"index out of range [{i}] with length {a.size} ({what})"

/-- Case folding used by V1, exact, calculateScore (partially inlined unicode.ToLower). -/
def lowerRune (cfg : Cfg) (c : Nat) : Nat :=
  if 65 ≤ c ∧ c ≤ 90 then c + 32 else if c > 127 then cfg.U.lower c else c

def foldRune (cfg : Cfg) (cs norm : Bool) (c : Nat) : Nat :=
  let c := if cs then c else lowerRune cfg c
  if norm then cfg.norm c else c

def indexAt (index max : Nat) (forward : Bool) : Nat :=
  if forward then index else max - index - 1

def bonusAt (cfg : Cfg) (t : Text) (idx : Nat) : M Int :=
  if idx = 0 then pure cfg.sch.bWhite
  else do
    let a ← get t (idx - 1 : Nat) "bonusAt"
    let b ← get t idx "bonusAt"
    pure (bonusFor cfg.sch (charClassOf cfg a) (charClassOf cfg b))

/-! ### asciiFuzzyIndex -/

/-- `trySkip`: first index ≥ `frm` holding `b` (or its upper case when folding). -/
def trySkip (t : Text) (cs : Bool) (b : Nat) (frm : Nat) : Option Nat :=
  let up := !cs && 97 ≤ b && b ≤ 122
  let rec go (i : Nat) (fuel : Nat) : Option Nat :=
    match fuel with
    | 0 => none
    | fuel + 1 =>
      if h : i < t.size then
        let c := t[i]
        if c == b || (up && c == b - 32) then some i else go (i + 1) fuel
      else none
  go frm (t.size - frm)

def isAsciiPat (p : Text) : Bool := p.all (· < 128)

/-- `asciiFuzzyIndex`; `none` = (-1,-1). Only called with a non-empty pattern. -/
def asciiFuzzyIndex (t : Text) (isBytes : Bool) (p : Text) (cs : Bool) : Option (Nat × Nat) :=
  if !isBytes then some (0, t.size)
  else if !isAsciiPat p then none
  else
    let rec loop (pidx idx firstIdx lastIdx : Nat) (fuel : Nat) : Option (Nat × Nat) :=
      match fuel with
      | 0 => some (firstIdx, lastIdx)
      | fuel + 1 =>
        match trySkip t cs (p.getD pidx 0) idx with
        | none => none
        | some i =>
          let firstIdx := if pidx == 0 && i > 0 then i - 1 else firstIdx
          loop (pidx + 1) (i + 1) firstIdx i fuel
    match loop 0 0 0 0 p.size with
    | none => none
    | some (firstIdx, lastIdx) =>
      let b := p.getD (p.size - 1) 0
      let bu := if !cs && 97 ≤ b && b ≤ 122 then b - 32 else b
      -- last appearance of the last pattern character, strictly after lastIdx
      let rec back (off : Nat) : Nat :=
        match off with
        | 0 => lastIdx + 1
        | off' + 1 =>
          let c := t.getD (lastIdx + off) 0
          if c == b || c == bu then lastIdx + off + 1 else back off'
      some (firstIdx, back (t.size - lastIdx - 1))

/-! ### calculateScore -/

structure CS where
  pidx : Nat := 0
  score : Int := 0
  inGap : Bool := false
  consecutive : Nat := 0
  firstBonus : Int := 0
  prevClass : Nat
  pos : List Nat := []   -- reversed

/-- One position of the scoring walk. -/
def calcStep (cfg : Cfg) (cs norm : Bool) (t p : Text) (withPos : Bool) (st : CS) (idx : Nat) : M CS := do
  let c0 ← get t idx "calculateScore text"
  let cls := charClassOf cfg c0
  let c := foldRune cfg cs norm c0
  let pc ← get p st.pidx "calculateScore pattern"
  if c == pc then
    let bonus0 := bonusFor cfg.sch st.prevClass cls
    let (bonus, fb) :=
      if st.consecutive == 0 then (bonus0, bonus0)
      else
        let fb := if bonus0 ≥ bonusBoundary ∧ bonus0 > st.firstBonus then bonus0 else st.firstBonus
        (max16 (max16 bonus0 fb) bonusConsecutive, fb)
    let add := if st.pidx == 0 then w16 (bonus * bonusFirstCharMultiplier) else bonus
    pure { st with score := st.score + scoreMatch + add, firstBonus := fb, inGap := false,
                   consecutive := st.consecutive + 1, pidx := st.pidx + 1,
                   pos := if withPos then idx :: st.pos else st.pos, prevClass := cls }
  else
    pure { st with score := st.score + (if st.inGap then scoreGapExtension else scoreGapStart),
                   inGap := true, consecutive := 0, firstBonus := 0, prevClass := cls }

def calculateScore (cfg : Cfg) (cs norm : Bool) (t p : Text) (sidx eidx : Nat) (withPos : Bool) :
    M (Int × Option (List Nat)) := do
  let prev0 ← if sidx > 0 then (do let c ← get t (sidx - 1 : Nat) "calculateScore"; pure (charClassOf cfg c))
              else pure cfg.sch.initClass
  let st ← ((List.range (eidx - sidx)).map (sidx + ·)).foldlM (calcStep cfg cs norm t p withPos) { prevClass := prev0 }
  pure (st.score, if withPos then some st.pos.reverse else Option.none)

/-! ### FuzzyMatchV1 -/

/-- The forward scan of FuzzyMatchV1 over the positions `idxs` (in scan order): the number of
    pattern characters found, the position of the first one, and — as soon as the whole pattern was
    found — one past the position of the last one. -/
def v1Forward (cfg : Cfg) (cs norm fwd : Bool) (t p : Text) : List Nat → Nat → Option Nat → M (Nat × Option Nat × Option Nat)
  | [], pidx, sidx => pure (pidx, sidx, Option.none)
  | index :: rest, pidx, sidx => do
    let c0 ← get t (indexAt index t.size fwd) "v1"
    let pc ← get p (indexAt pidx p.size fwd) "v1 pattern"
    if foldRune cfg cs norm c0 == pc then
      let sidx := if sidx.isNone then some index else sidx
      if pidx + 1 == p.size then pure (pidx + 1, sidx, some (index + 1))
      else v1Forward cfg cs norm fwd t p rest (pidx + 1) sidx
    else v1Forward cfg cs norm fwd t p rest pidx sidx

/-- The backward scan: from `e - 1` down, matching the pattern from its end; the position where
    the first pattern character is found again (`none` if the positions run out first). -/
def v1Backward (cfg : Cfg) (cs norm fwd : Bool) (t p : Text) : List Nat → Int → M (Option Nat)
  | [], _ => pure Option.none
  | index :: rest, bp => do
    let c0 ← get t (indexAt index t.size fwd) "v1 back"
    let pc ← get p (indexAt bp.toNat p.size fwd) "v1 back pattern"
    if foldRune cfg cs norm c0 == pc then
      if bp - 1 < 0 then pure (some index) else v1Backward cfg cs norm fwd t p rest (bp - 1)
    else v1Backward cfg cs norm fwd t p rest bp

def fuzzyMatchV1 (cfg : Cfg) (cs norm fwd : Bool) (t : Text) (isBytes : Bool) (p : Text) (withPos : Bool) : M Res := do
  if p.size == 0 then return ⟨0, 0, 0, Option.none⟩
  if (asciiFuzzyIndex t isBytes p cs).isNone then return Res.none
  let n := t.size
  let (pidx, sidx, eidx) ← v1Forward cfg cs norm fwd t p (List.range n) 0 Option.none
  match sidx, eidx with
  | some s, some e =>
    let back ← v1Backward cfg cs norm fwd t p ((List.range (e - s)).map (e - 1 - ·)) ((pidx : Int) - 1)
    let s := back.getD s
    let (s', e') := if fwd then (s, e) else (n - e, n - s)
    let (score, pos) ← calculateScore cfg cs norm t p s' e' withPos
    return ⟨s', e', score, pos⟩
  | _, _ => return Res.none

/-! ### exactMatchNaive (ExactMatchNaive / ExactMatchBoundary) -/

structure EX where
  index : Nat := 0
  pidx : Nat := 0
  bonus : Int := 0
  bestPos : Option Nat := Option.none
  bestBonus : Int := -1
  done : Bool := false

/- The scanning loop is written as a step function iterated with fuel, and the comparison, the
   transition and the final scoring as separate functions, so that invariants can be stated per
   step (Lemmas/Exact.lean). -/
/-- The bonus of the current attempt: taken at the term's first character. -/
def exBonus (cfg : Cfg) (t : Text) (pidx_ index_ : Nat) (cur : Int) : M Int :=
  if pidx_ == 0 then bonusAt cfg t index_ else pure cur

/-- ExactMatchBoundary: is the neighbour at `j` (if the text has one there) not a word character? -/
def exNbr (cfg : Cfg) (t : Text) (atEdge : Bool) (j : Nat) : M Bool :=
  if atEdge then pure true else do
    let c ← get t (j : Nat) "exact"
    pure (decide (charClassOf cfg c ≤ cDelim))

def exLeft (cfg : Cfg) (t : Text) (ok1 : Bool) (pidx_ index_ : Nat) : M Bool :=
  if ok1 && pidx_ == 0 then exNbr cfg t (index_ == 0) (index_ - 1) else pure ok1

def exRight (cfg : Cfg) (t : Text) (ok2 : Bool) (pidx_ index_ m : Nat) : M Bool :=
  if ok2 && pidx_ == m - 1 then exNbr cfg t (index_ == t.size - 1) (index_ + 1) else pure ok2

/-- The comparison of one iteration: does the text character at the scan position agree with the
    pattern character (and, for ExactMatchBoundary, do the boundary conditions hold at the first /
    last pattern character), and the bonus remembered for the current attempt. -/
def exDecide (cfg : Cfg) (cs norm fwd boundary : Bool) (t p : Text) (st : EX) : M (Bool × Int) := do
  let c0 ← get t (indexAt st.index t.size fwd) "exact"
  let pc ← get p (indexAt st.pidx p.size fwd) "exact pattern"
  if pc == foldRune cfg cs norm c0 then do
    let bonus ← exBonus cfg t (indexAt st.pidx p.size fwd) (indexAt st.index t.size fwd) st.bonus
    if boundary then do
      let ok2 ← exLeft cfg t (indexAt st.pidx p.size fwd > 0 || bonus ≥ bonusBoundary) (indexAt st.pidx p.size fwd) (indexAt st.index t.size fwd)
      let ok ← exRight cfg t ok2 (indexAt st.pidx p.size fwd) (indexAt st.index t.size fwd) p.size
      pure (ok, bonus)
    else pure (true, bonus)
  else pure (false, st.bonus)

/-- What the loop does with the verdict: advance inside the attempt, record a complete
    occurrence (and stop at one with a boundary bonus, else restart right after the attempt's
    start), or restart after a mismatch. Includes the loop's own `index++`. -/
def exNext (m : Nat) (st : EX) (ok : Bool) (bonus : Int) : EX :=
  if ok then
    let pidx := st.pidx + 1
    if pidx == m then
      let (bp, bb) := if bonus > st.bestBonus then (some st.index, bonus) else (st.bestPos, st.bestBonus)
      if bonus ≥ bonusBoundary then
        { st with pidx := pidx, bonus := bonus, bestPos := bp, bestBonus := bb, done := true }
      else
        { index := st.index - (pidx - 1) + 1, pidx := 0, bonus := 0, bestPos := bp, bestBonus := bb }
    else
      { st with index := st.index + 1, pidx := pidx, bonus := bonus }
  else
    { st with index := st.index - st.pidx + 1, pidx := 0, bonus := 0 }

/-- One iteration of the scanning loop. -/
def exStep (cfg : Cfg) (cs norm fwd boundary : Bool) (t p : Text) (st : EX) : M EX := do
  let r ← exDecide cfg cs norm fwd boundary t p st
  pure (exNext p.size st r.1 r.2)

/-- The loop: stops when a boundary-bonus occurrence was found or the text is exhausted. -/
def exLoop (cfg : Cfg) (cs norm fwd boundary : Bool) (t p : Text) : Nat → EX → M EX
  | 0, st => pure st
  | fuel + 1, st =>
    if st.done || st.index ≥ t.size then pure st
    else do
      let st' ← exStep cfg cs norm fwd boundary t p st
      exLoop cfg cs norm fwd boundary t p fuel st'

/-- Is there an underscore at `j` (asked only when `cond` says the position exists)? -/
def underscoreAt (t : Text) (cond : Bool) (j : Nat) : M Bool :=
  if cond then do
    let c ← get t (j : Nat) "exact score"
    pure (c == 95)
  else pure false

/-- The score ExactMatchBoundary gives: the boundary bonus, reduced when the occurrence is
    delimited by underscores, plus 16 and the whitespace bonus per character. -/
def exBoundaryScore (cfg : Cfg) (t : Text) (bonus : Int) (sidx eidx m : Nat) : M Int := do
  let u1 ← underscoreAt t (sidx > 0) (sidx - 1)
  let u2 ← underscoreAt t (eidx < t.size) eidx
  let deduct0 : Int := (bonus - bonusBoundary) + 1
  let score1 : Int := if u1 then bonus - (deduct0 + 1) else bonus
  let deduct1 : Int := if u1 then 1 else deduct0
  let score2 : Int := if u2 then score1 - deduct1 else score1
  pure (score2 + scoreMatch * m + cfg.sch.bWhite * (m + 1))

/-- The range the best occurrence occupies in the text. -/
def exRange (fwd : Bool) (n m bestPos : Nat) : Nat × Nat :=
  if fwd then (bestPos + 1 - m, bestPos + 1) else (n - (bestPos + 1), n - (bestPos + 1 - m))

def exFinish (cfg : Cfg) (cs norm fwd boundary : Bool) (t p : Text) (st : EX) : M Res :=
  match st.bestPos with
  | Option.none => pure Res.none
  | some bestPos =>
    let r := exRange fwd t.size p.size bestPos
    if boundary then do
      let score ← exBoundaryScore cfg t st.bonus r.1 r.2 p.size
      pure ⟨r.1, r.2, score, Option.none⟩
    else do
      let sc ← calculateScore cfg cs norm t p r.1 r.2 false
      pure ⟨r.1, r.2, sc.1, Option.none⟩

def exactMatchNaive (cfg : Cfg) (cs norm fwd boundary : Bool) (t : Text) (isBytes : Bool) (p : Text) : M Res :=
  if p.size == 0 then pure ⟨0, 0, 0, Option.none⟩
  else if t.size < p.size then pure Res.none
  else if (asciiFuzzyIndex t isBytes p cs).isNone then pure Res.none
  else do
    -- the Go loop moves `index` back on a mismatch; it visits at most n*(m+1) positions
    let st ← exLoop cfg cs norm fwd boundary t p (t.size * (p.size + 1) + 1) {}
    exFinish cfg cs norm fwd boundary t p st

/-! ### PrefixMatch / SuffixMatch / EqualMatch -/

def leadingWhitespaces (cfg : Cfg) (t : Text) : Nat :=
  (t.toList.takeWhile cfg.U.isSpace).length

def trailingWhitespaces (cfg : Cfg) (t : Text) : Nat :=
  (t.toList.reverse.takeWhile cfg.U.isSpace).length

/-- `unicode.ToLower` for every rune. -/
def toLower (cfg : Cfg) (c : Nat) : Nat :=
  if c ≤ 127 then (if 65 ≤ c ∧ c ≤ 90 then c + 32 else c) else cfg.U.lower c

def foldTL (cfg : Cfg) (cs norm : Bool) (c : Nat) : Nat :=
  let c := if cs then c else toLower cfg c
  if norm then cfg.norm c else c

/-- Compare the pattern with the text at offset `off`, position by position in the order `is`;
    `ok c pc` decides one position. Stops at the first mismatch. -/
def cmpAt (ok : Nat → Nat → Bool) (t p : Text) (off : Nat) : List Nat → M Bool
  | [] => pure true
  | i :: is => do
    let c0 ← get t (off + i : Nat) "compare"
    if ok c0 (p.getD i 0) then cmpAt ok t p off is else pure false

def prefixMatch (cfg : Cfg) (cs norm : Bool) (t p : Text) : M Res := do
  if p.size == 0 then return ⟨0, 0, 0, Option.none⟩
  let trimmedLen := if !cfg.U.isSpace (p.getD 0 0) then leadingWhitespaces cfg t else 0
  if (t.size : Int) - trimmedLen < p.size then return Res.none
  if !(← cmpAt (fun c pc => foldTL cfg cs norm c == pc) t p trimmedLen (List.range p.size)) then return Res.none
  let (score, _) ← calculateScore cfg cs norm t p trimmedLen (trimmedLen + p.size) false
  return ⟨trimmedLen, trimmedLen + p.size, score, Option.none⟩

def suffixMatch (cfg : Cfg) (cs norm : Bool) (t p : Text) : M Res := do
  let n := t.size
  let trimmedLen : Nat :=
    if p.size == 0 || !cfg.U.isSpace (p.getD (p.size - 1) 0) then n - trailingWhitespaces cfg t else n
  if p.size == 0 then return ⟨trimmedLen, trimmedLen, 0, Option.none⟩
  if trimmedLen < p.size then return Res.none
  let diff := trimmedLen - p.size
  if !(← cmpAt (fun c pc => foldTL cfg cs norm c == pc) t p diff (List.range p.size)) then return Res.none
  let (score, _) ← calculateScore cfg cs norm t p diff trimmedLen false
  return ⟨diff, trimmedLen, score, Option.none⟩

/-- The comparison EqualMatch applies to one character (its two loops differ in whether both sides
    are normalised). -/
def equalOk (cfg : Cfg) (cs norm : Bool) (c pc : Nat) : Bool :=
  if norm then cfg.norm pc == cfg.norm (if cs then c else toLower cfg c) else pc == (if cs then c else toLower cfg c)

def equalMatch (cfg : Cfg) (cs norm : Bool) (t p : Text) : M Res := do
  let m := p.size
  if m == 0 then return Res.none
  let trimmedLen := if !cfg.U.isSpace (p.getD 0 0) then leadingWhitespaces cfg t else 0
  let trimmedEndLen := if !cfg.U.isSpace (p.getD (m - 1) 0) then trailingWhitespaces cfg t else 0
  if (t.size : Int) - trimmedLen - trimmedEndLen != m then return Res.none
  let isMatch ← cmpAt (equalOk cfg cs norm) t p trimmedLen (List.range m)
  if isMatch then
    return ⟨trimmedLen, trimmedLen + m,
      (scoreMatch + cfg.sch.bWhite) * m + (bonusFirstCharMultiplier - 1) * cfg.sch.bWhite, Option.none⟩
  return Res.none

/-! ### FuzzyMatchV2 (functional layer) -/

/-- Output of phase 2 over the window `T = text[minIdx:maxIdx]`. -/
structure P2 where
  T  : Array Nat := #[]     -- folded runes
  B  : Array Int := #[]
  H0 : Array Int := #[]
  C0 : Array Int := #[]
  F  : Array Nat := #[]
  pidx : Nat := 0
  lastIdx : Nat := 0
  pchar : Nat
  prevH0 : Int := 0
  prevClass : Nat
  inGap : Bool := false
  maxScore : Int := 0
  maxScorePos : Nat := 0
  stop : Bool := false

/-- V2's own folding of a text rune (ASCII: only class `upper` is shifted; otherwise
    `unicode.To(LowerCase, ·)`, then normalisation). Returns (class, folded rune). -/
def v2Fold (cfg : Cfg) (cs norm : Bool) (c : Nat) : Nat × Nat :=
  if c ≤ 127 then
    let cls := asciiClass cfg.sch c
    (cls, if !cs && cls == cUpper then c + 32 else c)
  else
    let cls := cfg.U.classNA c
    let c := if !cs then cfg.U.lower c else c
    (cls, if norm then cfg.norm c else c)

/-- One iteration of the phase-2 loop over the window (written as a function of the state so that
    invariants can be stated per step: Lemmas/V2Decides.lean). -/
def phase2Step (cfg : Cfg) (cs norm fwd : Bool) (p : Text) (st : P2) (c0 : Nat) : P2 :=
  let m := p.size
  let pchar0 := p.getD 0 0
  if st.stop then
    -- after `break` the remaining cells keep whatever they held: the functional layer
    -- records them as 0 and never reads them (M = 1 returns straight after the loop)
    { st with T := st.T.push c0, B := st.B.push 0, H0 := st.H0.push 0, C0 := st.C0.push 0 }
  else
    let off := st.T.size
    let fc := v2Fold cfg cs norm c0
    let cls := fc.1
    let c := fc.2
    let bonus := bonusFor cfg.sch st.prevClass cls
    let s0 : P2 := { st with T := st.T.push c, B := st.B.push bonus, prevClass := cls }
    let s1 : P2 :=
      if c == s0.pchar then
        let s := if s0.pidx < m then
            { s0 with F := s0.F.push off, pidx := s0.pidx + 1, pchar := p.getD (min (s0.pidx + 1) (m - 1)) 0 }
          else s0
        { s with lastIdx := off }
      else s0
    if c == pchar0 then
      let score := w16 (scoreMatch + w16 (bonus * bonusFirstCharMultiplier))
      let s2 : P2 := { s1 with H0 := s1.H0.push score, C0 := s1.C0.push 1, inGap := false, prevH0 := score }
      if m == 1 && ((fwd && score > s2.maxScore) || (!fwd && score ≥ s2.maxScore)) then
        let s3 : P2 := { s2 with maxScore := score, maxScorePos := off }
        if fwd && bonus ≥ bonusBoundary then { s3 with stop := true } else s3
      else s2
    else
      let h := if s1.inGap then max16 (w16 (s1.prevH0 + scoreGapExtension)) 0
               else max16 (w16 (s1.prevH0 + scoreGapStart)) 0
      { s1 with H0 := s1.H0.push h, C0 := s1.C0.push 0, inGap := true, prevH0 := h }

def phase2 (cfg : Cfg) (cs norm fwd : Bool) (win : Array Nat) (p : Text) : P2 :=
  win.toList.foldl (phase2Step cfg cs norm fwd p) { pchar := p.getD 0 0, prevClass := cfg.sch.initClass }

/-- One row of phase 3. `prevH`/`prevC` are row `i-1`, all rows have `width` cells for the
    columns `f0 .. lastIdx`; cells that the Go code does not write are 0 here. -/
def phase3Row (fwd : Bool) (p2 : P2) (f0 width : Nat) (isLast : Bool) (pchar : Nat) (f : Nat)
    (prevH prevC : Array Int) (maxScore : Int) (maxScorePos : Nat) :
    Array Int × Array Int × Int × Nat := Id.run do
  let mut H : Array Int := Array.replicate width 0
  let mut C : Array Int := Array.replicate width 0
  let mut inGap := false
  let mut ms := maxScore
  let mut mp := maxScorePos
  for k in [0:p2.lastIdx + 1 - f] do
    let col := f + k
    let j0 := col - f0
    let hleft := if k == 0 then 0 else H.getD (j0 - 1) 0
    let s2 := w16 (hleft + (if inGap then scoreGapExtension else scoreGapStart))
    let mut s1 : Int := 0
    let mut consecutive : Int := 0
    if pchar == p2.T.getD col 0 then
      s1 := w16 (prevH.getD (j0 - 1) 0 + scoreMatch)
      let mut b := p2.B.getD col 0
      consecutive := w16 (prevC.getD (j0 - 1) 0 + 1)
      if consecutive > 1 then
        let fb := p2.B.getD (col + 1 - consecutive.toNat) 0
        if b ≥ bonusBoundary ∧ b > fb then consecutive := 1
        else b := max16 b (max16 bonusConsecutive fb)
      if w16 (s1 + b) < s2 then
        s1 := w16 (s1 + p2.B.getD col 0)
        consecutive := 0
      else
        s1 := w16 (s1 + b)
    C := C.set! j0 consecutive
    inGap := s1 < s2
    let score := max16 (max16 s1 s2) 0
    if isLast && ((fwd && score > ms) || (!fwd && score ≥ ms)) then
      ms := score
      mp := col
    H := H.set! j0 score
  return (H, C, ms, mp)

/-- `slabCap = none`: nil slab; `some cap`: `cap(slab.I16)`. -/
def fuzzyMatchV2 (cfg : Cfg) (cs norm fwd : Bool) (t : Text) (isBytes : Bool) (p : Text) (withPos : Bool)
    (slabCap : Option Nat) : M Res := do
  let m := p.size
  if m == 0 then return ⟨0, 0, 0, if withPos then some [] else Option.none⟩
  let n := t.size
  if m > n then return Res.none
  if let some cap := slabCap then
    if n * m > cap then return ← fuzzyMatchV1 cfg cs norm fwd t isBytes p withPos
  match asciiFuzzyIndex t isBytes p cs with
  | Option.none => return Res.none
  | some (minIdx, maxIdx) =>
    let p2 := phase2 cfg cs norm fwd (t.extract minIdx maxIdx) p
    if p2.pidx != m then return Res.none
    if m == 1 then
      return ⟨minIdx + p2.maxScorePos, minIdx + p2.maxScorePos + 1, p2.maxScore,
              if withPos then some [minIdx + p2.maxScorePos] else Option.none⟩
    let f0 := p2.F.getD 0 0
    let width := p2.lastIdx - f0 + 1
    let mut Hs : Array (Array Int) := #[p2.H0.extract f0 (p2.lastIdx + 1)]
    let mut Cs : Array (Array Int) := #[p2.C0.extract f0 (p2.lastIdx + 1)]
    let mut ms := p2.maxScore
    let mut mp := p2.maxScorePos
    for i in [1:m] do
      let (H, C, ms', mp') := phase3Row fwd p2 f0 width (i == m - 1) (p.getD i 0) (p2.F.getD i 0)
        (Hs.getD (i - 1) #[]) (Cs.getD (i - 1) #[]) ms mp
      Hs := Hs.push H
      Cs := Cs.push C
      ms := ms'
      mp := mp'
    if !withPos then
      return ⟨minIdx + f0, minIdx + mp + 1, ms, Option.none⟩
    -- Phase 4: backtrace
    let cell (A : Array (Array Int)) (i j : Int) (what : String) : M Int := do
      -- flat index I + j0 into an array of m*width cells
      let idx := i * width + (j - f0)
      if idx < 0 ∨ idx ≥ m * width then .error s!"index out of range [{idx}] with length {m * width} ({what})"
      else pure ((A.getD (idx / width).toNat #[]).getD (idx % width).toNat 0)
    let mut pos : List Nat := []
    let mut i : Int := m - 1
    let mut j : Int := mp
    let mut preferMatch := true
    let mut fin := false
    for _ in [0:n + m + 2] do
      if fin then break
      let s ← cell Hs i j "H[I+j0]"
      let fi := (p2.F.getD i.toNat 0 : Int)
      let s1 ← if i > 0 ∧ j ≥ fi then cell Hs (i - 1) (j - 1) "H[I-width+j0-1]" else pure 0
      let s2 ← if j > fi then cell Hs i (j - 1) "H[I+j0-1]" else pure 0
      let i0 := i
      -- C[i+1][j+1] is filled in only if F[i+1] ≤ j+1 ≤ lastIdx
      let next : Bool := i + 1 < m && j + 1 ≥ (p2.F.getD (i + 1).toNat 0 : Int) && j < p2.lastIdx
      if s > s1 ∧ (s > s2 ∨ (s == s2 ∧ preferMatch)) then
        pos := pos ++ [(j + minIdx).toNat]
        if i == 0 then
          fin := true
          continue
        i := i - 1
      let c ← cell Cs i0 j "C[I+j0]"
      let c2 ← if next then cell Cs (i0 + 1) (j + 1) "C[I+width+j0+1]" else pure 0
      preferMatch := c > 1 || (next && c2 > 0)
      j := j - 1
    if !fin then .error "backtrace did not terminate"
    return ⟨minIdx + j, minIdx + mp + 1, ms, some pos⟩

end Fzf.Algo
