import Fzf.Lemmas.Render
import Fzf.Generated.GoFuncs
/-
C15 — the screen shows the actual state.
Property theorems only (helper lemmas: Fzf/Lemmas/Render.lean).
-/
namespace Fzf.Props.C15
open Fzf Fzf.Terminal Fzf.Render

/-- **A line that fits is shown complete**, whatever the match, the scroll options or the ellipsis. -/
theorem C15_fits_shown_complete (o : ROpts) (mw : Nat) (line : Str) (maxe : Nat) (hasPos : Bool)
    (h : line.length ≤ mw) : fit o mw line maxe hasPos = line :=
  fit_of_le o mw line maxe hasPos h

/-- **A line that does not fit is never drawn wider than the room it has**: for every window width,
    ellipsis, scroll offset, match position and scroll mode the truncated text occupies at most
    `mw` columns (and exactly `mw` once the ellipsis fits in half of them). -/
theorem C15_width_le (o : ROpts) (mw : Nat) (line : Str) (maxe : Nat) (hasPos : Bool) :
    (fit o mw line maxe hasPos).length ≤ mw :=
  fit_length_le o mw line maxe hasPos

/-- The same bound stated for the whole row: every row of the screen has exactly `W` cells. -/
theorem C15_row_width (o : ROpts) (r : RowIn) : (itemRow o r).length = o.W := by
  simp [itemRow, rowOf, blanks]

/-- **What a truncated row consists of**: nothing but the ellipsis and one contiguous slice of the
    line — `slice ++ ellipsis`, `ellipsis ++ slice` or `ellipsis ++ slice ++ ellipsis`. -/
theorem C15_truncation_is_slice (o : ROpts) (mw : Nat) (line : Str) (maxe : Nat) (hasPos : Bool)
    (h : mw < line.length) :
    ∃ pre slice suf, fit o mw line maxe hasPos = pre ++ slice ++ suf ∧ slice <:+: line ∧
      (pre = [] ∨ pre = o.ellipsis.take (mw / 2)) ∧ (suf = [] ∨ suf = o.ellipsis.take (mw / 2)) :=
  fit_is_slice o mw line maxe hasPos h

/-- **Pointer and marker**: the row of a result starts with the pointer exactly when it is the
    current one and continues with the marker exactly when it is selected (blank cells of the
    same width otherwise), followed by the fitted text. -/
theorem C15_row_faithful (o : ROpts) (r : RowIn) (hw : ind o + 1 < o.W) :
    itemCells o r =
      (if r.current then o.pointer else blanks o.pointer.length) ++
      (if r.selected then o.marker else blanks o.marker.length) ++
      fit o (o.W - (ind o + 1)) r.text r.maxe r.hasPos := by
  unfold itemCells
  have : o.W - (ind o + 1) > 0 := by omega
  simp [this]

/-- **The screen has the size of the window** in every layout. -/
theorem C15_screen_height (o : ROpts) (v : View) (hroom : promptLines o + o.header0.length + o.headerItems.length ≤ o.H) :
    (fullRender o v).length = o.H :=
  fullRender_length o v hroom

/-- **Order and direction by layout**: the `k`-th visible result is drawn `k` rows below the
    header block with `--layout=reverse`, `k` rows above it in the default layout (counting from
    the bottom), and `k` rows below the top header lines with `--layout=reverse-list`. Header
    lines and list rows never share a row. -/
theorem C15_order_by_layout (o : ROpts) (v : View) (k : Nat) (hk : k < maxItems o)
    (hroom : promptLines o + o.header0.length + o.headerItems.length ≤ o.H) :
    let fixed := promptLines o + o.header0.length + o.headerItems.length
    (o.layout = .reverse → (fullRender o v)[fixed + k]? = (listRows o v)[k]?) ∧
    (o.layout = .default → (fullRender o v)[o.H - 1 - (fixed + k)]? = (listRows o v)[k]?) ∧
    (o.layout = .reverseList → (fullRender o v)[o.headerItems.length + k]? = (listRows o v)[k]?) :=
  fullRender_list_row o v k hk hroom

/-- The `k`-th list row is the row of the `k`-th visible result. -/
theorem C15_list_row (o : ROpts) (v : View) (k : Nat) (hk : k < maxItems o) (r : RowIn) (hr : v.rows[k]? = some r) :
    (listRows o v)[k]? = some (itemRow o r) :=
  listRows_get o v k hk r hr

/-- **Incremental repaint = full repaint.** Repainting a row over what it showed before — erasing
    only as far as the previous text reached, as `printItem` does — gives exactly the row a redraw
    from scratch gives, and re-establishes the invariant for the next repaint. Holds for every
    previous content satisfying the invariant, every window width and every pair of old / new
    lines. -/
theorem C15_incremental_eq_full (o : ROpts) (old : Str) (prev : Prev) (r : RowIn)
    (hinv : RowInv o old prev) :
    (paintItemRow o old prev r).1 = itemRow o r ∧ RowInv o (paintItemRow o old prev r).1 (paintItemRow o old prev r).2 :=
  paint_eq_full o old prev r hinv

/-- … hence for any history of repaints of a row, starting from a blank row. -/
theorem C15_incremental_history (o : ROpts) (rs : List RowIn) (r : RowIn) :
    ((rs ++ [r]).foldl (fun (acc : Str × Prev) x => paintItemRow o acc.1 acc.2 x) (blanks o.W, ⟨0⟩)).1 = itemRow o r := by
  have key : ∀ (rs : List RowIn) (acc : Str × Prev), RowInv o acc.1 acc.2 →
      RowInv o (rs.foldl (fun (acc : Str × Prev) x => paintItemRow o acc.1 acc.2 x) acc).1
               (rs.foldl (fun (acc : Str × Prev) x => paintItemRow o acc.1 acc.2 x) acc).2 := by
    intro rs
    induction rs with
    | nil => intro acc h; exact h
    | cons x xs ih => intro acc h; exact ih _ (paint_eq_full o acc.1 acc.2 x h).2
  rw [List.foldl_append]
  simp only [List.foldl_cons, List.foldl_nil]
  exact (paint_eq_full o _ _ r (key rs _ (rowInv_blank o))).1

/-- **When a repaint may be skipped.** A row is a function of the result's text, the positions the
    current *pattern* matches in it, and the current / selected flags. If all of these are as they
    were when the row was last painted, skipping the repaint is unobservable. (The pinned snapshot
    compared the *length* of the query instead of the pattern: finding F21.) -/
theorem C15_skip_sound (o : ROpts) (r₁ r₂ : RowIn) (h : r₁ = r₂) : itemRow o r₁ = itemRow o r₂ := by rw [h]

/-- Why the length of the query is not enough: the same line, ranked the same under two queries of
    equal length, is drawn differently (the window follows the match). -/
theorem C15_same_length_queries_differ :
    let o : ROpts := { W := 20, H := 10, layout := .default, info := .default, separator := true }
    let line : Str := [97, 98, 45] ++ List.replicate 30 120 ++ [32, 98, 97]
    itemRow o { text := line, maxe := 2, hasPos := true } ≠ itemRow o { text := line, maxe := 36, hasPos := true } := by
  decide

/-- **Prompt and counters**: the prompt line starts with the prompt followed by the query, and the
    info line carries `matched/total` (and the selection count under --multi). -/
theorem C15_prompt_shows_query (o : ROpts) (input : Str) (found total nsel : Nat)
    (hinfo : o.info ≠ .inline) (hinfo2 : o.info ≠ .inlineRight) (hp : o.prompt.length ≤ o.W - 2)
    (hfit : o.prompt.length + input.length ≤ o.W) :
    (promptRow o input found total nsel).take (o.prompt.length + input.length) = o.prompt ++ input :=
  promptRow_prefix o input found total nsel hinfo hinfo2 hp hfit

theorem C15_info_shows_counts (o : ROpts) (found total nsel : Nat) (hinfo : o.info = .default)
    (hfit : (infoText o found total nsel).length + 3 ≤ o.W) :
    ((infoRow o found total nsel).drop 2).take (infoText o found total nsel).length = infoText o found total nsel :=
  infoRow_counter o found total nsel hinfo hfit

/-- The width arithmetic uses `util.Max` / `util.Min` as translated from the source on every run:
    they are maximum and minimum. -/
theorem C15_max_min_are_source (a b : Int) :
    Generated.Go.Max a b = max a b ∧ Generated.Go.Min a b = min a b := by
  unfold Generated.Go.Max Generated.Go.Min
  constructor
  · by_cases h : a ≥ b <;> simp [h] <;> omega
  · by_cases h : a ≤ b <;> simp [h] <;> omega

/-- **A hidden input section takes no rows.** While the input section is hidden (--no-input,
    hide-input, toggle-input) neither the prompt row nor the info row is part of the screen: the
    fixed rows are the header lines only, and the list has all the other rows of the window. -/
theorem C15_hidden_input_rows (o : ROpts) (v : View) (h : o.inputless = true) :
    promptLines o = 0 ∧ inputRows o v = [] ∧
    logical o v = (if o.layout = .reverse then o.header0.map (headerRow o) else (o.header0.map (headerRow o)).reverse) ∧
    maxItems o = o.H - (o.header0.length + o.headerItems.length) := by
  have hp : promptLines o = 0 := by unfold promptLines; simp [h]
  have hi : inputRows o v = [] := by unfold inputRows; simp [h, hp]
  refine ⟨hp, hi, ?_, ?_⟩
  · unfold logical hdr0Rows; rw [hi]; simp
  · unfold maxItems; rw [hp]; omega

/-- … and a shown one takes the prompt row first: the row next to the edge the layout puts the
    prompt on is the prompt row. -/
theorem C15_shown_input_first_row (o : ROpts) (v : View) (h : o.inputless = false) :
    (logical o v).head? = some (promptRow o v.input v.found v.total v.nsel) ∧
    (inputRows o v).head? = some (promptRow o v.input v.found v.total v.nsel) := by
  unfold logical inputRows; simp [h]

/-- **--header-first moves the headers, not the list.** With or without --header-first the fixed
    rows (input section, --header, --header-lines) take the same number of rows, so every list row
    is where `C15_order_by_layout` puts it; with --header-first the rows next to the edge are the
    --header lines and the input section follows them (and the --header-lines in the layouts that
    keep them next to the list). -/
theorem C15_header_first (o : ROpts) (v : View) :
    (fixedBlock o v).length = promptLines o + o.header0.length + o.headerItems.length ∧
    (o.headerFirst = true → fixedBlock o v = hdr0Rows o ++ o.headerItems.map (headerRow o) ++ inputRows o v) ∧
    (o.headerFirst = false → fixedBlock o v = inputRows o v ++ hdr0Rows o ++ o.headerItems.map (headerRow o)) := by
  refine ⟨fixedBlock_length o v, ?_, ?_⟩
  · intro h; unfold fixedBlock; simp [h]
  · intro h; unfold fixedBlock logical; simp [h]

/-- **--info=inline-right**: the counter sits at the right end of the prompt row (one margin cell
    after it) and the prompt and the query are at its start — so an action that repaints the prompt
    row must paint both; with the separator the row below is the separator row and the list begins
    after it, without it the list begins right after the prompt row. -/
theorem C15_inline_right (o : ROpts) (input : Str) (found total nsel : Nat) (hinfo : o.info = .inlineRight)
    (hp : o.prompt.length ≤ o.W - 2)
    (hroom : o.prompt.length + input.length + 1 + (infoText o found total nsel).length + 3 ≤ o.W) :
    ((promptRow o input found total nsel).drop (o.W - (infoText o found total nsel).length - 1)).take
        (infoText o found total nsel).length = infoText o found total nsel ∧
    (promptRow o input found total nsel).take (o.prompt.length + input.length) = o.prompt ++ input ∧
    (o.inputless = false → promptLines o = if o.separator then 2 else 1) := by
  obtain ⟨h1, h2⟩ := promptRow_inlineRight o input found total nsel hinfo hp hroom
  refine ⟨h1, h2, fun hi => ?_⟩
  unfold promptLines noSepLine
  simp only [hi, hinfo]
  cases o.separator <;> simp

/-- **--info=right**: the counter sits at the right end of the info row (one margin cell after
    it), the separator — or blanks — before it; the row below the prompt is that row. -/
theorem C15_info_right (o : ROpts) (found total nsel : Nat) (hinfo : o.info = .right)
    (hroom : (infoText o found total nsel).length + 2 ≤ o.W) :
    ((infoRow o found total nsel).drop (o.W - (infoText o found total nsel).length - 1)).take
        (infoText o found total nsel).length = infoText o found total nsel ∧
    (infoRow o found total nsel).length = o.W ∧ (o.inputless = false → promptLines o = 2) := by
  obtain ⟨h1, h2⟩ := infoRow_right o found total nsel hinfo hroom
  refine ⟨h1, h2, fun hi => ?_⟩
  unfold promptLines noSepLine
  simp [hi, hinfo]

/- Non-vacuity: a concrete screen. -/
example :
    let o : ROpts := { W := 12, H := 5, layout := .default, info := .default, separator := true, pointer := [62], marker := [42],
                       ellipsis := [46, 46], multi := maxMulti }
    fullRender o { input := [97], found := 2, total := 3, nsel := 1,
                   rows := [⟨[97, 98], 1, true, true, false⟩, ⟨[97, 98, 99, 100, 101, 102, 103, 104, 105, 106, 107], 1, true, false, true⟩] }
    = [blanks 12,
       [32, 42, 97, 98, 99, 100, 101, 102, 103, 46, 46, 32],
       [62, 32, 97, 98] ++ blanks 8,
       [32, 32, 50, 47, 51, 32, 40, 49, 41, 32, 0x2500, 32],
       [62, 32, 97] ++ blanks 9] := by decide

/- The same state with the input section hidden: three list rows more, no prompt, no counter. -/
example :
    let o : ROpts := { W := 6, H := 3, layout := .reverseList, info := .default, separator := true, pointer := [62], marker := [42],
                       inputless := true }
    fullRender o { input := [97], found := 1, total := 1, nsel := 0, rows := [⟨[97, 98], 0, false, true, false⟩] }
    = [[62, 32, 97, 98, 32, 32], blanks 6, blanks 6] := by decide

end Fzf.Props.C15
