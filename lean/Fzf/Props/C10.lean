import Fzf.Lemmas.Iter
import Fzf.Lemmas.Tokenizer
import Fzf.Lemmas.Transform
/-
C10 — field expressions select exactly the documented fields.
Property theorems only.
-/
namespace Fzf.Props.C10
open Fzf Fzf.Tokenizer

/-- AWK-style splitting partitions the line: the ignored leading blanks followed by the fields
    give back the line, for every line. -/
theorem C10_partition_awk (s : Str) :
    s.takeWhile isAwkWhite ++ joinTokens (tokenize s .awk) = s := by
  simp only [tokenize, joinTokens_withPrefixLengths]
  exact awk_partition s

/-- A literal delimiter partitions the line: the fields (each ending with its delimiter)
    concatenated give back the line. -/
theorem C10_partition_str (sep s : Str) (hsep : sep ≠ []) : joinTokens (tokenize s (.str sep)) = s := by
  simp only [tokenize, joinTokens_withPrefixLengths]
  exact splitAfter_partition sep s hsep

/-- A regular-expression delimiter partitions the line, for any well-formed list of match
    locations (what `regexp.FindAllStringIndex` returns: ordered, inside the line). -/
theorem C10_partition_regex (s : Str) (locs : List (Nat × Nat)) (h : LocsOK 0 s.length locs) :
    joinTokens (tokenize s (.regex locs)) = s := by
  simp only [tokenize, joinTokens_withPrefixLengths]
  exact regex_partition s locs h

/-- Each field starts at the character offset recorded for it: the offset of field `k` is the
    number of characters (as `util.Chars` counts them) of everything before it. -/
theorem C10_offsets (toks : List Str) (b k : Nat) (hk : k < toks.length) :
    ((withPrefixLengths toks b)[k]?).map (·.prefixLength) = some (b + ((toks.take k).map charLen).sum) :=
  withPrefixLengths_go_offsets toks b k hk

/-- … in particular for AWK fields the offset counts the ignored leading blanks. -/
theorem C10_offsets_awk (s : Str) (k : Nat) (hk : k < (awkTokenizer s).1.length) :
    ((tokenize s .awk)[k]?).map (·.prefixLength) =
      some ((s.takeWhile isAwkWhite).length + (((awkTokenizer s).1.take k).map charLen).sum) := by
  simp only [tokenize]
  rw [C10_offsets _ _ _ hk]
  simp [awkTokenizer]

/-- **Field index expressions select exactly the documented fields.** For every list of fields and
    every documented expression — `N`, `A..B`, `A..`, `..B`, `..`, with bounds of any sign and
    magnitude (negative bounds count from the end) — `Transform` yields the concatenation of the
    fields the expression denotes, in order; nothing when the range is empty or lies outside the
    line. `rangeOf` is the (normalised) `Range` that `ParseRange` builds for the expression. -/
theorem C10_transform_selects (tokens : List Token) (ex : Spec.Expr) (hwf : WFExpr ex) :
    (transform tokens [rangeOf ex]).map (·.text) =
      [((Spec.select tokens.length ex).map (fieldText tokens)).flatten] :=
  transform_selects tokens ex hwf

/-- The normalisations of `newRange` (`1..k` = `..k`, `k..-1` = `k..`, `-1` alone) are
    meaning-preserving: they are instances of the theorem above. The documented forms are parsed
    into these expressions (kernel-evaluated instances). -/
example : parseRange [49, 46, 46, 51] = some (rangeOf (.range (some 1) (some 3))) := by decide     -- "1..3"
example : parseRange [46, 46, 45, 50] = some (rangeOf (.range none (some (-2)))) := by decide      -- "..-2"
example : parseRange [45, 49] = some (rangeOf (.single (-1))) := by decide                          -- "-1"
example : parseRange [50, 46, 46] = some (rangeOf (.range (some 2) none)) := by decide              -- "2.."
example : parseRange [48] = none ∧ parseRange [45, 50, 46, 46, 51] = none := by decide              -- "0", "-2..3"
example : (transform [⟨[97, 32], 0⟩, ⟨[98, 32], 2⟩, ⟨[99], 4⟩] [rangeOf (.range (some 2) none)]).map (·.text) = [[98, 32, 99]] := by decide

/- Non-vacuity. -/
example : tokenize [32, 97, 32, 32, 98] .awk = [⟨[97, 32, 32], 1⟩, ⟨[98], 4⟩] := by decide
example : LocsOK 0 5 [(1, 2), (3, 5)] := by simp [LocsOK]
example : tokenize [97, 58, 98] (.str [58]) = [⟨[97, 58], 0⟩, ⟨[98], 2⟩] := by decide

/-- **With --nth a term can only match inside the selected fields, and what is reported refers to
    the whole line.** When a term is reported to match (for any of the seven match functions, any
    flags), there is a selected field (token) in which its match function reports the match and
    no earlier selected field has one; the reported range, score and highlight positions are that
    match shifted by the field's character offset in the line (`C10_offsets`: that offset is
    where the field starts). -/
theorem C10_match_inside_selected_field (cfg : Algo.Cfg) (v2 : Bool) (typ : Pattern.TermType) (cs norm fwd : Bool)
    (p : Array Nat) (wp : Bool) (cap : Nat) (toks : List Pattern.Tok) (res : Int × Int × Int × Option (List Nat))
    (h : Pattern.iter cfg v2 typ toks cs norm fwd p wp cap = .ok (some res)) :
    ∃ pre tk post r, toks = pre ++ tk :: post ∧
      Pattern.runTerm cfg v2 typ cs norm fwd tk.text tk.isBytes p wp cap = .ok r ∧ 0 ≤ r.start ∧
      res = (r.start + tk.prefixLength, r.stop + tk.prefixLength, r.score, r.pos.map (·.map (· + tk.prefixLength))) ∧
      ∀ t ∈ pre, ∃ r', Pattern.runTerm cfg v2 typ cs norm fwd t.text t.isBytes p wp cap = .ok r' ∧ r'.start < 0 :=
  Pattern.iter_some cfg v2 typ cs norm fwd p wp cap toks res h

/-- … and a term is reported as not matching only when it matches in none of the selected fields. -/
theorem C10_no_match_in_any_selected_field (cfg : Algo.Cfg) (v2 : Bool) (typ : Pattern.TermType) (cs norm fwd : Bool)
    (p : Array Nat) (wp : Bool) (cap : Nat) (toks : List Pattern.Tok)
    (h : Pattern.iter cfg v2 typ toks cs norm fwd p wp cap = .ok none) :
    ∀ t ∈ toks, ∃ r, Pattern.runTerm cfg v2 typ cs norm fwd t.text t.isBytes p wp cap = .ok r ∧ r.start < 0 :=
  Pattern.iter_none cfg v2 typ cs norm fwd p wp cap toks h

end Fzf.Props.C10
