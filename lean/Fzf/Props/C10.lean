import Fzf.Lemmas.Tokenizer
import Fzf.Lemmas.Transform
/-
C10 — field expressions select exactly the documented fields.
Property theorems only.
-/
namespace Fzf.Props.C10
open Fzf Fzf.Tokenizer

/-- AWK-style splitting partitions the line: the ignored leading blanks followed by the fields
    give back the line, for every line. -/
theorem C10_partition_awk (s : Str) :
    s.takeWhile isAwkWhite ++ joinTokens (tokenize s .awk) = s := by
  simp only [tokenize, joinTokens_withPrefixLengths]
  exact awk_partition s

/-- A literal delimiter partitions the line: the fields (each ending with its delimiter)
    concatenated give back the line. -/
theorem C10_partition_str (sep s : Str) (hsep : sep ≠ []) : joinTokens (tokenize s (.str sep)) = s := by
  simp only [tokenize, joinTokens_withPrefixLengths]
  exact splitAfter_partition sep s hsep

/-- A regular-expression delimiter partitions the line, for any well-formed list of match
    locations (what `regexp.FindAllStringIndex` returns: ordered, inside the line). -/
theorem C10_partition_regex (s : Str) (locs : List (Nat × Nat)) (h : LocsOK 0 s.length locs) :
    joinTokens (tokenize s (.regex locs)) = s := by
  simp only [tokenize, joinTokens_withPrefixLengths]
  exact regex_partition s locs h

/-- Each field starts at the character offset recorded for it: the offset of field `k` is the
    number of characters (as `util.Chars` counts them) of everything before it. -/
theorem C10_offsets (toks : List Str) (b k : Nat) (hk : k < toks.length) :
    ((withPrefixLengths toks b)[k]?).map (·.prefixLength) = some (b + ((toks.take k).map charLen).sum) :=
  withPrefixLengths_go_offsets toks b k hk

/-- … in particular for AWK fields the offset counts the ignored leading blanks. -/
theorem C10_offsets_awk (s : Str) (k : Nat) (hk : k < (awkTokenizer s).1.length) :
    ((tokenize s .awk)[k]?).map (·.prefixLength) =
      some ((s.takeWhile isAwkWhite).length + (((awkTokenizer s).1.take k).map charLen).sum) := by
  simp only [tokenize]
  rw [C10_offsets _ _ _ hk]
  simp [awkTokenizer]

/-- **Field index expressions select exactly the documented fields.** For every list of fields and
    every documented expression — `N`, `A..B`, `A..`, `..B`, `..`, with bounds of any sign and
    magnitude (negative bounds count from the end) — `Transform` yields the concatenation of the
    fields the expression denotes, in order; nothing when the range is empty or lies outside the
    line. `rangeOf` is the (normalised) `Range` that `ParseRange` builds for the expression. -/
theorem C10_transform_selects (tokens : List Token) (ex : Spec.Expr) (hwf : WFExpr ex) :
    (transform tokens [rangeOf ex]).map (·.text) =
      [((Spec.select tokens.length ex).map (fieldText tokens)).flatten] :=
  transform_selects tokens ex hwf

/-- The normalisations of `newRange` (`1..k` = `..k`, `k..-1` = `k..`, `-1` alone) are
    meaning-preserving: they are instances of the theorem above. The documented forms are parsed
    into these expressions (kernel-evaluated instances). -/
example : parseRange [49, 46, 46, 51] = some (rangeOf (.range (some 1) (some 3))) := by decide     -- "1..3"
example : parseRange [46, 46, 45, 50] = some (rangeOf (.range none (some (-2)))) := by decide      -- "..-2"
example : parseRange [45, 49] = some (rangeOf (.single (-1))) := by decide                          -- "-1"
example : parseRange [50, 46, 46] = some (rangeOf (.range (some 2) none)) := by decide              -- "2.."
example : parseRange [48] = none ∧ parseRange [45, 50, 46, 46, 51] = none := by decide              -- "0", "-2..3"
example : (transform [⟨[97, 32], 0⟩, ⟨[98, 32], 2⟩, ⟨[99], 4⟩] [rangeOf (.range (some 2) none)]).map (·.text) = [[98, 32, 99]] := by decide

/- Non-vacuity. -/
example : tokenize [32, 97, 32, 32, 98] .awk = [⟨[97, 32, 32], 1⟩, ⟨[98], 4⟩] := by decide
example : LocsOK 0 5 [(1, 2), (3, 5)] := by simp [LocsOK]
example : tokenize [97, 58, 98] (.str [58]) = [⟨[97, 58], 0⟩, ⟨[98], 2⟩] := by decide

end Fzf.Props.C10
