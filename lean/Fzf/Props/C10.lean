import Fzf.Lemmas.Tokenizer
/-
C10 — field expressions select exactly the documented fields.
Property theorems only.
-/
namespace Fzf.Props.C10
open Fzf Fzf.Tokenizer

/-- AWK-style splitting partitions the line: the ignored leading blanks followed by the fields
    give back the line, for every line. -/
theorem C10_partition_awk (s : Str) :
    s.takeWhile isAwkWhite ++ joinTokens (tokenize s .awk) = s := by
  simp only [tokenize, joinTokens_withPrefixLengths]
  exact awk_partition s

/-- A literal delimiter partitions the line: the fields (each ending with its delimiter)
    concatenated give back the line. -/
theorem C10_partition_str (sep s : Str) (hsep : sep ≠ []) : joinTokens (tokenize s (.str sep)) = s := by
  simp only [tokenize, joinTokens_withPrefixLengths]
  exact splitAfter_partition sep s hsep

/-- A regular-expression delimiter partitions the line, for any well-formed list of match
    locations (what `regexp.FindAllStringIndex` returns: ordered, inside the line). -/
theorem C10_partition_regex (s : Str) (locs : List (Nat × Nat)) (h : LocsOK 0 s.length locs) :
    joinTokens (tokenize s (.regex locs)) = s := by
  simp only [tokenize, joinTokens_withPrefixLengths]
  exact regex_partition s locs h

/-- Each field starts at the character offset recorded for it: the offset of field `k` is the
    number of characters (as `util.Chars` counts them) of everything before it. -/
theorem C10_offsets (toks : List Str) (b k : Nat) (hk : k < toks.length) :
    ((withPrefixLengths toks b)[k]?).map (·.prefixLength) = some (b + ((toks.take k).map charLen).sum) :=
  withPrefixLengths_go_offsets toks b k hk

/-- … in particular for AWK fields the offset counts the ignored leading blanks. -/
theorem C10_offsets_awk (s : Str) (k : Nat) (hk : k < (awkTokenizer s).1.length) :
    ((tokenize s .awk)[k]?).map (·.prefixLength) =
      some ((s.takeWhile isAwkWhite).length + (((awkTokenizer s).1.take k).map charLen).sum) := by
  simp only [tokenize]
  rw [C10_offsets _ _ _ hk]
  simp [awkTokenizer]

/- Non-vacuity. -/
example : tokenize [32, 97, 32, 32, 98] .awk = [⟨[97, 32, 32], 1⟩, ⟨[98], 4⟩] := by decide
example : LocsOK 0 5 [(1, 2), (3, 5)] := by simp [LocsOK]
example : tokenize [97, 58, 98] (.str [58]) = [⟨[97, 58], 0⟩, ⟨[98], 2⟩] := by decide

end Fzf.Props.C10
