import Fzf.Lemmas.Sublist
import Fzf.Lemmas.Prog
/-
C05 — matching is a pure function of (line, query, options).
Property theorems only.
-/
namespace Fzf.Props.C05
open Fzf Fzf.Algo

/-- For every program over the scratch memory: a successful *checked* run (no read of a cell
    the call has not itself written, no index out of range) fixes the result of the *raw* run —
    what the Go code computes — for every initial content of the memory that agrees on the
    cells known to be reliable. -/
theorem C05_checked_ok_imp_junk_indep {α : Type} (p : Prog α) (m₁ m₂ : Array Int) (w : Array Bool) (r : α)
    (hag : Prog.Agree m₁ m₂ w) (hc : p.runChk m₁ w = .ok r) : p.runRaw m₂ = .ok r :=
  Prog.checked_ok_imp_raw p m₁ m₂ w r hag hc

/-- FuzzyMatchV2 over a reused slab: whenever the checked run of the array-faithful model
    succeeds on an input, the answer Go computes for that input is the same for *all* contents
    the slab may hold from earlier calls (any preceding call history, any worker). The driver
    establishes the hypothesis for every case it runs; C02 (`total`) is the statement that it
    holds for all inputs. -/
theorem C05_v2_junk_independent (cfg : Cfg) (cs norm fwd : Bool) (t : Text) (isBytes : Bool) (p : Text)
    (withPos : Bool) (slab : Option (Nat × Nat)) (junk₁ junk₂ : Nat → Int) (r : Res)
    (h : fuzzyMatchV2Slab cfg cs norm fwd t isBytes p withPos slab junk₁ true = .ok r) :
    fuzzyMatchV2Slab cfg cs norm fwd t isBytes p withPos slab junk₂ false = .ok r := by
  unfold fuzzyMatchV2Slab at h ⊢
  by_cases h1 : (p.size == 0) = true
  · simpa only [h1, if_true] using h
  · simp only [h1, Bool.false_eq_true, if_false] at h ⊢
    by_cases h2 : p.size > t.size
    · simpa only [h2, if_true] using h
    · simp only [h2, if_false] at h ⊢
      by_cases h3 : v2Fallback slab t.size p.size = true
      · simpa only [h3, if_true] using h
      · simp only [h3, Bool.false_eq_true, if_false] at h ⊢
        cases h4 : asciiFuzzyIndex t isBytes p cs with
        | none => simpa only [h4] using h
        | some mm =>
          simp only [h4] at h
          unfold v2Run at h ⊢
          simp only [if_true] at h
          simp only [Bool.false_eq_true, if_false]
          exact Prog.checked_ok_imp_raw _ _ _ _ _ (initMem_agree _ _ junk₁ junk₂) h

/-- Two slab states can therefore never be told apart. -/
theorem C05_v2_two_slabs_agree (cfg : Cfg) (cs norm fwd : Bool) (t : Text) (isBytes : Bool) (p : Text)
    (withPos : Bool) (slab : Option (Nat × Nat)) (junk₀ junk₁ junk₂ : Nat → Int) (r : Res)
    (h : fuzzyMatchV2Slab cfg cs norm fwd t isBytes p withPos slab junk₀ true = .ok r) :
    fuzzyMatchV2Slab cfg cs norm fwd t isBytes p withPos slab junk₁ false =
    fuzzyMatchV2Slab cfg cs norm fwd t isBytes p withPos slab junk₂ false := by
  rw [C05_v2_junk_independent _ _ _ _ _ _ _ _ _ junk₀ junk₁ r h,
      C05_v2_junk_independent _ _ _ _ _ _ _ _ _ junk₀ junk₂ r h]

/-- **Filtering a sub-list yields the full result restricted to that sub-list, in the same
    relative order.** For the ranked results of distinct items (any rank points, --tac or not):
    ranking the results that belong to any sub-collection gives the ranking of all results
    restricted to it. (That an item's rank points do not depend on the other items is the
    junk-independence theorem above plus the per-item structure of the matcher model.) -/
theorem C05_sublist_restriction (ms : List Fzf.Rank.R) (tac : Bool)
    (hd : ms.Pairwise fun a b => a.index ≠ b.index) (q : Fzf.Rank.R → Bool) :
    (ms.filter q).mergeSort (fun a b => Fzf.Rank.compareRanks64 a b tac) =
      (ms.mergeSort (fun a b => Fzf.Rank.compareRanks64 a b tac)).filter q :=
  Fzf.Rank.sort_filter_comm ms tac hd q

/-- … and the renumbering of the items that taking a sub-list of the input causes does not
    change any comparison: the order depends on item numbers only through their order. -/
theorem C05_renumbering_invariant (a b : Fzf.Rank.R) (tac : Bool) (f : Int → Int) (hf : ∀ x y, x ≤ y ↔ f x ≤ f y) :
    Fzf.Rank.compareRanks64 ⟨a.pts, f a.index⟩ ⟨b.pts, f b.index⟩ tac = Fzf.Rank.compareRanks64 a b tac :=
  Fzf.Rank.cmp_reindex a b tac f hf

/- The hypothesis is what the matcher produces: one result per item. -/
example : ([⟨[0, 0, 3, 9], 0⟩, ⟨[0, 0, 1, 9], 1⟩, ⟨[0, 0, 2, 9], 2⟩, ⟨[0, 0, 1, 9], 3⟩] : List Fzf.Rank.R).Pairwise
    (fun a b => a.index ≠ b.index) := by decide

end Fzf.Props.C05
