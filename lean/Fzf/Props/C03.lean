import Fzf.Model.Algo
import Fzf.Lemmas.Score
import Fzf.Lemmas.Exact
import Fzf.Generated.AlgoConsts
/-
C03 — scores follow the documented scoring model.
Property theorems only. The definitions in `Fzf.Generated` are rewritten from /repo on every
run (harness/extract runs algo.Init per scheme and dumps the constants and tables).
-/
namespace Fzf.Props.C03
open Fzf Fzf.Algo

/-- The constants of algo.go are the documented ones: 16 per matched character, gap penalties
    -3 / -1, boundary bonus 8, non-word 8, camelCase/number 7, consecutive 4, first character ×2. -/
theorem C03_consts_documented :
    Generated.scoreMatch = 16 ∧ Generated.scoreGapStart = -3 ∧ Generated.scoreGapExtension = -1 ∧
    Generated.bonusBoundary = 8 ∧ Generated.bonusNonWord = 8 ∧ Generated.bonusCamel123 = 7 ∧
    Generated.bonusConsecutive = 4 ∧ Generated.bonusFirstCharMultiplier = 2 ∧
    Generated.scoreMatch = scoreMatch ∧ Generated.scoreGapStart = scoreGapStart ∧
    Generated.scoreGapExtension = scoreGapExtension ∧ Generated.bonusBoundary = bonusBoundary ∧
    Generated.bonusNonWord = bonusNonWord ∧ Generated.bonusCamel123 = bonusCamel123 ∧
    Generated.bonusConsecutive = bonusConsecutive ∧
    Generated.bonusFirstCharMultiplier = bonusFirstCharMultiplier := by decide

/-- Scheme-dependent bonuses: white 10/8/8, delimiter 9/9/8 for default/path/history; the
    initial class and delimiter sets are the model's. -/
theorem C03_scheme_globals :
    (Generated.default_bWhite, Generated.default_bDelim, Generated.default_initClass, Generated.default_delims)
      = (schemeDefault.bWhite, schemeDefault.bDelim, schemeDefault.initClass, schemeDefault.delims) ∧
    (Generated.path_bWhite, Generated.path_bDelim, Generated.path_initClass, Generated.path_delims)
      = (schemePath.bWhite, schemePath.bDelim, schemePath.initClass, schemePath.delims) ∧
    (Generated.history_bWhite, Generated.history_bDelim, Generated.history_initClass, Generated.history_delims)
      = (schemeHistory.bWhite, schemeHistory.bDelim, schemeHistory.initClass, schemeHistory.delims) ∧
    (schemeDefault.bWhite, schemeDefault.bDelim) = (10, 9) ∧ (schemePath.bWhite, schemePath.bDelim) = (8, 9) ∧
    (schemeHistory.bWhite, schemeHistory.bDelim) = (8, 8) ∧
    Generated.whiteCharsAscii = whiteAscii := by decide

/-- The 128-entry character-class table built by `Init` is the model's `asciiClass`, per scheme. -/
theorem C03_ascii_classes :
    (List.range 128).map (asciiClass schemeDefault) = Generated.default_asciiClasses ∧
    (List.range 128).map (asciiClass schemePath) = Generated.path_asciiClasses ∧
    (List.range 128).map (asciiClass schemeHistory) = Generated.history_asciiClasses := by decide

def matrixOf (sch : Scheme) : List (List Int) :=
  (List.range 7).map fun i => (List.range 7).map fun j => bonusFor sch i j

/-- The 7×7 bonus matrix built by `Init` is the model's `bonusFor`, per scheme. -/
theorem C03_bonus_matrix :
    matrixOf schemeDefault = Generated.default_bonusMatrix ∧
    matrixOf schemePath = Generated.path_bonusMatrix ∧
    matrixOf schemeHistory = Generated.history_bonusMatrix := by decide

/-- The documented bonus rules, stated outright for every pair of classes and every scheme value:
    a word character after whitespace / a delimiter / another non-word character gets the
    boundary bonus of that kind; lower→upper and non-digit→digit get the camelCase bonus;
    a non-word or delimiter character gets the non-word bonus; whitespace gets the white
    bonus; everything else nothing. -/
theorem C03_bonus_rules (sch : Scheme) (prev cls : Nat) (hp : prev < 7) (hc : cls < 7) :
    (cls > cNonWord → prev = cWhite → bonusFor sch prev cls = sch.bWhite) ∧
    (cls > cNonWord → prev = cDelim → bonusFor sch prev cls = sch.bDelim) ∧
    (cls > cNonWord → prev = cNonWord → bonusFor sch prev cls = bonusBoundary) ∧
    (prev = cLower → cls = cUpper → bonusFor sch prev cls = bonusCamel123) ∧
    (prev > cDelim → prev ≠ cNumber → cls = cNumber → bonusFor sch prev cls = bonusCamel123) ∧
    (prev > cDelim → (cls = cNonWord ∨ cls = cDelim) → bonusFor sch prev cls = bonusNonWord) ∧
    (cls = cWhite → bonusFor sch prev cls = sch.bWhite) ∧
    (prev > cDelim → cls = prev → cls ≠ cNumber ∨ prev = cNumber → bonusFor sch prev cls = 0) := by
  have : prev = 0 ∨ prev = 1 ∨ prev = 2 ∨ prev = 3 ∨ prev = 4 ∨ prev = 5 ∨ prev = 6 := by omega
  have : cls = 0 ∨ cls = 1 ∨ cls = 2 ∨ cls = 3 ∨ cls = 4 ∨ cls = 5 ∨ cls = 6 := by omega
  rcases ‹prev = 0 ∨ _› with h | h | h | h | h | h | h <;>
  rcases ‹cls = 0 ∨ _› with h' | h' | h' | h' | h' | h' | h' <;>
  subst h <;> subst h' <;> simp (config := {decide := true}) [bonusFor, cWhite, cNonWord, cDelim, cLower, cUpper, cLetter, cNumber]

/-- **The scoring walk on an occurrence.** On a range `[s, s+m)` of a line in which every position
    carries the corresponding term character, `calculateScore` — the routine behind exact,
    prefix and suffix terms and FuzzyMatchV1 — returns the documented score of that occurrence
    (`occScore`: 16 per character plus its bonus; the first character's bonus doubled; inside the
    run at least the consecutive bonus and at least the run's first bonus; a larger boundary
    bonus restarts the run). It is a function of the line and the range alone: two terms
    occupying the same range score the same. -/
theorem C03_calculateScore_on_occurrence (cfg : Cfg) (cs norm : Bool) (t p : Text) (s : Nat)
    (hfit : s + p.size ≤ t.size)
    (hocc : ∀ i, i < p.size → foldRune cfg cs norm (t.getD (s + i) 0) = p.getD i 0) :
    calculateScore cfg cs norm t p s (s + p.size) false = .ok (occScore cfg t s p.size, Option.none) :=
  calculateScore_occ cfg cs norm t p s hfit hocc

/-- **Exact terms (`'term`, every term under --exact) are scored as the occurrence they report**,
    whichever of several occurrences the search picks and in whichever direction it runs. -/
theorem C03_exact_scored_as_occurrence (cfg : Cfg) (cs norm fwd : Bool) (t : Text) (isBytes : Bool) (p : Text)
    (hm : 0 < p.size) (r : Res) (hr : exactMatchNaive cfg cs norm fwd false t isBytes p = .ok r) (hs : 0 ≤ r.start) :
    r.score = occScore cfg t r.start.toNat p.size :=
  exactMatchNaive_score cfg cs norm fwd t isBytes p hm r hr hs

/-- **Prefix terms (`^term`) are scored as the occurrence they report.** -/
theorem C03_prefix_scored_as_occurrence (cfg : Cfg) (cs norm : Bool) (t p : Text) (hp : 0 < p.size) (r : Res)
    (hr : prefixMatch cfg cs norm t p = .ok r) (hm : 0 ≤ r.start) :
    r.score = occScore cfg t r.start.toNat p.size :=
  prefixMatch_score cfg cs norm t p hp r hr hm

/-- **Suffix terms (`term$`) are scored as the occurrence they report.** -/
theorem C03_suffix_scored_as_occurrence (cfg : Cfg) (cs norm : Bool) (t p : Text) (hp : 0 < p.size) (r : Res)
    (hr : suffixMatch cfg cs norm t p = .ok r) (hm : 0 ≤ r.start) :
    r.score = occScore cfg t r.start.toNat p.size :=
  suffixMatch_score cfg cs norm t p hp r hr hm

/-- **Bounds of an occurrence score** in the three schemes: an occurrence of `m ≥ 1` characters
    scores at least `16m + 4(m-1)` (every character after the first earns the consecutive bonus)
    and at most `16m + 10(m+1)` (no bonus exceeds 10, the first counts twice). -/
theorem C03_occurrence_score_bounds (cfg : Cfg) (t : Text) (s m : Nat) (hm : 0 < m)
    (hs : cfg.sch = schemeDefault ∨ cfg.sch = schemePath ∨ cfg.sch = schemeHistory) :
    (16 : Int) * m + 4 * (m - 1) ≤ occScore cfg t s m ∧ occScore cfg t s m ≤ (16 : Int) * m + 10 * (m + 1) := by
  have h := runScore_bounds cfg t hs ((List.range m).map (s + ·)) 0
    (if s > 0 then charClassOf cfg (t.getD (s - 1) 0) else cfg.sch.initClass) 0 (by omega)
  have hne : (List.range m).map (s + ·) ≠ [] := by
    intro he
    have := congrArg List.length he
    simp at this; omega
  simp only [hne, ne_eq, not_false_eq_true, and_self, if_true, List.length_map, List.length_range] at h
  unfold occScore
  omega

/- Non-vacuity / sanity. -/
example : bonusFor schemeDefault cWhite cLower = 10 ∧ bonusFor schemePath cDelim cLower = 9 ∧
    bonusFor schemeHistory cLower cUpper = 7 ∧ bonusFor schemeDefault cLower cLower = 0 := by decide

/-- `^ab` on "ab-c" in the default scheme: 'a' at the start of the line earns the whitespace
    bonus 10 twice, 'b' the run's first bonus: 16 + 20 + 16 + 10 = 62. -/
example : occScore { U := ⟨id, fun c => c == 32, fun _ => 3⟩, sch := schemeDefault, norm := id } #[97, 98, 45, 99] 0 2 = 62 := by decide

end Fzf.Props.C03
