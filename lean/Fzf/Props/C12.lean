import Fzf.Lemmas.Quote
import Fzf.Lemmas.Expand
/-
C12 — placeholders expand to shell words that evaluate back to the original text.
Property theorems only.
-/
namespace Fzf.Props.C12
open Fzf Fzf.Quote Fzf.ShEval

/-- Whatever the text contains — quotes, blanks, newlines, `$`, backticks, globs, backslashes —
    the quoted form evaluates back to exactly one word, the text itself; nothing is left for the
    shell to interpret. -/
theorem C12_quote_roundtrip (s : Str) : words (quoteEntry s) = some [s] := words_quoteEntry s

/-- `{+}`: the quoted items joined by blanks evaluate to one word per item, in order. -/
theorem C12_join_roundtrip (xs : List Str) : words (joinWith 32 (xs.map quoteEntry)) = some xs := by
  have := eval_join xs []
  simpa [words] using this

/-- A quoted text placed between other words of a command line contributes exactly itself. -/
theorem C12_quote_in_context (s rest : Str) (ws : List Str) :
    eval (quoteEntry s ++ 32 :: rest) false ws none = eval rest false (s :: ws) none := by
  rw [eval_quoteEntry]
  have : s.reverse ++ (none : Option Str).getD [] = s.reverse := by simp
  rw [this, eval_blank, List.reverse_reverse]

/-- fish: inside single quotes only `\'` and `\\` are escapes, and the fish escaper produces
    exactly those (fish is not installed here: its quoting rule is modelled, not validated). -/
theorem C12_fish_roundtrip (s : Str) : fishQuoted (quoteEntryFish s) = some s := by
  unfold fishQuoted quoteEntryFish
  simp only [List.cons_append]
  rw [fish_go]; simp

/-- The tmux re-launch quotes every argument with the same escaper. -/
theorem C12_tmux_args_roundtrip (args : List Str) : words (joinWith 32 (args.map quoteEntry)) = some args :=
  C12_join_roundtrip args

/-- **A whole expanded template evaluates to what its placeholders stand for.** For a command
    template of blank-separated parts — `{}`, `{+}`, `{q}` and literal words of plain characters —
    and any query, current item and selection (any bytes at all): the POSIX word splitting of
    `replacePlaceholder`'s result yields, in order, the literal words, the current item for `{}`,
    every selected item in selection order for `{+}` (one word per item) and the query for `{q}`.
    Nothing is left for the shell to interpret; no item is split, merged or dropped. -/
theorem C12_template_evaluates (cx : Placeholder.Ctx) (ps : List Placeholder.Part) (hok : ∀ p ∈ ps, p.ok) :
    words (Placeholder.expand cx (ps.map Placeholder.Part.text)) = some (ps.flatMap (Placeholder.Part.denote cx)) :=
  Placeholder.expand_words cx ps hok

/-- `echo {} -- {+} {q}` with a current item `a b`, the selection `$(x)`, `'`, and the query `;rm`:
    five words of data after `echo`, as they are. -/
example :
    let cx : Placeholder.Ctx :=
      { query := [59, 114, 109], current := some ([97, 32, 98], 0),
        selected := [([36, 40, 120, 41], 3), ([39], 1)], delim := .awk, isSpace := fun c => c == 32 }
    words (Placeholder.expand cx [[101, 99, 104, 111], [123, 125], [45, 45], [123, 43, 125], [123, 113, 125]])
      = some [[101, 99, 104, 111], [97, 32, 98], [45, 45], [36, 40, 120, 41], [39], [59, 114, 109]] := by decide

example : words (quoteEntry [36, 40, 114, 109, 41, 39, 59, 10, 96]) = some [[36, 40, 114, 109, 41, 39, 59, 10, 96]] := by decide
example : words [36, 40, 114, 109, 41] = none := by decide   -- unquoted data would be interpreted

end Fzf.Props.C12
