import Fzf.Lemmas.Quote
/-
C12 — placeholders expand to shell words that evaluate back to the original text.
Property theorems only.
-/
namespace Fzf.Props.C12
open Fzf Fzf.Quote Fzf.ShEval

/-- Whatever the text contains — quotes, blanks, newlines, `$`, backticks, globs, backslashes —
    the quoted form evaluates back to exactly one word, the text itself; nothing is left for the
    shell to interpret. -/
theorem C12_quote_roundtrip (s : Str) : words (quoteEntry s) = some [s] := words_quoteEntry s

/-- `{+}`: the quoted items joined by blanks evaluate to one word per item, in order. -/
theorem C12_join_roundtrip (xs : List Str) : words (joinWith 32 (xs.map quoteEntry)) = some xs := by
  have := eval_join xs []
  simpa [words] using this

/-- A quoted text placed between other words of a command line contributes exactly itself. -/
theorem C12_quote_in_context (s rest : Str) (ws : List Str) :
    eval (quoteEntry s ++ 32 :: rest) false ws none = eval rest false (s :: ws) none := by
  rw [eval_quoteEntry]
  have : s.reverse ++ (none : Option Str).getD [] = s.reverse := by simp
  rw [this, eval_blank, List.reverse_reverse]

/-- fish: inside single quotes only `\'` and `\\` are escapes, and the fish escaper produces
    exactly those (fish is not installed here: its quoting rule is modelled, not validated). -/
theorem C12_fish_roundtrip (s : Str) : fishQuoted (quoteEntryFish s) = some s := by
  unfold fishQuoted quoteEntryFish
  simp only [List.cons_append]
  rw [fish_go]; simp

/-- The tmux re-launch quotes every argument with the same escaper. -/
theorem C12_tmux_args_roundtrip (args : List Str) : words (joinWith 32 (args.map quoteEntry)) = some args :=
  C12_join_roundtrip args

example : words (quoteEntry [36, 40, 114, 109, 41, 39, 59, 10, 96]) = some [[36, 40, 114, 109, 41, 39, 59, 10, 96]] := by decide
example : words [36, 40, 114, 109, 41] = none := by decide   -- unquoted data would be interpreted

end Fzf.Props.C12
