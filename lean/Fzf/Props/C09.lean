import Fzf.Lemmas.Window
import Fzf.Lemmas.Terminal
import Fzf.Generated.GoFuncs
/-
C09 — query line, cursor and selection evolve exactly as the actions prescribe.
Property theorems only.
-/
namespace Fzf.Props.C09
open Fzf Fzf.Terminal

/-- Every action keeps the query cursor inside the query. -/
theorem C09_cx_in_range_act (op : Opts) (s : TS) (a : Action) (h : CxOk s) : CxOk (act op s a) := by
  unfold CxOk at *
  have hl := lastBoundary_le op.isWord (s.input.take s.cx)
  have hl2 := lastBoundary_le (fun c => !isGoSpace c) (s.input.take s.cx)
  have hn := nextBoundary_le op.isWord (s.input.drop s.cx)
  simp only [List.length_take, List.length_drop] at hl hl2 hn
  cases a <;> simp only [act] <;> (repeat' split) <;>
    (try simp only [rubout, vmove, vset, pageMove, List.length_append, List.length_take, List.length_drop, List.length_nil]) <;>
    (try omega)
  all_goals first
    | (rw [(selectItem_fields op s _).1, (selectItem_fields op s _).2.1]; exact h)
    | (rw [(toggleCurrent_fields op s).1, (toggleCurrent_fields op s).2.1]; exact h)
    | (rw [(selectMany_fields op _ _ _).1, (selectMany_fields op _ _ _).2.1]; exact h)
    | (rw [(constrain_fields op _).1, (constrain_fields op _).2.1]; simp only [vset]; exact h)
    | (simp only [deselectItem]; exact h)

end Fzf.Props.C09

namespace Fzf.Props.C09
open Fzf Fzf.Terminal

/-- Every action keeps the selection within the `--multi` limit (nothing is selectable when
    the limit is 0, i.e. without `--multi`). -/
theorem C09_sel_limit_act (op : Opts) (s : TS) (a : Action) (h : SelOk op s) : SelOk op (act op s a) := by
  cases a <;> simp only [act] <;> (repeat' split) <;>
    (try exact h) <;>
    (try (simp only [vmove, vset, pageMove, rubout]; exact h))
  all_goals first
    | exact selectItem_selOk op s _ h
    | exact deselectItem_selOk op s _ h
    | exact toggleCurrent_selOk op s h
    | exact selectMany_selOk op _ _ _ h
    | (apply selectMany_selOk; unfold SelOk at *; exact Nat.le_trans (List.length_filter_le _ _) h)
    | (unfold SelOk at *; exact Nat.le_trans (List.length_filter_le _ _) h)
    | (unfold SelOk at *; rw [(constrain_fields op _).2.2.1]; simp only [vset]; exact h)
    | (unfold SelOk; simp)

theorem toggleMove_cx (op : Opts) (s : TS) (d : Int) (h : CxOk s) : CxOk (toggleMove op s d) := by
  unfold toggleMove
  split
  · split
    · unfold CxOk at *
      rw [(vmove_fields op _ d).1, (vmove_fields op _ d).2.1, (toggleCurrent_fields op s).1, (toggleCurrent_fields op s).2.1]
      exact h
    · exact h
  · exact h

theorem toggleMove_sel (op : Opts) (s : TS) (d : Int) (h : SelOk op s) : SelOk op (toggleMove op s d) := by
  unfold toggleMove
  split
  · split
    · unfold SelOk
      rw [(vmove_fields op _ d).2.2.1]
      exact toggleCurrent_selOk op s h
    · exact h
  · exact h

theorem hideEdits_cx (b s : TS) (h : CxOk s) : CxOk (hideEdits b s) := by
  unfold hideEdits
  split
  · unfold CxOk; exact Nat.le_refl _
  · exact h

theorem hideEdits_sel (op : Opts) (b s : TS) (h : SelOk op s) : SelOk op (hideEdits b s) := by
  unfold hideEdits
  split <;> exact h

theorem C09_cx_in_range_actStep (op : Opts) (s : TS) (a : Action) (h : CxOk s) : CxOk (actStep op s a) := by
  unfold actStep
  split
  · exact h
  · apply hideEdits_cx
    split <;> first | exact toggleMove_cx op s _ h | exact C09_cx_in_range_act op s _ h

theorem C09_sel_limit_actStep (op : Opts) (s : TS) (a : Action) (h : SelOk op s) : SelOk op (actStep op s a) := by
  unfold actStep
  split
  · exact h
  · apply hideEdits_sel
    split <;> first | exact toggleMove_sel op s _ h | exact C09_sel_limit_act op s _ h

theorem hideEdits_input (b s : TS) (h : (hideEdits b s).inputless = true) : (hideEdits b s).input = b.input := by
  unfold hideEdits at h ⊢
  by_cases hi : s.inputless = true
  · rw [if_pos hi]
  · rw [if_neg hi] at h; exact absurd h hi

/-- **A hidden input section does not take input.** While the input section is hidden
    (--no-input, hide-input, toggle-input), no action changes the query — whatever it is, also
    change-query, put, kills and yank — and the query cursor rests at its end. -/
theorem C09_hidden_input_keeps_query (op : Opts) (s : TS) (a : Action) (h : (actStep op s a).inputless = true) :
    (actStep op s a).input = s.input := by
  unfold actStep at h ⊢
  by_cases hs : s.outcome.isSome = true
  · rw [if_pos hs]
  · rw [if_neg hs] at h ⊢
    exact hideEdits_input _ _ h

/-- hide-input, then change-query: the query stays; show-input, then change-query: it changes. -/
example :
    let op : Opts := { multi := 0, cycle := false, layout := .default, maxItems := 5, total := 0, isWord := fun _ => true,
                       resultsOf := fun _ _ => [], itemText := fun _ => [] }
    let s : TS := { input := [97, 98], cx := 1, results := [] }
    (([Action.hideInput, .changeQuery [120]].foldl (actStep op) s).input, ([Action.hideInput, .changeQuery [120]].foldl (actStep op) s).cx,
     ([Action.hideInput, .showInput, .changeQuery [120]].foldl (actStep op) s).input) = ([97, 98], 2, [120]) := by decide

/-- For every history of action lists — any lists, window heights, layouts, limits, --cycle —
    the query cursor is inside the query, never more than `--multi` items are selected, and after
    rendering the list cursor designates an existing result (or is 0 on an empty list). -/
theorem C09_invariants (op : Opts) (s : TS) (hist : List (List Action)) (h1 : CxOk s) (h2 : SelOk op s) :
    let s' := hist.foldl (step op) s
    CxOk s' ∧ SelOk op s' := by
  induction hist generalizing s with
  | nil => exact ⟨h1, h2⟩
  | cons as rest ih =>
    simp only [List.foldl_cons]
    apply ih
    · -- CxOk after one step
      have hf : ∀ (l : List Action) (t : TS), CxOk t → CxOk (l.foldl (actStep op) t) := by
        intro l; induction l with
        | nil => intro t ht; exact ht
        | cons a l ihl => intro t ht; exact ihl _ (C09_cx_in_range_actStep op t a ht)
      have := hf as s h1
      obtain ⟨e1, e2, _⟩ := afterActions_fields op s (as.foldl (actStep op) s)
      unfold step CxOk at *
      rw [e1, e2, List.length_take]
      omega
    · have hf : ∀ (l : List Action) (t : TS), SelOk op t → SelOk op (l.foldl (actStep op) t) := by
        intro l; induction l with
        | nil => intro t ht; exact ht
        | cons a l ihl => intro t ht; exact ihl _ (C09_sel_limit_actStep op t a ht)
      have := hf as s h2
      obtain ⟨_, _, e3⟩ := afterActions_fields op s (as.foldl (actStep op) s)
      unfold step SelOk at *
      rw [e3]; exact this

/-- After rendering, the list cursor designates an existing result, or none when the list is empty. -/
theorem C09_cursor_valid (op : Opts) (s : TS) :
    let s' := constrain op s
    (s'.results = [] → s'.cy = 0 ∧ currentItem s' = none) ∧
    (s'.results ≠ [] → 0 ≤ s'.cy ∧ s'.cy < s'.results.length ∧ (currentItem s').isSome = true) := by
  have hcy : (constrain op s).cy = constrainInt s.cy 0 (max 0 ((s.results.length : Int) - 1)) := by
    unfold constrain; rfl
  have hres := (constrain_fields op s).2.2.2
  simp only
  constructor
  · intro h
    rw [hres] at h
    have h0 : (constrain op s).cy = 0 := by
      rw [hcy, h]; unfold constrainInt; simp only [List.length_nil]; split <;> (try split) <;> omega
    refine ⟨h0, ?_⟩
    unfold currentItem
    rw [h0, hres, h]; simp
  · intro h
    rw [hres] at h
    have hl : 0 < s.results.length := List.length_pos_iff.mpr h
    have hb : 0 ≤ (constrain op s).cy ∧ (constrain op s).cy < s.results.length := by
      rw [hcy]; unfold constrainInt; split <;> (try split) <;> omega
    refine ⟨hb.1, by rw [hres]; exact hb.2, ?_⟩
    unfold currentItem
    rw [hres]
    simp only [hb.1, hb.2, and_self, if_true]
    rw [List.getElem?_eq_getElem (by omega)]
    rfl

/-- **The cursor is always on screen.** After `constrain` (run at the end of every action list and
    at once by first / last / pos), with a list window of at least one row and a non-empty result
    list: the current result is inside the window (`offset ≤ cy < offset + rows`) — whatever the
    cursor and the scroll offset were before, for every window height, --scroll-off and list
    length — and the window does not scroll past the end of the list unless the list is shorter
    than the window. (While the input section is hidden the list has its rows too: `rowsOf`.) -/
theorem C09_cursor_on_screen (op : Opts) (s : TS) (hrows : 0 < rowsOf op s) (hne : s.results ≠ []) :
    let s' := constrain op s
    0 ≤ s'.offset ∧ s'.offset ≤ s'.cy ∧ s'.cy < s'.offset + (rowsOf op s : Int) ∧
    s'.offset ≤ max ((s.results.length : Int) - (rowsOf op s : Int)) 0 :=
  constrain_window op s hrows hne

/-- `toggle` is an involution on the selection as long as the limit does not interfere. -/
theorem C09_toggle_involution (op : Opts) (s : TS) (i : Nat) (hc : currentItem s = some i)
    (hroom : s.selected.length < op.multi) (hnot : i ∉ s.selected) :
    (toggleCurrent op (toggleCurrent op s).1).1.selected = s.selected := by
  have hsel : (selectItem op s i) = ({ s with selected := s.selected ++ [i] }, true) := by
    unfold selectItem
    have : ¬ s.selected.length ≥ op.multi := by omega
    simp [this, hnot]
  have h1 : toggleCurrent op s = ({ s with selected := s.selected ++ [i] }, true) := by
    unfold toggleCurrent
    simp only [hc]
    have : s.selected.contains i = false := by simpa using hnot
    simp only [this, Bool.not_false, if_true]
    exact hsel
  rw [h1]
  unfold toggleCurrent
  have hc' : currentItem { s with selected := s.selected ++ [i] } = some i := by
    simpa [currentItem] using hc
  simp only [hc']
  have : (s.selected ++ [i]).contains i = true := by simp
  simp only [this, Bool.not_true, Bool.false_eq_true, if_false, deselectItem]
  simp only [List.filter_append]
  have hf : s.selected.filter (· != i) = s.selected := by
    apply List.filter_eq_self.mpr
    intro x hx; simp; intro hxi; exact hnot (hxi ▸ hx)
  simp [hf]

/-- Kill to end of line followed by yank restores the query line. -/
theorem C09_kill_yank_inverse (op : Opts) (s : TS) (h : CxOk s) (hlt : s.cx < s.input.length) :
    (act op (act op s .killLine) .yank).input = s.input := by
  simp only [act, hlt, if_true]
  rw [List.take_take, Nat.min_self, List.take_append_drop]
  have : List.drop s.cx (List.take s.cx s.input) = [] := by
    apply List.drop_eq_nil_of_le; simp; omega
  rw [this, List.append_nil]

/-- A query change keeps the selection (selections survive query changes). -/
theorem C09_sel_survives_query (op : Opts) (before s : TS) :
    (afterActions op before s).selected = s.selected := by
  exact (afterActions_fields op before s).2.2

/- Non-vacuity. -/
example : CxOk { results := [0, 1, 2] } ∧ SelOk ⟨2, false, .default, 5, 0, 3, 3, false, fun _ => true, fun _ _ => [0, 1, 2], fun _ => []⟩ { results := [0, 1, 2] } := by
  simp [CxOk, SelOk]

end Fzf.Props.C09

namespace Fzf.Props.C09
open Fzf Fzf.Terminal

/-- **`--track`: the cursor follows its item.** When a new result list arrives (query change,
    exclusion, re-sort) and the item under the cursor is still among the results, the cursor is on
    that same item afterwards, wherever it moved in the list. -/
theorem C09_track_follows (op : Opts) (s : TS) (new : List Nat) (i : Nat) (ht : op.track = true)
    (hne : s.results.length > 0) (hc : currentItem s = some i) (hin : i ∈ new) :
    currentItem (updateList op s new) = some i := by
  unfold updateList
  simp only [ht, if_true, hne, hc]
  cases hf : new.findIdx? (· == i) with
  | none =>
    rw [List.findIdx?_eq_none_iff] at hf
    have := hf i hin
    simp at this
  | some k =>
    simp only []
    rw [List.findIdx?_eq_some_iff_getElem] at hf
    obtain ⟨hk, hki, _⟩ := hf
    unfold currentItem
    simp only []
    have h0 : (0 : Int) ≤ (k : Int) := Int.natCast_nonneg k
    have h1 : (k : Int) < (new.length : Int) := by exact_mod_cast hk
    simp only [h0, h1, and_self, if_true, Int.toNat_natCast]
    rw [List.getElem?_eq_getElem hk]
    simp at hki
    rw [hki]

/-- An excluded item never comes back into the results (until a reload), whatever the query. -/
theorem C09_excluded_stays_out (op : Opts) (before s : TS) (i : Nat) (hi : i ∈ s.excluded)
    (hchg : s.excluded ≠ before.excluded) : i ∉ (afterActions op before s).results := by
  unfold afterActions
  dsimp only
  have hcond : (List.take maxPatternLength s.input != before.input) = true ∨ (s.sort != before.sort) = true ∨
      (s.excluded != before.excluded) = true := Or.inr (Or.inr (by simpa using hchg))
  rw [if_pos hcond]
  rw [(constrain_fields op _).2.2.2]
  have hres : ∀ (t : TS) (new : List Nat), (updateList op t new).results = new := by
    intro t new
    unfold updateList
    split
    · generalize (if t.results.length > 0 then currentItem t else new.head?) = prev
      cases prev with
      | none => rfl
      | some j =>
        simp only []
        cases new.findIdx? (· == j) with
        | some k => rfl
        | none => simp only []; split <;> rfl
    · rfl
  rw [hres]
  intro hmem
  rw [List.mem_filter] at hmem
  have := hmem.2
  simp at this
  exact this hi

end Fzf.Props.C09

namespace Fzf.Props.C09
open Fzf Fzf.Terminal

/-- The clamping the cursor code relies on is the function in the source: `util.Constrain`,
    translated from /repo/src/util/util.go on every run (harness/gotolean), is the model's
    `constrainInt`, and its result lies between the bounds whenever they are ordered. -/
theorem C09_constrain_is_source (v lo hi : Int) :
    Generated.Go.Constrain v lo hi = constrainInt v lo hi ∧
    (lo ≤ hi → lo ≤ Generated.Go.Constrain v lo hi ∧ Generated.Go.Constrain v lo hi ≤ hi) := by
  unfold Generated.Go.Constrain constrainInt
  constructor
  · by_cases h1 : v < lo <;> by_cases h2 : v > hi <;> simp [h1, h2]
  · intro hle
    by_cases h1 : v < lo <;> by_cases h2 : v > hi <;> simp [h1, h2] <;> omega

/-- **Selections are dropped on reload** (and so are exclusions); the query, its cursor and the
    position of the list cursor are what they were. Query changes, by contrast, leave the selection
    alone (`C09_query_edit_keeps_selection`). -/
theorem C09_reload_drops_selection (op : Opts) (s : TS) (h : s.outcome = none) (hin : s.inputless = false) :
    (actStep op s .reload).selected = [] ∧ (actStep op s .reload).excluded = [] ∧
    (actStep op s .reload).input = s.input ∧ (actStep op s .reload).cx = s.cx ∧ (actStep op s .reload).cy = s.cy := by
  unfold actStep hideEdits
  simp [h, act, hin]

/-- … while an edit of the query leaves the selection as it is. -/
theorem C09_query_edit_keeps_selection (op : Opts) (s : TS) (q : Str) (h : s.outcome = none) :
    (actStep op s (.changeQuery q)).selected = s.selected ∧ (actStep op s (.put q)).selected = s.selected := by
  unfold actStep hideEdits
  simp only [h, Option.isSome_none, Bool.false_eq_true, if_false]
  constructor <;> (simp only [act]; by_cases hi : s.inputless = true <;> simp [hi])

/-- **change-multi.** The limit becomes the one given (unlimited without an argument); a
    selection made while multi-select was on is dropped exactly when the limit is a different one
    — so it never exceeds the new limit by surviving a change — and nothing else changes. -/
theorem C09_change_multi (op : Opts) (s : TS) (n : Option Nat) :
    (changeMulti op s n).1.multi = n.getD unlimitedMulti ∧
    ((op.multi > 0 ∧ n.getD unlimitedMulti ≠ op.multi) → (changeMulti op s n).2.selected = []) ∧
    (¬ (op.multi > 0 ∧ n.getD unlimitedMulti ≠ op.multi) → (changeMulti op s n).2 = s) ∧
    (changeMulti op s n).2.input = s.input ∧ (changeMulti op s n).2.cy = s.cy := by
  unfold changeMulti
  refine ⟨rfl, fun h => by simp [h], fun h => by simp [h], ?_, ?_⟩ <;> (simp only []; split <;> rfl)

end Fzf.Props.C09
