import Fzf.Model.Walker
/-
C19 — the built-in walker lists exactly the files the walker options describe.
Property theorems only.
-/
namespace Fzf.Props.C19
open Fzf Fzf.Walker

/-- A pruned directory (hidden without `hidden`, or named by --walker-skip by base name, by full
    path or by path suffix) contributes nothing: neither itself nor anything below it. -/
theorem C19_pruned_lists_nothing (o : Opts) (es : List Entry) (fuel : Nat) (e : Entry) (real shown : Str)
    (hd : e.kind = .dir) (hp : pruned o shown = true) : visit o es fuel e real shown = [] := by
  cases fuel with
  | zero => rfl
  | succ fuel => simp [visit, hd, hp]

/-- A plain file is listed exactly when `file` is set, as its path, once. -/
theorem C19_file_listed_iff (o : Opts) (es : List Entry) (fuel : Nat) (e : Entry) (real shown : Str)
    (hf : e.kind = .file) : visit o es (fuel + 1) e real shown = if o.file then [shown] else [] := by
  simp [visit, hf]

/-- A symbolic link is entered only with `follow`; without it, it is listed like a file. -/
theorem C19_link_not_followed (o : Opts) (es : List Entry) (fuel : Nat) (e : Entry) (real shown : Str)
    (hl : e.kind = .link) (hnf : o.follow = false) :
    visit o es (fuel + 1) e real shown = if o.file then [shown] else [] := by
  simp [visit, hl, hnf]

/-- Everything listed while visiting an entry lies under the path the entry is printed as: a
    directory's contents are printed relative to it, with the separator. -/
theorem C19_listed_under (o : Opts) (es : List Entry) (fuel : Nat) :
    ∀ (e : Entry) (real shown : Str), ∀ p ∈ visit o es fuel e real shown, shown.isPrefixOf p = true := by
  induction fuel with
  | zero => intro e real shown p hp; simp [visit] at hp
  | succ fuel ih =>
    intro e real shown p hp
    unfold visit at hp
    simp only at hp
    split at hp
    · split at hp
      · simp at hp
      · simp only [List.mem_append, List.mem_flatMap] at hp
        rcases hp with h | ⟨c, _, hc⟩
        · split at h
          · simp only [List.mem_singleton] at h; subst h; simp [List.isPrefixOf_iff_prefix]
          · simp at h
        · have := ih c c.path (shown ++ [47] ++ baseOf c.path) p hc
          rw [List.isPrefixOf_iff_prefix] at this ⊢
          exact List.IsPrefix.trans (by simp [List.append_assoc]) this
    · split at hp
      · simp only [List.mem_singleton] at hp; subst hp; simp [List.isPrefixOf_iff_prefix]
      · simp at hp

/-- **No leading `./`.** Walking the root `.` prints every path relative to it: when no entry of the
    tree is named `.` or with a leading `./` (entries are relative paths), no listed path starts with
    `./` — whatever the options, the depth and the links followed. -/
theorem C19_no_dot_slash (o : Opts) (es : List Entry)
    (hes : ∀ e ∈ es, e.path ≠ [46] ∧ ([46, 47] : Str).isPrefixOf e.path = false) :
    ∀ p ∈ walk o es [46], ([46, 47] : Str).isPrefixOf p = false := by
  intro p hp
  unfold walk at hp
  simp only [beq_self_eq_true, if_true, List.mem_flatMap, List.mem_filter] at hp
  obtain ⟨c, ⟨hc, _⟩, hpc⟩ := hp
  have hpre := C19_listed_under o es (es.length + 2) c c.path c.path p hpc
  obtain ⟨hdot, hcp⟩ := hes c hc
  rw [List.isPrefixOf_iff_prefix] at hpre
  cases h : ([46, 47] : Str).isPrefixOf p with
  | false => rfl
  | true =>
    exfalso
    rw [List.isPrefixOf_iff_prefix] at h
    -- both [46,47] and c.path are prefixes of p; c.path is not empty (the filter) and does not start with "./"
    obtain ⟨r1, h1⟩ := h
    obtain ⟨r2, h2⟩ := hpre
    cases hcpath : c.path with
    | nil =>
      rename_i hne
      simp [hcpath] at hne
    | cons a rest =>
      rw [hcpath] at h2 hcp
      rw [← h1] at h2
      simp only [List.cons_append, List.cons.injEq] at h2
      obtain ⟨ha, hrest⟩ := h2
      subst ha
      cases rest with
      | nil =>
        -- c.path = "." : a file or directory literally named "." is not an entry of a tree
        exact hdot hcpath
      | cons b rest' =>
        simp only [List.cons_append, List.cons.injEq] at hrest
        obtain ⟨hb, _⟩ := hrest
        subst hb
        simp [List.isPrefixOf] at hcp

/-- Skip rules, on concrete paths: a base name matches only the last component, `foo/bar`
    matches `foo/bar` and `baz/foo/bar` but not `bazfoo/bar`. -/
theorem C19_skip_rules :
    let o : Opts := ⟨true, false, true, false, [[102, 111, 111, 47, 98, 97, 114]]⟩   -- foo/bar
    pruned o [102, 111, 111, 47, 98, 97, 114] = true ∧
    pruned o [98, 97, 122, 47, 102, 111, 111, 47, 98, 97, 114] = true ∧
    pruned o [98, 97, 122, 102, 111, 111, 47, 98, 97, 114] = false := by decide

example : walk ⟨true, true, false, false, []⟩ [⟨.dir, [97], []⟩, ⟨.file, [97, 47, 120], []⟩, ⟨.dir, [46, 104], []⟩, ⟨.file, [46, 104, 47, 121], []⟩] [46]
    = [[97, 47], [97, 47, 120]] := by decide

end Fzf.Props.C19

namespace Fzf.Walker
open Fzf
theorem length_dropWhile_le' (p : Nat → Bool) : ∀ l : List Nat, (l.dropWhile p).length ≤ l.length
  | [] => by simp
  | x :: l => by
    simp only [List.dropWhile_cons]
    split
    · exact Nat.le_succ_of_le (length_dropWhile_le' p l)
    · exact Nat.le_refl _

theorem strip_no_dot_slash : ∀ (fuel : Nat) (t : Str), t.length ≤ fuel →
    ¬ ([46, 47] <+: resolveRoot.strip t fuel)
  | 0, t, h => by
    have : t = [] := List.length_eq_zero_iff.mp (by omega)
    subst this
    unfold resolveRoot.strip
    simp
  | fuel + 1, t, h => by
    unfold resolveRoot.strip
    split
    · rename_i f rest heq
      have hf : f = fuel := by omega
      subst hf
      have hlen : (rest.dropWhile (· == 47)).length ≤ f := by
        have := length_dropWhile_le' (· == 47) rest
        simp only [List.length_cons] at h
        omega
      exact strip_no_dot_slash f _ hlen
    · rename_i hne
      intro hp
      obtain ⟨r, hr⟩ := hp
      exact hne fuel r rfl (by simpa using hr.symm)
end Fzf.Walker

namespace Fzf.Props.C19
open Fzf Fzf.Walker

/-- **A root under another spelling is printed without any leading `./`** — `./d`, `.//d`,
    `././d` are all printed as `d` (finding F34: `.//d` used to be printed as `/d`), for every
    root string. -/
theorem C19_root_printed_without_dot_slash (root : Str) : ¬ ([46, 47] <+: (resolveRoot root).2) := by
  unfold resolveRoot
  exact strip_no_dot_slash _ _ (Nat.le_refl _)

/- The spellings of one directory lead to the same place. -/
example : (resolveRoot [100, 47]).1 = [100] ∧ (resolveRoot [46, 47, 47, 100]) = ([100], [100]) ∧
    (resolveRoot [100, 47, 46, 46, 47, 100]) = ([100], [100, 47, 46, 46, 47, 100]) ∧
    (resolveRoot [100, 47, 46, 47, 101]) = ([100, 47, 101], [100, 47, 46, 47, 101]) := by decide

end Fzf.Props.C19
