import Fzf.Lemmas.History
/-
C18 — the query history file keeps the last N submitted queries in order.
Property theorems only; helper lemmas are in `Fzf/Lemmas/History.lean`.
-/
namespace Fzf.Props.C18
open Fzf Fzf.History

/-- The input line a session ends with. -/
def finalInput (file : Str) (m : Nat) (navs : List Nav) : Str :=
  (navs.foldl navStep { h := load file m, input := [] }).input

/-- One session, any initial file contents, any navigation/editing:
    the file is rewritten only by a non-empty submit, and then holds exactly the
    last `m` of (entries found ++ submitted query), whatever was edited on the way. -/
theorem C18_session_file (file : Str) (m : Nat) (navs : List Nav) (submit : Bool) :
    session file m navs submit =
      if submit ∧ finalInput file m navs ≠ []
      then render (lastN m (entries file ++ [finalInput file m navs]))
      else file := by
  unfold session finalInput
  cases submit with
  | false => simp
  | true =>
    simp only [if_true, true_and]
    have he := navs_entries navs { h := load file m, input := [] }
    by_cases hq : (navs.foldl navStep { h := load file m, input := [] }).input = []
    · simp [hq, append]
    · rw [append_file _ _ hq, he.1, he.2, load_entries, load_maxSize]
      simp [hq]

/-- Edits made while navigating are never written: the file after a session
    depends only on the entries found and the submitted line. -/
theorem C18_edits_not_persisted (file : Str) (m : Nat) (navs₁ navs₂ : List Nav)
    (h : finalInput file m navs₁ = finalInput file m navs₂) (submit : Bool) :
    session file m navs₁ submit = session file m navs₂ submit := by
  rw [C18_session_file, C18_session_file, h]

/-- A file written by fzf (non-empty, newline-free entries) loads as exactly those entries. -/
theorem C18_load_exact (es : List Str) (hall : ∀ e ∈ es, e ≠ [] ∧ 10 ∉ e) (m : Nat) :
    (load (render es) m).lines.dropLast = es := by
  rw [load_entries, entries_render es hall]

/-- A sequence of sessions, each submitting `q` (possibly empty = no submit). -/
def runSessions (m : Nat) (file : Str) : List Str → Str
  | [] => file
  | q :: qs => runSessions m (session file m [.edit q] true) qs

theorem lastN_lastN_append (m : Nat) (a b : List α) :
    lastN m (lastN m a ++ b) = lastN m (a ++ b) := by
  unfold lastN
  simp only [List.length_append, List.length_drop]
  rw [List.drop_append, List.drop_append, List.drop_drop]
  congr 1
  · congr 1; omega
  · congr 1; simp only [List.length_drop]; omega

theorem lastN_le (m : Nat) (a : List α) (h : a.length ≤ m) : lastN m a = a := by
  unfold lastN; simp [Nat.sub_eq_zero_of_le h]

theorem lastN_mem (m : Nat) (a : List α) (x : α) (h : x ∈ lastN m a) : x ∈ a :=
  List.mem_of_mem_drop h

/-- Any number of sessions: starting from a well-formed file holding `es₀`, the file
    ends up holding the last `m` of `es₀ ++ (the non-empty submitted queries)`, oldest
    first (or is untouched when nothing non-empty was ever submitted). -/
theorem C18_file_content (m : Nat) (es₀ : List Str) (qs : List Str)
    (h0 : ∀ e ∈ es₀, e ≠ [] ∧ 10 ∉ e) (hq : ∀ q ∈ qs, 10 ∉ q) (hlen : es₀.length ≤ m) :
    runSessions m (render es₀) qs = render (lastN m (es₀ ++ qs.filter (· ≠ []))) := by
  induction qs generalizing es₀ with
  | nil => simp [runSessions, lastN_le m es₀ hlen]
  | cons q qs ih =>
    simp only [runSessions]
    rw [C18_session_file]
    have hfi : finalInput (render es₀) m [.edit q] = q := rfl
    rw [hfi]
    by_cases hqe : q = []
    · subst hqe
      simp only [ne_eq, not_true_eq_false, and_false, if_false]
      rw [ih es₀ h0 (fun x hx => hq x (List.mem_cons_of_mem _ hx)) hlen]
      simp
    · simp only [ne_eq, hqe, not_false_eq_true, and_self, if_true]
      rw [entries_render es₀ h0]
      have hwf : ∀ e ∈ lastN m (es₀ ++ [q]), e ≠ [] ∧ 10 ∉ e := by
        intro e he
        have := lastN_mem _ _ _ he
        rcases List.mem_append.mp this with h | h
        · exact h0 e h
        · simp only [List.mem_singleton] at h; subst h; exact ⟨hqe, hq e (by simp)⟩
      have hl : (lastN m (es₀ ++ [q])).length ≤ m := by
        unfold lastN; simp only [List.length_drop, List.length_append, List.length_singleton]; omega
      rw [ih _ hwf (fun x hx => hq x (List.mem_cons_of_mem _ hx)) hl]
      rw [lastN_lastN_append]
      simp [hqe, List.append_assoc]

/-- previous/next never leave the stored range, from any file, after any actions. -/
theorem C18_cursor_in_range (file : Str) (m : Nat) (navs : List Nav) :
    let s := navs.foldl navStep { h := load file m, input := [] }
    s.h.cursor < s.h.lines.length ∧ s.h.lines.length = (entries file).length + 1 ∧
    current s.h ≠ none := by
  intro s
  have hi : History.Inv s.h := navs_inv navs _ (load_inv file m)
  have he := (navs_entries navs { h := load file m, input := [] }).1
  refine ⟨hi, ?_, by rw [current_eq_view _ hi]; simp⟩
  have : s.h.lines.dropLast.length = (entries file).length := by
    show (List.foldl navStep _ navs).h.lines.dropLast.length = _
    rw [he, load_entries]
  simp only [List.length_dropLast] at this
  unfold History.Inv at hi; omega

/-- Navigation is the slot editor: leaving a slot stores the (possibly edited) input
    line there and arriving at a slot shows what was stored — so coming back to an
    entry returns the edited-but-unsubmitted text. Holds along every action sequence. -/
theorem C18_edits_recalled (file : Str) (m : Nat) (navs : List Nav) :
    abs (navs.foldl navStep { h := load file m, input := [] }) =
      (navs.map (fun | .prev => SlotOp.prev | .next => .next | .edit t => .edit t)).foldl
        Slots.step (abs { h := load file m, input := [] }) := by
  suffices h : ∀ (s : Sess), History.Inv s.h → ModInv s.h →
      abs (navs.foldl navStep s) =
        (navs.map (fun | .prev => SlotOp.prev | .next => .next | .edit t => .edit t)).foldl
          Slots.step (abs s) from h _ (load_inv file m) (load_modInv file m)
  induction navs with
  | nil => intro s _ _; rfl
  | cons n ns ih =>
    intro s hi hm
    obtain ⟨h1, h2⟩ := navStep_refines s n hi hm
    simp only [List.foldl_cons, List.map_cons]
    rw [ih _ (navStep_inv s n hi) h2, h1]
    cases n <;> rfl

/- Non-vacuity: concrete, non-trivial instances of the hypotheses and conclusions. -/
example : runSessions 2 (render [[97], [98]]) [[99], [], [100]] = render [[99], [100]] := by decide
example : ∀ e ∈ [[97], [98]], e ≠ [] ∧ 10 ∉ e := by decide
example : session [97, 10, 98] 3 [.prev, .edit [120], .next, .edit [99], .prev] true
    = render [[97], [98], [120]] := by decide
-- slot editor: edit entry `b` to `x`, go away and come back: `x` is shown, the file keeps `b`
example : (([Nav.prev, .edit [120], .prev, .next].foldl navStep
    { h := load [97, 10, 98, 10] 5, input := [] }).input) = [120] := by decide
example : session [97, 10, 98, 10] 5 [.prev, .edit [120], .prev, .next, .next, .edit [99]] true
    = render [[97], [98], [99]] := by decide

end Fzf.Props.C18
