import Fzf.Lemmas.ChunkHeap
import Fzf.Lemmas.ChunkTail
import Fzf.Lemmas.Scan
/-
C13 — loading and searching run concurrently without interfering.
Property theorems only. The heap model makes the sharing between the growing list and the
snapshots explicit; the scan model is the cancellation protocol as a transition system.
-/
namespace Fzf.Props.C13
open Fzf Fzf.ChunkHeap

/-- Items pushed by a history. -/
def pushed : List Op → List Int
  | [] => []
  | .push i :: ops => i :: pushed ops
  | .snap _ :: ops => pushed ops

def noTail : List Op → Prop
  | [] => True
  | .push _ :: ops => noTail ops
  | .snap t :: ops => t = 0 ∧ noTail ops

/-- **Snapshots are frozen.** A snapshot taken at any reachable moment (with or without --tail)
    reads the same in every later heap, whatever pushes and further snapshots follow: no cell it
    refers to is ever written again. -/
theorem C13_snapshot_frozen (cz tail : Nat) (before after : List Op) :
    let cl := before.foldl (step cz) ⟨[], []⟩
    let r := snapshot tail cl
    ∀ id ∈ r.2, (after.foldl (step cz) r.1).cell id = r.1.cell id := by
  intro cl r
  have hwf : WF cl := steps_wf cz before _ wf_empty
  have hp : Protected r.2 r.1 := handOut_protected tail _ (trim_wf tail cl hwf)
  exact steps_protected cz r.2 after r.1 hp

/-- The same, for what a search reads: the item sequence of the snapshot never changes. -/
theorem C13_snapshot_contents_frozen (cz tail : Nat) (before after : List Op) :
    let cl := before.foldl (step cz) ⟨[], []⟩
    let r := snapshot tail cl
    contents (after.foldl (step cz) r.1) r.2 = contents r.1 r.2 :=
  contents_congr _ _ _ (C13_snapshot_frozen cz tail before after)

/-- The list holds exactly the items pushed so far, in order (histories without --tail). -/
theorem C13_list_is_pushed (cz : Nat) (ops : List Op) (h : noTail ops) (cl : CL) (hwf : WF cl) :
    contents (ops.foldl (step cz) cl) (ops.foldl (step cz) cl).ids = contents cl cl.ids ++ pushed ops := by
  induction ops generalizing cl with
  | nil => simp [pushed]
  | cons op ops ih =>
    cases op with
    | push i =>
      rw [List.foldl_cons, ih h _ (step_wf cz cl _ hwf)]
      simp only [step, pushed]
      rw [push_contents cz cl i hwf]; simp
    | snap t =>
      obtain ⟨ht, h'⟩ := h
      subst ht
      rw [List.foldl_cons, ih h' _ (step_wf cz cl _ hwf)]
      simp only [step, pushed]
      rw [(snapshot_contents cl hwf).2]

/-- **A search works on a frozen prefix.** Without --tail, the snapshot taken after a history
    holds exactly the items pushed by that history, in order, and still does after any later
    history of pushes and snapshots. -/
theorem C13_frozen_prefix (cz : Nat) (before after : List Op) (h : noTail before) :
    let cl := before.foldl (step cz) ⟨[], []⟩
    let r := snapshot 0 cl
    contents (after.foldl (step cz) r.1) r.2 = pushed before := by
  intro cl r
  have hwf : WF cl := steps_wf cz before _ wf_empty
  rw [C13_snapshot_contents_frozen cz 0 before after, (snapshot_contents cl hwf).1]
  have := C13_list_is_pushed cz before h ⟨[], []⟩ wf_empty
  simpa [contents] using this

/-- **A snapshot under --tail is the last N items.** At any reachable moment, `Snapshot(tail)`
    hands out — and leaves in the list — exactly the last `tail` items the list held, in order
    (all of them when there are fewer). -/
theorem C13_tail_snapshot_is_last_n (cz tail : Nat) (ht : 0 < tail) (before : List Op) :
    let cl := before.foldl (step cz) ⟨[], []⟩
    let r := snapshot tail cl
    contents r.1 r.2 = lastN tail (contents cl cl.ids) ∧ contents r.1 r.1.ids = lastN tail (contents cl cl.ids) :=
  snapshot_tail_contents tail _ (steps_wf cz before _ wf_empty) ht

/-- **`changed` is exact.** At any reachable moment `Snapshot` reports `changed` if and only if the
    list afterwards holds other items than before (the coordinator bumps the revision on it, and
    everything cached per revision depends on that). -/
theorem C13_changed_exact (cz tail : Nat) (before : List Op) :
    let cl := before.foldl (step cz) ⟨[], []⟩
    changed tail cl = true ↔ contents (snapshot tail cl).1 (snapshot tail cl).1.ids ≠ contents cl cl.ids :=
  changed_iff tail _ (steps_wf cz before _ wf_empty)

/-- **Same revision and same count ⇒ same items.** Along any history of pushes and snapshots (with
    or without --tail), with the revision bumped exactly when `Snapshot` reports `changed`, two
    snapshots taken under the same revision that report the same count hold the same items. This
    is the hypothesis `Valid` of `C08_merger_cache_transparent`: a merger cached for (revision,
    count) is a merger for the very same items. -/
theorem C13_same_revision_same_items (cz tail : Nat) (ops : List Op) :
    (coRun cz tail ⟨[], []⟩ 0 ops).Pairwise fun a b =>
      a.rev = b.rev → a.items.length = b.items.length → a.items = b.items := by
  refine (coRun_pairwise cz tail ops _ 0 wf_empty).imp ?_
  intro a b h hr hl
  exact List.IsPrefix.eq_of_length (h hr) hl

/-- The count reported with a snapshot is the number of items it holds. -/
theorem C13_count_consistent (cl : CL) (snap : List Nat) :
    countItems cl snap = (contents cl snap).length := by
  induction snap with
  | nil => rfl
  | cons a l ih => simp [countItems, contents] at ih ⊢

/-- **All or nothing.** Along every interleaving of the workers and the main goroutine, with a
    newer request possibly observed after any count: if the scan returns a result, it is the
    complete result of every slice, and the scan was not cancelled. -/
theorem C13_scan_all_or_nothing (slices : List (List (List Int))) (trace : List Scan.Label)
    (out : List (List Int))
    (h : (Scan.run (Scan.init slices) trace).phase = .finished (some out)) :
    out = slices.map List.flatten ∧ (Scan.run (Scan.init slices) trace).cancelled = false := by
  have inv := Scan.run_inv _ trace (Scan.init_inv slices)
  obtain ⟨h1, h2⟩ := inv.2.1 out h
  rw [Scan.expected_run, Scan.expected_init] at h1
  exact ⟨h1, h2⟩

/-- A cancelled scan publishes nothing. -/
theorem C13_cancelled_publishes_nothing (slices : List (List (List Int))) (trace : List Scan.Label)
    (h : (Scan.run (Scan.init slices) trace).cancelled = true) :
    (Scan.run (Scan.init slices) trace).phase = .finished none :=
  (Scan.run_inv _ trace (Scan.init_inv slices)).2.2 h

/-! Non-vacuity: a history that reaches a completed scan, one that reaches a cancelled one, and a
    snapshot that is followed by pushes into the chunk it was copied from. -/
example : (Scan.run (Scan.init [[[1], [2, 3]], [[4]]])
    [.work 0, .check 0, .work 1, .check 1, .work 0, .check 0, .recv false, .recv false, .recv true,
     .finish 0, .finish 1, .collect]).phase = .finished (some [[1, 2, 3], [4]]) := by decide
example : (Scan.run (Scan.init [[[1], [2, 3]], [[4]]])
    [.work 0, .check 0, .recv true, .work 1, .check 1, .work 0, .check 0, .finish 0, .finish 1, .collect]).phase
    = .finished none := by decide
example :
    let cl := [Op.push 1, .push 2, .push 3].foldl (step 2) ⟨[], []⟩
    let r := snapshot 0 cl
    let cl2 := [Op.push 4, .push 5].foldl (step 2) r.1
    contents cl2 r.2 = [1, 2, 3] ∧ contents cl2 cl2.ids = [1, 2, 3, 4, 5] := by decide

/-- --tail 2 over pushes 1..5 with snapshots in between: the revision is bumped exactly by the
    snapshots that drop something, and every snapshot shows the last two items. -/
example :
    (coRun 2 2 ⟨[], []⟩ 0 [.push 1, .push 2, .snap 2, .push 3, .snap 2, .snap 2, .push 4, .push 5, .snap 2]).map
      (fun r => (r.rev, r.items)) = [(0, [1, 2]), (1, [2, 3]), (1, [2, 3]), (2, [4, 5])] := by decide

end Fzf.Props.C13
