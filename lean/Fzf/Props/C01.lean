import Fzf.Lemmas.Pattern
import Fzf.Spec.Query
import Fzf.Lemmas.ParseRender
import Fzf.Lemmas.FilterOnce
import Fzf.Lemmas.TermDecides
/-
C01 — filtering is exact: the lines shown are the lines satisfying the query.
Property theorems only.
-/
namespace Fzf.Props.C01
open Fzf Fzf.Algo Fzf.Pattern

/-- An extended-mode pattern matches a line exactly when every space-separated group has a term
    that matches with the right polarity: groups are AND-ed, `|` alternatives OR-ed, `!` negates.
    Holds for every pattern, every line (token list) and every behaviour of the match
    functions, as long as they return (C02: they do not crash). -/
theorem C01_extended_iff (cfg : Cfg) (pat : Pattern) (toks : List Tok) (withPos : Bool) (cap : Nat)
    (hext : pat.extended = true)
    (hrun : ∀ t, ∃ r, runTermOn cfg pat toks withPos cap t = .ok r) :
    ∃ r, matchItem cfg pat toks withPos cap = .ok r ∧
      (r.isSome = true ↔ ∀ ts ∈ pat.termSets, ∃ t ∈ ts, t.inv ≠ hits (runTermOn cfg pat toks withPos cap) t) := by
  obtain ⟨r, hr, _, hiff⟩ := setsMatch_spec (runTermOn cfg pat toks withPos cap) hrun withPos pat.termSets
  obtain ⟨offs, total, allPos⟩ := r
  simp only [matchItem, hext, if_true, extendedMatch, hr, bind, Except.bind, pure, Except.pure]
  by_cases hlen : offs.length = pat.termSets.length
  · refine ⟨_, by simp [hlen]; rfl, ?_⟩
    simp only [Option.isSome_some, true_iff]
    exact hiff.mp hlen
  · refine ⟨none, by simp [hlen], ?_⟩
    simp only [Option.isSome_none, Bool.false_eq_true, false_iff]
    intro h; exact hlen (hiff.mpr h)

/-- The same statement read as the specification's AND-of-OR-with-negation over a decision
    function for single terms. -/
theorem C01_extended_is_and_of_or (cfg : Cfg) (pat : Pattern) (toks : List Tok) (withPos : Bool) (cap : Nat)
    (hext : pat.extended = true)
    (hrun : ∀ t, ∃ r, runTermOn cfg pat toks withPos cap t = .ok r) :
    ∃ r, matchItem cfg pat toks withPos cap = .ok r ∧
      r.isSome = pat.termSets.all (fun ts => ts.any fun t => t.inv != hits (runTermOn cfg pat toks withPos cap) t) := by
  obtain ⟨r, hr, hiff⟩ := C01_extended_iff cfg pat toks withPos cap hext hrun
  refine ⟨r, hr, ?_⟩
  rw [Bool.eq_iff_iff, hiff]
  simp [List.all_eq_true, List.any_eq_true, bne_iff_ne]

/-- **The documented search syntax is read as documented.** For every well-formed query — any
    number of space-separated groups, each any number of `|`-separated terms of any kind (fuzzy,
    `'exact`, `'boundary'`, `^prefix`, `suffix$`, `^equal$`), negated or not, whose texts are
    non-empty, tab-free, do not begin with `! ' ^`, do not end with `$ ' \` and are not `|`; spaces
    inside a text written as `\ ` — in fuzzy and in `--exact` mode, under every case mode, with or
    without `--literal`: `parseTerms` applied to the concrete syntax returns exactly the documented
    terms (`Query.compile`: kind, polarity, smart-case decided per term on its own text, accent
    normalisation unless the term itself carries an accent, the escaped spaces restored), group
    by group, in order. `CfgOk`: lower-casing never produces a syntax character from a non-ASCII
    rune (checked on Go's table in every run) and normalisation leaves the syntax characters
    alone (`C02_normalize_ascii`). -/
theorem C01_documented_syntax (cfg : Cfg) (hc : Query.CfgOk cfg) (fuzzy : Bool) (cm : CaseMode) (normalize : Bool)
    (q : Query.Query) (hw : Query.wf q = true) :
    parseTerms cfg fuzzy cm normalize (Query.render fuzzy q) = q.map (·.map (Query.compile cfg cm normalize)) :=
  Query.parse_render cfg hc fuzzy cm normalize q hw

/-- The hypothesis holds of every configuration whose normalisation is `normalizeRune` over any
    table and whose lower-casing is ASCII-only or maps non-ASCII runes to non-syntax runes. -/
theorem C01_cfgOk_of_tables (U : Unicode) (sch : Scheme) (tbl : List (Nat × Nat))
    (hl : ∀ c, c > 127 → Query.isSyn (U.lower c) = false) :
    Query.CfgOk ⟨U, sch, normalizeRune tbl⟩ := by
  refine ⟨hl, ?_⟩
  intro c hs
  have : c < 128 := by
    have := hs; simp [Query.isSyn] at this; omega
  show normalizeRune tbl c = c
  unfold normalizeRune
  rw [if_pos (Or.inl (by omega))]

/-- **`fzf --filter` prints exactly the matching lines.** For every list of input records, every
    query and every option set (sorting, --tac, --tail, --nth / --with-nth, --header-lines, criteria):
    a numbered record is in the output if and only if it is an item (one of the last `--tail`
    items) on which the pattern matches, printed as the item's original record — no matching
    line is dropped, no other line is shown. What "the pattern matches" means for an extended
    query is `C01_extended_iff`; how the query is read is `C01_documented_syntax`. (For the empty
    pattern every item is printed: `Filter.runIdx`, first branch.) -/
theorem C01_filter_exact (o : Filter.Opts) (slabCap : Nat) (query : Str) (lines : List Str) (out : List (Nat × Str))
    (h : Filter.runIdx o slabCap query lines = some out)
    (hpat : ¬ ((buildPattern o.cfg o.fuzzy o.v2 o.extended o.caseMode o.normalize (Filter.dirAndPos o.criteria).1 false query).isEmpty = true ∧
              (!(!o.sort && !o.tac)) = true)) :
    ∀ p : Nat × Str, p ∈ out ↔ ∃ it ∈ Filter.itemsOf o lines, p = (it.index, it.orig) ∧
      ∃ m, matchItem o.cfg (buildPattern o.cfg o.fuzzy o.v2 o.extended o.caseMode o.normalize (Filter.dirAndPos o.criteria).1 false query)
        (Filter.inputTokens o it) (if (!o.sort && !o.tac) then false else (Filter.dirAndPos o.criteria).2) slabCap = .ok (some m) :=
  Filter.runIdx_exact o slabCap query lines out h hpat

/-- **Exact terms are decided exactly** (`'t`, every term under --exact, every negated term `!t`):
    in fzf's three schemes, over any list of searched fields (the whole line, or the fields --nth
    selects), the term is reported to match if and only if its text occurs, character by
    character after case folding / normalisation, in one of the fields — and the evaluation
    always returns. No matching line is dropped (the ASCII pre-filter, the restart after a
    partial match and the loop bound lose nothing) and no other line is shown. -/
theorem C01_exact_term_decides (cfg : Cfg) (hs : RealScheme cfg) (hnorm : ∀ c, c < 128 → cfg.norm c = c)
    (v2 : Bool) (cs norm fwd : Bool) (p : Array Nat) (hm : 0 < p.size) (wp : Bool) (cap : Nat) (toks : List Tok)
    (htok : ∀ t ∈ toks, t.isBytes = true → ∀ c ∈ t.text.toList, c < 128) :
    ∃ x, iter cfg v2 .exact toks cs norm fwd p wp cap = .ok x ∧
      (x.isSome = true ↔ ∃ t ∈ toks, OccursIn cfg cs norm p t) :=
  exact_term_decides cfg hs hnorm v2 cs norm fwd p hm wp cap toks htok

/-- **Anchored terms are decided exactly** over any list of searched fields: `^t` is reported iff
    some field has `t` right after its leading whitespace, `t$` iff some field has it right before
    its trailing whitespace, `^t$` iff some field, trimmed, is `t` (whitespace is kept where the
    term itself starts / ends with whitespace) — and the evaluation always returns. -/
theorem C01_anchored_terms_decide (cfg : Cfg) (v2 : Bool) (cs norm fwd : Bool) (p : Array Nat) (hm : 0 < p.size) (wp : Bool) (cap : Nat)
    (toks : List Tok) :
    (∃ x, iter cfg v2 .prefix toks cs norm fwd p wp cap = .ok x ∧ (x.isSome = true ↔ ∃ t ∈ toks,
      OccAt (fun c pc => foldTL cfg cs norm c == pc) t.text p (if !cfg.U.isSpace (p.getD 0 0) then leadingWhitespaces cfg t.text else 0))) ∧
    (∃ x, iter cfg v2 .suffix toks cs norm fwd p wp cap = .ok x ∧ (x.isSome = true ↔ ∃ t ∈ toks,
      p.size ≤ suffixEnd cfg t.text p ∧ OccAt (fun c pc => foldTL cfg cs norm c == pc) t.text p (suffixEnd cfg t.text p - p.size))) ∧
    (∃ x, iter cfg v2 .equal toks cs norm fwd p wp cap = .ok x ∧ (x.isSome = true ↔ ∃ t ∈ toks,
      ((t.text.size : Int) - (if !cfg.U.isSpace (p.getD 0 0) then leadingWhitespaces cfg t.text else 0 : Nat) -
          (if !cfg.U.isSpace (p.getD (p.size - 1) 0) then trailingWhitespaces cfg t.text else 0 : Nat) = p.size ∧
        OccAt (equalOk cfg cs norm) t.text p (if !cfg.U.isSpace (p.getD 0 0) then leadingWhitespaces cfg t.text else 0)))) :=
  anchored_terms_decide cfg v2 cs norm fwd p hm wp cap toks

/- The documented syntax, on concrete queries (kernel-evaluated; `U` = ASCII-only oracle). -/
def asciiU : Unicode := ⟨fun c => if 65 ≤ c ∧ c ≤ 90 then c + 32 else c, fun c => c == 32 || (9 ≤ c && c ≤ 13), fun _ => 1⟩
def cfgA : Cfg := ⟨asciiU, schemeDefault, id⟩

-- "foo 'bar | ^baz !qux$"  →  [fuzzy foo] ∧ [exact bar ∨ prefix baz] ∧ [¬ suffix qux]
example : parseTerms cfgA true .smart false
    [102,111,111,32,39,98,97,114,32,124,32,94,98,97,122,32,33,113,117,120,36] =
    [[⟨.fuzzy, false, [102,111,111], false, false⟩],
     [⟨.exact, false, [98,97,114], false, false⟩, ⟨.prefix, false, [98,97,122], false, false⟩],
     [⟨.suffix, true, [113,117,120], false, false⟩]] := by decide
-- smart-case is decided per term: "Foo bar" → Foo case-sensitive, bar not
example : (parseTerms cfgA true .smart false [70,111,111,32,98,97,114]).map (·.map (·.cs)) = [[true], [false]] := by decide
-- rendering a query and parsing it back gives the documented terms
example : parseTerms cfgA true .smart false
    (Query.render true [[⟨.boundary, false, [97, 32, 98]⟩], [⟨.fuzzy, true, [99]⟩, ⟨.equal, false, [100]⟩]]) =
    [[⟨.boundary, false, [97, 32, 98], false, false⟩],
     [⟨.fuzzy, true, [99], false, false⟩, ⟨.equal, false, [100], false, false⟩]] := by decide

-- the hypotheses of C01_documented_syntax are satisfiable: the ASCII-only oracle is `CfgOk`, and a query with
-- an escaped space, a negated fuzzy term and an anchored term is well-formed
example : Query.CfgOk cfgA := by
  refine ⟨?_, fun _ _ => rfl⟩
  intro c hc
  have h1 : ¬ (65 ≤ c ∧ c ≤ 90) := by omega
  simp [cfgA, asciiU, h1, Query.isSyn]
  omega
example : Query.wf [[⟨.boundary, false, [97, 32, 98]⟩], [⟨.fuzzy, true, [99]⟩, ⟨.equal, false, [100]⟩]] = true := by decide

end Fzf.Props.C01
