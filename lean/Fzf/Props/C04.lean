import Fzf.Lemmas.FilterOnce
import Fzf.Lemmas.Rank
import Fzf.Lemmas.Merger
import Fzf.Generated.Consts
import Fzf.Generated.GoFuncs
/-
C04 — results are the matched lines, each once, in rank order.
Property theorems only.
-/
namespace Fzf.Props.C04
open Fzf Fzf.Rank

/-- The amd64 fast path (four uint16 read as one little-endian uint64) is the generic
    lexicographic comparison of (points[3], points[2], points[1], points[0], index). -/
theorem C04_cmp64_eq_generic (a b : R) (tac : Bool) (ha : WF a) (hb : WF b) :
    compareRanks64 a b tac = compareRanksGeneric a b tac := by
  have a0 := wf_get a ha 0; have a1 := wf_get a ha 1; have a2 := wf_get a ha 2; have a3 := wf_get a ha 3
  have b0 := wf_get b hb 0; have b1 := wf_get b hb 1; have b2 := wf_get b hb 2; have b3 := wf_get b hb 3
  unfold compareRanks64 compareRanksGeneric compareRanksGeneric.go packed
  generalize a.pts.getD 0 0 = x0 at *; generalize a.pts.getD 1 0 = x1 at *
  generalize a.pts.getD 2 0 = x2 at *; generalize a.pts.getD 3 0 = x3 at *
  generalize b.pts.getD 0 0 = y0 at *; generalize b.pts.getD 1 0 = y1 at *
  generalize b.pts.getD 2 0 = y2 at *; generalize b.pts.getD 3 0 = y3 at *
  simp only [compareRanksGeneric.go]
  by_cases h3 : x3 < y3
  · simp only [h3, if_true]; rw [if_pos (by omega)]
  · by_cases h3' : x3 > y3
    · simp only [h3, h3', if_true, if_false]; rw [if_neg (by omega), if_pos (by omega)]
    · have e3 : x3 = y3 := by omega
      subst e3
      simp only [Nat.lt_irrefl, gt_iff_lt, if_false]
      by_cases h2 : x2 < y2
      · simp only [h2, if_true]; rw [if_pos (by omega)]
      · by_cases h2' : x2 > y2
        · simp only [h2, gt_iff_lt, h2', if_true, if_false]; rw [if_neg (by omega), if_pos (by omega)]
        · have e2 : x2 = y2 := by omega
          subst e2
          simp only [Nat.lt_irrefl, if_false]
          by_cases h1 : x1 < y1
          · simp only [h1, if_true]; rw [if_pos (by omega)]
          · by_cases h1' : x1 > y1
            · simp only [h1, gt_iff_lt, h1', if_true, if_false]; rw [if_neg (by omega), if_pos (by omega)]
            · have e1 : x1 = y1 := by omega
              subst e1
              simp only [Nat.lt_irrefl, if_false]
              by_cases h0 : x0 < y0
              · simp only [h0, if_true]; rw [if_pos (by omega)]
              · by_cases h0' : x0 > y0
                · simp only [h0, gt_iff_lt, h0', if_true, if_false]; rw [if_neg (by omega), if_pos (by omega)]
                · have e0 : x0 = y0 := by omega
                  subst e0
                  simp

/-- The sort key as a tuple: score point first, then the tiebreak points, compared
    lexicographically; the numeric order of the packed word is that order. -/
theorem C04_packed_lt_iff_lex (a b : R) (ha : WF a) (hb : WF b) :
    packed a < packed b ↔
      (a.pts.getD 3 0 < b.pts.getD 3 0 ∨ (a.pts.getD 3 0 = b.pts.getD 3 0 ∧
        (a.pts.getD 2 0 < b.pts.getD 2 0 ∨ (a.pts.getD 2 0 = b.pts.getD 2 0 ∧
          (a.pts.getD 1 0 < b.pts.getD 1 0 ∨ (a.pts.getD 1 0 = b.pts.getD 1 0 ∧
            a.pts.getD 0 0 < b.pts.getD 0 0)))))) := by
  have a0 := wf_get a ha 0; have a1 := wf_get a ha 1; have a2 := wf_get a ha 2; have a3 := wf_get a ha 3
  have b0 := wf_get b hb 0; have b1 := wf_get b hb 1; have b2 := wf_get b hb 2; have b3 := wf_get b hb 3
  unfold packed
  omega

/-- On results of distinct items the comparison is a strict total order: exactly one of
    `less a b`, `less b a` holds (so the sorted permutation is unique and the instability of
    sort.Sort is irrelevant), for --tac and not. -/
theorem C04_less_total_asymm (a b : R) (tac : Bool) (hidx : a.index ≠ b.index) :
    compareRanks64 a b tac = !compareRanks64 b a tac := cmp_total_asymm a b tac hidx

theorem C04_less_trans (a b c : R) (tac : Bool)
    (hab : compareRanks64 a b tac = true) (hbc : compareRanks64 b c tac = true) : compareRanks64 a c tac = true :=
  cmp_trans a b c tac hab hbc

/-- The worker partitions are consecutive slices whose concatenation is the snapshot: every
    chunk is scanned by exactly one worker, for every chunk count and every partition count. -/
theorem C04_slices_partition (partitions : Nat) (chunks : List α) (hp : 0 < partitions) (hc : chunks ≠ []) :
    (sliceChunks partitions chunks).flatten = chunks := by
  unfold sliceChunks
  simp only
  split
  · exact sliceGo_flatten 1 chunks.length chunks (List.length_pos_iff.mpr hc)
  · exact sliceGo_flatten _ partitions chunks hp

/-- … and there are at most `partitions` of them. -/
theorem C04_slices_count (partitions : Nat) (chunks : List α) :
    (sliceChunks partitions chunks).length ≤ max partitions chunks.length := by
  unfold sliceChunks
  simp only
  split <;> simp [sliceGo_length] <;> omega

/-- **Merging the workers' lists is sorting.** If every worker's list is in rank order (which
    sort.Sort guarantees) and the results belong to distinct items, then after as many rounds of
    `mergedGet` as there are results — for any number of lists, any lengths, --tac or not — the
    merged list is in rank order and is a permutation of all results: each matched line once, in the
    order of the sort key. -/
theorem C04_merge_is_sort (lists : List (List R)) (tac : Bool)
    (hs : ∀ l ∈ lists, l.Pairwise fun a b => compareRanks64 a b tac = true)
    (hd : DistinctIdx lists.flatten) :
    ∃ m, mergeN lists.flatten.length (Merger.new lists true tac) = some m ∧
      (m.merged.Pairwise fun a b => compareRanks64 a b tac = true) ∧ m.merged.Perm lists.flatten :=
  merge_sorted_perm lists tac hs hd

/-- **The merge is lazy without being observable**: after `k` rounds exactly the first `k` results
    of the complete merge are there, so `Get(i)` is the `i`-th result of the sorted list whatever
    was requested before (scrolling, jumping to the end, searching an index). -/
theorem C04_lazy_any_order (lists : List (List R)) (tac : Bool)
    (hs : ∀ l ∈ lists, l.Pairwise fun a b => compareRanks64 a b tac = true)
    (hd : DistinctIdx lists.flatten) (k : Nat) (hk : k ≤ lists.flatten.length) :
    ∃ mk mall, mergeN k (Merger.new lists true tac) = some mk ∧
      mergeN lists.flatten.length (Merger.new lists true tac) = some mall ∧
      mk.merged = mall.merged.take k :=
  merge_lazy_prefix lists tac hs hd k hk

/-- Each round appends exactly one result and never touches the ones already merged. -/
theorem C04_round_appends (m m' : Merger) (h : m.mergeStep = some m') : ∃ r, m'.merged = m.merged ++ [r] :=
  mergeStep_append m m' h

/-- **Pass-through results (empty query, `--no-sort`) are the loaded items, each once, in input
    order**: for every chunk layout a snapshot can have — the first chunk partial after `--tail`
    trimming, the middle chunks full, the last one partially filled — and every chunk size,
    `Get(i)` is the `i`-th item of the concatenated chunks (`none` beyond the end). -/
theorem C04_pass_get (cs : Nat) (hcs : 0 < cs) (chunks : List (List Int)) (h : Layout cs chunks) (idx : Nat) :
    passGet cs chunks false idx = chunks.flatten[idx]? :=
  passGet_fwd cs hcs chunks h idx

/-- … and in reverse input order under `--tac`. -/
theorem C04_pass_get_tac (cs : Nat) (hcs : 0 < cs) (chunks : List (List Int)) (h : Layout cs chunks) (idx : Nat) :
    passGet cs chunks true idx = chunks.flatten.reverse[idx]? :=
  passGet_tac cs hcs chunks h idx

/-- The clamp applied to every rank point is the function in the source: `util.AsUint16`,
    translated from /repo on every run, is the model's `asUint16`; a rank point always fits in the
    16 bits it is packed into. -/
theorem C04_asUint16_is_source (v : Int) :
    Generated.Go.AsUint16 v = (asUint16 v : Int) ∧ asUint16 v < 65536 := by
  unfold Generated.Go.AsUint16 asUint16
  by_cases h1 : v > 65535 <;> by_cases h2 : v < 0 <;> simp [h1, h2] <;> omega

-- non-vacuity: two sorted lists of distinct items
example : (∀ l ∈ [[(⟨[0, 0, 1, 65499], 1⟩ : R), ⟨[0, 0, 4, 65499], 2⟩], [⟨[0, 0, 2, 65499], 3⟩]],
    l.Pairwise fun a b => compareRanks64 a b false = true) ∧
    DistinctIdx ([[(⟨[0, 0, 1, 65499], 1⟩ : R), ⟨[0, 0, 4, 65499], 2⟩], [⟨[0, 0, 2, 65499], 3⟩]].flatten) := by
  refine ⟨by decide, by unfold DistinctIdx; decide⟩
example : ((mergeN 3 (Merger.new [[(⟨[0, 0, 1, 65499], 1⟩ : R), ⟨[0, 0, 4, 65499], 2⟩], [⟨[0, 0, 2, 65499], 3⟩]] true false)).map
    (·.merged.map (·.index))) = some [1, 3, 2] := by decide
example : Layout 3 [[7, 8], [9, 10, 11], [12, 13, 14], [15]] := by simp [Layout, Uniform]
example : passGet 3 [[7, 8], [9, 10, 11], [12, 13, 14], [15]] false 5 = some 12 := by decide
example : WF ⟨[65535, 0, 7, 65499], 3⟩ := by simp [WF]
example : compareRanks64 ⟨[0, 0, 1, 65499], 1⟩ ⟨[0, 0, 4, 65499], 2⟩ true = true := by decide
example : sliceChunks 3 [0, 1, 2, 3, 4, 5, 6] = [[0, 1], [2, 3], [4, 5, 6]] := by decide

/-- **Each line once.** Whatever the query, the tiebreak criteria, --tac / --no-sort / --tail and
    the behaviour of the match functions: `fzf --filter` never prints an input record twice (the
    item numbers of its output are pairwise distinct). Together with `C07_filter_prints_originals`
    (every printed record is an input record) the output is a selection of the input lines. -/
theorem C04_each_line_once (o : Filter.Opts) (slabCap : Nat) (query : Str) (lines : List Str)
    (out : List (Nat × Str)) (h : Filter.runIdx o slabCap query lines = some out) : (out.map (·.1)).Nodup :=
  Filter.runIdx_nodup o slabCap query lines out h

end Fzf.Props.C04
