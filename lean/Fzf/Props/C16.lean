import Fzf.Model.Http
/-
C16 — the --listen endpoint is robust and enforces its access rules.
Property theorems only. (`handle` is total by construction: every chunk sequence yields one of
the four answer classes of `Resp`; only `Resp.post` carries text for the action parser.)
-/
namespace Fzf.Props.C16
open Fzf Fzf.Http

/-- With a configured key, an answer that accepts actions or reveals state is only given when
    the `x-api-key` header value equals the key exactly — for every byte stream and chunking. -/
theorem C16_key_required (serverKey : Str) (chunks : List Str) (hk : serverKey ≠ [])
    (h : (∃ t, handle serverKey chunks = .post t) ∨ (∃ l o, handle serverKey chunks = .getOk l o)) :
    (scanLoop { chunks := chunks } {} ((chunks.map List.length).sum + 10)).apiKey = serverKey ∨
    (scanLoop { chunks := chunks } {} ((chunks.map List.length).sum + 10)).result.isSome = true := by
  unfold handle conclude at h
  generalize scanLoop { chunks := chunks } {} ((chunks.map List.length).sum + 10) = hs at h ⊢
  cases hr : hs.result with
  | some r => simp
  | none =>
    simp only [hr] at h
    by_cases hkey : hs.apiKey = serverKey
    · exact Or.inl hkey
    · have : (!serverKey.isEmpty) = true := by cases serverKey <;> simp_all
      simp [this, hkey] at h

/-- A rejection decided while scanning (bad method, bad or missing content length) is final:
    no later header or body can turn it into an acceptance. -/
theorem C16_reject_is_final (serverKey : Str) (h : HS) (r : Resp) (hr : h.result = some r) :
    conclude serverKey h = r := by
  simp [conclude, hr]

/-- An accepted POST hands over exactly the first `Content-Length` bytes of the body (minus
    surrounding CR/LF), and only when at least that many bytes arrived. -/
theorem C16_post_body_exact (serverKey : Str) (h : HS) (t : Str) (hn : h.result = none)
    (hp : conclude serverKey h = .post t) :
    h.contentLength ≤ h.body.length ∧ t = trimCRLF (h.body.take h.contentLength) ∧ h.get = none := by
  unfold conclude at hp
  simp only [hn] at hp
  split at hp
  · cases hp
  · cases hg : h.get with
    | some q => simp [hg] at hp
    | none =>
      simp only [hg] at hp
      split at hp
      · cases hp
      · injection hp with hp; exact ⟨by omega, hp.symm, rfl⟩

/-- The content length a request can establish is bounded (oversized requests are rejected). -/
theorem C16_content_length_bounded (h : HS) (t : Str) (hb : h.contentLength ≤ maxContentLength) :
    (onToken h t).contentLength ≤ maxContentLength := by
  unfold onToken
  dsimp only
  repeat' split
  all_goals first
    | exact hb
    | (dsimp only; omega)

example : handle [107] [[71, 69, 84, 32, 47, 32, 72, 84, 84, 80, 13, 10, 13, 10]] = .unauthorized := by decide

end Fzf.Props.C16
