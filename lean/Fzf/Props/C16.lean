import Fzf.Model.Http
/-
C16 — the --listen endpoint is robust and enforces its access rules.
Property theorems only. (`handle` is total by construction: every chunk sequence yields one of
the four answer classes of `Resp`; only `Resp.post` carries text for the action parser.)
-/
namespace Fzf.Props.C16
open Fzf Fzf.Http

/-- With a configured key, an answer that accepts actions or reveals state is only given when
    the `x-api-key` header value equals the key exactly — for every byte stream and chunking. -/
theorem C16_key_required (serverKey : Str) (chunks : List Str) (hk : serverKey ≠ [])
    (h : (∃ t, handle serverKey chunks = .post t) ∨ (∃ l o, handle serverKey chunks = .getOk l o)) :
    (scanLoop { chunks := chunks } {} ((chunks.map List.length).sum + 10)).apiKey = serverKey ∨
    (scanLoop { chunks := chunks } {} ((chunks.map List.length).sum + 10)).result.isSome = true := by
  unfold handle conclude at h
  generalize scanLoop { chunks := chunks } {} ((chunks.map List.length).sum + 10) = hs at h ⊢
  cases hr : hs.result with
  | some r => simp
  | none =>
    simp only [hr] at h
    by_cases hkey : hs.apiKey = serverKey
    · exact Or.inl hkey
    · have : (!serverKey.isEmpty) = true := by cases serverKey <;> simp_all
      simp [this, hkey] at h

/-- A rejection decided while scanning (bad method, bad or missing content length) is final:
    no later header or body can turn it into an acceptance. -/
theorem C16_reject_is_final (serverKey : Str) (h : HS) (r : Resp) (hr : h.result = some r) :
    conclude serverKey h = r := by
  simp [conclude, hr]

/-- An accepted POST hands over exactly the first `Content-Length` bytes of the body (minus
    surrounding CR/LF), and only when at least that many bytes arrived. -/
theorem C16_post_body_exact (serverKey : Str) (h : HS) (t : Str) (hn : h.result = none)
    (hp : conclude serverKey h = .post t) :
    h.contentLength ≤ h.body.length ∧ t = trimCRLF (h.body.take h.contentLength) ∧ h.get = none := by
  unfold conclude at hp
  simp only [hn] at hp
  split at hp
  · cases hp
  · cases hg : h.get with
    | some q => simp [hg] at hp
    | none =>
      simp only [hg] at hp
      split at hp
      · cases hp
      · injection hp with hp; exact ⟨by omega, hp.symm, rfl⟩

/-- The content length a request can establish is bounded (oversized requests are rejected). -/
theorem C16_content_length_bounded (h : HS) (t : Str) (hb : h.contentLength ≤ maxContentLength) :
    (onToken h t).contentLength ≤ maxContentLength := by
  unfold onToken
  dsimp only
  repeat' split
  all_goals first
    | exact hb
    | (dsimp only; omega)

/-- While scanning, a verdict is only ever a rejection. -/
def NoPost (h : HS) : Prop := ∀ t, h.result ≠ some (.post t)

theorem onToken_noPost (h : HS) (t : Str) (hn : NoPost h) : NoPost (onToken h t) := by
  unfold onToken NoPost at *
  intro t'
  dsimp only
  repeat' split
  all_goals first
    | exact hn t'
    | (dsimp only; intro hc; cases hc)

theorem scanLoop_noPost (sc : Scanner) (h : HS) (fuel : Nat) (hn : NoPost h) : NoPost (scanLoop sc h fuel) := by
  induction fuel generalizing sc h with
  | zero => exact hn
  | succ fuel ih =>
    unfold scanLoop
    split
    · exact hn
    · split
      · exact hn
      · exact ih _ _ (onToken_noPost h _ hn)

/-- The request line decides once: after the first token the captured GET query is never
    changed by headers or body. -/
theorem onToken_get_stable (h : HS) (t : Str) (hs : h.section_ ≠ 0) : (onToken h t).get = h.get := by
  unfold onToken
  split
  · rename_i h0; exact absurd h0 hs
  · dsimp only; repeat' split
    all_goals rfl
  · rfl

/-- **GET never changes state.** For every byte stream and chunking: an answer that hands text to
    the action interpreter is given only when the request line was not a GET (the captured GET
    query is absent) and nothing was rejected while scanning — a GET request line can only be
    answered with the state, with 401 or with 400. -/
theorem C16_get_never_acts (serverKey : Str) (chunks : List Str) (t : Str) (h : handle serverKey chunks = .post t) :
    (scanLoop { chunks := chunks } {} ((chunks.map List.length).sum + 10)).get = none := by
  unfold handle at h
  have hnp := scanLoop_noPost { chunks := chunks } {} ((chunks.map List.length).sum + 10) (by intro t' hc; cases hc)
  generalize scanLoop { chunks := chunks } {} ((chunks.map List.length).sum + 10) = hs at h hnp ⊢
  cases hr : hs.result with
  | some r =>
    rw [C16_reject_is_final serverKey hs r hr] at h
    subst h
    exact absurd hr (hnp t)
  | none => exact (C16_post_body_exact serverKey hs t hr h).2.2

example : handle [107] [[71, 69, 84, 32, 47, 32, 72, 84, 84, 80, 13, 10, 13, 10]] = .unauthorized := by decide

end Fzf.Props.C16
