import Fzf.Lemmas.Preview
/-
C20 — the preview always catches up with the focused line.
Property theorems only, over the transition-system model of the previewer. Requests are numbered
in the order the render loop makes them; the last request is the one for the line now under the
cursor with the current query and selection.
-/
namespace Fzf.Props.C20
open Fzf Fzf.Preview

/-- **At quiescence the last command run is the one for the latest request**, along every
    interleaving of refreshes, the previewer, the watcher and commands ending or being killed;
    and the log of commands run never goes back to an older request. -/
theorem C20_latest_request_runs_last (ends : Nat → Bool) (trace : List Label) :
    let s := run ends {} trace
    s.started.Pairwise (· < ·) ∧
    (s.quit = false → quiescent s = true → s.enq > 0 → s.started.getLast? = some s.enq) := by
  intro s
  have inv := run_inv ends trace {} init_inv
  refine ⟨inv.i, ?_⟩
  intro hq hqu hpos
  simp only [quiescent, Bool.and_eq_true, Option.isNone_iff_eq_none] at hqu
  rcases inv.b hq hqu.1 with ⟨h0, _⟩ | h
  · have : s.enq = 0 := h0
    omega
  · exact h

/-- **And its output is what is shown**: at quiescence the display request last handed to the
    render loop carries the complete output of the command of the latest request, under the
    current version. -/
theorem C20_shown_is_latest (ends : Nat → Bool) (trace : List Label) :
    let s := run ends {} trace
    s.quit = false → quiescent s = true → s.enq > 0 → s.shown = some (s.version, s.enq) := by
  intro s hq hqu hpos
  have inv := run_inv ends trace {} init_inv
  simp only [quiescent, Bool.and_eq_true, Option.isNone_iff_eq_none] at hqu
  rcases inv.e hq hqu.2 hqu.1 with h0 | h
  · have : s.enq = 0 := h0
    omega
  · exact h

/-- The previewer runs one command at a time and numbers them consecutively: the version of the
    running command is the number of commands started. -/
theorem C20_one_at_a_time (ends : Nat → Bool) (trace : List Label) :
    let s := run ends {} trace
    s.version = s.started.length ∧ ∀ p, s.run = some p → s.started.getLast? = some p.req ∧ p.version = s.version := by
  intro s
  have inv := run_inv ends trace {} init_inv
  exact ⟨inv.j, inv.c⟩

/-- **Superseded commands are cancelled — partial.** A refresh that arrives while the watcher of
    the running command is receiving marks that command to be killed. (What is missing for the
    full claim is the case below.) -/
theorem C20_superseded_killed_partial (ends : Nat → Bool) (s s' : S) (p : Running)
    (hr : s.run = some p) (hw : p.watcher = true) (hs : step ends s .refresh = some s') :
    ∃ p', s'.run = some p' ∧ p'.killed = true ∧ p'.req = p.req := by
  simp only [step] at hs
  split at hs
  · cases hs
  · injection hs with hs; subst hs
    exact ⟨{ p with killed := true }, by simp [hr, hw], rfl, rfl⟩

/-- **Superseded commands can always be cancelled.** In every reachable state in which a command
    is running while a newer request waits in the box, the watcher (once it is receiving) finds
    the newer request and marks the command to be killed — whether or not the cancel token sent
    with that request reached it. -/
theorem C20_superseded_killed (ends : Nat → Bool) (s : S) (p : Running)
    (hr : s.run = some p) (hb : s.box.isSome = true) (hk : p.killed = false) :
    ∃ s', run ends s [.ready, .poll] = s' ∧ ∃ p', s'.run = some p' ∧ p'.killed = true ∧ p'.req = p.req ∧ s'.box = s.box := by
  refine ⟨_, rfl, ?_⟩
  cases hw : p.watcher with
  | true =>
    refine ⟨{ p with killed := true }, ?_, rfl, rfl, ?_⟩ <;>
      simp [run, step, hr, hw, hb, hk]
  | false =>
    refine ⟨{ p with watcher := true, killed := true }, ?_, rfl, rfl, ?_⟩ <;>
      simp [run, step, hr, hw, hb, hk]

/-- **Why the watcher has to look into the box** (finding F20, repaired in /repo): the cancel
    token is sent without blocking on an unbuffered channel, so a refresh that arrives after the
    previewer has dequeued a request but before the watcher goroutine of its command is receiving
    is lost. Without the `poll` transition a command that never ends then stays alive and the
    newer request is never served, whatever the previewer, the watcher and the command do. -/
theorem C20_lost_cancel_witness (ends : Nat → Bool) (h1 : ends 1 = false) (later : List Label)
    (hl : ∀ l ∈ later, l ≠ .refresh ∧ l ≠ .exit ∧ l ≠ .poll) :
    let s0 := run ends {} [.refresh, .take, .refresh, .ready]
    run ends s0 later = s0 ∧ s0.box = some 2 ∧ (s0.run.map (·.req)) = some 1 ∧ (s0.run.map (·.killed)) = some false := by
  intro s0
  have hs0 : s0 = { enq := 2, box := some 2, run := some { req := 1, version := 1, watcher := true }, version := 1,
                    started := [1] } := by
    simp [s0, run, step]
  refine ⟨?_, by simp [hs0], by simp [hs0], by simp [hs0]⟩
  induction later with
  | nil => rfl
  | cons l ls ih =>
    have hl' := hl l (by simp)
    have hstep : step ends s0 l = none := by
      rw [hs0]
      cases l with
      | refresh => exact absurd rfl hl'.1
      | exit => exact absurd rfl hl'.2.1
      | poll => exact absurd rfl hl'.2.2
      | take => simp [step]
      | ready => simp [step]
      | finish => simp [step, h1]
      | die => simp [step]
    simp only [run, List.foldl_cons, hstep, Option.getD_none]
    exact ih (fun l hl2 => hl l (List.mem_cons_of_mem _ hl2))

/-! Non-vacuity: a history that reaches quiescence with three requests, the middle one skipped. -/
example :
    let s := run (fun _ => true) {} [.refresh, .take, .ready, .refresh, .refresh, .die, .take, .ready, .finish]
    quiescent s = true ∧ s.enq = 3 ∧ s.started = [1, 3] ∧ s.shown = some (2, 3) := by decide

end Fzf.Props.C20
