import Fzf.Lemmas.KeyDecode
import Fzf.Lemmas.Render
/-
C14 — the UI never crashes or hangs and always leaves terminal and system clean.
Property theorems only (helper lemmas: Fzf/Lemmas/KeyDecode.lean, Fzf/Lemmas/Render.lean).
What can be carried as a theorem is the logic: the input decoder and the width arithmetic of the
renderer. Process-level behaviour (signals, terminal modes, child processes) is exercised by the
correspondence drivers and labelled as validation in the evidence.
-/
namespace Fzf.Props.C14
open Fzf Fzf.KeyDecode

/-- **The input decoder never panics**: for every non-empty byte buffer — valid or invalid UTF-8,
    complete, truncated or garbled escape sequences, mouse reports with any numbers — with or
    without mouse support, whatever the terminal delivers later, `GetChar` returns an event (or
    waits for more input); no index is out of range, `buffer[sz:]` is always in range. -/
theorem C14_decode_total (mouse : Bool) (yoffset : Int) (cs : Clicks) (b tty : List Nat) (h : b ≠ []) :
    ∃ st, getChar mouse yoffset cs b tty = .ok st := by
  obtain ⟨st, hst, _⟩ := getChar_progress mouse yoffset cs b tty h
  exact ⟨st, hst⟩

/-- **… and never spins**: every event it returns has consumed at least one pending byte. -/
theorem C14_decode_progress (mouse : Bool) (yoffset : Int) (cs : Clicks) (b tty : List Nat) (h : b ≠ [])
    (ev : Ev) (b' tty' : List Nat) (cs' : Clicks)
    (hs : getChar mouse yoffset cs b tty = .ok (some (ev, b', tty', cs'))) :
    b'.length + tty'.length < b.length + tty.length := by
  obtain ⟨st, hst, hp⟩ := getChar_progress mouse yoffset cs b tty h
  rw [hs] at hst
  cases hst
  exact hp ev b' tty' cs' rfl

/-- **Draining a buffer terminates**: with as many steps as there are pending bytes the loop ends
    with the buffer used up or the decoder waiting for the terminal — it never runs on, never
    panics, and produces at most one event per byte. -/
theorem C14_drain_terminates (mouse : Bool) (yoffset : Int) (fuel : Nat) (cs : Clicks) (b tty : List Nat)
    (hf : b.length + tty.length ≤ fuel) :
    ∃ evs e, drain mouse yoffset fuel cs b tty = .ok (evs, e) ∧ e ≠ .outOfFuel ∧ evs.length ≤ b.length + tty.length := by
  induction fuel generalizing cs b tty with
  | zero =>
    have : b = [] := by
      cases b with
      | nil => rfl
      | cons a t => simp at hf
    subst this
    exact ⟨[], .done, rfl, by simp, by simp⟩
  | succ n ih =>
    unfold drain
    by_cases hb : b.isEmpty = true
    · rw [if_pos hb]; exact ⟨[], .done, rfl, by simp, by simp⟩
    · rw [if_neg hb]
      have hne : b ≠ [] := by intro he; subst he; simp at hb
      obtain ⟨st, hst, hp⟩ := getChar_progress mouse yoffset cs b tty hne
      rw [hst]
      cases st with
      | none => exact ⟨[], .waiting, rfl, by simp, by simp⟩
      | some r =>
        obtain ⟨ev, b', tty', cs'⟩ := r
        have hlt := hp ev b' tty' cs' rfl
        obtain ⟨evs, e, he, hne', hlen⟩ := ih cs' b' tty' (by omega)
        simp only [he]
        exact ⟨ev :: evs, e, rfl, hne', by simp; omega⟩

/-- An escape sequence is consumed as a whole or not at all: the size `escSequence` reports
    lies within the buffer it is dropped from. -/
theorem C14_esc_in_bounds (mouse : Bool) (yoffset : Int) (cs : Clicks) (b : List Nat) (h : 1 ≤ b.length) :
    ∃ ev sz b' cs', escSequence mouse yoffset cs b = .ok (ev, sz, b', cs') ∧ 1 ≤ sz ∧ sz ≤ b'.length :=
  let ⟨ev, sz, b', cs', he, h1, h2, _⟩ := escSequence_ok mouse yoffset cs b h
  ⟨ev, sz, b', cs', he, h1, h2⟩

/-- A mouse report never makes the decoder read past the buffer, whatever numbers it carries. -/
theorem C14_mouse_in_bounds (mouse : Bool) (yoffset : Int) (cs : Clicks) (b : List Nat) (h : 3 ≤ b.length) :
    1 ≤ (mouseSequence mouse yoffset cs b).2.1 ∧ (mouseSequence mouse yoffset cs b).2.1 ≤ b.length :=
  mouseSequence_sz mouse yoffset cs b h

/-- **Width arithmetic of a list row**: for every window width (from 0 up), every pointer / marker /
    ellipsis, every line and match position, a row has exactly the width of the window — the text
    is never drawn past the right edge, also when the window is narrower than pointer and marker. -/
theorem C14_row_within_window (o : Render.ROpts) (r : Render.RowIn) : (Render.itemRow o r).length = o.W := by
  simp [Render.itemRow, Render.rowOf, Render.blanks]

theorem C14_truncation_within_room (o : Render.ROpts) (mw : Nat) (line : Str) (maxe : Nat) (hasPos : Bool) :
    (Render.fit o mw line maxe hasPos).length ≤ mw :=
  Render.fit_length_le o mw line maxe hasPos

/- Non-vacuity: a buffer that ends in the middle of an escape sequence, completed by the terminal. -/
example : (getChar true 0 {} [27, 91, 49, 59] [50, 65]).toOption =
    some (some (⟨Generated.Key.shiftUp, 0, none⟩, [], [], {})) := by decide
example : (drain true 0 6 {} [27, 91, 60, 48] []).toOption.map (·.2) = some .waiting := by decide
example : (getChar false 0 {} [255] []).toOption = some (some (⟨Generated.Key.esc, 0, none⟩, [], [], {})) := by decide

end Fzf.Props.C14
