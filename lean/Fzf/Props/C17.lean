import Fzf.Model.Bind
import Fzf.Model.Args
/-
C17 — any command line is either accepted as documented or rejected cleanly.
Property theorems only. (`mask`, `parseLayer`, `parse` are total functions: rejection is the value
`none`, never a crash; the Go counterpart of that claim is checked by the correspondence run.)
-/
namespace Fzf.Props.C17
open Fzf Fzf.Bind Fzf.Args

theorem replaceAll_length (old new : Str) (h : old.length = new.length) (s : Str) (fuel : Nat) :
    (replaceAll old new s fuel).length = s.length := by
  induction fuel generalizing s with
  | zero => rfl
  | succ fuel ih =>
    unfold replaceAll
    cases s with
    | nil => rfl
    | cons c tl =>
      simp only
      split
      · next hp =>
        have hle : old.length ≤ (c :: tl).length :=
          List.IsPrefix.length_le (List.isPrefixOf_iff_prefix.mp hp.1)
        simp only [List.length_append, ih, List.length_drop]
        omega
      · simp [ih]

theorem findClose_go_lt (ce : Nat) (r : Str) (i q : Nat) (h : findClose.go ce i r = some q) : q < i + r.length := by
  induction r generalizing i with
  | nil => simp [findClose.go] at h
  | cons x xs ih =>
    unfold findClose.go at h
    split at h
    · injection h with h; subst h; simp
    · have := ih (i + 1) h; simp at this ⊢; omega

theorem findClose_lt (ce : Nat) (s : Str) (p : Nat) (h : findClose ce s = some p) (hne : s ≠ []) : p < s.length := by
  unfold findClose at h
  have := findClose_go_lt ce (s.drop 1) 1 p h
  cases s with
  | nil => exact absurd rfl hne
  | cons c tl => simp at this ⊢; omega

theorem maskLoop_length (names : List Str) (s : Str) (fuel : Nat) : (maskLoop names s fuel).length = s.length := by
  induction fuel generalizing s with
  | zero => rfl
  | succ fuel ih =>
    unfold maskLoop
    split
    · next h => simp at h; simp [h]
    · split
      · rfl
      · next e _ =>
        have hte : (s.take e ++ s.drop e).length = s.length := by rw [List.take_append_drop]
        simp only [List.length_append] at hte
        dsimp only
        split
        · next h => simp only [h, List.length_nil, Nat.add_zero] at hte; exact hte
        · next c tl h =>
          split
          · simp only [spaces, List.length_append, List.length_replicate]; omega
          · split
            · simp only [List.length_append, ih]; omega
            · split
              · simp only [List.length_append]; omega
              · next p hp =>
                have hlt : p < (c :: tl).length := by
                  rw [← h]; exact findClose_lt _ (s.drop e) p hp (by rw [h]; simp)
                have hd : s.length - e = (c :: tl).length := by rw [← List.length_drop, h]
                simp only [List.length_append, spaces, List.length_replicate, ih, List.length_drop, List.length_take] at hte ⊢
                omega

/-- Masking the action arguments preserves the length of the bind string — the invariant the
    offset-based splitting of the *original* string relies on — for every string and every set
    of argument-taking action names. -/
theorem C17_mask_length (names : List Str) (s : Str) : (mask names s).length = s.length := by
  unfold mask
  dsimp only
  rw [replaceAll_length [43, 58] [2, 58] rfl, replaceAll_length [44, 58] [1, 58] rfl, replaceAll_length [58, 58] [0, 58] rfl,
    replaceAll_length [44, 58, 44] [44, 0, 44] rfl, replaceAll_length [44, 44, 44] [44, 1, 44] rfl, maskLoop_length]

/-- Later occurrences override earlier ones: a flag appended to an argument list that parses
    sets its field, whatever came before (in the same layer). -/
theorem C17_later_overrides (d d1 : Dump) (args : List String) (x f v : String)
    (hpre : args.foldl step (some (d, none)) = some (d1, none))
    (hx : splitArg x = (x, none)) (ht : table.find? (·.1 == x) = some (x, .flag f v)) :
    (args ++ [x]).foldl step (some (d, none)) = some (d1.set f v, none) ∧ (d1.set f v).get f = v := by
  constructor
  · rw [List.foldl_append, hpre]
    simp [step, hx, ht]
  · simp [Dump.set, Dump.get]

/-- Command-line arguments take precedence over $FZF_DEFAULT_OPTS: the command line is parsed
    as a later layer on top of the fields the environment produced. -/
theorem C17_argv_over_env (env args : List String) (de : Dump) (h : parseLayer defaults env = some de) :
    parse env args = parseLayer de args := by
  simp [parse, h]

/-- A valued option given without `=` consumes exactly the next argument as its value, also when
    that argument looks like an option. -/
theorem C17_value_is_next_argument (d : Dump) (x f v : String)
    (hx : splitArg x = (x, none)) (ht : table.find? (·.1 == x) = some (x, .str f)) :
    [x, v].foldl step (some (d, none)) = some (d.set f v, none) := by
  simp [step, hx, ht, applyValue]

/- Non-vacuity. -/
example : table.find? (·.1 == "--tac") = some ("--tac", .flag "tac" "1") := by decide
example : (mask Generated.argActions [97, 58, 101, 120, 101, 99, 117, 116, 101, 40, 120, 43, 121, 41, 44, 98, 58, 117, 112]) =
    [97, 58, 101, 120, 101, 99, 117, 116, 101, 32, 32, 32, 32, 32, 44, 98, 58, 117, 112] := by decide

end Fzf.Props.C17
