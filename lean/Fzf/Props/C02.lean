import Fzf.Lemmas.V2Decides
import Fzf.Lemmas.Subseq
import Fzf.Lemmas.Prefilter
import Fzf.Lemmas.Prog
import Fzf.Lemmas.Exact
import Fzf.Generated.Consts
import Fzf.Generated.GoFuncs
/-
C02 — every reported match has a genuine witness; non-match means none exists.
Property theorems only.
-/
namespace Fzf.Props.C02
open Fzf Fzf.Algo

/-- The executable judgement the driver applies to every answer of the implementation
    ("the pattern is a subsequence of the folded range") is the declarative one. -/
theorem C02_subseq_decides (p t : List Nat) : Spec.isSubseq p t = true ↔ List.Sublist p t :=
  Spec.isSubseq_iff p t

/-- A witness in the sense of the property is a sub-list embedding: positions strictly
    increasing inside the line, each holding the corresponding pattern character. -/
theorem C02_witness_gives_sublist (ft : Array Nat) (p pos : List Nat) (s e : Nat)
    (h : Spec.isWitness ft p pos s e = true) :
    pos.length = p.length ∧ ∀ k (hk : k < pos.length) (hk' : k < p.length),
      s ≤ pos[k] ∧ pos[k] < e ∧ pos[k] < ft.size ∧ ft.getD pos[k] 0 = p[k] := by
  simp only [Spec.isWitness, Bool.and_eq_true, beq_iff_eq, List.all_eq_true, decide_eq_true_eq] at h
  obtain ⟨⟨⟨hl, _⟩, hin⟩, hz⟩ := h
  refine ⟨hl, ?_⟩
  intro k hk hk'
  have h1 := hin pos[k] (List.getElem_mem hk)
  have h2 := hz (pos[k], p[k]) (by
    rw [List.mem_iff_getElem]
    exact ⟨k, by simp only [List.length_zip]; omega, by simp⟩)
  exact ⟨h1.1.1, h1.1.2, h1.2, h2⟩

/-- The guard the code applies before running the O(nm) algorithm on a slab (`N*M ≤ cap`,
    after `M ≤ N`) keeps every score cell inside int16 for the slab size in the source:
    a cell never exceeds 26·M + 10. Enlarging `slab16Size` past the safe bound breaks this. -/
theorem C02_slab_guard_bounds_score (N M : Nat) (hMN : M ≤ N) (hcap : N * M ≤ Generated.slab16Size) :
    26 * M + 10 ≤ 32767 := by
  have h1 : M * M ≤ N * M := Nat.mul_le_mul_right M hMN
  have h2 : M * M ≤ 102400 := by
    have : Generated.slab16Size = 102400 := by decide
    omega
  by_cases hM : M ≤ 1259
  · omega
  · have h3 : 1260 ≤ M := by omega
    have h4 : 1260 * 1260 ≤ M * M := Nat.mul_le_mul h3 h3
    omega

/-- int16 wrap-around is the identity on the int16 range. -/
theorem C02_w16_id (x : Int) (h1 : -32768 ≤ x) (h2 : x ≤ 32767) : w16 x = x := by
  unfold w16; omega

/-- No out-of-range index, no read of stale memory ⇒ the raw run does not panic either:
    "matching never crashes" for V2 is the statement that the checked run is `.ok`. -/
theorem C02_checked_ok_imp_no_panic {α : Type} (p : Prog α) (m₁ m₂ : Array Int) (w : Array Bool) (r : α)
    (hag : Prog.Agree m₁ m₂ w) (hc : p.runChk m₁ w = .ok r) : ∃ r', p.runRaw m₂ = .ok r' :=
  ⟨r, Prog.checked_ok_imp_raw p m₁ m₂ w r hag hc⟩

/-- **PrefixMatch (`^term`) is total, sound and complete**: for every text and every non-empty
    term it returns; it reports a match exactly when the term occurs, character by character
    after case folding / normalisation, right after the leading whitespace of the line (the
    whitespace is kept when the term itself starts with whitespace); the reported range is that
    occurrence. -/
theorem C02_prefix_exact (cfg : Cfg) (cs norm : Bool) (t p : Text) (hp : 0 < p.size) :
    ∃ r, prefixMatch cfg cs norm t p = .ok r ∧
      (0 ≤ r.start ↔ OccAt (fun c pc => foldTL cfg cs norm c == pc) t p
        (if !cfg.U.isSpace (p.getD 0 0) then leadingWhitespaces cfg t else 0)) ∧
      (0 ≤ r.start → r.start = ((if !cfg.U.isSpace (p.getD 0 0) then leadingWhitespaces cfg t else 0 : Nat) : Int) ∧
        r.stop = r.start + p.size) :=
  prefixMatch_spec cfg cs norm t p hp

/-- **SuffixMatch (`term$`) is total, sound and complete** (occurrence right before the trailing
    whitespace, kept when the term ends with whitespace). -/
theorem C02_suffix_exact (cfg : Cfg) (cs norm : Bool) (t p : Text) (hp : 0 < p.size) :
    ∃ r, suffixMatch cfg cs norm t p = .ok r ∧
      (0 ≤ r.start ↔ p.size ≤ suffixEnd cfg t p ∧
        OccAt (fun c pc => foldTL cfg cs norm c == pc) t p (suffixEnd cfg t p - p.size)) ∧
      (0 ≤ r.start → r.start = ((suffixEnd cfg t p - p.size : Nat) : Int) ∧ r.stop = (suffixEnd cfg t p : Int)) :=
  suffixMatch_spec cfg cs norm t p hp

/-- **EqualMatch (`^term$`) is total, sound and complete**: a match exactly when the line without
    its leading and trailing whitespace has the length of the term and agrees with it. -/
theorem C02_equal_exact (cfg : Cfg) (cs norm : Bool) (t p : Text) (hp : 0 < p.size) :
    ∃ r, equalMatch cfg cs norm t p = .ok r ∧
      (0 ≤ r.start ↔
        (t.size : Int) - (if !cfg.U.isSpace (p.getD 0 0) then leadingWhitespaces cfg t else 0 : Nat) -
          (if !cfg.U.isSpace (p.getD (p.size - 1) 0) then trailingWhitespaces cfg t else 0 : Nat) = p.size ∧
        OccAt (equalOk cfg cs norm) t p (if !cfg.U.isSpace (p.getD 0 0) then leadingWhitespaces cfg t else 0)) ∧
      (0 ≤ r.start → r.start = ((if !cfg.U.isSpace (p.getD 0 0) then leadingWhitespaces cfg t else 0 : Nat) : Int) ∧
        r.stop = r.start + p.size) :=
  equalMatch_spec cfg cs norm t p hp

/-- The comparison loops and the scoring walk of these matchers never index out of range: on a
    range inside the text that is not longer than the term, `calculateScore` returns. -/
theorem C02_calculateScore_total (cfg : Cfg) (cs norm : Bool) (t p : Text) (sidx eidx : Nat) (withPos : Bool)
    (h1 : eidx ≤ t.size) (h2 : eidx - sidx ≤ p.size) (h3 : sidx ≤ eidx) :
    ∃ r, calculateScore cfg cs norm t p sidx eidx withPos = .ok r :=
  calculateScore_ok cfg cs norm t p sidx eidx withPos h1 h2 h3

/-- Normalisation leaves ASCII alone, whatever the (regenerated) table holds. -/
theorem C02_normalize_ascii (tbl : List (Nat × Nat)) (c : Nat) (h : c < 128) : normalizeRune tbl c = c := by
  unfold normalizeRune
  rw [if_pos (Or.inl (by omega))]

/-- **The ASCII pre-filter never loses a match**: a text rejected by `asciiFuzzyIndex` (used by the
    fuzzy and exact matchers before the real work) does not contain the pattern as a
    subsequence of its folded characters. `isBytes` = the text is all ASCII. -/
theorem C02_prefilter_sound (cfg : Cfg) (cs norm : Bool) (t p : Text) (isBytes : Bool)
    (hascii : isBytes = true → ∀ c ∈ t.toList, c < 128) (hnorm : ∀ c, c < 128 → cfg.norm c = c)
    (h : asciiFuzzyIndex t isBytes p cs = none) :
    ¬ List.Sublist p.toList (t.toList.map (foldRune cfg cs norm)) :=
  asciiFuzzyIndex_none_sound cfg cs norm t p isBytes hascii hnorm h

/-- **FuzzyMatchV1 is sound and complete**: whenever it returns, it reports a match exactly when
    the pattern is a subsequence of the folded text — in both scan directions, for byte and rune
    representation, through the ASCII pre-filter. (That it always returns is established per case
    by the correspondence; the forward scan itself is proved total in `v1Forward_spec`.) -/
theorem C02_v1_sound_complete (cfg : Cfg) (cs norm fwd : Bool) (t : Text) (isBytes : Bool) (p : Text) (withPos : Bool)
    (r : Res) (hp : 0 < p.size)
    (hascii : isBytes = true → ∀ c ∈ t.toList, c < 128) (hnorm : ∀ c, c < 128 → cfg.norm c = c)
    (h : fuzzyMatchV1 cfg cs norm fwd t isBytes p withPos = .ok r) :
    (0 ≤ r.start ↔ List.Sublist p.toList (t.toList.map (foldRune cfg cs norm))) := by
  cases hpre : asciiFuzzyIndex t isBytes p cs with
  | some mm =>
    exact fuzzyMatchV1_decides cfg cs norm fwd t isBytes p withPos r hp (by simp [hpre]) h
  | none =>
    have hno := asciiFuzzyIndex_none_sound cfg cs norm t p isBytes hascii hnorm hpre
    unfold fuzzyMatchV1 at h
    have hp0 : (p.size == 0) = false := by
      have : p.size ≠ 0 := by omega
      simpa using this
    simp only [hp0, hpre, Option.isNone_none, Bool.false_eq_true, if_false, if_true] at h
    cases h
    constructor
    · intro h0; simp [Res.none] at h0
    · intro hs; exact absurd hs hno

/-- The index mapping of the backward scans is the function in the source: `indexAt`, translated
    from /repo/src/algo/algo.go on every run, is the model's `indexAt` and stays inside the text. -/
theorem C02_indexAt_is_source (i n : Nat) (fwd : Bool) (h : i < n) :
    Generated.Go.indexAt i n fwd = (indexAt i n fwd : Int) ∧ indexAt i n fwd < n := by
  unfold Generated.Go.indexAt indexAt
  cases fwd <;> simp <;> omega

/-- The forward scan of V1 never indexes out of range and is the greedy subsequence test. -/
theorem C02_v1_forward_total (cfg : Cfg) (cs norm fwd : Bool) (t p : Text) (hp : 0 < p.size) :
    ∃ r, v1Forward cfg cs norm fwd t p (List.range t.size) 0 Option.none = .ok r ∧
      (r.2.2.isSome = true ↔ List.Sublist p.toList (t.toList.map (foldRune cfg cs norm))) := by
  obtain ⟨r, hr, hsub⟩ := v1Forward_spec cfg cs norm fwd t p (List.range t.size) 0 Option.none
    (by intro i hi; simpa using hi) hp
  refine ⟨r, hr, ?_⟩
  rw [hsub, scanChars_range, patFrom_zero, Spec.isSubseq_iff]
  cases fwd
  · simp only [Bool.false_eq_true, if_false]; exact List.reverse_sublist
  · simp only [if_true]

/-- **ExactMatchNaive (`'term`, every term under --exact) and ExactMatchBoundary (`'term'`) are
    total**: for every line, term, direction and flag setting they return — the scanning loop
    with its backing-up after a partial match, the neighbour look-ups of the boundary variant
    and the scoring never index outside the line or the term. -/
theorem C02_exact_total (cfg : Cfg) (cs norm fwd boundary : Bool) (t : Text) (isBytes : Bool) (p : Text) :
    ∃ r, exactMatchNaive cfg cs norm fwd boundary t isBytes p = .ok r :=
  exactMatchNaive_total cfg cs norm fwd boundary t isBytes p

/-- **… sound**: what either variant reports is an occurrence of the term — a range of the
    term's length inside the line that carries the term character by character after case
    folding / normalisation — whether the line is searched forward or backward. -/
theorem C02_exact_sound (cfg : Cfg) (cs norm fwd boundary : Bool) (t : Text) (isBytes : Bool) (p : Text)
    (hm : 0 < p.size) (r : Res) (hr : exactMatchNaive cfg cs norm fwd boundary t isBytes p = .ok r) (hs : 0 ≤ r.start) :
    r.stop = r.start + p.size ∧ r.stop ≤ t.size ∧
    ∀ i, i < p.size → foldRune cfg cs norm (t.getD (r.start.toNat + i) 0) = p.getD i 0 :=
  exactMatchNaive_sound cfg cs norm fwd boundary t isBytes p hm r hr hs

/-- **… and ExactMatchNaive is complete**: in fzf's three schemes, when it reports no match the
    term occurs nowhere in the folded line (no matching line is dropped by the ASCII pre-filter,
    by the restart after a partial match, or by running out of the loop's iterations).
    `isBytes` = the line is all ASCII; normalisation leaves ASCII alone (`C02_normalize_ascii`). -/
theorem C02_exact_complete (cfg : Cfg) (hs : RealScheme cfg) (hnorm : ∀ c, c < 128 → cfg.norm c = c)
    (cs norm fwd : Bool) (t : Text) (isBytes : Bool) (p : Text)
    (hascii : isBytes = true → ∀ c ∈ t.toList, c < 128) (hm : 0 < p.size) (r : Res)
    (hr : exactMatchNaive cfg cs norm fwd false t isBytes p = .ok r) (hneg : r.start < 0) :
    ¬ ∃ s, s + p.size ≤ t.size ∧ ∀ i, i < p.size → foldRune cfg cs norm (t.getD (s + i) 0) = p.getD i 0 :=
  exactMatchNaive_complete cfg hs hnorm cs norm fwd t isBytes p hascii hm r hr hneg

example : Spec.isSubseq [97, 98] [120, 97, 45, 98] = true := by decide
example : Spec.isWitness #[120, 97, 45, 98] [97, 98] [1, 3] 1 4 = true := by decide
-- non-vacuity of the occurrence predicates: "  foo bar" starts with "foo" after its leading blanks
example : OccAt (fun c pc => c == pc) #[32, 32, 102, 111, 111, 32, 98, 97, 114] #[102, 111, 111] 2 := by
  refine ⟨by decide, ?_⟩
  intro i hi
  have : i = 0 ∨ i = 1 ∨ i = 2 := by simp at hi; omega
  rcases this with h | h | h <;> subst h <;> decide

/-- **FuzzyMatchV2 — the default algorithm — is sound and complete.** Whenever it returns its
    match decision (`withPos = false`, as `Pattern.Match` calls it), it reports a match exactly
    when the pattern is a subsequence of the folded text: every reported match has a witness and
    "no match" means none exists. For every text and pattern, both scan directions, byte and rune
    representation, every slab capacity (the fall-back to V1 on a small slab included), through
    the ASCII pre-filter and the window it cuts out of the text (`window_keeps`: the window loses
    no embedding), and V2's own character folding (`v2Fold_eq_foldRune`: it agrees with the
    folding of the other matchers). That it returns at all — no index out of range in phases 3
    and 4 — is established per case by the correspondence. -/
theorem C02_v2_sound_complete (cfg : Cfg) (cs norm fwd : Bool) (t : Text) (isBytes : Bool) (p : Text)
    (slabCap : Option Nat) (r : Res) (hp : 0 < p.size)
    (hascii : isBytes = true → ∀ c ∈ t.toList, c < 128) (hnorm : ∀ c, c < 128 → cfg.norm c = c)
    (h : fuzzyMatchV2 cfg cs norm fwd t isBytes p false slabCap = .ok r) :
    (0 ≤ r.start ↔ List.Sublist p.toList (t.toList.map (foldRune cfg cs norm))) :=
  fuzzyMatchV2_decides cfg cs norm fwd t isBytes p slabCap r hp hascii hnorm h

/-- Phase 2 of V2 on its own: it has found the whole pattern exactly when the pattern is a
    subsequence of the folded window. -/
theorem C02_v2_phase2_greedy (cfg : Cfg) (cs norm fwd : Bool) (win : Array Nat) (p : Text) (hp : 0 < p.size) :
    (phase2 cfg cs norm fwd win p).pidx = p.size ↔
      List.Sublist p.toList (win.toList.map fun c => (v2Fold cfg cs norm c).2) := by
  rw [phase2_pidx_iff cfg cs norm fwd win p hp, Spec.isSubseq_iff]

end Fzf.Props.C02
