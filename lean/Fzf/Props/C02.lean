import Fzf.Lemmas.Subseq
import Fzf.Lemmas.Prog
import Fzf.Generated.Consts
/-
C02 — every reported match has a genuine witness; non-match means none exists.
Property theorems only.
-/
namespace Fzf.Props.C02
open Fzf Fzf.Algo

/-- The executable judgement the driver applies to every answer of the implementation
    ("the pattern is a subsequence of the folded range") is the declarative one. -/
theorem C02_subseq_decides (p t : List Nat) : Spec.isSubseq p t = true ↔ List.Sublist p t :=
  Spec.isSubseq_iff p t

/-- A witness in the sense of the property is a sub-list embedding: positions strictly
    increasing inside the line, each holding the corresponding pattern character. -/
theorem C02_witness_gives_sublist (ft : Array Nat) (p pos : List Nat) (s e : Nat)
    (h : Spec.isWitness ft p pos s e = true) :
    pos.length = p.length ∧ ∀ k (hk : k < pos.length) (hk' : k < p.length),
      s ≤ pos[k] ∧ pos[k] < e ∧ pos[k] < ft.size ∧ ft.getD pos[k] 0 = p[k] := by
  simp only [Spec.isWitness, Bool.and_eq_true, beq_iff_eq, List.all_eq_true, decide_eq_true_eq] at h
  obtain ⟨⟨⟨hl, _⟩, hin⟩, hz⟩ := h
  refine ⟨hl, ?_⟩
  intro k hk hk'
  have h1 := hin pos[k] (List.getElem_mem hk)
  have h2 := hz (pos[k], p[k]) (by
    rw [List.mem_iff_getElem]
    exact ⟨k, by simp only [List.length_zip]; omega, by simp⟩)
  exact ⟨h1.1.1, h1.1.2, h1.2, h2⟩

/-- The guard the code applies before running the O(nm) algorithm on a slab (`N*M ≤ cap`,
    after `M ≤ N`) keeps every score cell inside int16 for the slab size in the source:
    a cell never exceeds 26·M + 10. Enlarging `slab16Size` past the safe bound breaks this. -/
theorem C02_slab_guard_bounds_score (N M : Nat) (hMN : M ≤ N) (hcap : N * M ≤ Generated.slab16Size) :
    26 * M + 10 ≤ 32767 := by
  have h1 : M * M ≤ N * M := Nat.mul_le_mul_right M hMN
  have h2 : M * M ≤ 102400 := by
    have : Generated.slab16Size = 102400 := by decide
    omega
  by_cases hM : M ≤ 1259
  · omega
  · have h3 : 1260 ≤ M := by omega
    have h4 : 1260 * 1260 ≤ M * M := Nat.mul_le_mul h3 h3
    omega

/-- int16 wrap-around is the identity on the int16 range. -/
theorem C02_w16_id (x : Int) (h1 : -32768 ≤ x) (h2 : x ≤ 32767) : w16 x = x := by
  unfold w16; omega

/-- No out-of-range index, no read of stale memory ⇒ the raw run does not panic either:
    "matching never crashes" for V2 is the statement that the checked run is `.ok`. -/
theorem C02_checked_ok_imp_no_panic {α : Type} (p : Prog α) (m₁ m₂ : Array Int) (w : Array Bool) (r : α)
    (hag : Prog.Agree m₁ m₂ w) (hc : p.runChk m₁ w = .ok r) : ∃ r', p.runRaw m₂ = .ok r' :=
  ⟨r, Prog.checked_ok_imp_raw p m₁ m₂ w r hag hc⟩

example : Spec.isSubseq [97, 98] [120, 97, 45, 98] = true := by decide
example : Spec.isWitness #[120, 97, 45, 98] [97, 98] [1, 3] 1 4 = true := by decide

end Fzf.Props.C02
