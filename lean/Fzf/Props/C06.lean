import Fzf.Lemmas.Reader
import Fzf.Lemmas.ChunkTail
/-
C06 — every input record becomes exactly one item, in order, unaltered.
Property theorems only.
-/
namespace Fzf.Props.C06
open Fzf Fzf.Reader

/-- However the operating system cuts the stream into `read()` results (any number of reads,
    any sizes, cuts on or around delimiters, records longer than any buffer), the reader hands
    over exactly the records of the stream: `feed` = `splitRecords` of the concatenated data. -/
theorem C06_feed_split (delim : Nat) (reads : List Read) (h : OSReads reads) :
    feed delim reads = splitRecords delim (reads.map (·.data)).flatten := by
  have := feed_fold_spec delim reads h {} rfl
  simpa [feed, splitRecords] using this

/-- Consequently the way the stream is delivered is unobservable. -/
theorem C06_chunking_irrelevant (delim : Nat) (reads₁ reads₂ : List Read) (h₁ : OSReads reads₁) (h₂ : OSReads reads₂)
    (hsame : (reads₁.map (·.data)).flatten = (reads₂.map (·.data)).flatten) :
    feed delim reads₁ = feed delim reads₂ := by
  rw [C06_feed_split _ _ h₁, C06_feed_split _ _ h₂, hsame]

/-- What "the records of the stream" means: a stream written as records each followed by the
    delimiter, plus an optional unterminated last record, is read back as exactly those records —
    in order, unaltered, empty records included; the last one only if it is not empty. -/
theorem C06_records_exact (delim : Nat) (recs : List Str) (hfree : ∀ r ∈ recs, delim ∉ r) (last : Str) (hl : delim ∉ last) :
    splitRecords delim (recs.flatMap (· ++ [delim]) ++ last) = recs ++ (if last.isEmpty then [] else [last]) :=
  splitRecords_join delim recs hfree last hl

/-- The hypothesis `OSReads` is necessary: a reader that returns data *together with* io.EOF makes
    `feed` duplicate the unterminated tail ("a\nb" ⇒ a, bb) — finding F4, outside what os.File does. -/
theorem C06_data_with_eof_witness :
    feed 10 [⟨[97, 10, 98], .eof⟩] = [[97], [98, 98]] ∧ splitRecords 10 [97, 10, 98] = [[97], [98]] := by decide

/-- **--tail N: exactly the last N records remain searchable.** After any history of pushes and
    snapshots that trim to `tail` (whatever the chunk size, wherever the trims fall inside or
    across chunks), the next snapshot shows exactly the last `tail` items pushed since the start
    of the stream, in order and unaltered — all of them while fewer than `tail` were pushed. The
    items keep the identity (number) they were pushed with. -/
theorem C06_tail_keeps_last_n (cz tail : Nat) (ht : 0 < tail) (ops : List ChunkHeap.Op) (hs : ChunkHeap.snapsWith tail ops) :
    let cl := ops.foldl (ChunkHeap.step cz) ⟨[], []⟩
    ChunkHeap.contents (ChunkHeap.snapshot tail cl).1 (ChunkHeap.snapshot tail cl).2 = lastN tail (ChunkHeap.pushedBy ops) :=
  ChunkHeap.tail_snapshot_is_last_pushed cz tail ht ops hs

/-- Items numbered 0..6 pushed into chunks of 3 with --tail 2 and snapshots in between: the last
    snapshot shows items 5 and 6 under their original numbers. -/
example :
    let ops : List ChunkHeap.Op := [.push 0, .push 1, .push 2, .snap 2, .push 3, .push 4, .snap 2, .push 5, .push 6]
    let cl := ops.foldl (ChunkHeap.step 3) ⟨[], []⟩
    ChunkHeap.contents (ChunkHeap.snapshot 2 cl).1 (ChunkHeap.snapshot 2 cl).2 = [5, 6] := by decide

/- Non-vacuity: a stream cut in the middle of a record and on a delimiter. -/
example : OSReads [⟨[97], .nil⟩, ⟨[98, 10], .nil⟩, ⟨[10, 99], .nil⟩, ⟨[], .eof⟩] := by simp [OSReads]
example : feed 10 [⟨[97], .nil⟩, ⟨[98, 10], .nil⟩, ⟨[10, 99], .nil⟩, ⟨[], .eof⟩] = [[97, 98], [], [99]] := by decide

end Fzf.Props.C06
