import Fzf.Model.Terminal
import Fzf.Model.Filter
/-
C07 — output is the original line, framed and exit-coded as documented.
Property theorems only.
-/
namespace Fzf.Props.C07
open Fzf Fzf.Terminal

/-- Exit status and output of an interactive session, stated outright:
    abort ⇒ 130 and nothing printed; print-query ⇒ 0 and the query;
    accept ⇒ 0 iff a line (selection or current line) was output, else 1. -/
theorem C07_exit_codes (pq : Bool) (lineOf : Nat → Str) (q : Str) (s : TS) :
    (s.outcome = some .abort → exitOutput pq lineOf q s = (130, [])) ∧
    (s.outcome = some .printQuery → exitOutput pq lineOf q s = (0, [q])) ∧
    (s.outcome = some .accept →
      ((exitOutput pq lineOf q s).1 = 0 ↔ (s.selected ≠ [] ∨ (currentItem s).isSome)) ∧
      ((exitOutput pq lineOf q s).1 = 0 ∨ (exitOutput pq lineOf q s).1 = 1)) := by
  refine ⟨fun h => by simp [exitOutput, h], fun h => by simp [exitOutput, h], fun h => ?_⟩
  simp only [exitOutput, h]
  cases hs : s.selected with
  | nil =>
    cases hc : currentItem s with
    | none => simp
    | some i => simp
  | cons a rest => simp

/-- Order of the output: the query line (with --print-query), then the texts queued by `print`,
    then the selected lines in the order they were selected — or the current line if nothing is
    selected. -/
theorem C07_output_order (pq : Bool) (lineOf : Nat → Str) (q : Str) (s : TS) (h : s.outcome = some .accept) :
    (exitOutput pq lineOf q s).2 =
      (if pq then [q] else []) ++ s.printQueue ++
        (if s.selected ≠ [] then s.selected.map lineOf else ((currentItem s).map lineOf).toList) := by
  simp only [exitOutput, h]
  cases hs : s.selected with
  | nil => cases hc : currentItem s <;> simp
  | cons a rest => simp

/-- Every item the item builder creates carries the original record, unaltered, as what is
    printed — also when the display text is transformed by --with-nth. -/
theorem C07_items_carry_original (o : Filter.Opts) (lines : List Str) :
    ∀ it ∈ Filter.buildItems o lines, it.orig ∈ lines := by
  unfold Filter.buildItems
  suffices h : ∀ (ls : List Str) (hdr idx : Nat), ∀ it ∈ Filter.buildItems.go o ls hdr idx, it.orig ∈ ls from h lines 0 0
  intro ls
  induction ls with
  | nil => intro hdr idx it hit; simp [Filter.buildItems.go] at hit
  | cons l rest ih =>
    intro hdr idx it hit
    unfold Filter.buildItems.go at hit
    split at hit
    · exact List.mem_cons_of_mem _ (ih _ _ it hit)
    · split at hit
      · simp only [List.mem_cons] at hit
        rcases hit with h | h
        · subst h; simp
        · exact List.mem_cons_of_mem _ (ih _ _ it h)
      · simp only [List.mem_cons] at hit
        rcases hit with h | h
        · subst h; simp
        · exact List.mem_cons_of_mem _ (ih _ _ it h)

/-- Every element of a successful `mapM` in `Option` comes from an element of the list. -/
theorem mem_of_mapM_some {α β : Type} (f : α → Option β) : ∀ (l : List α) (rs : List β), l.mapM f = some rs →
    ∀ r ∈ rs, ∃ a ∈ l, f a = some r := by
  intro l
  induction l with
  | nil => intro rs h r hr; simp at h; subst h; cases hr
  | cons a l ih =>
    intro rs h r hr
    rw [← List.mapM'_eq_mapM] at h
    simp only [List.mapM'_cons, bind, Option.bind, pure] at h
    cases hfa : f a with
    | none => simp [hfa] at h
    | some b =>
      simp only [hfa] at h
      cases hl : List.mapM' f l with
      | none => simp [hl] at h
      | some bs =>
        simp only [hl, Option.some.injEq] at h
        subst h
        rcases List.mem_cons.mp hr with rfl | hr'
        · exact ⟨a, List.mem_cons_self, hfa⟩
        · obtain ⟨a', ha', hfa'⟩ := ih bs (by rw [← List.mapM'_eq_mapM]; exact hl) r hr'
          exact ⟨a', List.mem_cons_of_mem _ ha', hfa'⟩

/-- **Filter mode prints input records, nothing else.** Whatever the query, the options (sorting,
    --tac, --tail, --nth / --with-nth, criteria) and the match functions do, every record `fzf
    --filter` prints is one of the input records, byte for byte, under the number it has in the
    input — never the transformed display text, never a fragment. -/
theorem C07_filter_prints_originals (o : Filter.Opts) (slabCap : Nat) (query : Str) (lines : List Str)
    (out : List (Nat × Str)) (h : Filter.runIdx o slabCap query lines = some out) :
    ∀ p ∈ out, p.2 ∈ lines := by
  have hitems := C07_items_carry_original o lines
  have hsub : ∀ it ∈ (if o.tail > 0 ∧ !(!o.sort && !o.tac) then lastN o.tail (Filter.buildItems o lines) else Filter.buildItems o lines),
      it.orig ∈ lines := by
    intro it hit
    split at hit
    · exact hitems it (List.mem_of_mem_drop hit)
    · exact hitems it hit
  unfold Filter.runIdx at h
  simp only at h
  generalize (if o.tail > 0 ∧ !(!o.sort && !o.tac) then lastN o.tail (Filter.buildItems o lines) else Filter.buildItems o lines) = items at h hsub
  split at h
  · simp only [Option.some.injEq] at h
    subst h
    intro p hp
    simp only [List.mem_map] at hp
    obtain ⟨it, hit, rfl⟩ := hp
    have : it ∈ items := by
      split at hit
      · exact List.mem_reverse.mp hit
      · exact hit
    exact hsub it this
  · split at h
    · cases h
    · rename_i rs hrs
      simp only [Option.some.injEq] at h
      subst h
      intro p hp
      simp only [List.mem_map] at hp
      obtain ⟨e, he, rfl⟩ := hp
      have hems : e ∈ rs.filterMap id := by
        split at he
        · exact (List.mergeSort_perm _ _).subset he
        · split at he
          · exact List.mem_reverse.mp he
          · exact he
      simp only [List.mem_filterMap, id] at hems
      obtain ⟨oe, hoe, rfl⟩ := hems
      -- every scored entry comes from an item
      obtain ⟨it, hit, hval⟩ := mem_of_mapM_some _ _ _ hrs (some e) hoe
      have hin := hsub it hit
      split at hval
      · cases hval
      · cases hval
      · simp only [Option.some.injEq] at hval
        rw [← hval]; exact hin

example : exitOutput true (fun i => [97 + i]) [113] { results := [0, 1], selected := [1, 0], outcome := some .accept }
    = (0, [[113], [98], [97]]) := by decide

/-- **--expect line.** With --expect the line naming the key that ended the session (empty for any
    other way of accepting) comes after the --print-query line and before everything else; it does
    not change the exit status, and abort / print-query never print it. -/
theorem C07_expect_line_order (pq : Bool) (lineOf : Nat → Str) (q : Str) (s : TS) (key : Str) :
    (s.outcome = some .accept →
      (exitOutput pq lineOf q s (some key)).2 =
        (if pq then [q] else []) ++ [key] ++ s.printQueue ++
          (if s.selected ≠ [] then s.selected.map lineOf else ((currentItem s).map lineOf).toList) ∧
      (exitOutput pq lineOf q s (some key)).1 = (exitOutput pq lineOf q s).1) ∧
    (s.outcome = some .abort → exitOutput pq lineOf q s (some key) = (130, [])) ∧
    (s.outcome = some .printQuery → exitOutput pq lineOf q s (some key) = (0, [q])) := by
  refine ⟨fun h => ?_, fun h => by simp [exitOutput, h], fun h => by simp [exitOutput, h]⟩
  simp only [exitOutput, h]
  cases hs : s.selected with
  | nil => cases hc : currentItem s <;> simp
  | cons a rest => simp

example : exitOutput true (fun i => [97 + i]) [113] { results := [0, 1], selected := [1], outcome := some .accept } (some [120])
    = (0, [[113], [120], [98]]) := by decide

end Fzf.Props.C07
