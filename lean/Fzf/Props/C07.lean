import Fzf.Model.Terminal
import Fzf.Model.Filter
/-
C07 — output is the original line, framed and exit-coded as documented.
Property theorems only.
-/
namespace Fzf.Props.C07
open Fzf Fzf.Terminal

/-- Exit status and output of an interactive session, stated outright:
    abort ⇒ 130 and nothing printed; print-query ⇒ 0 and the query;
    accept ⇒ 0 iff a line (selection or current line) was output, else 1. -/
theorem C07_exit_codes (pq : Bool) (lineOf : Nat → Str) (q : Str) (s : TS) :
    (s.outcome = some .abort → exitOutput pq lineOf q s = (130, [])) ∧
    (s.outcome = some .printQuery → exitOutput pq lineOf q s = (0, [q])) ∧
    (s.outcome = some .accept →
      ((exitOutput pq lineOf q s).1 = 0 ↔ (s.selected ≠ [] ∨ (currentItem s).isSome)) ∧
      ((exitOutput pq lineOf q s).1 = 0 ∨ (exitOutput pq lineOf q s).1 = 1)) := by
  refine ⟨fun h => by simp [exitOutput, h], fun h => by simp [exitOutput, h], fun h => ?_⟩
  simp only [exitOutput, h]
  cases hs : s.selected with
  | nil =>
    cases hc : currentItem s with
    | none => simp
    | some i => simp
  | cons a rest => simp

/-- Order of the output: the query line (with --print-query), then the texts queued by `print`,
    then the selected lines in the order they were selected — or the current line if nothing is
    selected. -/
theorem C07_output_order (pq : Bool) (lineOf : Nat → Str) (q : Str) (s : TS) (h : s.outcome = some .accept) :
    (exitOutput pq lineOf q s).2 =
      (if pq then [q] else []) ++ s.printQueue ++
        (if s.selected ≠ [] then s.selected.map lineOf else ((currentItem s).map lineOf).toList) := by
  simp only [exitOutput, h]
  cases hs : s.selected with
  | nil => cases hc : currentItem s <;> simp
  | cons a rest => simp

/-- Every item the item builder creates carries the original record, unaltered, as what is
    printed — also when the display text is transformed by --with-nth. -/
theorem C07_items_carry_original (o : Filter.Opts) (lines : List Str) :
    ∀ it ∈ Filter.buildItems o lines, it.orig ∈ lines := by
  unfold Filter.buildItems
  suffices h : ∀ (ls : List Str) (hdr idx : Nat), ∀ it ∈ Filter.buildItems.go o ls hdr idx, it.orig ∈ ls from h lines 0 0
  intro ls
  induction ls with
  | nil => intro hdr idx it hit; simp [Filter.buildItems.go] at hit
  | cons l rest ih =>
    intro hdr idx it hit
    unfold Filter.buildItems.go at hit
    split at hit
    · exact List.mem_cons_of_mem _ (ih _ _ it hit)
    · split at hit
      · simp only [List.mem_cons] at hit
        rcases hit with h | h
        · subst h; simp
        · exact List.mem_cons_of_mem _ (ih _ _ it h)
      · simp only [List.mem_cons] at hit
        rcases hit with h | h
        · subst h; simp
        · exact List.mem_cons_of_mem _ (ih _ _ it h)

example : exitOutput true (fun i => [97 + i]) [113] { results := [0, 1], selected := [1, 0], outcome := some .accept }
    = (0, [[113], [98], [97]]) := by decide

end Fzf.Props.C07
