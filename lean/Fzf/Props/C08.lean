import Fzf.Lemmas.Matcher
import Fzf.Spec.Algo
import Fzf.Lemmas.Coordinator
/-
C08 — interactive results converge to a fresh filter of the current query.
Property theorems only: the three mechanisms that stand between the latest request and what is
displayed (mailbox, chunk cache, merger cache) are unobservable.
-/
namespace Fzf.Props.C08
open Fzf Fzf.Matcher Fzf.Algo

/-- **The most recent request wins.** Whatever mix of retry / reset requests was posted while the
    matcher was busy, the one it takes next is the one posted last. -/
theorem C08_latest_request_wins {α : Type} (ps : List (Bool × α)) (last : Bool × α) :
    (take (postAll {} (ps ++ [last]))).1.map (·.body) = some last.2 := by
  have hinv : BoxInv (postAll ({} : Box α) ps) := postAll_inv ps _ (And.intro (fun r h => by cases h) (fun r h => by cases h))
  have : postAll ({} : Box α) (ps ++ [last]) = post (postAll {} ps) last.1 last.2 := by
    simp [postAll, List.foldl_append]
  rw [this]
  exact take_post _ _ _ hinv

/-- After a request was taken the mailbox is empty: nothing is served twice. -/
theorem C08_take_clears {α : Type} (b : Box α) : (take (take b).2).1 = none := by
  simp [take]

/-- **The chunk cache is transparent.** For any family of patterns in which (1) a cacheable
    pattern is determined by its cache key and (2) whatever matches a pattern also matches the
    cacheable pattern of every shorter prefix / suffix key, any history of matches against a chunk
    sharing one cache returns, for each pattern, exactly the items of the chunk it matches, in
    chunk order — whether the answer came from an exact hit, from narrowing a cached prefix /
    suffix result, or from a full scan. -/
theorem C08_chunk_cache_transparent {Item : Type} (sem : Str → Item → Bool) (Buildable : Pat Item → Prop)
    (keySem : ∀ p, Buildable p → p.cacheable = true → ∀ i, p.sat i = sem p.key i)
    (mono : ∀ p, Buildable p → ∀ k' ∈ subkeys p.key, ∀ i, p.sat i = true → sem k' i = true)
    (cacheMax : Nat) (items : List Item) (full : Bool) (ps : List (Pat Item)) (hps : ∀ p ∈ ps, Buildable p) :
    runPats cacheMax items full [] ps = ps.map fun p => items.filter p.sat :=
  runPats_transparent sem Buildable keySem mono cacheMax items full ps hps [] (by intro e he; cases he)

/-- Hypothesis (2) for one fuzzy term under fixed case / normalisation flags: a line that has the
    term as a subsequence has every sub-key of it as a subsequence. -/
theorem C08_fuzzy_narrowing (term line : Str) (k' : Str) (hk : k' ∈ subkeys term)
    (h : Spec.isSubseq term line = true) : Spec.isSubseq k' line = true := by
  rw [Spec.isSubseq_iff] at h ⊢
  exact (subkeys_sublist term k' hk).trans h

/-- Hypothesis (2) for one exact term: a line that contains the term contains every sub-key. -/
theorem C08_exact_narrowing (term line : Str) (k' : Str) (hk : k' ∈ subkeys term)
    (h : term <:+: line) : k' <:+: line :=
  (subkeys_infix term k' hk).trans h

/-- **The merger cache is transparent.** In any history of requests in which two requests of one
    revision with the same item count carry the same snapshot (within a revision the list only
    grows; `C13_same_count_same_items`), every request — final or not — is answered with the result
    of scanning its own snapshot with its own pattern and sort flag, never with a merger cached
    for other input, another item count, another sort order or another query. -/
theorem C08_merger_cache_transparent {R : Type} (scan : SReq → R) (hext : ScanExt scan) (cacheable : R → Bool)
    (sort0 : Bool) (rev0 : Nat) (rs : List SReq) (hpw : rs.Pairwise Valid) :
    ∀ x ∈ servePairs scan cacheable { sort := sort0, rev := rev0 } rs, x.2 = scan x.1 :=
  servePairs_spec scan hext cacheable rs [] _ (by intro e he; cases he) (by intro s hs; cases hs) hpw

/-! The interplay of reader, coordinator, matcher and terminal (Model/Coordinator.lean). -/

/-- **At rest the list is the search of the current settings over everything loaded.** For every
    execution — any interleaving of items arriving, the input ending, the user editing the query
    or toggling sort / exclusions / nth, reloads, the coordinator handling its events, the matcher
    picking up, abandoning or completing scans, results being handed to the terminal — if it ends
    in a state where input has ended and nothing is pending anywhere, the result on display is
    the one computed for the query now in the prompt over all the items loaded, with the final
    flag set. No order of overwriting events, cancelled scans or late results leaves an older
    query's results on the screen. (What a scan computes for a request is the subject of
    `C08_merger_cache_transparent`, `C08_chunk_cache_transparent` and the matching theorems of
    C01–C04.) -/
theorem C08_quiescent_shows_current (ls : List Coordinator.Label) (t : Coordinator.Co)
    (hr : Coordinator.run {} ls = some t) (hq : Coordinator.Quiescent t) :
    t.shown = some ⟨t.q, t.n, true⟩ :=
  Coordinator.quiescent_shows_current ls t hr hq

/-- **… and the rest state is reached.** Once input has ended, a state that is not at rest always
    has a transition of fzf itself enabled, and each such transition uses up pending work: while
    the user and the reader are silent at most `measure s` ≤ 14 of them happen. -/
theorem C08_converges (s : Coordinator.Co) (hread : s.reading = false) :
    (¬ Coordinator.Quiescent s → ∃ l, Coordinator.own l = true ∧ (Coordinator.step s l).isSome = true) ∧
    (∀ l t, Coordinator.own l = true → Coordinator.step s l = some t → Coordinator.measure t < Coordinator.measure s) :=
  ⟨Coordinator.not_stuck s hread, fun l t ho hs => Coordinator.own_step_decreases s t l ho hs⟩

/-- **The rest state is reached, and it shows the current query.** From every state the system can
    be in once input has ended — whatever events, requests, scans and late results are still under
    way — fzf's own steps alone (the world staying silent) lead, in at most `measure s` ≤ 14 steps
    whatever order they are taken in, to a state with nothing pending, the same query and the same
    items; and by `C08_quiescent_shows_current` that state shows the result for exactly those. -/
theorem C08_reaches_rest (s : Coordinator.Co) (hread : s.reading = false) :
    (∃ ls t, (∀ l ∈ ls, Coordinator.own l = true) ∧ Coordinator.run s ls = some t ∧ Coordinator.Quiescent t ∧
        t.q = s.q ∧ t.n = s.n) ∧
    (∀ ls t, (∀ l ∈ ls, Coordinator.own l = true) → Coordinator.run s ls = some t → ls.length ≤ Coordinator.measure s) := by
  refine ⟨Coordinator.reaches_rest _ s (Nat.le_refl _) hread, fun ls t ho hr => ?_⟩
  have := Coordinator.own_run_bounded ls s t ho hr
  omega

/- Non-vacuity: an execution with an edit racing a scan; the stale result is shown for a while,
   the rest state shows the current one. -/
example :
    let ls : List Coordinator.Label := [.push, .push, .coordRead, .take, .eof, .edit 7, .finish, .coordFin,
      .coordSearch, .coordRead, .take, .finish, .coordFin]
    (Coordinator.run {} ls).map (fun t => (t.shown, decide (t.reading = false ∧ t.evRead = false ∧ t.evSearch = false ∧
        t.evFin = none ∧ t.box = none ∧ t.running = none))) = some (some ⟨7, 2, true⟩, true) ∧
    (Coordinator.run {} (ls.take 8)).map (·.shown) = some (some ⟨0, 2, false⟩) := by decide

/-! Non-vacuity and a documented limit. -/
example : (take (postAll ({} : Box Nat) [(true, 1), (false, 2), (true, 3), (false, 4)])).1.map (·.body) = some 4 := by decide
example : (take (postAll ({} : Box Nat) [(false, 1), (true, 2)])).1.map (·.body) = some 2 := by decide

/-- The history on which the pinned snapshot answered with a stale merger (finding F32: after a
    reload the cache was still held to be for the old input's 500 items; a request over 100 items
    filled it, the next one over 500 items was a hit) is answered correctly. -/
example :
    let scan : SReq → Nat := fun r => r.snap
    let rs : List SReq := [⟨0, 1, 500, false, true, 0⟩, ⟨0, 2, 100, false, true, 1⟩, ⟨0, 3, 500, false, true, 1⟩]
    serveAll scan (fun _ => true) { sort := true, rev := 0 } rs = [1, 2, 3] := by decide

/-- A hit does happen (the theorem is not about a cache that never answers): the same request
    twice is scanned once. -/
example :
    let rs : List SReq := [⟨0, 1, 500, false, true, 0⟩, ⟨0, 1, 500, false, true, 0⟩]
    ((serve (fun r => r.snap) (fun _ => true) ({ sort := true, rev := 0 } : LS Nat) rs[0]).1.cache.length) = 1 := by decide

end Fzf.Props.C08
