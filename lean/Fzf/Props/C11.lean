import Fzf.Lemmas.Ansi
import Fzf.Lemmas.AnsiScan
import Fzf.Lemmas.AnsiSpans
/-
C11 — `--ansi` strips escape sequences only and colours the right characters.
Property theorems only.
-/
namespace Fzf.Props.C11
open Fzf Fzf.Ansi

/-- Text without control characters (no BS, SO, SI, ESC) is left untouched, whatever state is
    carried over from the previous line. -/
theorem C11_plain_untouched (s : Bytes) (st : Option State) (idBase : Nat) (hp : Plain s) :
    (extractColor s st idBase).1 = s := extractColor_plain s st idBase hp

/-- … and the scanner reports no sequence in it, from any position. -/
theorem C11_plain_no_sequence (s : Bytes) (frm : Nat) (hp : Plain s) : nextEscape s frm = none :=
  nextEscape_plain s frm hp

/-- **Whatever the bytes, a reported escape sequence is a proper piece of the line**: it is not
    empty, it does not start before the position the scan started from (so text already handed
    over is never taken back), and it ends inside the line — for invalid UTF-8, truncated or
    nested sequences alike. This is what makes the stripping loop terminate and its offsets well
    formed. -/
theorem C11_scan_in_range (s : Bytes) (frm b e : Nat) (h : nextEscape s frm = some (b, e)) :
    frm ≤ b ∧ b < e ∧ e ≤ s.size :=
  nextEscape_range s frm b e h

/-- **`--ansi` strips, it never invents**: for arbitrary bytes and any colour state carried over from
    the previous line, the stripped text is a sublist of the line — no character is added, altered
    or moved; what disappears is what the scanner reported. -/
theorem C11_strip_only_removes (s : Bytes) (st : Option State) (idBase : Nat) :
    (extractColor s st idBase).1.toList.Sublist s.toList :=
  extractColor_sublist s st idBase

/-- **The colour spans are ordered and never overlap**: for arbitrary bytes (well-formed sequences or
    not, valid UTF-8 or not) and any colour state carried over from the previous line, no span
    `extractColor` returns is inverted (`begin ≤ end`) and every span ends where or before every
    later one begins — so no character ever gets two colours. -/
theorem C11_spans_ordered (s : Bytes) (st : Option State) (idBase : Nat) (offs : List Offset)
    (h : (extractColor s st idBase).2.1 = some offs) :
    (∀ o ∈ offs, o.b ≤ o.e) ∧ offs.Pairwise (fun a b => a.e ≤ b.b) :=
  extractColor_spans s st idBase offs h

/-- The abstract colouring assigns exactly one cell to every character of the text. -/
theorem C11_paint_length (pen : Spec.Pen) (ops : List Spec.Op) :
    (Spec.paint pen ops).length = (ops.map Spec.opChars).sum := by
  unfold Spec.paint
  suffices h : ∀ (acc : Spec.Pen × List Spec.Cell),
      ((ops.foldl Spec.paintStep acc).2).length = acc.2.length + (ops.map Spec.opChars).sum by
    simpa using h (pen, [])
  induction ops with
  | nil => intro acc; simp
  | cons o rest ih =>
    intro acc
    simp only [List.foldl_cons, List.map_cons, List.sum_cons]
    rw [ih]
    cases o <;> simp [Spec.paintStep, Spec.opChars] <;> omega

/-- int32 conversions used for 256-colour / 24-bit colours are the identity on colour values. -/
theorem C11_color_in_range (r g b : Nat) (hr : r < 256) (hg : g < 256) (hb : b < 256) :
    toI32 (16777216 + r * 65536 + g * 256 + b) = 16777216 + r * 65536 + g * 256 + b := by
  unfold toI32; omega

example : Plain #[97, 32, 195, 169] := by
  intro i h
  have : i = 0 ∨ i = 1 ∨ i = 2 ∨ i = 3 := by simp at h; omega
  rcases this with h | h | h | h <;> subst h <;> simp
example : (extractColor #[27, 91, 51, 50, 109, 116, 27, 91, 75] none).2.1 = some [⟨0, 1, { fg := 2 }⟩] := by decide

end Fzf.Props.C11
