import Fzf.Model.Tokenizer
/-
Specification side of C10: what a field index expression means, independent of `Range`'s
internal normalisation (`newRange`) and of `Transform`'s index arithmetic.
-/
namespace Fzf.Tokenizer.Spec
open Fzf Fzf.Tokenizer

/-- A documented field index expression: `N`, `A..B`, `A..`, `..B`, `..` (bounds non-zero). -/
inductive Expr where
  | single (n : Int)
  | range (a b : Option Int)
deriving Repr, DecidableEq

/-- Resolution of a (non-zero) bound against `n` fields: negative counts from the end. -/
def resolve (n : Nat) (x : Int) : Int := if x < 0 then x + n + 1 else x

/-- The 1-based field numbers an expression selects among `n` fields, in order. -/
def select (n : Nat) : Expr → List Nat
  | .single x => let i := resolve n x; if 1 ≤ i ∧ i ≤ n then [i.toNat] else []
  | .range a b =>
    let lo := match a with | some a => resolve n a | none => 1
    let hi := match b with | some b => resolve n b | none => n
    (List.range n).map (· + 1) |>.filter fun i => lo ≤ (i : Int) ∧ (i : Int) ≤ hi

/-- Grammar of the documented expressions over bytes. -/
def parseExpr (s : Str) : Option Expr :=
  if !s.all (fun c => (48 ≤ c ∧ c ≤ 57) ∨ c = 45 ∨ c = 46) then none else
  match findDots s with
  | none => (atoi s).bind fun n => if n = 0 then none else some (.single n)
  | some k =>
    let a := s.take k
    let b := s.drop (k + 2)
    if (findDots b).isSome then none else
    let pa : Option (Option Int) := if a.isEmpty then some none else (atoi a).bind fun x => if x = 0 then none else some (some x)
    let pb : Option (Option Int) := if b.isEmpty then some none else (atoi b).bind fun x => if x = 0 then none else some (some x)
    match pa, pb with
    | some a, some b =>
      -- "a negative start with a positive end" is rejected by fzf
      match a, b with
      | some x, some y => if x < 0 ∧ y > 0 then none else some (.range a b)
      | _, _ => some (.range a b)
    | _, _ => none

/-- Text and prefix length the expression must yield on the given fields. -/
def selectToken (tokens : List Token) (e : Expr) : Token :=
  let idxs := select tokens.length e
  let text := idxs.flatMap fun i => (tokens.getD (i - 1) default).text
  let pl := match idxs.head? with
    | some i => (tokens.getD (i - 1) default).prefixLength
    | none => 0
  ⟨text, pl⟩

/-- AWK field: a maximal run of non-blanks followed by its trailing blanks. -/
def isAwkField (t : Str) : Bool :=
  let body := t.takeWhile (fun c => !isAwkWhite c)
  let rest := t.drop body.length
  !body.isEmpty && rest.all isAwkWhite

end Fzf.Tokenizer.Spec
