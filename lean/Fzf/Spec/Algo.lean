import Fzf.Model.Algo
/-
Specification side for C02 / C03 / C05: what a match *is* (witnesses, occurrences) and what the
documented scoring model says, written as directly as possible — no windows, no scratch memory,
no fast paths.  Everything here is executable so the driver can judge the implementation's
answers with it.
-/
namespace Fzf.Algo.Spec
open Fzf.Algo

/-- Documented folding of a text character: lower-case unless case-sensitive, then strip the
    accent when normalisation is on. -/
def fold (cfg : Cfg) (cs norm : Bool) (c : Nat) : Nat :=
  let c := if cs then c else toLower cfg c
  if norm then cfg.norm c else c

/-- `p` is a subsequence of `t` (greedy decision procedure; equivalent to `List.Sublist`,
    see `Lemmas/Subseq.lean`). -/
def isSubseq : List Nat → List Nat → Bool
  | [], _ => true
  | _ :: _, [] => false
  | p :: ps, t :: ts => if p == t then isSubseq ps ts else isSubseq (p :: ps) ts

/-- Strictly increasing list of naturals. -/
def strictlyIncreasing : List Nat → Bool
  | [] => true
  | [_] => true
  | a :: b :: rest => a < b && strictlyIncreasing (b :: rest)

/-- `pos` (ascending) is a witness for pattern `p` in folded text `ft` inside `[s, e)`. -/
def isWitness (ft : Array Nat) (p : List Nat) (pos : List Nat) (s e : Nat) : Bool :=
  pos.length == p.length && strictlyIncreasing pos &&
  pos.all (fun i => s ≤ i && i < e && i < ft.size) &&
  (pos.zip p).all (fun (i, c) => ft.getD i 0 == c)

/-- Contiguous occurrence of `p` in `ft` at `s`. -/
def occursAt (ft : Array Nat) (p : Array Nat) (s : Nat) : Bool :=
  s + p.size ≤ ft.size && (List.range p.size).all (fun k => ft.getD (s + k) 0 == p.getD k 0)

def isWordClass (c : Nat) : Bool := c > cDelim

/-- Occurrence at `s` delimited by non-word characters (or the ends of the line). -/
def boundaryAt (cfg : Cfg) (t ft : Array Nat) (p : Array Nat) (s : Nat) : Bool :=
  occursAt ft p s &&
  (s == 0 || !isWordClass (charClassOf cfg (t.getD (s - 1) 0))) &&
  (s + p.size == t.size || !isWordClass (charClassOf cfg (t.getD (s + p.size) 0)))

/-- Bonus of position `j` in the whole line. -/
def bonusOf (cfg : Cfg) (t : Array Nat) (j : Nat) : Int :=
  let prev := if j == 0 then cfg.sch.initClass else charClassOf cfg (t.getD (j - 1) 0)
  bonusFor cfg.sch prev (charClassOf cfg (t.getD j 0))

/-- Documented score of an alignment: walk `[s, e)`; a position in `pos` is a match (16 + bonus,
    first pattern character's bonus doubled, run bonus = max(bonus, first bonus of the run, 4), a
    boundary bonus higher than the run's first bonus restarts the run), any other position is
    a gap (-3 to open, -1 to extend). -/
def alignScore (cfg : Cfg) (t : Array Nat) (pos : List Nat) (s e : Nat) : Int := Id.run do
  let mut score : Int := 0
  let mut inGap := false
  let mut consecutive := 0
  let mut firstBonus : Int := 0
  let mut rest := pos
  let mut first := true
  for k in [0:e - s] do
    let idx := s + k
    if rest.head? == some idx then
      rest := rest.tail
      let b := bonusOf cfg t idx
      let mut bonus := b
      if consecutive == 0 then firstBonus := b
      else
        if b ≥ bonusBoundary ∧ b > firstBonus then firstBonus := b
        bonus := max (max b firstBonus) bonusConsecutive
      score := score + scoreMatch + (if first then bonus * bonusFirstCharMultiplier else bonus)
      first := false
      inGap := false
      consecutive := consecutive + 1
    else
      score := score + (if inGap then scoreGapExtension else scoreGapStart)
      inGap := true
      consecutive := 0
      firstBonus := 0
  return score

/-- Greedy left-to-right embedding of `p` into `ft[s:e]`. -/
def greedyPositions (ft : Array Nat) (p : List Nat) (s e : Nat) : List Nat := Id.run do
  let mut rest := p
  let mut out : List Nat := []
  for k in [0:e - s] do
    match rest with
    | [] => break
    | c :: cs =>
      if ft.getD (s + k) 0 == c then
        out := (s + k) :: out
        rest := cs
  return out.reverse

/-! ### Reference evaluation of the V2 recurrence over the whole line -/

/-- First feasible column of every pattern character (greedy embedding), or none. -/
def firstCols (ft : Array Nat) (p : List Nat) : Option (List Nat) :=
  let g := greedyPositions ft p 0 ft.size
  if g.length == p.length then some g else none

/-- One row of the recurrence. `prev` = (H, C) of row `i-1` (for all columns), `f` = first
    feasible column of this row; infeasible cells are 0. Returns this row's (H, C). -/
def refRow (cfg : Cfg) (t ft : Array Nat) (pc : Nat) (f : Nat) (prevH prevC : Array Int) :
    Array Int × Array Int := Id.run do
  let n := ft.size
  let mut H : Array Int := Array.replicate n 0
  let mut C : Array Int := Array.replicate n 0
  let mut inGap := false
  for k in [0:n - f] do
    let j := f + k
    let hleft : Int := if k == 0 then 0 else H.getD (j - 1) 0
    let s2 := hleft + (if inGap then scoreGapExtension else scoreGapStart)
    let mut s1 : Int := 0
    let mut cons : Int := 0
    if ft.getD j 0 == pc then
      let hd := if j == 0 then 0 else prevH.getD (j - 1) 0
      let cd := if j == 0 then 0 else prevC.getD (j - 1) 0
      let b0 := bonusOf cfg t j
      let mut b := b0
      cons := cd + 1
      if cons > 1 then
        let fb := bonusOf cfg t (j + 1 - cons.toNat)
        if b ≥ bonusBoundary ∧ b > fb then cons := 1
        else b := max b (max bonusConsecutive fb)
      if hd + scoreMatch + b < s2 then
        s1 := hd + scoreMatch + b0
        cons := 0
      else
        s1 := hd + scoreMatch + b
    C := C.set! j cons
    inGap := s1 < s2
    H := H.set! j (max (max s1 s2) 0)
  return (H, C)

/-- Row 0 of the recurrence. -/
def refRow0 (cfg : Cfg) (t ft : Array Nat) (p0 : Nat) : Array Int × Array Int := Id.run do
  let n := ft.size
  let mut H : Array Int := Array.mkEmpty n
  let mut C : Array Int := Array.mkEmpty n
  let mut prevH : Int := 0
  let mut inGap := false
  for j in [0:n] do
    if ft.getD j 0 == p0 then
      let h := scoreMatch + bonusOf cfg t j * bonusFirstCharMultiplier
      H := H.push h; C := C.push 1; inGap := false; prevH := h
    else
      let h := max (prevH + (if inGap then scoreGapExtension else scoreGapStart)) 0
      H := H.push h; C := C.push 0; inGap := true; prevH := h
  return (H, C)

/-- The documented dynamic programme evaluated over the whole line: `(score, endColumn+1)`;
    `none` when the pattern does not embed. For a one-character pattern only matching cells
    compete (a gap cell is not an alignment). -/
def refV2 (cfg : Cfg) (fwd : Bool) (t ft : Array Nat) (p : List Nat) : Option (Int × Nat) :=
  match p, firstCols ft p with
  | [], _ => some (0, 0)
  | _, none => none
  | p0 :: ps, some fs =>
    let (H, C) := (ps.zip (fs.drop 1)).foldl
      (fun (hc : Array Int × Array Int) (pf : Nat × Nat) => refRow cfg t ft pf.1 pf.2 hc.1 hc.2)
      (refRow0 cfg t ft p0)
    let _ := C
    let lastF := fs.getLast?.getD 0
    let lastP := (p0 :: ps).getLast?.getD 0
    -- arg-max over feasible cells of the last row (first max forward, last max backward)
    let cand := (List.range ft.size).filter (fun j => j ≥ lastF && (ps != [] || ft.getD j 0 == lastP))
    let best := cand.foldl (fun (acc : Int × Nat) j =>
      let h := H.getD j 0
      if (fwd && h > acc.1) || (!fwd && h ≥ acc.1) then (h, j + 1) else acc) (0, 0)
    some best

/-- Score of the best alignment that actually exists, by brute force over all embeddings
    (exponential; only for short inputs). -/
partial def bestAlignScore (cfg : Cfg) (t ft : Array Nat) (p : List Nat) : Option Int :=
  let rec embeds (p : List Nat) (frm : Nat) : List (List Nat) :=
    match p with
    | [] => [[]]
    | c :: cs =>
      ((List.range (ft.size - frm)).map (· + frm)).flatMap fun j =>
        if ft.getD j 0 == c then (embeds cs (j + 1)).map (j :: ·) else []
  let all := embeds p 0
  all.foldl (fun acc pos =>
    let s := alignScore cfg t pos (pos.head?.getD 0) (pos.getLast?.getD 0 + 1)
    match acc with
    | none => some s
    | some a => some (max a s)) none

end Fzf.Algo.Spec
