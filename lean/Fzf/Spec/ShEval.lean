import Fzf.Base.Str
/-
A model of how a POSIX shell splits a command line into words, restricted to the constructs a
correct placeholder expansion may contain: blanks separate words, `'…'` is literal up to the
next `'`, a backslash outside quotes makes the next character literal, adjacent pieces
concatenate. Any other character that is special to the shell *outside quotes* makes the
evaluation fail (`none`): data that ends up there would be executed as syntax.
The model itself is validated against dash and bash by the correspondence check.
-/
namespace Fzf.ShEval
open Fzf

/-- Characters with a meaning to the shell when unquoted (besides blank, quote, backslash). -/
def isMeta (c : Nat) : Bool :=
  c = 34 || c = 36 || c = 96 || c = 38 || c = 124 || c = 59 || c = 60 || c = 62 || c = 40 || c = 41 ||
  c = 42 || c = 63 || c = 91 || c = 93 || c = 123 || c = 125 || c = 126 || c = 35 || c = 33 || c = 10 || c = 61 || c = 37 || c = 94

def isBlank (c : Nat) : Bool := c = 32 || c = 9

/-- `eval s inQuote ws cur`: words finished (reversed), current word (reversed) if one is open. -/
def eval : Str → Bool → List Str → Option Str → Option (List Str)
  | [], true, _, _ => none                                   -- unterminated quote
  | [], false, ws, cur => some ((match cur with | some w => w.reverse :: ws | none => ws).reverse)
  | c :: rest, true, ws, cur =>
    if c = 39 then eval rest false ws cur else eval rest true ws (some (c :: cur.getD []))
  | 92 :: c :: rest, false, ws, cur => if c = 10 then none else eval rest false ws (some (c :: cur.getD []))
  | c :: rest, false, ws, cur =>
    if c = 39 then eval rest true ws (some (cur.getD []))     -- a quote opens (or continues) a word
    else if c = 92 then none                                 -- trailing backslash
    else if isBlank c then eval rest false (match cur with | some w => w.reverse :: ws | none => ws) none
    else if isMeta c then none
    else eval rest false ws (some (c :: cur.getD []))

/-- The words a shell passes on for this command line; `none` if it would interpret some of it. -/
def words (s : Str) : Option (List Str) := eval s false [] none

/-- fish's reading of one single-quoted string: inside quotes only `\'` and `\\` are escapes. -/
def fishQuoted : Str → Option Str
  | 39 :: rest =>
    let rec go : Str → Str → Option Str
      | [], _ => none
      | 39 :: tl, acc => if tl.isEmpty then some acc.reverse else none
      | 92 :: 39 :: tl, acc => go tl (39 :: acc)
      | 92 :: 92 :: tl, acc => go tl (92 :: acc)
      | c :: tl, acc => go tl (c :: acc)
    go rest []
  | _ => none

end Fzf.ShEval
