import Fzf.Model.Ansi
/-
Specification side of C11.
(1) What an escape sequence *is*: the regular expression documented in ansi.go,

   (?:\x1b[\\[()][0-9;:?]*[a-zA-Z@] | \x1b][0-9]+[;:][[:print:]]+(?:\x1b\\|\x07) | \x1b. | [\x0e\x0f] | .\x08)

    read with leftmost-first semantics (plus the documented `ESC ] 8 ; ; ESC` form that
    `ansiState.ToString` emits), written as a matcher over positions — not as a scanner.
(2) What colour each character of a well-formed stream has: an interpreter over abstract
    operations (set colour, attribute on/off, reset, hyperlink), independent of SGR syntax.
-/
namespace Fzf.Ansi.Spec
open Fzf Fzf.Ansi

/-- Length of a CSI-like sequence at `i`: ESC, one of `\ [ ( )`, parameter bytes, a final byte. -/
def csiAt (s : Bytes) (i : Nat) : Option Nat :=
  if s.getD i 0 != 0x1b ∨ i + 1 ≥ s.size ∨ !isCtrlSeqStart (s.getD (i + 1) 0) then none
  else
    let params := ((s.extract (i + 2) s.size).toList.takeWhile isParamByte).length
    let j := i + 2 + params
    if j < s.size ∧ isAlphaAt (s.getD j 0) then some (j + 1 - i) else none

/-- Length of an OSC sequence at `i`. -/
def oscAt (s : Bytes) (i : Nat) : Option Nat :=
  if s.getD i 0 != 0x1b ∨ s.getD (i + 1) 0 != 93 ∨ i + 1 ≥ s.size then none
  else
    let ds := ((s.extract (i + 2) s.size).toList.takeWhile isNumeric).length
    let j := i + 2 + ds
    if ds = 0 ∨ j ≥ s.size ∨ !(s.getD j 0 == 59 || s.getD j 0 == 58) then none
    else
      let ps := ((s.extract (j + 1) s.size).toList.takeWhile isPrint).length
      let k := j + 1 + ps
      if ps = 0 ∨ k ≥ s.size then none
      else if s.getD k 0 == 7 then some (k + 1 - i)
      else if s.getD k 0 == 0x1b ∧ k + 1 < s.size ∧ s.getD (k + 1) 0 == 92 then some (k + 2 - i)
      else if (s.extract i (k + 1)).toList == [0x1b, 93, 56, 59, 59, 0x1b] then some (k + 1 - i)
      else none

/-- Width of the character (as the regexp's `.` sees it) starting at `i`; none for newline / end. -/
def dotAt (s : Bytes) (i : Nat) : Option Nat :=
  if i ≥ s.size ∨ s.getD i 0 == 10 then none
  else some (max 1 (Utf8.decodeRune (s.extract i s.size).toList).2)

/-- Length of the sequence starting exactly at `i` (alternatives in the documented order). -/
def seqAt (s : Bytes) (i : Nat) : Option Nat :=
  match csiAt s i with
  | some n => some n
  | none => match oscAt s i with
    | some n => some n
    | none =>
      if s.getD i 0 == 0x1b ∧ i < s.size then (dotAt s (i + 1)).map (· + 1)
      else if i < s.size ∧ (s.getD i 0 == 0x0e ∨ s.getD i 0 == 0x0f) then some 1
      else match dotAt s i with
        | some w => if s.getD (i + w) 0 == 8 ∧ i + w < s.size then some (w + 1) else none
        | none => none

/-- Leftmost match from `frm`: the first character position at which a sequence starts. -/
def firstSeq (s : Bytes) (frm : Nat) : Option (Nat × Nat) :=
  let rec go (i : Nat) (fuel : Nat) : Option (Nat × Nat) :=
    match fuel with
    | 0 => none
    | fuel + 1 =>
      if i ≥ s.size then none
      else match seqAt s i with
        | some n => some (i, i + n)
        | none =>
          -- the regexp advances by one *character*
          let w := max 1 (Utf8.decodeRune (s.extract i s.size).toList).2
          go (i + w) fuel
  go frm (s.size + 1)

/-- The line with every escape sequence removed, in order. -/
def strip (s : Bytes) : Bytes :=
  let rec go (frm : Nat) (acc : Bytes) (fuel : Nat) : Bytes :=
    match fuel with
    | 0 => acc
    | fuel + 1 =>
      match firstSeq s frm with
      | none => acc ++ s.extract frm s.size
      | some (b, e) => go e (acc ++ s.extract frm b) fuel
  go 0 #[] (s.size + 1)

/-! ### Abstract colouring -/

inductive Op where
  | text (bs : Str)
  | fg (c : Int) | bg (c : Int)
  | attrOn (bit : Nat) | attrOff (bits : Nat)
  | reset
  | url (uri params : Str) | noUrl
  | eraseLine            -- CSI 0K: remembers the background for the rest of the line
  | other                -- any other sequence: no effect on colour

structure Cell where
  fg : Int
  bg : Int
  attr : Nat
  url : Option (Str × Str)
deriving Repr, DecidableEq

structure Pen where
  fg : Int := -1
  bg : Int := -1
  attr : Nat := 0
  url : Option (Str × Str) := none

def Pen.apply (p : Pen) : Op → Pen
  | .fg c => { p with fg := c }
  | .bg c => { p with bg := c }
  | .attrOn b => { p with attr := p.attr ||| b }
  | .attrOff b => { p with attr := p.attr &&& (1023 ^^^ b) }
  | .reset => { p with fg := -1, bg := -1, attr := 0 }
  | .url u ps => { p with url := some (u, ps) }
  | .noUrl => { p with url := none }
  | _ => p

def paintStep (acc : Pen × List Cell) : Op → Pen × List Cell
  | .text bs => (acc.1, acc.2 ++ (List.replicate (Utf8.runeCount bs) ⟨acc.1.fg, acc.1.bg, acc.1.attr, acc.1.url⟩))
  | op => (acc.1.apply op, acc.2)

def opChars : Op → Nat
  | .text bs => Utf8.runeCount bs
  | _ => 0

/-- Colour of every character of the text, in order. -/
def paint (pen : Pen) (ops : List Op) : List Cell := (ops.foldl paintStep (pen, [])).2

end Fzf.Ansi.Spec
