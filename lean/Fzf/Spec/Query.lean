import Fzf.Model.Pattern
import Fzf.Spec.Algo
/-
Specification side of C01: the documented search syntax as an abstract syntax tree, the flags the
documentation prescribes for each term (`compile`), its concrete syntax (`render`), and what it
means for a line to satisfy a query (`Query.sat`) — stated with `isSubseq` / occurrences, not
with the match functions.
-/
namespace Fzf.Query
open Fzf Fzf.Algo Fzf.Pattern

structure Atom where
  kind : TermType
  inv  : Bool
  text : Str
deriving Repr, DecidableEq

abbrev Query := List (List Atom)

/-- Flags the documentation prescribes: smart-case per term (case-sensitive iff the term has an
    upper-case character), accent normalisation unless --literal or the term itself carries an
    accent; the stored text is lower-cased when case-insensitive. -/
def compile (cfg : Cfg) (caseMode : CaseMode) (normalize : Bool) (a : Atom) : Term :=
  let lower := lowerStr cfg a.text
  let cs := caseMode == .respect || (caseMode == .smart && a.text != lower)
  let norm := normalize && lower == normStr cfg lower
  let text := if cs then a.text else lower
  ⟨a.kind, a.inv, if norm then normStr cfg text else text, cs, norm⟩

/-- Texts the grammar reads back unchanged: non-empty, no tab, does not start with one of
    `! ' ^`, does not end with `$ ' \`, is not `|`. -/
def wfText (t : Str) : Bool :=
  !t.isEmpty && !t.contains 9 && !(t.head? == some 33 || t.head? == some 39 || t.head? == some 94) &&
  !(t.getLast? == some 36 || t.getLast? == some 39 || t.getLast? == some 92) && t != [124]

def wf (q : Query) : Bool := !q.isEmpty && q.all fun s => !s.isEmpty && s.all fun a => wfText a.text

def escapeSpaces (t : Str) : Str := t.flatMap fun c => if c = 32 then [92, 32] else [c]

/-- Concrete syntax of one term (`fuzzy` = not --exact). -/
def renderAtom (fuzzy : Bool) (a : Atom) : Str :=
  let t := escapeSpaces a.text
  let body := match a.kind with
    | .fuzzy => if !fuzzy || a.inv then 39 :: t else t
    | .exact => if fuzzy && !a.inv then 39 :: t else t
    | .boundary => 39 :: t ++ [39]
    | .prefix => 94 :: t
    | .suffix => t ++ [36]
    | .equal => 94 :: t ++ [36]
  if a.inv then 33 :: body else body

def render (fuzzy : Bool) (q : Query) : Str :=
  joinWith 32 (q.map fun s => (s.map (renderAtom fuzzy)).foldl (fun acc x => if acc.isEmpty then x else acc ++ [32, 124, 32] ++ x) [])

/-- Does a (compiled) term occur in one piece of text? Declarative per kind. -/
def termIn (cfg : Cfg) (t : Term) (text : Array Nat) : Bool :=
  let ft := text.map (Spec.fold cfg t.cs t.norm)
  let p := t.text.toArray
  match t.typ with
  | .fuzzy => Spec.isSubseq t.text ft.toList
  | .exact => (List.range (ft.size + 1 - p.size)).any (Spec.occursAt ft p)
  | .boundary => (List.range (ft.size + 1 - p.size)).any (Spec.boundaryAt cfg text ft p)
  | .prefix =>
    let lead := if cfg.U.isSpace (p.getD 0 0) then 0 else (text.toList.takeWhile cfg.U.isSpace).length
    Spec.occursAt ft p lead
  | .suffix =>
    let trail := if cfg.U.isSpace (p.getD (p.size - 1) 0) then 0 else (text.toList.reverse.takeWhile cfg.U.isSpace).length
    decide (ft.size ≥ trail + p.size) && Spec.occursAt ft p (ft.size - trail - p.size)
  | .equal =>
    let lead := if cfg.U.isSpace (p.getD 0 0) then 0 else (text.toList.takeWhile cfg.U.isSpace).length
    let trail := if cfg.U.isSpace (p.getD (p.size - 1) 0) then 0 else (text.toList.reverse.takeWhile cfg.U.isSpace).length
    decide (lead + trail + p.size = ft.size) && Spec.occursAt ft p lead

/-- A term matches a line iff it occurs in one of the searchable fields. -/
def termSat (cfg : Cfg) (t : Term) (fields : List (Array Nat)) : Bool := fields.any (termIn cfg t)

/-- AND of OR-groups with negation. -/
def sat (cfg : Cfg) (q : List (List Term)) (fields : List (Array Nat)) : Bool :=
  q.all fun s => s.any fun t => t.inv != termSat cfg t fields

end Fzf.Query
