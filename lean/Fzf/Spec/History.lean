import Fzf.Base.Str
/-
Specification side of C18: what a history *file* means, independent of the
`Hist` structure.
-/
namespace Fzf.History
open Fzf

/-- A history file holding exactly the entries `es`: every entry followed by a newline. -/
def render (es : List Str) : Str := es.flatMap (· ++ [10])

/-- The entries a session finds in a file with arbitrary contents. -/
def entries (data : Str) : List Str :=
  let ls := splitOn 10 (trim 10 data)
  if ls.getLast?.getD [] = [] then ls.dropLast else ls

/-- Abstract editor over history slots: the stored entries plus one scratch slot
    at the end; moving saves the input line into the slot left behind. -/
structure Slots where
  slots  : List Str
  cursor : Nat
  input  : Str
deriving Repr, DecidableEq

inductive SlotOp where
  | prev | next | edit (s : Str)

def Slots.step (s : Slots) : SlotOp → Slots
  | .edit t => { s with input := t }
  | .prev =>
    let sl := s.slots.set s.cursor s.input
    let c := s.cursor - 1
    { slots := sl, cursor := c, input := sl.getD c [] }
  | .next =>
    let sl := s.slots.set s.cursor s.input
    let c := if s.cursor + 1 < sl.length then s.cursor + 1 else s.cursor
    { slots := sl, cursor := c, input := sl.getD c [] }

end Fzf.History
