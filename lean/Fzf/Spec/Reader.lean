import Fzf.Model.Reader
namespace Fzf.Reader

/-- The records of a byte stream: maximal delimiter-free runs, each terminated by the delimiter,
    plus a final unterminated record if it is not empty. -/
def splitRecords (delim : Nat) (bs : Str) : List Str :=
  let rec go (cur : Str) : Str → List Str
    | [] => if cur.isEmpty then [] else [cur.reverse]
    | c :: rest => if c = delim then cur.reverse :: go [] rest else go (c :: cur) rest
  go [] bs

/-- What the operating system does: data never comes together with an error, and the stream
    ends with (0, EOF). -/
def OSReads : List Read → Prop
  | [] => False
  | [r] => r.data = [] ∧ r.err = .eof
  | r :: rest => r.err = .nil ∧ r.data ≠ [] ∧ OSReads rest

end Fzf.Reader
