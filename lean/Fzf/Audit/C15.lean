import Fzf.Props.C15
open Fzf.Props.C15
#print axioms C15_fits_shown_complete
#print axioms C15_width_le
#print axioms C15_row_width
#print axioms C15_truncation_is_slice
#print axioms C15_row_faithful
#print axioms C15_screen_height
#print axioms C15_order_by_layout
#print axioms C15_list_row
#print axioms C15_incremental_eq_full
#print axioms C15_incremental_history
#print axioms C15_skip_sound
#print axioms C15_same_length_queries_differ
#print axioms C15_prompt_shows_query
#print axioms C15_info_shows_counts
#print axioms C15_max_min_are_source
#print axioms C15_hidden_input_rows
#print axioms C15_shown_input_first_row
#print axioms C15_header_first
#print axioms C15_inline_right
#print axioms C15_info_right
