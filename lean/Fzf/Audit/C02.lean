import Fzf.Props.C02
open Fzf.Props.C02
#print axioms C02_subseq_decides
#print axioms C02_witness_gives_sublist
#print axioms C02_slab_guard_bounds_score
#print axioms C02_w16_id
#print axioms C02_checked_ok_imp_no_panic
#print axioms C02_prefix_exact
#print axioms C02_suffix_exact
#print axioms C02_equal_exact
#print axioms C02_calculateScore_total
#print axioms C02_normalize_ascii
#print axioms C02_prefilter_sound
#print axioms C02_v1_sound_complete
#print axioms C02_indexAt_is_source
#print axioms C02_v1_forward_total
#print axioms C02_exact_total
#print axioms C02_exact_sound
#print axioms C02_exact_complete
#print axioms C02_v2_sound_complete
#print axioms C02_v2_phase2_greedy
