import Fzf.Props.C05
open Fzf.Props.C05
#print axioms C05_checked_ok_imp_junk_indep
#print axioms C05_v2_junk_independent
#print axioms C05_v2_two_slabs_agree
#print axioms C05_sublist_restriction
#print axioms C05_renumbering_invariant
