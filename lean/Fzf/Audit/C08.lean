import Fzf.Props.C08
open Fzf.Props.C08
#print axioms C08_latest_request_wins
#print axioms C08_take_clears
#print axioms C08_chunk_cache_transparent
#print axioms C08_fuzzy_narrowing
#print axioms C08_exact_narrowing
#print axioms C08_merger_cache_transparent
#print axioms C08_quiescent_shows_current
#print axioms C08_converges
#print axioms C08_reaches_rest
