import Fzf.Props.C10
open Fzf.Props.C10
#print axioms C10_partition_awk
#print axioms C10_partition_str
#print axioms C10_partition_regex
#print axioms C10_offsets
#print axioms C10_offsets_awk
#print axioms C10_transform_selects
#print axioms C10_match_inside_selected_field
#print axioms C10_no_match_in_any_selected_field
