import Fzf.Props.C10
open Fzf.Props.C10
#print axioms C10_partition_awk
#print axioms C10_partition_str
#print axioms C10_partition_regex
#print axioms C10_offsets
#print axioms C10_offsets_awk
#print axioms C10_transform_selects
