import Fzf.Props.C13
open Fzf.Props.C13
#print axioms C13_snapshot_frozen
#print axioms C13_snapshot_contents_frozen
#print axioms C13_list_is_pushed
#print axioms C13_frozen_prefix
#print axioms C13_count_consistent
#print axioms C13_scan_all_or_nothing
#print axioms C13_cancelled_publishes_nothing
#print axioms C13_tail_snapshot_is_last_n
#print axioms C13_changed_exact
#print axioms C13_same_revision_same_items
