import Fzf.Props.C06
open Fzf.Props.C06
#print axioms C06_feed_split
#print axioms C06_chunking_irrelevant
#print axioms C06_records_exact
#print axioms C06_data_with_eof_witness
#print axioms C06_tail_keeps_last_n
