import Fzf.Props.C03
open Fzf.Props.C03
#print axioms C03_consts_documented
#print axioms C03_scheme_globals
#print axioms C03_ascii_classes
#print axioms C03_bonus_matrix
#print axioms C03_bonus_rules
#print axioms C03_calculateScore_on_occurrence
#print axioms C03_prefix_scored_as_occurrence
#print axioms C03_suffix_scored_as_occurrence
#print axioms C03_occurrence_score_bounds
#print axioms C03_exact_scored_as_occurrence
