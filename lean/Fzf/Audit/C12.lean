import Fzf.Props.C12
open Fzf.Props.C12
#print axioms C12_quote_roundtrip
#print axioms C12_join_roundtrip
#print axioms C12_quote_in_context
#print axioms C12_fish_roundtrip
#print axioms C12_tmux_args_roundtrip
#print axioms C12_template_evaluates
