import Fzf.Props.C20
open Fzf.Props.C20
#print axioms C20_latest_request_runs_last
#print axioms C20_shown_is_latest
#print axioms C20_one_at_a_time
#print axioms C20_superseded_killed_partial
#print axioms C20_lost_cancel_witness
#print axioms C20_superseded_killed
