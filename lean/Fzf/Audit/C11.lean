import Fzf.Props.C11
open Fzf.Props.C11
#print axioms C11_plain_untouched
#print axioms C11_plain_no_sequence
#print axioms C11_scan_in_range
#print axioms C11_strip_only_removes
#print axioms C11_paint_length
#print axioms C11_color_in_range
#print axioms C11_spans_ordered
