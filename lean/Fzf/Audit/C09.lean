import Fzf.Props.C09
open Fzf.Props.C09
#print axioms C09_cx_in_range_act
#print axioms C09_sel_limit_act
#print axioms C09_cx_in_range_actStep
#print axioms C09_sel_limit_actStep
#print axioms C09_invariants
#print axioms C09_cursor_valid
#print axioms C09_toggle_involution
#print axioms C09_kill_yank_inverse
#print axioms C09_sel_survives_query
#print axioms C09_track_follows
#print axioms C09_excluded_stays_out
#print axioms C09_constrain_is_source
#print axioms C09_hidden_input_keeps_query
#print axioms C09_cursor_on_screen
#print axioms C09_reload_drops_selection
#print axioms C09_query_edit_keeps_selection
#print axioms C09_change_multi
