import Fzf.Props.C16
open Fzf.Props.C16
#print axioms C16_key_required
#print axioms C16_reject_is_final
#print axioms C16_post_body_exact
#print axioms C16_content_length_bounded
#print axioms C16_get_never_acts
