import Fzf.Props.C01
open Fzf.Props.C01
#print axioms C01_extended_iff
#print axioms C01_extended_is_and_of_or
#print axioms C01_documented_syntax
#print axioms C01_cfgOk_of_tables
#print axioms C01_filter_exact
#print axioms C01_exact_term_decides
#print axioms C01_anchored_terms_decide
