import Fzf.Props.C07
open Fzf.Props.C07
#print axioms C07_exit_codes
#print axioms C07_output_order
#print axioms C07_items_carry_original
#print axioms C07_filter_prints_originals
#print axioms C07_expect_line_order
