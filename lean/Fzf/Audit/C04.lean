import Fzf.Props.C04
open Fzf.Props.C04
#print axioms C04_cmp64_eq_generic
#print axioms C04_packed_lt_iff_lex
#print axioms C04_less_total_asymm
#print axioms C04_less_trans
#print axioms C04_slices_partition
#print axioms C04_slices_count
#print axioms C04_merge_is_sort
#print axioms C04_lazy_any_order
#print axioms C04_round_appends
#print axioms C04_pass_get
#print axioms C04_pass_get_tac
#print axioms C04_asUint16_is_source
#print axioms C04_each_line_once
