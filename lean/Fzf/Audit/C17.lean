import Fzf.Props.C17
open Fzf.Props.C17
#print axioms C17_mask_length
#print axioms C17_later_overrides
#print axioms C17_argv_over_env
#print axioms C17_value_is_next_argument
