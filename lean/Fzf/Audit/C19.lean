import Fzf.Props.C19
open Fzf.Props.C19
#print axioms C19_pruned_lists_nothing
#print axioms C19_file_listed_iff
#print axioms C19_link_not_followed
#print axioms C19_listed_under
#print axioms C19_skip_rules
#print axioms C19_no_dot_slash
#print axioms C19_root_printed_without_dot_slash
