import Fzf.Props.C18
open Fzf.Props.C18
#print axioms C18_session_file
#print axioms C18_edits_not_persisted
#print axioms C18_load_exact
#print axioms C18_file_content
#print axioms C18_cursor_in_range
#print axioms C18_edits_recalled
