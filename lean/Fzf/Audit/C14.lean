import Fzf.Props.C14
open Fzf.Props.C14
#print axioms C14_decode_total
#print axioms C14_decode_progress
#print axioms C14_drain_terminates
#print axioms C14_esc_in_bounds
#print axioms C14_mouse_in_bounds
#print axioms C14_row_within_window
#print axioms C14_truncation_within_room
