import Fzf.Lemmas.Rank
/-
The lazy k-way merge of `Merger.mergedGet`: every round appends the least of the remaining
results, so the merged prefix is sorted and, once everything was merged, a permutation of the input.
-/
namespace Fzf.Rank

/-- What has been consumed from the lists so far / what is left, for cursor positions `cs`. -/
def takes : List (List R) → List Nat → List R
  | l :: ls, c :: cs => l.take c ++ takes ls cs
  | _, _ => []

def rems : List (List R) → List Nat → List R
  | l :: ls, c :: cs => l.drop c ++ rems ls cs
  | _, _ => []

/-- The heads the scan looks at. -/
def headsOf : List (List R × Nat) → List R
  | [] => []
  | (l, c) :: rest => (match l[c]? with | some r => [r] | none => []) ++ headsOf rest

def DistinctIdx (l : List R) : Prop := l.Pairwise fun a b => a.index ≠ b.index

theorem cmp_total (a b : R) (tac : Bool) (h : a.index ≠ b.index) :
    compareRanks64 a b tac = true ∨ compareRanks64 b a tac = true := by
  have := cmp_total_asymm a b tac h
  cases hb : compareRanks64 b a tac
  · left; rw [this, hb]; rfl
  · right; rfl

/-- The scan returns a candidate that compares less than every other candidate. -/
theorem bestHead_min (tac : Bool) :
    ∀ (zs : List (List R × Nat)) (li : Nat) (best : Option (R × Nat)) (r : R) (i : Nat),
      bestHead tac zs li best = some (r, i) →
      DistinctIdx ((best.toList.map (·.1)) ++ headsOf zs) →
      ∀ x ∈ (best.toList.map (·.1)) ++ headsOf zs, x = r ∨ compareRanks64 r x tac = true
  | [], li, best, r, i, h, _ => by
    unfold bestHead at h
    subst h
    intro x hx
    simp [headsOf] at hx
    exact Or.inl hx
  | (l, c) :: rest, li, best, r, i, h, hd => by
    unfold bestHead at h
    cases hlc : l[c]? with
    | none =>
      simp only [hlc] at h
      have hh : headsOf ((l, c) :: rest) = headsOf rest := by simp [headsOf, hlc]
      rw [hh] at hd ⊢
      exact bestHead_min tac rest (li + 1) best r i h hd
    | some hcur =>
      simp only [hlc] at h
      have hh : headsOf ((l, c) :: rest) = hcur :: headsOf rest := by simp [headsOf, hlc]
      rw [hh] at hd ⊢
      cases hb : best with
      | none =>
        simp only [hb] at h
        simp only [hb, Option.toList_none, List.map_nil, List.nil_append] at hd ⊢
        have := bestHead_min tac rest (li + 1) (some (hcur, li)) r i h (by simpa using hd)
        simpa using this
      | some b =>
        obtain ⟨mr, mi⟩ := b
        simp only [hb] at h
        simp only [hb, Option.toList_some, List.map_cons, List.map_nil, List.cons_append, List.nil_append] at hd ⊢
        -- distinctness facts
        have hd1 : mr.index ≠ hcur.index := by
          have := (List.pairwise_cons.mp hd).1 hcur (by simp)
          exact this
        have hdrest_m : DistinctIdx (mr :: headsOf rest) := by
          unfold DistinctIdx at hd ⊢
          rw [List.pairwise_cons] at hd ⊢
          exact ⟨fun x hx => hd.1 x (List.mem_cons_of_mem _ hx), (List.pairwise_cons.mp hd.2).2⟩
        have hdrest_h : DistinctIdx (hcur :: headsOf rest) := (List.pairwise_cons.mp hd).2
        by_cases hc : compareRanks64 hcur mr tac = true
        · simp only [hc, if_true] at h
          have ih := bestHead_min tac rest (li + 1) (some (hcur, li)) r i h (by simpa using hdrest_h)
          simp only [Option.toList_some, List.map_cons, List.map_nil, List.cons_append, List.nil_append] at ih
          intro x hx
          rcases List.mem_cons.mp hx with hxm | hx'
          · -- x = mr, the discarded candidate
            subst hxm
            rcases ih hcur (by simp) with he | hlt
            · right; rw [← he]; exact hc
            · right; exact cmp_trans r hcur x tac hlt hc
          · exact ih x hx'
        · simp only [hc, Bool.false_eq_true, if_false] at h
          have hmh : compareRanks64 mr hcur tac = true := by
            rcases cmp_total mr hcur tac hd1 with h1 | h1
            · exact h1
            · exact absurd h1 hc
          have ih := bestHead_min tac rest (li + 1) (some (mr, mi)) r i h (by simpa using hdrest_m)
          simp only [Option.toList_some, List.map_cons, List.map_nil, List.cons_append, List.nil_append] at ih
          intro x hx
          rcases List.mem_cons.mp hx with hxm | hx'
          · subst hxm; exact ih x (by simp)
          · rcases List.mem_cons.mp hx' with hxh | hx''
            · subst hxh
              rcases ih mr (by simp) with he | hlt
              · right; rw [← he]; exact hmh
              · right; exact cmp_trans r mr x tac hlt hmh
            · exact ih x (List.mem_cons_of_mem _ hx'')

/-- … and the candidate is the head of the list whose number it reports (or the one passed in). -/
theorem bestHead_pos (tac : Bool) :
    ∀ (zs : List (List R × Nat)) (li : Nat) (best : Option (R × Nat)) (r : R) (i : Nat),
      bestHead tac zs li best = some (r, i) →
      best = some (r, i) ∨ ∃ k l c, zs[k]? = some (l, c) ∧ i = li + k ∧ l[c]? = some r
  | [], li, best, r, i, h => by
    unfold bestHead at h; exact Or.inl h
  | (l, c) :: rest, li, best, r, i, h => by
    unfold bestHead at h
    have lift : (∃ k l' c', rest[k]? = some (l', c') ∧ i = li + 1 + k ∧ l'[c']? = some r) →
        ∃ k l' c', ((l, c) :: rest)[k]? = some (l', c') ∧ i = li + k ∧ l'[c']? = some r := by
      rintro ⟨k, l', c', h1, h2, h3⟩
      exact ⟨k + 1, l', c', by simpa using h1, by omega, h3⟩
    cases hlc : l[c]? with
    | none =>
      simp only [hlc] at h
      rcases bestHead_pos tac rest (li + 1) best r i h with hb | hex
      · exact Or.inl hb
      · exact Or.inr (lift hex)
    | some hcur =>
      simp only [hlc] at h
      have here : ∀ (b : Option (R × Nat)), bestHead tac rest (li + 1) b = some (r, i) →
          (b = some (hcur, li) ∨ b = best) →
          best = some (r, i) ∨ ∃ k l' c', ((l, c) :: rest)[k]? = some (l', c') ∧ i = li + k ∧ l'[c']? = some r := by
        intro b hb hor
        rcases bestHead_pos tac rest (li + 1) b r i hb with hbb | hex
        · rcases hor with h1 | h1
          · rw [h1] at hbb
            simp only [Option.some.injEq, Prod.mk.injEq] at hbb
            obtain ⟨e1, e2⟩ := hbb
            subst e1; subst e2
            exact Or.inr ⟨0, l, c, by simp, by omega, hlc⟩
          · rw [h1] at hbb; exact Or.inl hbb
        · exact Or.inr (lift hex)
      cases hb : best with
      | none =>
        simp only [hb] at h
        have := here (some (hcur, li)) h (Or.inl rfl)
        simpa [hb] using this
      | some b =>
        obtain ⟨mr, mi⟩ := b
        simp only [hb] at h
        by_cases hc : compareRanks64 hcur mr tac = true
        · simp only [hc, if_true] at h
          have := here (some (hcur, li)) h (Or.inl rfl)
          simpa [hb] using this
        · simp only [hc, Bool.false_eq_true, if_false] at h
          have := here (some (mr, mi)) h (Or.inr hb.symm)
          simpa [hb] using this

theorem bestHead_none (tac : Bool) :
    ∀ (zs : List (List R × Nat)) (li : Nat) (best : Option (R × Nat)), bestHead tac zs li best = none →
      best = none ∧ headsOf zs = []
  | [], li, best, h => by unfold bestHead at h; exact ⟨h, rfl⟩
  | (l, c) :: rest, li, best, h => by
    unfold bestHead at h
    cases hlc : l[c]? with
    | none =>
      simp only [hlc] at h
      obtain ⟨h1, h2⟩ := bestHead_none tac rest (li + 1) best h
      exact ⟨h1, by simp [headsOf, hlc, h2]⟩
    | some hcur =>
      simp only [hlc] at h
      cases hb : best with
      | none =>
        simp only [hb] at h
        exact absurd (bestHead_none tac rest (li + 1) _ h).1 (by simp)
      | some b =>
        obtain ⟨mr, mi⟩ := b
        simp only [hb] at h
        split at h <;> exact absurd (bestHead_none tac rest (li + 1) _ h).1 (by simp)

theorem takes_rems_perm : ∀ (lists : List (List R)) (cs : List Nat), cs.length = lists.length →
    (takes lists cs ++ rems lists cs).Perm lists.flatten
  | [], [], _ => by simp [takes, rems]
  | [], _ :: _, h => by simp at h
  | _ :: _, [], h => by simp at h
  | l :: ls, c :: cs, h => by
    simp only [takes, rems, List.flatten_cons]
    have ih := takes_rems_perm ls cs (by simpa using h)
    have h1 : (l.take c ++ takes ls cs ++ (l.drop c ++ rems ls cs)).Perm ((l.take c ++ l.drop c) ++ (takes ls cs ++ rems ls cs)) := by
      simp only [List.append_assoc]
      apply List.Perm.append_left
      rw [← List.append_assoc, ← List.append_assoc]
      exact List.Perm.append_right _ List.perm_append_comm
    rw [List.take_append_drop] at h1
    exact h1.trans (List.Perm.append_left l ih)

theorem rems_sublist : ∀ (lists : List (List R)) (cs : List Nat), (rems lists cs).Sublist lists.flatten
  | [], _ => by simp [rems]
  | _ :: _, [] => by simp [rems]
  | l :: ls, c :: cs => by
    simp only [rems, List.flatten_cons]
    exact List.Sublist.append (List.drop_sublist c l) (rems_sublist ls cs)

theorem headsOf_sublist : ∀ (lists : List (List R)) (cs : List Nat), (headsOf (lists.zip cs)).Sublist (rems lists cs)
  | [], _ => by simp [headsOf, rems]
  | _ :: _, [] => by simp [headsOf, rems]
  | l :: ls, c :: cs => by
    simp only [List.zip_cons_cons, headsOf, rems]
    apply List.Sublist.append _ (headsOf_sublist ls cs)
    cases hlc : l[c]? with
    | none => simp
    | some r =>
      simp only
      have hc : c < l.length := by
        rcases List.getElem?_eq_some_iff.mp hlc with ⟨h, _⟩; exact h
      rw [List.drop_eq_getElem_cons hc]
      have : l[c] = r := by
        rcases List.getElem?_eq_some_iff.mp hlc with ⟨_, h⟩; exact h
      rw [this]
      exact List.Sublist.cons_cons r (List.nil_sublist _)

/-- Every remaining result is the head of its list or comes after it. -/
theorem heads_le_rems (tac : Bool) : ∀ (lists : List (List R)) (cs : List Nat),
    (∀ l ∈ lists, l.Pairwise fun a b => compareRanks64 a b tac = true) →
    ∀ y ∈ rems lists cs, ∃ h ∈ headsOf (lists.zip cs), y = h ∨ compareRanks64 h y tac = true
  | [], _, _, y, hy => by simp [rems] at hy
  | _ :: _, [], _, y, hy => by simp [rems] at hy
  | l :: ls, c :: cs, hs, y, hy => by
    simp only [rems, List.mem_append] at hy
    simp only [List.zip_cons_cons, headsOf, List.mem_append]
    rcases hy with hy | hy
    · have hne : l.drop c ≠ [] := by intro he; rw [he] at hy; simp at hy
      have hc : c < l.length := by
        have : (l.drop c).length ≠ 0 := by intro h0; exact hne (List.length_eq_zero_iff.mp h0)
        simp at this; omega
      have hlc : l[c]? = some l[c] := List.getElem?_eq_getElem hc
      refine ⟨l[c], Or.inl (by simp [hlc]), ?_⟩
      rw [List.drop_eq_getElem_cons hc] at hy
      rcases List.mem_cons.mp hy with h1 | h1
      · exact Or.inl h1
      · right
        have hp : (l.drop c).Pairwise fun a b => compareRanks64 a b tac = true :=
          (hs l List.mem_cons_self).sublist (List.drop_sublist c l)
        rw [List.drop_eq_getElem_cons hc, List.pairwise_cons] at hp
        exact hp.1 y h1
    · obtain ⟨h, hh, hor⟩ := heads_le_rems tac ls cs (fun l' hl' => hs l' (List.mem_cons_of_mem _ hl')) y hy
      exact ⟨h, Or.inr hh, hor⟩

/-- Advancing cursor `i` moves exactly its head from what is left to what was taken. -/
theorem set_step : ∀ (lists : List (List R)) (cs : List Nat) (i : Nat) (l : List R) (c : Nat) (r : R),
    lists[i]? = some l → cs[i]? = some c → l[c]? = some r →
    (takes lists (cs.set i (c + 1))).Perm (takes lists cs ++ [r]) ∧ (rems lists cs).Perm (r :: rems lists (cs.set i (c + 1)))
  | [], _, i, l, c, r, h, _, _ => by simp at h
  | _ :: _, [], i, l, c, r, _, h, _ => by simp at h
  | l0 :: ls, c0 :: cs, 0, l, c, r, h1, h2, h3 => by
    simp only [List.getElem?_cons_zero, Option.some.injEq] at h1 h2
    subst h1; subst h2
    have hc : c0 < l0.length := by
      rcases List.getElem?_eq_some_iff.mp h3 with ⟨h, _⟩; exact h
    have hr : l0[c0] = r := by
      rcases List.getElem?_eq_some_iff.mp h3 with ⟨_, h⟩; exact h
    simp only [List.set_cons_zero, takes, rems]
    constructor
    · rw [List.take_add_one, h3]
      simp only [Option.toList_some, List.append_assoc]
      apply List.Perm.append_left
      exact List.perm_append_comm
    · rw [List.drop_eq_getElem_cons hc, hr]
      simp
  | l0 :: ls, c0 :: cs, i + 1, l, c, r, h1, h2, h3 => by
    simp only [List.getElem?_cons_succ] at h1 h2
    obtain ⟨ih1, ih2⟩ := set_step ls cs i l c r h1 h2 h3
    simp only [List.set_cons_succ, takes, rems]
    constructor
    · rw [List.append_assoc]; exact List.Perm.append_left _ ih1
    · exact (List.Perm.append_left _ ih2).trans List.perm_middle

/-- What holds of a merger between rounds. -/
structure Inv (m : Merger) : Prop where
  len : m.cursors.length = m.lists.length
  perm : m.merged.Perm (takes m.lists m.cursors)
  sorted : m.merged.Pairwise fun a b => compareRanks64 a b m.tac = true
  below : ∀ x ∈ m.merged, ∀ y ∈ rems m.lists m.cursors, compareRanks64 x y m.tac = true

theorem inv_new (lists : List (List R)) (sorted tac : Bool) : Inv (Merger.new lists sorted tac) := by
  have hz : ∀ (ls : List (List R)), takes ls (ls.map fun _ => 0) = [] := by
    intro ls; induction ls with
    | nil => rfl
    | cons l ls ih => simp [takes, ih]
  refine ⟨by simp [Merger.new], ?_, by simp [Merger.new], by simp [Merger.new]⟩
  simp only [Merger.new]
  rw [hz]

/-- One round keeps the invariant, appends one result and leaves the lists alone. -/
theorem mergeStep_inv (m m' : Merger)
    (hs : ∀ l ∈ m.lists, l.Pairwise fun a b => compareRanks64 a b m.tac = true)
    (hd : DistinctIdx m.lists.flatten) (hinv : Inv m) (h : m.mergeStep = some m') :
    Inv m' ∧ m'.lists = m.lists ∧ m'.tac = m.tac ∧ m'.sorted = m.sorted ∧ ∃ r, m'.merged = m.merged ++ [r] := by
  unfold Merger.mergeStep at h
  cases hb : bestHead m.tac (m.lists.zip m.cursors) 0 none with
  | none => rw [hb] at h; cases h
  | some ri =>
    obtain ⟨r, i⟩ := ri
    rw [hb] at h
    simp only [Option.some.injEq] at h
    subst h
    -- where the candidate comes from
    rcases bestHead_pos m.tac _ 0 none r i hb with hbad | ⟨k, l, c, hk, hik, hlc⟩
    · cases hbad
    simp only [Nat.zero_add] at hik
    subst hik
    rw [List.getElem?_zip_eq_some] at hk
    obtain ⟨hl, hc⟩ := hk
    have hgetD : m.cursors.getD i 0 = c := by simp [List.getD_eq_getElem?_getD, hc]
    obtain ⟨hp1, hp2⟩ := set_step m.lists m.cursors i l c r hl hc hlc
    -- it is the least of what is left
    have hdh : DistinctIdx (headsOf (m.lists.zip m.cursors)) :=
      hd.sublist ((headsOf_sublist m.lists m.cursors).trans (rems_sublist m.lists m.cursors))
    have hmin := bestHead_min m.tac _ 0 none r i hb (by simpa using hdh)
    simp only [Option.toList_none, List.map_nil, List.nil_append] at hmin
    have hdr : DistinctIdx (r :: rems m.lists (m.cursors.set i (c + 1))) := by
      have : DistinctIdx (rems m.lists m.cursors) := hd.sublist (rems_sublist m.lists m.cursors)
      unfold DistinctIdx at this ⊢
      exact (hp2.pairwise_iff (fun {a b} (hab : a.index ≠ b.index) => (Ne.symm hab))).mp this
    have hrmem : r ∈ rems m.lists m.cursors := hp2.mem_iff.mpr List.mem_cons_self
    refine ⟨⟨?_, ?_, ?_, ?_⟩, rfl, rfl, rfl, r, rfl⟩
    · simp [hinv.len]
    · simp only [hgetD]
      exact (List.Perm.append_right [r] hinv.perm).trans hp1.symm
    · simp only
      rw [List.pairwise_append]
      refine ⟨hinv.sorted, by simp, ?_⟩
      intro x hx y hy
      simp only [List.mem_singleton] at hy
      subst hy
      exact hinv.below x hx y hrmem
    · simp only [hgetD]
      intro x hx y hy
      have hy' : y ∈ rems m.lists m.cursors := hp2.mem_iff.mpr (List.mem_cons_of_mem _ hy)
      rcases List.mem_append.mp hx with hx | hx
      · exact hinv.below x hx y hy'
      · simp only [List.mem_singleton] at hx
        subst hx
        have hne : x.index ≠ y.index := (List.pairwise_cons.mp hdr).1 y hy
        obtain ⟨hh, hhm, hor⟩ := heads_le_rems m.tac m.lists m.cursors hs y hy'
        rcases hmin hh hhm with he | hlt
        · subst he
          rcases hor with hyh | hlt'
          · exact absurd (congrArg R.index hyh).symm hne
          · exact hlt'
        · rcases hor with hyh | hlt'
          · rw [hyh]; exact hlt
          · exact cmp_trans x hh y m.tac hlt hlt'

/-- While something is left, a round succeeds. -/
theorem mergeStep_some (m : Merger) (hinv : Inv m) (hne : rems m.lists m.cursors ≠ []) : ∃ m', m.mergeStep = some m' := by
  unfold Merger.mergeStep
  cases hb : bestHead m.tac (m.lists.zip m.cursors) 0 none with
  | some ri => obtain ⟨r, i⟩ := ri; exact ⟨_, rfl⟩
  | none =>
    exfalso
    have hh := (bestHead_none m.tac _ 0 none hb).2
    -- with no head there is nothing left
    have : ∀ (lists : List (List R)) (cs : List Nat), headsOf (lists.zip cs) = [] → rems lists cs = [] := by
      intro lists
      induction lists with
      | nil => intro cs _; simp [rems]
      | cons l ls ih =>
        intro cs hcs
        cases cs with
        | nil => simp [rems]
        | cons c cs =>
          simp only [List.zip_cons_cons, headsOf, List.append_eq_nil_iff] at hcs
          simp only [rems, List.append_eq_nil_iff]
          refine ⟨?_, ih cs hcs.2⟩
          cases hlc : l[c]? with
          | some r => rw [hlc] at hcs; simp at hcs
          | none =>
            rw [List.getElem?_eq_none_iff] at hlc
            exact List.drop_eq_nil_iff.mpr hlc
    exact hne (this _ _ hh)

/-- `n` rounds. -/
def mergeN : Nat → Merger → Option Merger
  | 0, m => some m
  | n + 1, m => (m.mergeStep).bind (mergeN n)

/-- **The merge is a sort.** Merging per-worker lists that are each in rank order (ranks of
    distinct items) yields, after as many rounds as there are results, a list in rank order that
    is a permutation of all results. -/
theorem merge_sorted_perm (lists : List (List R)) (tac : Bool)
    (hs : ∀ l ∈ lists, l.Pairwise fun a b => compareRanks64 a b tac = true)
    (hd : DistinctIdx lists.flatten) :
    ∃ m, mergeN lists.flatten.length (Merger.new lists true tac) = some m ∧
      (m.merged.Pairwise fun a b => compareRanks64 a b tac = true) ∧ m.merged.Perm lists.flatten := by
  have key : ∀ (n : Nat) (m : Merger), m.lists = lists → m.tac = tac → Inv m →
      (rems m.lists m.cursors).length = n →
      ∃ m', mergeN n m = some m' ∧ m'.lists = lists ∧ m'.tac = tac ∧ Inv m' ∧ rems m'.lists m'.cursors = [] := by
    intro n
    induction n with
    | zero =>
      intro m hl ht hinv hlen
      exact ⟨m, rfl, hl, ht, hinv, List.length_eq_zero_iff.mp hlen⟩
    | succ n ih =>
      intro m hl ht hinv hlen
      have hne : rems m.lists m.cursors ≠ [] := by intro he; rw [he] at hlen; simp at hlen
      obtain ⟨m1, hm1⟩ := mergeStep_some m hinv hne
      obtain ⟨hinv1, hl1, ht1, _, r, hr⟩ := mergeStep_inv m m1 (by rw [hl, ht]; exact hs) (by rw [hl]; exact hd) hinv hm1
      -- one result fewer is left
      have hcount : (rems m1.lists m1.cursors).length = n := by
        have p1 := takes_rems_perm m.lists m.cursors hinv.len
        have p2 := takes_rems_perm m1.lists m1.cursors hinv1.len
        have l1 := p1.length_eq
        have l2 := p2.length_eq
        have e1 := hinv.perm.length_eq
        have e2 := hinv1.perm.length_eq
        rw [hr] at e2
        rw [hl1] at l2 e2
        simp only [List.length_append, List.length_cons, List.length_nil] at l1 l2 e2
        rw [hl1]
        omega
      obtain ⟨m', hm', hl', ht', hinv', hrem'⟩ := ih m1 (hl1.trans hl) (ht1.trans ht) hinv1 hcount
      refine ⟨m', ?_, hl', ht', hinv', hrem'⟩
      simp only [mergeN, hm1, Option.bind_some]
      exact hm'
  have h0 := inv_new lists true tac
  have hlen0 : (rems (Merger.new lists true tac).lists (Merger.new lists true tac).cursors).length = lists.flatten.length := by
    have p := takes_rems_perm (Merger.new lists true tac).lists (Merger.new lists true tac).cursors h0.len
    have := p.length_eq
    have e := h0.perm.length_eq
    simp only [List.length_append] at this
    simp only [Merger.new, List.length_nil] at e
    simp only [Merger.new] at this ⊢
    omega
  obtain ⟨m, hm, hl, ht, hinv, hrem⟩ := key lists.flatten.length (Merger.new lists true tac) rfl rfl h0 hlen0
  refine ⟨m, hm, by rw [← ht]; exact hinv.sorted, ?_⟩
  have p := takes_rems_perm m.lists m.cursors hinv.len
  rw [hrem, List.append_nil] at p
  have q := hinv.perm.trans p
  rw [hl] at q
  exact q

theorem mergeStep_append (m m' : Merger) (h : m.mergeStep = some m') : ∃ r, m'.merged = m.merged ++ [r] := by
  unfold Merger.mergeStep at h
  cases hb : bestHead m.tac (m.lists.zip m.cursors) 0 none with
  | none => rw [hb] at h; cases h
  | some ri =>
    obtain ⟨r, i⟩ := ri
    rw [hb] at h
    simp only [Option.some.injEq] at h
    subst h
    exact ⟨r, rfl⟩

/-- Rounds only append: what was merged earlier stays where it is. -/
theorem mergeN_prefix : ∀ (n : Nat) (m m' : Merger), mergeN n m = some m' →
    m'.merged.length = m.merged.length + n ∧ m'.merged.take m.merged.length = m.merged
  | 0, m, m', h => by
    simp only [mergeN, Option.some.injEq] at h
    subst h; simp
  | n + 1, m, m', h => by
    simp only [mergeN] at h
    cases hs : m.mergeStep with
    | none => rw [hs] at h; simp at h
    | some m1 =>
      rw [hs, Option.bind_some] at h
      obtain ⟨r, hr⟩ := mergeStep_append m m1 hs
      obtain ⟨h1, h2⟩ := mergeN_prefix n m1 m' h
      rw [hr] at h1 h2
      simp only [List.length_append, List.length_cons, List.length_nil] at h1 h2
      refine ⟨by omega, ?_⟩
      -- take |merged| of m' = take |merged| of (take (|merged|+1) of m') = take |merged| of (merged ++ [r])
      have h3 : List.take m.merged.length m'.merged = List.take m.merged.length (List.take (m.merged.length + 1) m'.merged) := by
        rw [List.take_take, Nat.min_eq_left (by omega)]
      rw [h3, h2, List.take_append_of_le_length (Nat.le_refl _), List.take_length]

theorem mergeN_add : ∀ (a b : Nat) (m : Merger), mergeN (a + b) m = (mergeN a m).bind (mergeN b)
  | 0, b, m => by simp [mergeN]
  | a + 1, b, m => by
    have : a + 1 + b = (a + b) + 1 := by omega
    rw [this]
    simp only [mergeN]
    cases hs : m.mergeStep with
    | none => simp
    | some m1 => simp only [Option.bind_some]; exact mergeN_add a b m1

/-- **Lazy merging is merging**: stopping after `k` rounds gives exactly the first `k` results of
    the complete merge — so `Get(i)` does not depend on which results were asked for before. -/
theorem merge_lazy_prefix (lists : List (List R)) (tac : Bool)
    (hs : ∀ l ∈ lists, l.Pairwise fun a b => compareRanks64 a b tac = true)
    (hd : DistinctIdx lists.flatten) (k : Nat) (hk : k ≤ lists.flatten.length) :
    ∃ mk mall, mergeN k (Merger.new lists true tac) = some mk ∧
      mergeN lists.flatten.length (Merger.new lists true tac) = some mall ∧
      mk.merged = mall.merged.take k := by
  obtain ⟨mall, hall, _, _⟩ := merge_sorted_perm lists tac hs hd
  have hsplit : lists.flatten.length = k + (lists.flatten.length - k) := by omega
  rw [hsplit, mergeN_add] at hall
  cases hmk : mergeN k (Merger.new lists true tac) with
  | none => rw [hmk] at hall; simp at hall
  | some mk =>
    rw [hmk, Option.bind_some] at hall
    refine ⟨mk, mall, rfl, ?_, ?_⟩
    · rw [hsplit, mergeN_add, hmk, Option.bind_some]; exact hall
    · obtain ⟨l1, _⟩ := mergeN_prefix k _ mk hmk
      obtain ⟨_, p2⟩ := mergeN_prefix _ mk mall hall
      have : mk.merged.length = k := by simpa [Merger.new] using l1
      rw [this] at p2
      exact p2.symm

end Fzf.Rank
