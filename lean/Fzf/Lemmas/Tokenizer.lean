import Fzf.Spec.Tokenizer
namespace Fzf.Tokenizer
open Fzf

theorem awk_go_flatten (cur : Str) (w : Bool) (s : Str) :
    (awkTokenizer.go cur w s).flatten = cur.reverse ++ s := by
  induction s generalizing cur w with
  | nil =>
    unfold awkTokenizer.go
    split
    · next h => simp_all
    · simp
  | cons c rest ih =>
    unfold awkTokenizer.go
    split
    · simp [ih]
    · split
      · simp [ih]
      · simp [ih]

theorem drop_takeWhile_length (p : Nat → Bool) (s : Str) :
    s.drop (s.takeWhile p).length = s.dropWhile p := by
  induction s with
  | nil => simp
  | cons c rest ih =>
    by_cases h : p c = true
    · simp [List.takeWhile, List.dropWhile, h, ih]
    · simp [List.takeWhile, List.dropWhile, h]

theorem awk_partition (s : Str) :
    s.takeWhile isAwkWhite ++ (awkTokenizer s).1.flatten = s := by
  unfold awkTokenizer
  simp only [awk_go_flatten, List.reverse_nil, List.nil_append]
  have : (s.takeWhile isAwkWhite).length = (s.takeWhile isAwkWhite).length := rfl
  conv => rhs; rw [← List.takeWhile_append_dropWhile (p := isAwkWhite) (l := s)]
  congr 1
  exact drop_takeWhile_length _ _

theorem splitAfter_go_flatten (sep cur s : Str) (fuel : Nat) (hf : s.length < fuel) (hsep : sep ≠ []) :
    (splitAfter.go sep cur s fuel).flatten = cur.reverse ++ s := by
  induction fuel generalizing cur s with
  | zero => omega
  | succ fuel ih =>
    unfold splitAfter.go
    split
    · next h => simp_all
    · next hne =>
      split
      · next hp =>
        have hlen : sep.length ≤ s.length := List.IsPrefix.length_le (List.isPrefixOf_iff_prefix.mp hp)
        have hpos : 0 < sep.length := List.length_pos_iff.mpr hsep
        have : (s.drop sep.length).length < fuel := by simp; omega
        simp only [List.flatten_cons, ih _ _ this, List.reverse_nil, List.nil_append]
        have := List.prefix_iff_eq_append.mp (List.isPrefixOf_iff_prefix.mp hp)
        rw [List.append_assoc, this]
      · cases s with
        | nil => simp at hne
        | cons c rest =>
          simp only
          have : rest.length < fuel := by simp at hf; omega
          rw [ih _ _ this]; simp

theorem splitAfter_partition (sep s : Str) (hsep : sep ≠ []) : (splitAfter sep s).flatten = s := by
  unfold splitAfter
  rw [splitAfter_go_flatten _ _ _ _ (by omega) hsep]; simp

/-- Match locations as `FindAllStringIndex` returns them: ends are non-decreasing from
    `begin_` on and inside the text. -/
def LocsOK (begin_ : Nat) (n : Nat) : List (Nat × Nat) → Prop
  | [] => begin_ ≤ n
  | (_, e) :: rest => begin_ ≤ e ∧ e ≤ n ∧ LocsOK e n rest

theorem regex_go_flatten (s : Str) (locs : List (Nat × Nat)) (b : Nat) (h : LocsOK b s.length locs) :
    (regexTokens.go s b locs).flatten = s.drop b := by
  induction locs generalizing b with
  | nil =>
    unfold regexTokens.go
    split
    · simp
    · simp only [LocsOK] at h
      have : b = s.length := by omega
      simp [this]
  | cons l rest ih =>
    obtain ⟨lb, e⟩ := l
    simp only [LocsOK] at h
    unfold regexTokens.go
    simp only [List.flatten_cons, ih e h.2.2]
    have : s.drop e = (s.drop b).drop (e - b) := by rw [List.drop_drop]; congr 1; omega
    rw [this, List.take_append_drop]

theorem regex_partition (s : Str) (locs : List (Nat × Nat)) (h : LocsOK 0 s.length locs) :
    (regexTokens s locs).flatten = s := by
  unfold regexTokens; rw [regex_go_flatten s locs 0 h]; simp

theorem withPrefixLengths_go_texts (toks : List Str) (pl : Nat) :
    (withPrefixLengths.go toks pl).map (·.text) = toks := by
  induction toks generalizing pl with
  | nil => simp [withPrefixLengths.go]
  | cons t rest ih => simp [withPrefixLengths.go, ih]

/-- The recorded offset of every field is the number of characters before it. -/
theorem withPrefixLengths_go_offsets (toks : List Str) (pl : Nat) (k : Nat) (hk : k < toks.length) :
    ((withPrefixLengths.go toks pl)[k]?).map (·.prefixLength) =
      some (pl + ((toks.take k).map charLen).sum) := by
  induction toks generalizing pl k with
  | nil => simp at hk
  | cons t rest ih =>
    cases k with
    | zero => simp [withPrefixLengths.go]
    | succ k =>
      simp only [withPrefixLengths.go, List.getElem?_cons_succ, List.take_succ_cons, List.map_cons, List.sum_cons]
      rw [ih (pl + charLen t) k (by simpa using hk)]
      simp [Nat.add_assoc]

end Fzf.Tokenizer

namespace Fzf.Tokenizer

theorem joinTokens_withPrefixLengths (toks : List Str) (b : Nat) :
    joinTokens (withPrefixLengths toks b) = toks.flatten := by
  unfold joinTokens withPrefixLengths
  have := withPrefixLengths_go_texts toks b
  rw [List.flatMap_def, this]

end Fzf.Tokenizer
