import Fzf.Model.Pattern
/-
C10 / C01: `Pattern.iter` — a term is tried on the tokens (the selected fields) in order; the first
token in which it matches decides, and the reported range is the range inside that token shifted by
the token's offset in the line.
-/
namespace Fzf.Pattern
open Fzf Fzf.Algo

theorem iter_nil (cfg : Cfg) (v2 : Bool) (typ : TermType) (cs norm fwd : Bool) (p : Array Nat) (wp : Bool) (cap : Nat) :
    iter cfg v2 typ [] cs norm fwd p wp cap = .ok none := by
  unfold iter; rfl

theorem iter_cons (cfg : Cfg) (v2 : Bool) (typ : TermType) (tk : Tok) (toks : List Tok) (cs norm fwd : Bool) (p : Array Nat) (wp : Bool) (cap : Nat) :
    iter cfg v2 typ (tk :: toks) cs norm fwd p wp cap = (do
      let r ← runTerm cfg v2 typ cs norm fwd tk.text tk.isBytes p wp cap
      if r.start ≥ 0 then pure (some (r.start + tk.prefixLength, r.stop + tk.prefixLength, r.score, r.pos.map (·.map (· + tk.prefixLength))))
      else iter cfg v2 typ toks cs norm fwd p wp cap) := by
  unfold iter
  simp only [List.forIn_cons]
  cases hr : runTerm cfg v2 typ cs norm fwd tk.text tk.isBytes p wp cap with
  | error e => rfl
  | ok r =>
    simp only [bind, Except.bind]
    by_cases hs : r.start ≥ 0
    · simp only [hs, if_true, pure, Except.pure]
    · simp only [hs, if_false, pure, Except.pure]

/-- **A reported match lies in one of the selected fields.** When `iter` reports a range, there is
    a token (a selected field; the whole line without --nth) in which the term's match function
    reports a match, no earlier token has one, and the reported range, score and positions are
    that match shifted by the token's offset in the line. -/
theorem iter_some (cfg : Cfg) (v2 : Bool) (typ : TermType) (cs norm fwd : Bool) (p : Array Nat) (wp : Bool) (cap : Nat) :
    ∀ (toks : List Tok) (res : Int × Int × Int × Option (List Nat)),
    iter cfg v2 typ toks cs norm fwd p wp cap = .ok (some res) →
    ∃ pre tk post r, toks = pre ++ tk :: post ∧
      runTerm cfg v2 typ cs norm fwd tk.text tk.isBytes p wp cap = .ok r ∧ 0 ≤ r.start ∧
      res = (r.start + tk.prefixLength, r.stop + tk.prefixLength, r.score, r.pos.map (·.map (· + tk.prefixLength))) ∧
      ∀ t ∈ pre, ∃ r', runTerm cfg v2 typ cs norm fwd t.text t.isBytes p wp cap = .ok r' ∧ r'.start < 0 := by
  intro toks
  induction toks with
  | nil => intro res h; rw [iter_nil] at h; cases h
  | cons tk toks ih =>
    intro res h
    rw [iter_cons] at h
    cases hr : runTerm cfg v2 typ cs norm fwd tk.text tk.isBytes p wp cap with
    | error e => simp [hr, bind, Except.bind] at h
    | ok r =>
      simp only [hr, bind, Except.bind] at h
      by_cases hs : r.start ≥ 0
      · simp only [hs, if_true, pure, Except.pure, Except.ok.injEq, Option.some.injEq] at h
        exact ⟨[], tk, toks, r, rfl, hr, hs, h.symm, fun t ht => by cases ht⟩
      · simp only [hs, if_false] at h
        obtain ⟨pre, tk', post, r', hl, hr', hs', hres, hpre⟩ := ih res h
        refine ⟨tk :: pre, tk', post, r', by rw [hl]; rfl, hr', hs', hres, ?_⟩
        intro t ht
        rcases List.mem_cons.mp ht with rfl | ht'
        · exact ⟨r, hr, by omega⟩
        · exact hpre t ht'

/-- **No match reported means no field has one.** -/
theorem iter_none (cfg : Cfg) (v2 : Bool) (typ : TermType) (cs norm fwd : Bool) (p : Array Nat) (wp : Bool) (cap : Nat) :
    ∀ (toks : List Tok), iter cfg v2 typ toks cs norm fwd p wp cap = .ok none →
    ∀ t ∈ toks, ∃ r, runTerm cfg v2 typ cs norm fwd t.text t.isBytes p wp cap = .ok r ∧ r.start < 0 := by
  intro toks
  induction toks with
  | nil => intro _ t ht; cases ht
  | cons tk toks ih =>
    intro h t ht
    rw [iter_cons] at h
    cases hr : runTerm cfg v2 typ cs norm fwd tk.text tk.isBytes p wp cap with
    | error e => simp [hr, bind, Except.bind] at h
    | ok r =>
      simp only [hr, bind, Except.bind] at h
      by_cases hs : r.start ≥ 0
      · simp [hs, pure, Except.pure] at h
      · simp only [hs, if_false] at h
        rcases List.mem_cons.mp ht with rfl | ht'
        · exact ⟨r, hr, by omega⟩
        · exact ih h t ht'

end Fzf.Pattern
