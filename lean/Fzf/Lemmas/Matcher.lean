import Fzf.Model.Matcher
import Fzf.Lemmas.Subseq
namespace Fzf.Matcher
open Fzf

/-! ### Mailbox -/

def BoxInv {α : Type} (b : Box α) : Prop :=
  (∀ r, b.retry = some r → r.seq ≤ b.next) ∧ (∀ r, b.reset = some r → r.seq ≤ b.next)

theorem post_inv {α : Type} (b : Box α) (c : Bool) (x : α) (h : BoxInv b) : BoxInv (post b c x) := by
  obtain ⟨h1, h2⟩ := h
  unfold post
  cases c
  · refine ⟨?_, ?_⟩
    · intro r hr; simp at hr; subst hr; simp
    · intro r hr; have := h2 r (by simpa using hr); simp; omega
  · refine ⟨?_, ?_⟩
    · intro r hr; have := h1 r (by simpa using hr); simp; omega
    · intro r hr; simp at hr; subst hr; simp

theorem take_post {α : Type} (b : Box α) (c : Bool) (x : α) (h : BoxInv b) :
    (take (post b c x)).1.map (·.body) = some x := by
  obtain ⟨h1, h2⟩ := h
  unfold take post
  cases c
  · -- retry slot gets the new request
    simp only [Bool.false_eq_true, if_false]
    cases hr : b.reset with
    | none => simp
    | some cr =>
      have := h2 cr hr
      simp only [Option.map_some]
      rw [if_neg (by simp; omega)]
  · simp only [if_true]
    cases hr : b.retry with
    | none => simp
    | some a =>
      have := h1 a hr
      simp only [Option.map_some]
      rw [if_pos (by simp; omega)]

def postAll {α : Type} (b : Box α) (ps : List (Bool × α)) : Box α := ps.foldl (fun b p => post b p.1 p.2) b

theorem postAll_inv {α : Type} (ps : List (Bool × α)) (b : Box α) (h : BoxInv b) : BoxInv (postAll b ps) := by
  induction ps generalizing b with
  | nil => exact h
  | cons p ps ih => exact ih _ (post_inv b p.1 p.2 h)

/-! ### Chunk cache -/

theorem qcGet_mem {Item : Type} (qc : QC Item) (k : Str) (l : List Item) (h : qcGet qc k = some l) : (k, l) ∈ qc := by
  unfold qcGet at h
  cases hf : qc.find? (·.1 == k) with
  | none => simp [hf] at h
  | some e =>
    simp [hf] at h
    have hm := List.mem_of_find?_eq_some hf
    have hk := List.find?_some hf
    simp at hk
    obtain ⟨k', l'⟩ := e
    simp at h hk
    subst h; subst hk; exact hm

theorem filter_filter_mono {Item : Type} (items : List Item) (f g : Item → Bool) (h : ∀ i, f i = true → g i = true) :
    (items.filter g).filter f = items.filter f := by
  rw [List.filter_filter]
  apply List.filter_congr
  intro i _
  cases hf : f i with
  | false => simp
  | true => simp [h i hf]

def QCInv {Item : Type} (sem : Str → Item → Bool) (items : List Item) (qc : QC Item) : Prop :=
  ∀ e ∈ qc, e.2 = items.filter (sem e.1)

theorem matchChunk_transparent {Item : Type} (sem : Str → Item → Bool) (Buildable : Pat Item → Prop)
    (keySem : ∀ p, Buildable p → p.cacheable = true → ∀ i, p.sat i = sem p.key i)
    (mono : ∀ p, Buildable p → ∀ k' ∈ subkeys p.key, ∀ i, p.sat i = true → sem k' i = true)
    (cacheMax : Nat) (p : Pat Item) (hp : Buildable p) (items : List Item) (full : Bool) (qc : QC Item)
    (hinv : QCInv sem items qc) :
    (matchChunk cacheMax p items full qc).1 = items.filter p.sat ∧
    QCInv sem items (matchChunk cacheMax p items full qc).2 := by
  unfold matchChunk
  split
  · -- exact hit
    rename_i cached hc
    refine ⟨?_, hinv⟩
    split at hc
    · rename_i hcache
      unfold lookup at hc
      split at hc
      · cases hc
      · have := hinv _ (qcGet_mem qc p.key cached hc)
        simp only at this
        rw [this]
        apply List.filter_congr
        intro i _
        exact (keySem p hp hcache i).symm
    · cases hc
  · rename_i hmiss
    have hres : ((search qc full p.key).getD items).filter p.sat = items.filter p.sat := by
      cases hs : search qc full p.key with
      | none => rfl
      | some l =>
        unfold search at hs
        split at hs
        · cases hs
        · obtain ⟨k', hk', hget⟩ := List.exists_of_findSome?_eq_some hs
          have := hinv _ (qcGet_mem qc k' l hget)
          simp only at this
          simp only [Option.getD_some]
          rw [this]
          exact filter_filter_mono items p.sat (sem k') (mono p hp k' hk')
    refine ⟨hres, ?_⟩
    simp only
    split
    · rename_i hcache
      unfold add
      split
      · exact hinv
      · intro e he
        rcases List.mem_cons.mp he with he | he
        · subst he
          simp only
          rw [hres]
          apply List.filter_congr
          intro i _
          exact keySem p hp hcache i
        · exact hinv e he
    · exact hinv

/-- A history of patterns matched against the same (full or growing) chunk, sharing the cache. -/
def runPats {Item : Type} (cacheMax : Nat) (items : List Item) (full : Bool) :
    QC Item → List (Pat Item) → List (List Item)
  | _, [] => []
  | qc, p :: ps =>
    let r := matchChunk cacheMax p items full qc
    r.1 :: runPats cacheMax items full r.2 ps

theorem runPats_transparent {Item : Type} (sem : Str → Item → Bool) (Buildable : Pat Item → Prop)
    (keySem : ∀ p, Buildable p → p.cacheable = true → ∀ i, p.sat i = sem p.key i)
    (mono : ∀ p, Buildable p → ∀ k' ∈ subkeys p.key, ∀ i, p.sat i = true → sem k' i = true)
    (cacheMax : Nat) (items : List Item) (full : Bool) (ps : List (Pat Item)) (hps : ∀ p ∈ ps, Buildable p)
    (qc : QC Item) (hinv : QCInv sem items qc) :
    runPats cacheMax items full qc ps = ps.map fun p => items.filter p.sat := by
  induction ps generalizing qc with
  | nil => rfl
  | cons p ps ih =>
    obtain ⟨h1, h2⟩ := matchChunk_transparent sem Buildable keySem mono cacheMax p (hps p (by simp)) items full qc hinv
    simp only [runPats, List.map_cons]
    rw [h1, ih (fun q hq => hps q (List.mem_cons_of_mem _ hq)) _ h2]

theorem subkeys_sublist (k k' : Str) (h : k' ∈ subkeys k) : List.Sublist k' k := by
  unfold subkeys at h
  rw [List.mem_flatMap] at h
  obtain ⟨i, _, hi⟩ := h
  simp at hi
  rcases hi with hi | hi
  · subst hi; exact List.take_sublist _ _
  · subst hi; exact List.drop_sublist _ _

theorem subkeys_infix (k k' : Str) (h : k' ∈ subkeys k) : k' <:+: k := by
  unfold subkeys at h
  rw [List.mem_flatMap] at h
  obtain ⟨i, _, hi⟩ := h
  simp at hi
  rcases hi with hi | hi
  · subst hi; exact (List.take_prefix _ _).isInfix
  · subst hi; exact (List.drop_suffix _ _).isInfix

/-! ### Merger cache -/

/-- Every cache entry comes from a served request of the current (sort, revision, item count),
    with the entry's pattern and `final` flag. -/
def LSInv {R : Type} (scan : SReq → R) (seen : List SReq) (st : LS R) : Prop :=
  ∀ e ∈ st.cache,
    ∃ r' ∈ seen, r'.final = e.2.2 ∧ r'.rev = st.rev ∧ r'.sort = st.sort ∧ r'.count = st.prevCount ∧
      r'.pat = e.1 ∧ e.2.1 = scan r'

/-- What makes two requests interchangeable for the scan. -/
def ScanExt {R : Type} (scan : SReq → R) : Prop :=
  ∀ a b : SReq, a.pat = b.pat → a.snap = b.snap → a.sort = b.sort → scan a = scan b

/-- Within one revision the list only grows (trimming for --tail, exclusions, nth changes and
    reloads all change the revision): two snapshots of one revision with the same number of
    items hold the same items. -/
def Valid (a b : SReq) : Prop := a.rev = b.rev → a.count = b.count → b.snap = a.snap

theorem serve_spec {R : Type} (scan : SReq → R) (hext : ScanExt scan) (cacheable : R → Bool)
    (seen : List SReq) (st : LS R) (r : SReq) (hinv : LSInv scan seen st) (hv : ∀ s ∈ seen, Valid s r) :
    (serve scan cacheable st r).2 = scan r ∧
    LSInv scan (r :: seen) (serve scan cacheable st r).1 := by
  unfold serve
  cases hcl : (r.sort != st.sort || r.rev != st.rev) with
  | true =>
    simp only [if_true, Option.getD_none]
    refine ⟨trivial, ?_⟩
    intro e he
    simp only at he
    split at he
    · simp at he; subst he
      exact ⟨r, by simp, by simp, by simp, by simp, by simp, by simp, by simp⟩
    · cases he
  | false =>
    have hs : r.sort = st.sort ∧ r.rev = st.rev := by
      simp [bne_iff_ne] at hcl; exact hcl
    simp only [Bool.false_eq_true, if_false]
    by_cases hc : r.count = st.prevCount
    · simp only [hc, if_true]
      -- the published merger
      have hres :
          ((st.cache.find? fun e => e.1 == r.pat && e.2.2 == r.final).map (·.2.1)).getD (scan r) = scan r := by
        cases hf : st.cache.find? (fun e => e.1 == r.pat && e.2.2 == r.final) with
        | none => rfl
        | some e =>
          have hm := List.mem_of_find?_eq_some hf
          have hk := List.find?_some hf
          simp at hk
          obtain ⟨hk1, _⟩ := hk
          obtain ⟨r', hr', _, hrev, hsort, hcount, hpat, hscan⟩ := hinv e hm
          simp only [Option.map_some, Option.getD_some]
          rw [hscan]
          have hsnap : r.snap = r'.snap := hv r' hr' (by rw [hrev, hs.2]) (by rw [hcount, hc])
          exact hext r' r (by rw [hpat, hk1]) hsnap.symm (by rw [hsort, hs.1])
      refine ⟨hres, ?_⟩
      intro e he
      simp only at he
      split at he
      · rcases List.mem_cons.mp he with he | he
        · subst he
          refine ⟨r, by simp, rfl, rfl, rfl, hc, rfl, ?_⟩
          simp only
          exact hres
        · have hm := (List.mem_filter.mp he).1
          obtain ⟨r', hr', hf', hrev, hsort, hcount, hpat, hscan⟩ := hinv e hm
          exact ⟨r', List.mem_cons_of_mem _ hr', hf', by rw [hrev, hs.2], by rw [hsort, hs.1], hcount, hpat, hscan⟩
      · obtain ⟨r', hr', hf', hrev, hsort, hcount, hpat, hscan⟩ := hinv e he
        exact ⟨r', List.mem_cons_of_mem _ hr', hf', by rw [hrev, hs.2], by rw [hsort, hs.1], hcount, hpat, hscan⟩
    · simp only [hc, if_false, Option.getD_none]
      refine ⟨trivial, ?_⟩
      intro e he
      simp only at he
      split at he
      · simp at he; subst he
        exact ⟨r, by simp, by simp, by simp, by simp, by simp, by simp, by simp⟩
      · cases he

/-- The requests of a history paired with what is published for them. -/
def servePairs {R : Type} (scan : SReq → R) (cacheable : R → Bool) (st : LS R) : List SReq → List (SReq × R)
  | [] => []
  | r :: rs => (r, (serve scan cacheable st r).2) :: servePairs scan cacheable (serve scan cacheable st r).1 rs

theorem servePairs_snd {R : Type} (scan : SReq → R) (cacheable : R → Bool) (st : LS R) (rs : List SReq) :
    (servePairs scan cacheable st rs).map (·.2) = serveAll scan cacheable st rs := by
  induction rs generalizing st with
  | nil => rfl
  | cons r rs ih => simp [servePairs, serveAll, ih]

theorem servePairs_spec {R : Type} (scan : SReq → R) (hext : ScanExt scan) (cacheable : R → Bool)
    (rs : List SReq) (seen : List SReq) (st : LS R) (hinv : LSInv scan seen st)
    (hseen : ∀ s ∈ seen, ∀ r ∈ rs, Valid s r) (hpw : rs.Pairwise Valid) :
    ∀ x ∈ servePairs scan cacheable st rs, x.2 = scan x.1 := by
  induction rs generalizing seen st with
  | nil => intro x hx; cases hx
  | cons r rs ih =>
    obtain ⟨h1, h2⟩ := serve_spec scan hext cacheable seen st r hinv (fun s hs => hseen s hs r (by simp))
    intro x hx
    simp only [servePairs] at hx
    rcases List.mem_cons.mp hx with hx | hx
    · subst hx; exact h1
    · have hpw' := List.pairwise_cons.mp hpw
      refine ih (r :: seen) _ h2 ?_ hpw'.2 x hx
      intro s hs q hq
      rcases List.mem_cons.mp hs with hs | hs
      · subst hs; exact hpw'.1 q hq
      · exact hseen s hs q (List.mem_cons_of_mem _ hq)

end Fzf.Matcher
