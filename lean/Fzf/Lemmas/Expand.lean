import Fzf.Lemmas.Quote
import Fzf.Model.Placeholder
/-
C12: a whole expanded template evaluates, word by word, to the texts its placeholders stand for.
-/
namespace Fzf.Placeholder
open Fzf Fzf.Quote Fzf.ShEval

/-- `seg` evaluates — where no word is open — to the words `ds`, at the end of the command line
    and before a blank followed by anything. -/
def Clean (seg : Str) (ds : List Str) : Prop :=
  (∀ ws, eval seg false ws none = some (ws.reverse ++ ds)) ∧
  (∀ rest ws, eval (seg ++ 32 :: rest) false ws none = eval rest false (ds.reverse ++ ws) none)

theorem eval_blank_none (rest : Str) (ws : List Str) : eval (32 :: rest) false ws none = eval rest false ws none := by
  rw [eval.eq_def]; simp [isBlank]

theorem clean_nil : Clean [] [] := by
  refine ⟨fun ws => by simp [eval], fun rest ws => ?_⟩
  simp only [List.nil_append, List.reverse_nil]
  exact eval_blank_none rest ws

theorem clean_quote (s : Str) : Clean (quoteEntry s) [s] := by
  refine ⟨fun ws => ?_, fun rest ws => ?_⟩
  · have := eval_quoteEntry s [] ws none
    simp only [List.append_nil, Option.getD_none] at this
    rw [this]; simp [eval]
  · rw [eval_quoteEntry]
    simp only [Option.getD_none, List.append_nil]
    rw [eval_blank]; simp

theorem clean_append (a b : Str) (da db : List Str) (ha : Clean a da) (hb : Clean b db) :
    Clean (a ++ 32 :: b) (da ++ db) := by
  refine ⟨fun ws => ?_, fun rest ws => ?_⟩
  · rw [ha.2 b ws, hb.1]; simp
  · rw [List.append_assoc, List.cons_append, ha.2, hb.2]; simp

theorem clean_joinWith : ∀ (ps : List (Str × List Str)), (∀ p ∈ ps, Clean p.1 p.2) →
    Clean (joinWith 32 (ps.map (·.1))) (ps.flatMap (·.2))
  | [], _ => by simpa [joinWith] using clean_nil
  | [p], h => by simpa [joinWith] using h p List.mem_cons_self
  | p :: q :: rest, h => by
    have ih := clean_joinWith (q :: rest) (fun x hx => h x (List.mem_cons_of_mem _ hx))
    have := clean_append p.1 (joinWith 32 ((q :: rest).map (·.1))) p.2 ((q :: rest).flatMap (·.2)) (h p List.mem_cons_self) ih
    simpa [joinWith] using this

/-- The quoted items of `{+}` joined by blanks: one word per item, in order. -/
theorem clean_items (xs : List Str) : Clean (joinWith 32 (xs.map quoteEntry)) xs := by
  have := clean_joinWith (xs.map fun x => (quoteEntry x, [x])) (by
    intro p hp
    simp only [List.mem_map] at hp
    obtain ⟨x, _, rfl⟩ := hp
    exact clean_quote x)
  simpa [List.map_map, Function.comp_def, List.flatMap_map] using this

/-- A character that is neither a blank, a quote, a backslash nor special to the shell. -/
def plainChar (c : Nat) : Bool := !(isBlank c || isMeta c || c == 39 || c == 92)

theorem eval_plain_char (c : Nat) (hc : plainChar c = true) (rest : Str) (ws : List Str) (cur : Option Str) :
    eval (c :: rest) false ws cur = eval rest false ws (some (c :: cur.getD [])) := by
  simp only [plainChar, Bool.not_eq_true', Bool.or_eq_false_iff, beq_eq_false_iff_ne] at hc
  obtain ⟨⟨⟨hb, hm⟩, hq⟩, hbs⟩ := hc
  rw [eval.eq_def]
  split <;> simp_all

theorem eval_plain (w : Str) (hw : ∀ c ∈ w, plainChar c = true) (rest : Str) (ws : List Str) (cur : Option Str) (hne : w ≠ []) :
    eval (w ++ rest) false ws cur = eval rest false ws (some (w.reverse ++ cur.getD [])) := by
  induction w generalizing cur with
  | nil => exact absurd rfl hne
  | cons c w ih =>
    rw [List.cons_append, eval_plain_char c (hw c List.mem_cons_self)]
    by_cases hwe : w = []
    · subst hwe; simp
    · rw [ih (fun d hd => hw d (List.mem_cons_of_mem _ hd)) (some (c :: cur.getD [])) hwe]
      simp

/-- A literal word of the template made of plain characters is passed on as it is. -/
theorem clean_plain (w : Str) (hne : w ≠ []) (hw : ∀ c ∈ w, plainChar c = true) : Clean w [w] := by
  refine ⟨fun ws => ?_, fun rest ws => ?_⟩
  · have := eval_plain w hw [] ws none hne
    simp only [List.append_nil, Option.getD_none] at this
    rw [this]; simp [eval]
  · rw [eval_plain w hw _ ws none hne]
    simp only [Option.getD_none, List.append_nil]
    rw [eval_blank]; simp

end Fzf.Placeholder

namespace Fzf.Placeholder
open Fzf Fzf.Quote Fzf.ShEval

/-- The parts of a template the theorem speaks about. -/
inductive Part where
  | cur            -- {}
  | plus           -- {+}
  | query          -- {q}
  | escaped        -- \{} : stays the two characters {}
  | lit (w : Str)  -- a literal word of plain characters
deriving Repr

def Part.text : Part → Str
  | .cur => [123, 125]
  | .plus => [123, 43, 125]
  | .query => [123, 113, 125]
  | .escaped => [92, 123, 125]
  | .lit w => w

/-- What a part stands for. -/
def Part.denote (cx : Ctx) : Part → List Str
  | .cur => cx.current.toList.map (·.1)
  | .plus => cx.selected.map (·.1)
  | .query => [cx.query]
  | .escaped => []        -- not a word of data: see `Part.ok`
  | .lit w => [w]

/-- Literal words must be non-empty and plain; escaped placeholders are outside the statement
    (they are left literal, and `{` `}` then are the template author's own shell syntax). -/
def Part.ok : Part → Prop
  | .lit w => w ≠ [] ∧ (∀ c ∈ w, plainChar c = true) ∧ w.head? ≠ some 92 ∧ w.head? ≠ some 123
  | .escaped => False
  | _ => True

theorem expandPart_clean (cx : Ctx) (p : Part) (hp : p.ok) : Clean (expandPart cx p.text) (p.denote cx) := by
  cases p with
  | cur =>
    have : expandPart cx [123, 125] = joinWith 32 (cx.current.toList.map fun (x : Str × Nat) => quoteEntry x.1) := by
      simp [expandPart, parseFlags]
    simp only [Part.text, Part.denote]
    rw [this]
    have := clean_items (cx.current.toList.map (·.1))
    simpa [List.map_map, Function.comp_def] using this
  | plus =>
    have : expandPart cx [123, 43, 125] = joinWith 32 (cx.selected.map fun (x : Str × Nat) => quoteEntry x.1) := by
      simp [expandPart, parseFlags]
    simp only [Part.text, Part.denote]
    rw [this]
    have := clean_items (cx.selected.map (·.1))
    simpa [List.map_map, Function.comp_def] using this
  | query =>
    have : expandPart cx [123, 113, 125] = quoteEntry cx.query := by
      simp [expandPart, parseFlags]
    simp only [Part.text, Part.denote]
    rw [this]
    exact clean_quote cx.query
  | escaped => exact absurd hp (by simp [Part.ok])
  | lit w =>
    obtain ⟨hne, hplain, h92, h123⟩ := hp
    have : expandPart cx w = w := by
      cases w with
      | nil => exact absurd rfl hne
      | cons c r =>
        have hc92 : c ≠ 92 := by intro e; subst e; simp at h92
        have hc123 : c ≠ 123 := by intro e; subst e; simp at h123
        unfold expandPart
        split
        · rename_i heq; simp only [List.cons.injEq] at heq; exact absurd heq.1 hc92
        · rename_i heq; simp only [List.cons.injEq] at heq; exact absurd heq.1 hc123
        · rfl
    simp only [Part.text, Part.denote]
    rw [this]
    exact clean_plain w hne hplain

/-- **A whole expanded template evaluates to what its placeholders stand for.** For a template
    of blank-separated parts — `{}`, `{+}`, `{q}` and literal words of plain characters — and any
    query, current item and selection (any bytes: quotes, blanks, newlines, `$`, backticks, globs,
    backslashes): the POSIX word splitting of the expansion yields, in order, the literal words,
    the current item's text for `{}`, every selected item's text in selection order for `{+}` (one
    word per item) and the query for `{q}` — nothing is left for the shell to interpret and no
    item is split or merged. -/
theorem expand_words (cx : Ctx) (ps : List Part) (hok : ∀ p ∈ ps, p.ok) :
    words (expand cx (ps.map Part.text)) = some (ps.flatMap (Part.denote cx)) := by
  have := clean_joinWith (ps.map fun p => (expandPart cx p.text, p.denote cx)) (by
    intro q hq
    simp only [List.mem_map] at hq
    obtain ⟨p, hp, rfl⟩ := hq
    exact expandPart_clean cx p (hok p hp))
  have h1 := this.1 []
  unfold words expand
  simpa [List.map_map, Function.comp_def, List.flatMap_map] using h1

end Fzf.Placeholder
