import Fzf.Spec.Tokenizer
/-
`Transform` selects exactly the fields a field index expression denotes.
-/
namespace Fzf.Tokenizer
open Fzf Fzf.Tokenizer.Spec

/-- `k` consecutive integers from `lo`. -/
def icc (lo : Int) : Nat → List Int
  | 0 => []
  | k + 1 => lo :: icc (lo + 1) k

theorem range_map_icc (b : Int) : ∀ (m : Nat), (List.range m).map (fun (k : Nat) => b + (k : Int)) = icc b m
  | 0 => rfl
  | m + 1 => by
    rw [List.range_succ_eq_map, List.map_cons, List.map_map]
    simp only [icc, Int.natCast_zero, Int.add_zero, List.cons.injEq, true_and]
    rw [← range_map_icc (b + 1) m]
    apply List.map_congr_left
    intro k _
    simp only [Function.comp]
    omega

/-- Filtering an interval by an interval gives the intersection. -/
theorem icc_filter (lo hi : Int) : ∀ (m : Nat) (b : Int),
    (icc b m).filter (fun i => decide (lo ≤ i ∧ i ≤ hi)) =
      icc (max b lo) ((min (b + m - 1) hi - max b lo + 1).toNat)
  | 0, b => by
    have : (min (b + ((0 : Nat) : Int) - 1) hi - max b lo + 1).toNat = 0 := by
      simp only [Int.natCast_zero, Int.add_zero]
      omega
    rw [this]; rfl
  | m + 1, b => by
    simp only [icc, List.filter_cons]
    have ih := icc_filter lo hi m (b + 1)
    by_cases h1 : lo ≤ b ∧ b ≤ hi
    · simp only [h1, and_self, decide_true, if_true]
      rw [ih]
      have e1 : max (b + 1) lo = b + 1 := by omega
      have e2 : max b lo = b := by omega
      rw [e1, e2]
      have e3 : (min (b + ((m + 1 : Nat) : Int) - 1) hi - b + 1).toNat = (min (b + 1 + (m : Int) - 1) hi - (b + 1) + 1).toNat + 1 := by
        push_cast
        omega
      rw [e3]
      rfl
    · have hd : decide (lo ≤ b ∧ b ≤ hi) = false := by simpa using h1
      simp only [hd, Bool.false_eq_true, if_false]
      rw [ih]
      by_cases h2 : b < lo
      · have e1 : max (b + 1) lo = lo := by omega
        have e2 : max b lo = lo := by omega
        rw [e1, e2]
        congr 1
        push_cast
        omega
      · -- b > hi: nothing is left
        have hb : hi < b := by omega
        have c1 : (min (b + 1 + (m : Int) - 1) hi - max (b + 1) lo + 1).toNat = 0 := by omega
        have c2 : (min (b + ((m + 1 : Nat) : Int) - 1) hi - max b lo + 1).toNat = 0 := by push_cast; omega
        rw [c1, c2]
        rfl

end Fzf.Tokenizer

namespace Fzf.Tokenizer
open Fzf Fzf.Tokenizer.Spec

/-- The range `newRange` builds for a documented expression (open ends are 0). -/
def rangeOf : Expr → Range
  | .single n => newRange n n
  | .range a b => newRange (a.getD 0) (b.getD 0)

/-- Bounds are never 0 in the documented grammar. -/
def WFExpr : Expr → Prop
  | .single n => n ≠ 0
  | .range a b => a ≠ some 0 ∧ b ≠ some 0

def fieldText (tokens : List Token) (i : Nat) : Str := (tokens.getD (i - 1) default).text

theorem range_succ_icc (n : Nat) : (List.range n).map (fun j => ((j + 1 : Nat) : Int)) = icc 1 n := by
  rw [← range_map_icc 1 n]
  apply List.map_congr_left
  intro k _
  push_cast; omega

/-- Field numbers between `lo` and `hi`, as the specification selects them. -/
def selBetween (n : Nat) (lo hi : Int) : List Nat :=
  ((List.range n).map (· + 1)).filter fun (i : Nat) => decide (lo ≤ (i : Int) ∧ (i : Int) ≤ hi)

theorem select_filter_icc (n : Nat) (lo hi : Int) :
    (selBetween n lo hi).map (fun (i : Nat) => (i : Int)) =
      icc (max 1 lo) ((min (n : Int) hi - max 1 lo + 1).toNat) := by
  unfold selBetween
  have h1 : (((List.range n).map (· + 1)).filter fun (i : Nat) => decide (lo ≤ (i : Int) ∧ (i : Int) ≤ hi)).map (fun (i : Nat) => (i : Int)) =
      (((List.range n).map (· + 1)).map (fun (i : Nat) => (i : Int))).filter (fun (i : Int) => decide (lo ≤ i ∧ i ≤ hi)) := by
    conv => rhs; rw [List.filter_map]
    rfl
  rw [h1, List.map_map]
  have h2 : ((fun (i : Nat) => (i : Int)) ∘ (· + 1)) = fun (j : Nat) => ((j + 1 : Nat) : Int) := rfl
  rw [h2, range_succ_icc, icc_filter]
  congr 2
  omega

/-- The range branch of `Transform` with resolved bounds `(b, e)` concatenates exactly the fields
    `i` with `b ≤ i ≤ e` that exist. -/
theorem range_branch_texts (tokens : List Token) (b e : Int) :
    ((((List.range (e - b + 1).toNat).map fun (k : Nat) => b + (k : Int)).filter
        fun (i : Int) => decide (i ≥ 1 ∧ i ≤ (tokens.length : Int))).map fun (i : Int) => (tokens.getD (i - 1).toNat default).text) =
    (selBetween tokens.length b e).map (fieldText tokens) := by
  have hl : (((List.range (e - b + 1).toNat).map fun (k : Nat) => b + (k : Int)).filter
        fun (i : Int) => decide (i ≥ 1 ∧ i ≤ (tokens.length : Int))) =
      (selBetween tokens.length b e).map (fun (i : Nat) => (i : Int)) := by
    rw [select_filter_icc, range_map_icc]
    have : (fun (i : Int) => decide (i ≥ 1 ∧ i ≤ (tokens.length : Int))) = fun i => decide (1 ≤ i ∧ i ≤ (tokens.length : Int)) := rfl
    rw [this, icc_filter]
    by_cases hm : b ≤ e + 1
    · have e1 : b + ((e - b + 1).toNat : Int) - 1 = e := by omega
      rw [e1]
      have e2 : max b 1 = max 1 b := by omega
      have e3 : min e (tokens.length : Int) = min (tokens.length : Int) e := by omega
      rw [e2, e3]
    · have c1 : (min (b + ((e - b + 1).toNat : Int) - 1) (tokens.length : Int) - max b 1 + 1).toNat = 0 := by omega
      have c2 : (min (tokens.length : Int) e - max 1 b + 1).toNat = 0 := by omega
      rw [c1, c2]; rfl
  rw [hl, List.map_map]
  apply List.map_congr_left
  intro i _
  simp only [Function.comp, fieldText]
  congr 2
  omega

end Fzf.Tokenizer

namespace Fzf.Tokenizer
open Fzf Fzf.Tokenizer.Spec

theorem sel_congr (n : Nat) (lo hi lo' hi' : Int)
    (h : ∀ i : Nat, 1 ≤ i → i ≤ n → ((lo ≤ (i : Int) ∧ (i : Int) ≤ hi) ↔ (lo' ≤ (i : Int) ∧ (i : Int) ≤ hi'))) :
    selBetween n lo hi = selBetween n lo' hi' := by
  unfold selBetween
  apply List.filter_congr
  intro i hi_mem
  simp only [List.mem_map, List.mem_range] at hi_mem
  obtain ⟨j, hj, rfl⟩ := hi_mem
  have := h (j + 1) (by omega) (by omega)
  simp only [decide_eq_decide]
  exact this

theorem sel_empty (n : Nat) (lo hi : Int) (h : ∀ i : Nat, 1 ≤ i → i ≤ n → ¬ (lo ≤ (i : Int) ∧ (i : Int) ≤ hi)) :
    selBetween n lo hi = [] := by
  unfold selBetween
  rw [List.filter_eq_nil_iff]
  intro i hi_mem
  simp only [List.mem_map, List.mem_range] at hi_mem
  obtain ⟨j, hj, rfl⟩ := hi_mem
  simpa using h (j + 1) (by omega) (by omega)

/-- One existing field. -/
theorem sel_single (n : Nat) (i : Nat) (h1 : 1 ≤ i) (h2 : i ≤ n) : selBetween n i i = [i] := by
  have key := select_filter_icc n (i : Int) (i : Int)
  have e1 : max (1 : Int) (i : Int) = (i : Int) := by omega
  have e2 : (min (n : Int) (i : Int) - (i : Int) + 1).toNat = 1 := by omega
  rw [e1, e2] at key
  simp only [icc] at key
  -- a list of naturals whose casts are [i]
  generalize selBetween n (i : Int) (i : Int) = l at key
  match l, key with
  | [x], key =>
    simp only [List.map_cons, List.map_nil, List.cons.injEq, and_true] at key
    have : x = i := by exact_mod_cast key
    rw [this]

/-- All fields. -/
theorem sel_all_join (tokens : List Token) :
    ((selBetween tokens.length 1 tokens.length).map (fieldText tokens)).flatten = joinTokens tokens := by
  have hall : selBetween tokens.length 1 tokens.length = (List.range tokens.length).map (· + 1) := by
    unfold selBetween
    rw [List.filter_eq_self]
    intro i hi
    simp only [List.mem_map, List.mem_range] at hi
    obtain ⟨j, hj, rfl⟩ := hi
    simp; omega
  rw [hall, List.map_map]
  unfold joinTokens
  rw [List.flatMap_def]
  congr 1
  apply List.ext_getElem
  · simp
  · intro k h1 h2
    simp only [List.length_map, List.length_range] at h1
    simp [fieldText, h1]

end Fzf.Tokenizer

namespace Fzf.Tokenizer
open Fzf Fzf.Tokenizer.Spec

/-- Resolved bounds of the range branch of `Transform` (begin ≠ end). -/
def implBounds (n : Int) (bg en : Int) : Int × Int :=
  if bg = 0 then (1, if en < 0 then en + n + 1 else en)
  else if en = 0 then ((if bg < 0 then bg + n + 1 else bg), n)
  else ((if bg < 0 then bg + n + 1 else bg), (if en < 0 then en + n + 1 else en))

/-- The text `Transform` produces for one range, in terms of the selection helpers. -/
theorem transform_text (tokens : List Token) (bg en : Int) :
    (transform tokens [⟨bg, en⟩]).map (·.text) =
      [ if bg = en then
          (if bg = 0 then joinTokens tokens
           else if 1 ≤ (if bg < 0 then bg + tokens.length + 1 else bg) ∧ (if bg < 0 then bg + tokens.length + 1 else bg) ≤ tokens.length
             then fieldText tokens (if bg < 0 then bg + tokens.length + 1 else bg).toNat else [])
        else ((selBetween tokens.length (implBounds tokens.length bg en).1 (implBounds tokens.length bg en).2).map (fieldText tokens)).flatten ] := by
  simp only [transform, List.map_cons, List.map_nil, List.cons.injEq, and_true]
  by_cases heq : bg = en
  · subst heq
    simp only [if_true]
    by_cases h0 : bg = 0
    · simp [h0]
    · simp only [h0, if_false]
      by_cases hneg : bg < 0
      · simp only [hneg, if_true, ge_iff_le]
        by_cases hr : 1 ≤ bg + (tokens.length : Int) + 1 ∧ bg + (tokens.length : Int) + 1 ≤ (tokens.length : Int)
        · simp only [hr, and_self, if_true, List.flatten_cons, List.flatten_nil, List.append_nil, fieldText]
          congr 2
          omega
        · simp only [hr, if_false, List.flatten_nil]
      · simp only [hneg, if_false, ge_iff_le]
        by_cases hr : 1 ≤ bg ∧ bg ≤ (tokens.length : Int)
        · simp only [hr, and_self, if_true, List.flatten_cons, List.flatten_nil, List.append_nil, fieldText]
          congr 2
          omega
        · simp only [hr, if_false, List.flatten_nil]
  · simp only [heq, if_false]
    unfold implBounds
    by_cases h0 : bg = 0
    · simp only [h0, if_true]
      rw [range_branch_texts]
    · simp only [h0, if_false]
      by_cases he : en = 0
      · simp only [he, if_true]
        rw [range_branch_texts]
      · simp only [he, if_false]
        rw [range_branch_texts]

end Fzf.Tokenizer

namespace Fzf.Tokenizer
open Fzf Fzf.Tokenizer.Spec

/-- Bounds of the selection the specification makes for an expression. -/
def specBounds (n : Nat) : Expr → Int × Int
  | .single x => (resolve n x, resolve n x)
  | .range a b => ((match a with | some a => resolve n a | none => 1), (match b with | some b => resolve n b | none => (n : Int)))

theorem select_eq_sel (n : Nat) (ex : Expr) : select n ex = selBetween n (specBounds n ex).1 (specBounds n ex).2 := by
  cases ex with
  | range a b => rfl
  | single x =>
    simp only [select, specBounds]
    by_cases h : 1 ≤ resolve n x ∧ resolve n x ≤ (n : Int)
    · simp only [h, and_self, if_true]
      have hx : resolve n x = ((resolve n x).toNat : Int) := by omega
      rw [hx, sel_single n (resolve n x).toNat (by omega) (by omega)]
      simp
      omega
    · simp only [h, if_false]
      symm
      apply sel_empty
      intro i h1 h2 hc
      exact h (by omega)

/-- **`Transform` selects exactly the documented fields**: for every field list and every documented
    index expression (`N`, `A..B`, `A..`, `..B`, `..`; any signs, any magnitude), the text of the
    resulting token is the concatenation of the fields the expression denotes, in order — nothing
    when the range is empty or out of range. -/
theorem transform_selects (tokens : List Token) (ex : Expr) (hwf : WFExpr ex) :
    (transform tokens [rangeOf ex]).map (·.text) =
      [((select tokens.length ex).map (fieldText tokens)).flatten] := by
  rw [select_eq_sel]
  generalize hn : tokens.length = n
  have key : ∀ (bg en : Int) (lo hi : Int),
      -- the branch taken by Transform selects the same fields as the specification bounds
      (bg = en → bg = 0 → selBetween n lo hi = selBetween n 1 n) →
      (bg = en → bg ≠ 0 → selBetween n lo hi = selBetween n (if bg < 0 then bg + n + 1 else bg) (if bg < 0 then bg + n + 1 else bg)) →
      (bg ≠ en → selBetween n lo hi = selBetween n (implBounds n bg en).1 (implBounds n bg en).2) →
      (transform tokens [⟨bg, en⟩]).map (·.text) = [((selBetween n lo hi).map (fieldText tokens)).flatten] := by
    intro bg en lo hi h1 h2 h3
    rw [transform_text, hn]
    by_cases heq : bg = en
    · simp only [heq, if_true]
      by_cases h0 : en = 0
      · simp only [h0, if_true]
        rw [h1 heq (heq.trans h0), ← hn, sel_all_join]
      · simp only [h0, if_false]
        have hb0 : bg ≠ 0 := by rw [heq]; exact h0
        rw [h2 heq hb0, heq]
        generalize (if en < 0 then en + (n : Int) + 1 else en) = i
        by_cases hr : 1 ≤ i ∧ i ≤ (n : Int)
        · simp only [hr, and_self, if_true]
          have hx : i = ((i.toNat : Nat) : Int) := by omega
          rw [hx, sel_single n i.toNat (by omega) (by omega)]
          simp
          congr 1
          omega
        · simp only [hr, if_false]
          rw [sel_empty n i i (by intro j _ _ hc; exact hr (by omega))]
          simp
    · simp only [heq, if_false]
      rw [h3 heq]
  cases ex with
  | single x =>
    simp only [WFExpr] at hwf
    simp only [rangeOf, newRange, specBounds, resolve]
    apply key
    · intro h1 h2; split at h2 <;> omega
    · intro h1 h2
      apply sel_congr; intro i _ _
      split at h1 <;> split at h1 <;> (try split) <;> omega
    · intro h1
      unfold implBounds
      apply sel_congr; intro i _ _
      split at h1 <;> split at h1 <;> (repeat' split) <;> omega
  | range a b =>
    obtain ⟨ha, hb⟩ := hwf
    cases a with
    | none =>
      cases b with
      | none =>
        simp only [rangeOf, newRange, specBounds, Option.getD_none]
        apply key
        · intro _ _; rfl
        · intro h1 h2; simp at h2
        · intro h1; simp at h1
      | some y =>
        have hy : y ≠ 0 := fun h => hb (by rw [h])
        simp only [rangeOf, newRange, specBounds, Option.getD_none, Option.getD_some, resolve]
        apply key
        · intro h1 h2
          apply sel_congr; intro i _ _
          (repeat' split) <;> (try split at h1) <;> omega
        · intro h1 h2
          apply sel_congr; intro i _ _
          split at h1 <;> split at h1 <;> (repeat' split) <;> omega
        · intro h1
          unfold implBounds
          apply sel_congr; intro i _ _
          split at h1 <;> split at h1 <;> (repeat' split) <;> omega
    | some x =>
      have hx : x ≠ 0 := fun h => ha (by rw [h])
      cases b with
      | none =>
        simp only [rangeOf, newRange, specBounds, Option.getD_none, Option.getD_some, resolve]
        apply key
        · intro h1 h2
          apply sel_congr; intro i _ _
          split at h1 <;> (repeat' split) <;> omega
        · intro h1 h2
          apply sel_congr; intro i _ _
          split at h1 <;> (repeat' split) <;> omega
        · intro h1
          unfold implBounds
          apply sel_congr; intro i _ _
          split at h1 <;> (repeat' split) <;> omega
      | some y =>
        have hy : y ≠ 0 := fun h => hb (by rw [h])
        simp only [rangeOf, newRange, specBounds, Option.getD_some, resolve]
        apply key
        · intro h1 h2
          apply sel_congr; intro i _ _
          split at h1 <;> split at h1 <;> (repeat' split) <;> omega
        · intro h1 h2
          apply sel_congr; intro i _ _
          split at h1 <;> split at h1 <;> (repeat' split) <;> omega
        · intro h1
          unfold implBounds
          apply sel_congr; intro i _ _
          split at h1 <;> split at h1 <;> (repeat' split) <;> omega

end Fzf.Tokenizer
