import Fzf.Model.ChunkHeap
namespace Fzf.ChunkHeap
open Fzf

/-- Well-formed list: chunk ids are distinct and allocated. -/
def WF (cl : CL) : Prop := cl.ids.Nodup ∧ ∀ id ∈ cl.ids, id < cl.cells.length

/-- A set of cell ids the list will never write to: allocated, and not the list's last chunk. -/
def Protected (S : List Nat) (cl : CL) : Prop :=
  (∀ id ∈ S, id < cl.cells.length) ∧ (∀ l, cl.ids.getLast? = some l → l ∉ S)

theorem cell_alloc (cl : CL) (c : List Int) (id : Nat) (h : id < cl.cells.length) :
    (alloc cl c).1.cell id = cl.cell id := by
  simp [alloc, CL.cell, List.getD_eq_getElem?_getD, List.getElem?_append_left h]

theorem cell_alloc_new (cl : CL) (c : List Int) : (alloc cl c).1.cell (alloc cl c).2 = c := by
  simp [alloc, CL.cell, List.getD_eq_getElem?_getD]

theorem cell_set_ne (cl : CL) (j id : Nat) (v : List Int) (h : id ≠ j) :
    ({ cl with cells := cl.cells.set j v } : CL).cell id = cl.cell id := by
  simp [CL.cell, List.getD_eq_getElem?_getD, List.getElem?_set_ne (Ne.symm h)]

theorem cell_set_eq (cl : CL) (j : Nat) (v : List Int) (h : j < cl.cells.length) :
    ({ cl with cells := cl.cells.set j v } : CL).cell j = v := by
  simp [CL.cell, List.getD_eq_getElem?_getD, h]

theorem wf_empty : WF ⟨[], []⟩ := by simp [WF]

theorem ids_of_getLast? {l : List Nat} {x : Nat} (h : l.getLast? = some x) : l = l.dropLast ++ [x] := by
  have hne : l ≠ [] := by intro e; simp [e] at h
  have := List.dropLast_concat_getLast hne
  rw [List.getLast?_eq_some_getLast hne] at h
  injection h with h
  rw [h] at this; exact this.symm

/-! ### push -/

theorem push_wf (cz : Nat) (cl : CL) (item : Int) (h : WF cl) : WF (push cz cl item) := by
  obtain ⟨hnd, hb⟩ := h
  unfold push
  split
  · rename_i lastId hl
    split
    · simp only [alloc]
      refine ⟨?_, ?_⟩
      · rw [List.nodup_append]
        refine ⟨hnd, by simp, ?_⟩
        intro a ha b hb' 
        simp at hb'; subst hb'
        have := hb a ha; omega
      · intro id hid
        simp at hid
        rcases hid with hid | hid
        · have := hb id hid; simp; omega
        · simp [hid]
    · exact ⟨hnd, by intro id hid; simpa using hb id hid⟩
  · simp [alloc, WF]

theorem push_protected (cz : Nat) (S : List Nat) (cl : CL) (item : Int) (h : Protected S cl) :
    Protected S (push cz cl item) ∧ ∀ id ∈ S, (push cz cl item).cell id = cl.cell id := by
  obtain ⟨hb, hl⟩ := h
  unfold push
  split
  · rename_i lastId hlast
    split
    · refine ⟨⟨?_, ?_⟩, ?_⟩
      · intro id hid; have := hb id hid; simp [alloc]; omega
      · intro l hl'
        simp [alloc] at hl'
        subst hl'
        intro hin; have := hb _ hin; omega
      · intro id hid
        exact cell_alloc cl [item] id (hb id hid)
    · refine ⟨⟨?_, ?_⟩, ?_⟩
      · intro id hid; simpa using hb id hid
      · intro l hl'; exact hl l hl'
      · intro id hid
        apply cell_set_ne
        intro e; subst e; exact hl _ hlast hid
  · refine ⟨⟨?_, ?_⟩, ?_⟩
    · intro id hid; have := hb id hid; simp [alloc]; omega
    · intro l hl'
      simp [alloc] at hl'
      subst hl'
      intro hin; have := hb _ hin; omega
    · intro id hid
      exact cell_alloc cl [item] id (hb id hid)

/-! ### trim -/

theorem keep_spec (cl : CL) (rev : List Nat) (left : Int) (acc : List Nat) :
    ∃ taken rest, rev = taken ++ rest ∧ (keep cl rev left acc).1 = taken.reverse ++ acc := by
  induction rev generalizing left acc with
  | nil => exact ⟨[], [], by simp [keep]⟩
  | cons id rest ih =>
    unfold keep
    split
    · obtain ⟨t, r, h1, h2⟩ := ih (left - (cl.cell id).length) (id :: acc)
      exact ⟨id :: t, r, by simp [h1], by simp [h2]⟩
    · exact ⟨[], id :: rest, by simp⟩

theorem keep_suffix (cl : CL) (left : Int) :
    ∃ pre, cl.ids = pre ++ (keep cl cl.ids.reverse left []).1 := by
  obtain ⟨t, r, h1, h2⟩ := keep_spec cl cl.ids.reverse left []
  refine ⟨r.reverse, ?_⟩
  rw [h2]
  have := congrArg List.reverse h1
  simpa using this

/-- What `trim` does to the list, abstractly: nothing, or it keeps a non-empty suffix of the
    chunks, possibly replacing the first of them by a freshly allocated cell. -/
theorem trim_cases (tail : Nat) (cl : CL) :
    trim tail cl = cl ∨
    (∃ pre first rest, cl.ids = pre ++ first :: rest ∧
      ((trim tail cl).cells = cl.cells ∧ (trim tail cl).ids = first :: rest ∨
       ∃ c, (trim tail cl).cells = cl.cells ++ [c] ∧ (trim tail cl).ids = cl.cells.length :: rest)) := by
  unfold trim
  split
  · obtain ⟨pre, hpre⟩ := keep_suffix cl tail
    split
    · exact Or.inl rfl
    · rename_i first rest left heq
      rw [heq] at hpre
      right
      refine ⟨pre, first, rest, hpre, ?_⟩
      split
      · right; exact ⟨_, rfl, rfl⟩
      · left; exact ⟨rfl, rfl⟩
  · exact Or.inl rfl

theorem trim_wf (tail : Nat) (cl : CL) (h : WF cl) : WF (trim tail cl) := by
  rcases trim_cases tail cl with he | ⟨pre, first, rest, hids, hc⟩
  · rw [he]; exact h
  · obtain ⟨hnd, hb⟩ := h
    rw [hids] at hnd hb
    have hnd' : (first :: rest).Nodup := (List.nodup_append.mp hnd).2.1
    rcases hc with ⟨hcells, hi⟩ | ⟨c, hcells, hi⟩
    · refine ⟨by rw [hi]; exact hnd', ?_⟩
      intro id hid; rw [hi] at hid; rw [hcells]
      exact hb id (List.mem_append_right _ hid)
    · refine ⟨?_, ?_⟩
      · rw [hi, List.nodup_cons]
        refine ⟨?_, (List.nodup_cons.mp hnd').2⟩
        intro hin
        have := hb _ (List.mem_append_right _ (List.mem_cons_of_mem _ hin))
        omega
      · intro id hid; rw [hi] at hid; rw [hcells]
        simp at hid ⊢
        rcases hid with hid | hid
        · omega
        · have := hb id (List.mem_append_right _ (List.mem_cons_of_mem _ hid)); omega

theorem trim_cell (tail : Nat) (cl : CL) (id : Nat) (h : id < cl.cells.length) :
    (trim tail cl).cell id = cl.cell id := by
  rcases trim_cases tail cl with he | ⟨pre, first, rest, _, hc⟩
  · rw [he]
  · rcases hc with ⟨hcells, _⟩ | ⟨c, hcells, _⟩
    · simp [CL.cell, hcells]
    · simp [CL.cell, hcells, List.getD_eq_getElem?_getD, List.getElem?_append_left h]

theorem trim_len (tail : Nat) (cl : CL) : cl.cells.length ≤ (trim tail cl).cells.length := by
  rcases trim_cases tail cl with he | ⟨pre, first, rest, _, hc⟩
  · rw [he]; exact Nat.le_refl _
  · rcases hc with ⟨hcells, _⟩ | ⟨c, hcells, _⟩
    · rw [hcells]; exact Nat.le_refl _
    · rw [hcells]; simp

theorem getLast?_suffix {pre : List Nat} {first : Nat} {rest : List Nat} :
    (pre ++ first :: rest).getLast? = (first :: rest).getLast? := by
  rw [List.getLast?_append]
  cases h : (first :: rest).getLast? with
  | none => simp at h
  | some x => rfl

theorem trim_protected (tail : Nat) (S : List Nat) (cl : CL) (h : Protected S cl) :
    Protected S (trim tail cl) := by
  obtain ⟨hb, hl⟩ := h
  refine ⟨fun id hid => Nat.lt_of_lt_of_le (hb id hid) (trim_len tail cl), ?_⟩
  rcases trim_cases tail cl with he | ⟨pre, first, rest, hids, hc⟩
  · rw [he]; exact hl
  · intro l hlast
    rcases hc with ⟨_, hi⟩ | ⟨c, _, hi⟩
    · apply hl l
      rw [hids, getLast?_suffix, ← hi]; exact hlast
    · rw [hi] at hlast
      cases rest with
      | nil =>
        simp at hlast; subst hlast
        intro hin; have := hb _ hin; omega
      | cons r rs =>
        apply hl l
        rw [hids, getLast?_suffix]
        simpa [List.getLast?_cons_cons] using hlast

/-! ### handOut -/

theorem handOut_ids (tail : Nat) (cl : CL) : (handOut tail cl).1.ids = cl.ids := by
  unfold handOut
  split
  · rfl
  · split
    · rfl
    · split <;> rfl

theorem handOut_len (tail : Nat) (cl : CL) : cl.cells.length ≤ (handOut tail cl).1.cells.length := by
  unfold handOut
  split
  · exact Nat.le_refl _
  · split
    · simp
    · split <;> simp

theorem cell_append (cl : CL) (cs : List (List Int)) (id : Nat) (h : id < cl.cells.length) :
    ({ cl with cells := cl.cells ++ cs } : CL).cell id = cl.cell id := by
  simp [CL.cell, List.getD_eq_getElem?_getD, List.getElem?_append_left h]

theorem handOut_cell (tail : Nat) (cl : CL) (id : Nat) (h : id < cl.cells.length) :
    (handOut tail cl).1.cell id = cl.cell id := by
  unfold handOut
  split
  · rfl
  · split
    · exact cell_append _ _ _ h
    · split
      · exact cell_append _ _ _ h
      · exact cell_append _ _ _ h

theorem handOut_wf (tail : Nat) (cl : CL) (h : WF cl) : WF (handOut tail cl).1 := by
  refine ⟨by rw [handOut_ids]; exact h.1, ?_⟩
  intro id hid
  rw [handOut_ids] at hid
  exact Nat.lt_of_lt_of_le (h.2 id hid) (handOut_len tail cl)

theorem handOut_protected (tail : Nat) (cl : CL) (h : WF cl) :
    Protected (handOut tail cl).2 (handOut tail cl).1 := by
  obtain ⟨hnd, hb⟩ := h
  unfold handOut
  split
  · exact ⟨by simp, by simp⟩
  · rename_i lastId restRev hrev
    have hids : cl.ids = restRev.reverse ++ [lastId] := by
      have := congrArg List.reverse hrev; simpa using this
    have hlast : lastId < cl.cells.length := hb _ (by rw [hids]; simp)
    have hnotin : lastId ∉ restRev.reverse := by
      rw [hids] at hnd
      have := (List.nodup_append.mp hnd).2.2
      intro hin; exact this _ hin _ (by simp) rfl
    have hfront : ∀ id ∈ restRev.reverse, id < cl.cells.length := fun id hid =>
      hb id (by rw [hids]; exact List.mem_append_left _ hid)
    split
    · refine ⟨by simp, ?_⟩
      intro l hl
      simp [hids] at hl
      subst hl; simp; omega
    · rename_i firstId mid hfr
      rw [hfr] at hnotin hfront
      split
      · refine ⟨?_, ?_⟩
        · intro id hid
          simp at hid ⊢
          rcases hid with hid | hid | hid
          · omega
          · have := hfront id (List.mem_cons_of_mem _ hid); omega
          · omega
        · intro l hl
          simp [hids] at hl
          subst hl
          simp
          refine ⟨by omega, ?_, by omega⟩
          intro hin; exact hnotin (List.mem_cons_of_mem _ hin)
      · refine ⟨?_, ?_⟩
        · intro id hid
          simp at hid ⊢
          rcases hid with hid | hid | hid
          · have := hfront id (by simp [hid]); omega
          · have := hfront id (List.mem_cons_of_mem _ hid); omega
          · omega
        · intro l hl
          simp [hids] at hl
          subst hl
          simp
          refine ⟨?_, ?_, by omega⟩
          · intro e; exact hnotin (by simp [e])
          · intro hin; exact hnotin (List.mem_cons_of_mem _ hin)

/-! ### steps -/

theorem snapshot_wf (tail : Nat) (cl : CL) (h : WF cl) : WF (snapshot tail cl).1 :=
  handOut_wf tail _ (trim_wf tail cl h)

theorem step_wf (cz : Nat) (cl : CL) (op : Op) (h : WF cl) : WF (step cz cl op) := by
  cases op with
  | push i => exact push_wf cz cl i h
  | snap t => exact snapshot_wf t cl h

theorem step_protected (cz : Nat) (S : List Nat) (cl : CL) (op : Op) (h : Protected S cl) :
    Protected S (step cz cl op) ∧ ∀ id ∈ S, (step cz cl op).cell id = cl.cell id := by
  cases op with
  | push i => exact push_protected cz S cl i h
  | snap t =>
    have ht := trim_protected t S cl h
    refine ⟨⟨?_, ?_⟩, ?_⟩
    · intro id hid
      exact Nat.lt_of_lt_of_le (ht.1 id hid) (handOut_len t _)
    · intro l hl
      simp only [step, snapshot, handOut_ids] at hl
      exact ht.2 l hl
    · intro id hid
      simp only [step, snapshot]
      rw [handOut_cell _ _ _ (ht.1 id hid), trim_cell _ _ _ (h.1 id hid)]

theorem steps_protected (cz : Nat) (S : List Nat) (ops : List Op) (cl : CL) (h : Protected S cl) :
    ∀ id ∈ S, (ops.foldl (step cz) cl).cell id = cl.cell id := by
  induction ops generalizing cl with
  | nil => intro id _; rfl
  | cons op ops ih =>
    intro id hid
    obtain ⟨hp, hc⟩ := step_protected cz S cl op h
    rw [List.foldl_cons, ih _ hp id hid, hc id hid]

theorem steps_wf (cz : Nat) (ops : List Op) (cl : CL) (h : WF cl) : WF (ops.foldl (step cz) cl) := by
  induction ops generalizing cl with
  | nil => exact h
  | cons op ops ih => exact ih _ (step_wf cz cl op h)

/-! ### contents -/

theorem contents_congr (cl cl' : CL) (l : List Nat) (h : ∀ id ∈ l, cl'.cell id = cl.cell id) :
    contents cl' l = contents cl l := by
  induction l with
  | nil => rfl
  | cons a l ih =>
    simp only [contents, List.flatMap_cons] at ih ⊢
    rw [h a (by simp), ih (fun id hid => h id (List.mem_cons_of_mem _ hid))]

theorem contents_append (cl : CL) (a b : List Nat) : contents cl (a ++ b) = contents cl a ++ contents cl b := by
  simp [contents]

theorem push_contents (cz : Nat) (cl : CL) (item : Int) (h : WF cl) :
    contents (push cz cl item) (push cz cl item).ids = contents cl cl.ids ++ [item] := by
  obtain ⟨hnd, hb⟩ := h
  unfold push
  split
  · rename_i lastId hlast
    have hids := ids_of_getLast? hlast
    split
    · simp only [alloc]
      rw [contents_append]
      congr 1
      · exact contents_congr _ _ _ (fun id hid => cell_append cl [[item]] id (hb id hid))
      · simp [contents, CL.cell, List.getD_eq_getElem?_getD]
    · have hl : lastId < cl.cells.length := hb _ (by rw [hids]; simp)
      have hnotin : lastId ∉ cl.ids.dropLast := by
        rw [hids] at hnd
        have := (List.nodup_append.mp hnd).2.2
        intro hin; exact this _ hin _ (by simp) rfl
      obtain ⟨front, hfr⟩ : ∃ f, cl.ids = f ++ [lastId] := ⟨_, hids⟩
      have hnotin' : lastId ∉ front := by
        have : front = cl.ids.dropLast := by rw [hfr]; simp
        rw [this]; exact hnotin
      show contents ⟨cl.ids, cl.cells.set lastId (cl.cell lastId ++ [item])⟩ cl.ids = _
      rw [hfr, contents_append, contents_append, List.append_assoc]
      congr 1
      · apply contents_congr
        intro id hid
        exact cell_set_ne cl lastId id _ (by intro e; subst e; exact hnotin' hid)
      · simp only [contents, List.flatMap_cons, List.flatMap_nil, List.append_nil]
        exact cell_set_eq cl lastId _ hl
  · rename_i hnone
    have : cl.ids = [] := by simpa using hnone
    simp [alloc, contents, this, CL.cell, List.getD_eq_getElem?_getD]

theorem trim_zero (cl : CL) : trim 0 cl = cl := by simp [trim]

/-- Without --tail, a snapshot shows exactly the items of the list at that moment, and the list
    itself still holds the same items. -/
theorem snapshot_contents (cl : CL) (h : WF cl) :
    contents (snapshot 0 cl).1 (snapshot 0 cl).2 = contents cl cl.ids ∧
    contents (snapshot 0 cl).1 (snapshot 0 cl).1.ids = contents cl cl.ids := by
  obtain ⟨hnd, hb⟩ := h
  refine ⟨?_, ?_⟩
  · simp only [snapshot, trim_zero]
    unfold handOut
    split
    · rename_i hrev
      have : cl.ids = [] := by simpa using hrev
      simp [contents, this]
    · rename_i lastId restRev hrev
      have hids : cl.ids = restRev.reverse ++ [lastId] := by
        have := congrArg List.reverse hrev; simpa using this
      have hfront : ∀ id ∈ restRev.reverse, id < cl.cells.length := fun id hid =>
        hb id (by rw [hids]; exact List.mem_append_left _ hid)
      split
      · rename_i hfr
        rw [hids, hfr]
        simp [contents, CL.cell, List.getD_eq_getElem?_getD]
      · rename_i firstId mid hfr
        rw [if_neg (by omega)]
        rw [hids, ← hfr, contents_append, contents_append]
        congr 1
        · exact contents_congr _ _ _ (fun id hid => cell_append cl _ id (hfront id hid))
        · simp [contents, CL.cell, List.getD_eq_getElem?_getD]
  · simp only [snapshot, trim_zero, handOut_ids]
    exact contents_congr _ _ _ (fun id hid => handOut_cell 0 cl id (hb id hid))

theorem pushes_contents (cz : Nat) (items : List Int) (cl : CL) (h : WF cl) :
    contents (items.foldl (push cz) cl) (items.foldl (push cz) cl).ids = contents cl cl.ids ++ items := by
  induction items generalizing cl with
  | nil => simp
  | cons i items ih =>
    rw [List.foldl_cons, ih _ (push_wf cz cl i h), push_contents cz cl i h]
    simp

end Fzf.ChunkHeap
