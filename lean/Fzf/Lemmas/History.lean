import Fzf.Model.History
import Fzf.Spec.History
namespace Fzf
open Fzf.History

theorem splitOn_ne_nil (sep : Nat) (s : Str) : splitOn sep s ≠ [] := by
  induction s with
  | nil => simp [splitOn]
  | cons c cs ih =>
    unfold splitOn
    split
    · simp
    · split <;> simp

theorem joinWith_snoc_nil (es : List Str) :
    joinWith 10 (es ++ [[]]) = es.flatMap (· ++ [10]) := by
  induction es with
  | nil => simp [joinWith]
  | cons e es ih =>
    cases es with
    | nil => simp [joinWith]
    | cons e' es' =>
      simp only [List.cons_append, joinWith] at ih ⊢
      simp [ih]

/-- `splitOn` inverts `joinWith` on separator-free, non-empty lists. -/
theorem splitOn_joinWith (sep : Nat) (es : List Str) (hne : es ≠ [])
    (hfree : ∀ e ∈ es, sep ∉ e) : splitOn sep (joinWith sep es) = es := by
  induction es with
  | nil => exact absurd rfl hne
  | cons e es ih =>
    have he : sep ∉ e := hfree e (by simp)
    cases es with
    | nil =>
      simp only [joinWith]
      clear ih hne hfree
      induction e with
      | nil => simp [splitOn]
      | cons c cs ihc =>
        have hc : c ≠ sep := by intro h; apply he; simp [h]
        have hcs : sep ∉ cs := by intro h; apply he; simp [h]
        simp [splitOn, hc, ihc hcs]
    | cons e' es' =>
      have ih' := ih (by simp) (by intro x hx; exact hfree x (by simp [hx]))
      simp only [joinWith] at ih' ⊢
      clear ih hne
      induction e with
      | nil => simp [splitOn, ih']
      | cons c cs ihc =>
        have hc : c ≠ sep := by intro h; apply he; simp [h]
        have hcs : sep ∉ cs := by intro h; apply he; simp [h]
        have := ihc hcs (by intro x hx; cases hx with
          | head => exact hcs
          | tail _ h => exact hfree x (List.mem_cons_of_mem _ h))
        simp only [List.cons_append, splitOn, hc, if_false]
        rw [this]
end Fzf

namespace Fzf.History
open Fzf

/-- Representation invariant of `Hist`. -/
def Inv (h : Hist) : Prop := h.cursor < h.lines.length

theorem load_inv (d : Str) (m : Nat) : Inv (load d m) := by
  unfold Inv load
  simp only
  have := List.length_pos_iff.mpr (splitOn_ne_nil 10 (trim 10 d))
  split <;> simp <;> omega

theorem load_entries (d : Str) (m : Nat) : (load d m).lines.dropLast = entries d := by
  unfold load entries
  simp only
  split <;> simp_all

theorem load_maxSize (d : Str) (m : Nat) : (load d m).maxSize = m := by
  unfold load; simp

theorem override_inv {h : Hist} (s : Str) (hi : Inv h) : Inv (override h s) := by
  unfold Inv override at *; split <;> (try split) <;> simp_all

theorem previous_inv {h : Hist} (hi : Inv h) : Inv (previous h) := by
  unfold Inv previous at *; split <;> simp_all <;> omega

theorem next_inv {h : Hist} (hi : Inv h) : Inv (next h) := by
  unfold Inv next at *; split <;> simp_all <;> omega

theorem dropLast_set_last (l : List α) (i : Nat) (x : α) (h : i + 1 = l.length) :
    (l.set i x).dropLast = l.dropLast := by
  apply List.ext_getElem
  · simp
  · intro n h1 h2
    simp only [List.length_dropLast, List.length_set] at h1
    simp only [List.getElem_dropLast, List.getElem_set]
    split
    · omega
    · rfl

theorem override_entries (h : Hist) (s : Str) :
    (override h s).lines.dropLast = h.lines.dropLast ∧ (override h s).maxSize = h.maxSize := by
  unfold override
  split
  · next hc => exact ⟨dropLast_set_last _ _ _ hc, rfl⟩
  · split <;> exact ⟨rfl, rfl⟩

theorem navStep_entries (s : Sess) (n : Nav) :
    (navStep s n).h.lines.dropLast = s.h.lines.dropLast ∧ (navStep s n).h.maxSize = s.h.maxSize := by
  cases n with
  | edit t => exact ⟨rfl, rfl⟩
  | prev =>
    have := override_entries s.h s.input
    simp only [navStep, previous]; split <;> exact this
  | next =>
    have := override_entries s.h s.input
    simp only [navStep, next]; split <;> exact this

theorem navs_entries (navs : List Nav) (s : Sess) :
    (navs.foldl navStep s).h.lines.dropLast = s.h.lines.dropLast ∧
    (navs.foldl navStep s).h.maxSize = s.h.maxSize := by
  induction navs generalizing s with
  | nil => exact ⟨rfl, rfl⟩
  | cons n ns ih =>
    have h1 := ih (navStep s n)
    have h2 := navStep_entries s n
    simp only [List.foldl_cons]
    exact ⟨h1.1.trans h2.1, h1.2.trans h2.2⟩

theorem navStep_inv (s : Sess) (n : Nav) (hi : Inv s.h) : Inv (navStep s n).h := by
  cases n with
  | edit t => exact hi
  | prev => exact previous_inv (override_inv _ hi)
  | next => exact next_inv (override_inv _ hi)

theorem navs_inv (navs : List Nav) (s : Sess) (hi : Inv s.h) : Inv (navs.foldl navStep s).h := by
  induction navs generalizing s with
  | nil => exact hi
  | cons n ns ih => exact ih _ (navStep_inv s n hi)

theorem append_file (h : Hist) (q : Str) (hq : q ≠ []) :
    (append h q).2 = some (render (lastN h.maxSize (h.lines.dropLast ++ [q]))) := by
  simp [append, hq, joinWith_snoc_nil, render]

end Fzf.History

namespace Fzf.History
open Fzf

theorem render_eq_join (es : List Str) (hne : es ≠ []) : render es = joinWith 10 es ++ [10] := by
  induction es with
  | nil => exact absurd rfl hne
  | cons e es ih =>
    cases es with
    | nil => simp [render, joinWith]
    | cons e' es' =>
      have := ih (by simp)
      simp only [render, List.flatMap_cons] at this ⊢
      simp [joinWith, this]

theorem trim_clean (s : Str) (c l : Nat) (t u : Str) (h1 : s = c :: t) (h2 : s = u ++ [l])
    (hc : c ≠ 10) (hl : l ≠ 10) : trim 10 (s ++ [10]) = s := by
  unfold trim trimLeft trimRight
  have e1 : (s ++ [10]).dropWhile (· == 10) = s ++ [10] := by
    rw [h1]; simp [List.dropWhile, hc]
  rw [e1]
  have e2 : (s ++ [10]).reverse = 10 :: l :: u.reverse := by rw [h2]; simp
  rw [e2]
  have : (l == 10) = false := by simp [hl]
  simp [List.dropWhile, this, h2]

theorem joinWith_head (e : Str) (es : List Str) (c : Nat) (t : Str) (he : e = c :: t) :
    ∃ t', joinWith 10 (e :: es) = c :: t' := by
  cases es with
  | nil => exact ⟨t, by simp [joinWith, he]⟩
  | cons e' es' => exact ⟨t ++ 10 :: joinWith 10 (e' :: es'), by simp [joinWith, he]⟩

theorem joinWith_last (es : List Str) (hne : es ≠ []) (hall : ∀ e ∈ es, e ≠ []) :
    ∃ u l, joinWith 10 es = u ++ [l] ∧ ∃ e ∈ es, l ∈ e := by
  induction es with
  | nil => exact absurd rfl hne
  | cons e es ih =>
    cases es with
    | nil =>
      have he : e ≠ [] := hall e (by simp)
      refine ⟨e.dropLast, e.getLast he, ?_, e, by simp, List.getLast_mem he⟩
      simp [joinWith, List.dropLast_concat_getLast]
    | cons e' es' =>
      obtain ⟨u, l, hul, e0, he0, hl⟩ := ih (by simp) (by intro x hx; exact hall x (List.mem_cons_of_mem _ hx))
      refine ⟨e ++ 10 :: u, l, ?_, e0, List.mem_cons_of_mem _ he0, hl⟩
      simp only [joinWith] at hul ⊢
      simp [hul]

/-- A file written by fzf is read back as exactly the entries it holds. -/
theorem entries_render (es : List Str) (hall : ∀ e ∈ es, e ≠ [] ∧ 10 ∉ e) :
    entries (render es) = es := by
  cases es with
  | nil => simp [entries, render, trim, trimLeft, trimRight, splitOn]
  | cons e es' =>
    have hne : (e :: es') ≠ [] := by simp
    have hE : e ≠ [] := (hall e (by simp)).1
    obtain ⟨c, t, hct⟩ : ∃ c t, e = c :: t := by
      cases e with
      | nil => exact absurd rfl hE
      | cons c t => exact ⟨c, t, rfl⟩
    have hc : c ≠ 10 := by
      intro h; apply (hall e (by simp)).2; simp [hct, h]
    obtain ⟨t', ht'⟩ := joinWith_head e es' c t hct
    obtain ⟨u, l, hul, e0, he0, hl⟩ := joinWith_last (e :: es') hne (fun x hx => (hall x hx).1)
    have hl10 : l ≠ 10 := by
      intro h; apply (hall e0 he0).2; rw [← h]; exact hl
    have htrim := trim_clean (joinWith 10 (e :: es')) c l t' u ht' hul hc hl10
    have hsplit := splitOn_joinWith 10 (e :: es') hne (fun x hx => (hall x hx).2)
    unfold entries
    simp only [render_eq_join _ hne, htrim, hsplit]
    have : ((e :: es').getLast?.getD []) ≠ [] := by
      rw [List.getLast?_eq_some_getLast hne]
      simp only [Option.getD_some]
      exact (hall _ (List.getLast_mem hne)).1
    simp [this]

end Fzf.History

namespace Fzf.History
open Fzf

/-- What slot `i` currently shows. -/
def view (h : Hist) (i : Nat) : Str :=
  match h.modified.lookup i with
  | some s => s
  | none => h.lines.getD i []

def slotsOf (h : Hist) : List Str := (List.range h.lines.length).map (view h)

def abs (s : Sess) : Slots := { slots := slotsOf s.h, cursor := s.h.cursor, input := s.input }

/-- Edited copies exist only for stored entries, never for the scratch slot. -/
def ModInv (h : Hist) : Prop := ∀ i, i + 1 ≥ h.lines.length → h.modified.lookup i = none

theorem current_eq_view (h : Hist) (hi : Inv h) : current h = some (view h h.cursor) := by
  unfold current view
  cases hm : h.modified.lookup h.cursor with
  | some v => rfl
  | none => unfold Inv at hi; simp [List.getD, List.getElem?_eq_getElem hi]

theorem slotsOf_override (h : Hist) (s : Str) (hi : Inv h) (hm : ModInv h) :
    slotsOf (override h s) = (slotsOf h).set h.cursor s ∧
    (override h s).cursor = h.cursor ∧ (override h s).lines.length = h.lines.length ∧
    ModInv (override h s) := by
  unfold Inv at hi
  unfold override
  split
  · next hc =>
    refine ⟨?_, rfl, by simp, by intro i; simpa using hm i⟩
    apply List.ext_getElem
    · simp [slotsOf]
    · intro n h1 h2
      simp only [slotsOf, List.length_map, List.length_range, List.length_set] at h1
      simp only [slotsOf, List.getElem_map, List.getElem_range, List.getElem_set, view, List.length_set]
      by_cases hn : h.cursor = n
      · subst hn
        simp only [if_true]
        rw [hm h.cursor (by omega)]
        simp [List.getD, hi]
      · simp [hn, List.getD, h1]
  · split
    · next hc1 hc2 =>
      refine ⟨?_, rfl, rfl, ?_⟩
      · apply List.ext_getElem
        · simp [slotsOf]
        · intro n h1 h2
          simp only [slotsOf, List.length_map, List.length_range] at h1
          simp only [slotsOf, List.getElem_map, List.getElem_range, List.getElem_set, view, List.lookup]
          by_cases hn : h.cursor = n
          · subst hn; simp
          · have : (n == h.cursor) = false := by simp; omega
            simp [hn, this]
      · intro i hge
        simp only at hge
        have : (i == h.cursor) = false := by simp; omega
        simp only [List.lookup, this]
        exact hm i hge
    · omega

theorem load_modInv (d : Str) (m : Nat) : ModInv (load d m) := by
  intro i _; simp [load]

theorem slotsOf_getD (h : Hist) (i : Nat) (hi : i < h.lines.length) :
    (slotsOf h).getD i [] = view h i := by
  simp [slotsOf, List.getD, hi]

theorem previous_facts (h : Hist) :
    slotsOf (previous h) = slotsOf h ∧ (previous h).cursor = h.cursor - 1 ∧
    (∀ i, view (previous h) i = view h i) ∧ (ModInv h → ModInv (previous h)) := by
  unfold previous; split
  · exact ⟨rfl, rfl, fun _ => rfl, id⟩
  · exact ⟨rfl, by omega, fun _ => rfl, id⟩

theorem next_facts (h : Hist) :
    slotsOf (next h) = slotsOf h ∧
    (next h).cursor = (if h.cursor + 1 < h.lines.length then h.cursor + 1 else h.cursor) ∧
    (∀ i, view (next h) i = view h i) ∧ (ModInv h → ModInv (next h)) := by
  unfold next; split
  · next hc => exact ⟨rfl, by simp [hc], fun _ => rfl, id⟩
  · next hc => exact ⟨rfl, by simp [hc], fun _ => rfl, id⟩

/-- The history object refines the slot editor, one action at a time. -/
theorem navStep_refines (s : Sess) (n : Nav) (hi : Inv s.h) (hm : ModInv s.h) :
    abs (navStep s n) = (abs s).step (match n with
      | .prev => .prev | .next => .next | .edit t => .edit t) ∧ ModInv (navStep s n).h := by
  cases n with
  | edit t => exact ⟨rfl, hm⟩
  | prev =>
    obtain ⟨h1, h2, h3, h4⟩ := slotsOf_override s.h s.input hi hm
    have hi' := override_inv s.input hi
    obtain ⟨p1, p2, p3, p4⟩ := previous_facts (override s.h s.input)
    have hpi := previous_inv hi'
    have hp := current_eq_view _ hpi
    simp only [navStep, abs, Slots.step, hp, Option.getD_some, p1, p2, p3, h1, h2]
    refine ⟨?_, p4 h4⟩
    congr 1
    rw [← h1, ← h2, slotsOf_getD]
    unfold Inv at hi'; omega
  | next =>
    obtain ⟨h1, h2, h3, h4⟩ := slotsOf_override s.h s.input hi hm
    have hi' := override_inv s.input hi
    obtain ⟨p1, p2, p3, p4⟩ := next_facts (override s.h s.input)
    have hpi := next_inv hi'
    have hp := current_eq_view _ hpi
    have hlen : ((slotsOf s.h).set s.h.cursor s.input).length = s.h.lines.length := by
      simp [slotsOf]
    simp only [navStep, abs, Slots.step, hp, Option.getD_some, p1, p2, p3, h1, h2, h3, hlen]
    refine ⟨?_, p4 h4⟩
    congr 1
    rw [← h1, slotsOf_getD]
    unfold Inv at hi hi'; split <;> omega

end Fzf.History
