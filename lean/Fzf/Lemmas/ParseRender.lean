import Fzf.Spec.Query
/-
C01: the documented concrete syntax is read back as documented — parsing the rendering of a query
gives the documented terms. Part 1: one token.
-/
namespace Fzf.Query
open Fzf Fzf.Algo Fzf.Pattern

/-- The three recognition steps of `parseTerms` on the (case-folded) text of one token:
    negation, `$`, then quotes / `^`. -/
def classify (fuzzy : Bool) (text : Str) : Bool × TermType × Str :=
  let typ := if !fuzzy then TermType.exact else TermType.fuzzy
  let (inv, typ, text) := if hasPrefix text 33 then (true, TermType.exact, text.drop 1) else (false, typ, text)
  let (typ, text) := if text != [36] && hasSuffix text 36 then (TermType.suffix, text.dropLast) else (typ, text)
  let (typ, text) :=
    if text.length > 2 && hasPrefix text 39 && hasSuffix text 39 then (TermType.boundary, (text.drop 1).dropLast)
    else if hasPrefix text 39 then
      ((if fuzzy && !inv then TermType.exact else TermType.fuzzy), text.drop 1)
    else if hasPrefix text 94 then
      ((if typ == .suffix then TermType.equal else TermType.prefix), text.drop 1)
    else (typ, text)
  (inv, typ, text)

/-- `parseToken` through `classify`. -/
theorem parseToken_classify (cfg : Cfg) (fuzzy : Bool) (caseMode : CaseMode) (normalize : Bool) (st : PState) (token : Str) :
    parseToken cfg fuzzy caseMode normalize st token =
      (let text := tabToSpace token
       let lowerText := lowerStr cfg text
       let caseSensitive := caseMode == .respect || (caseMode == .smart && text != lowerText)
       let normalizeTerm := normalize && lowerText == normStr cfg lowerText
       let text := if !caseSensitive then lowerText else text
       if !st.set.isEmpty && !st.afterBar && text == [124] then
         { st with switchSet := false, afterBar := true }
       else
         let st := { st with afterBar := false }
         let c := classify fuzzy text
         if c.2.2.length > 0 then
           let (sets, set) := if st.switchSet then (st.set.reverse :: st.sets, []) else (st.sets, st.set)
           let textRunes := if normalizeTerm then normStr cfg c.2.2 else c.2.2
           { st with sets := sets, set := ⟨c.2.1, c.1, textRunes, caseSensitive, normalizeTerm⟩ :: set, switchSet := true }
         else st) := by
  rfl

/-- The unescaped concrete syntax of one term over a given text. -/
def rawOver (fuzzy : Bool) (kind : TermType) (inv : Bool) (t : Str) : Str :=
  let body := match kind with
    | .fuzzy => if !fuzzy || inv then 39 :: t else t
    | .exact => if fuzzy && !inv then 39 :: t else t
    | .boundary => 39 :: t ++ [39]
    | .prefix => 94 :: t
    | .suffix => t ++ [36]
    | .equal => 94 :: t ++ [36]
  if inv then 33 :: body else body

/-- Texts whose first character is none of `! ' ^` and whose last is none of `$ ' \`. -/
def EdgeOk (t : Str) : Prop :=
  ∃ h m l, t = h :: m ∧ (h :: m).getLast? = some l ∧ h ≠ 33 ∧ h ≠ 39 ∧ h ≠ 94 ∧ l ≠ 36 ∧ l ≠ 39

theorem gl_snoc (x : Nat) (m : List Nat) (c : Nat) : (x :: (m ++ [c])).getLast? = some c := by
  have : x :: (m ++ [c]) = (x :: m) ++ [c] := rfl
  rw [this, List.getLast?_concat]

theorem dl_snoc (x : Nat) (m : List Nat) (c : Nat) : (x :: (m ++ [c])).dropLast = x :: m := by
  have : x :: (m ++ [c]) = (x :: m) ++ [c] := rfl
  rw [this, List.dropLast_concat]

theorem len_snoc (x : Nat) (m : List Nat) (c : Nat) : (x :: (m ++ [c])).length = m.length + 2 := by simp

/-- **Recognition inverts rendering**, for every kind, polarity and mode. -/
theorem classify_rawOver (fuzzy : Bool) (kind : TermType) (inv : Bool) (t : Str) (h : EdgeOk t) :
    classify fuzzy (rawOver fuzzy kind inv t) = (inv, kind, t) := by
  obtain ⟨h0, m, l, rfl, hl, h1, h2, h3, h4, h5⟩ := h
  have hl' : ∀ x, (x :: h0 :: m).getLast? = some l := by intro x; rw [List.getLast?_cons_cons]; exact hl
  have e1 : (h0 == 33) = false := by simpa using h1
  have e2 : (h0 == 39) = false := by simpa using h2
  have e3 : (h0 == 94) = false := by simpa using h3
  have e4 : (l == 36) = false := by simpa using h4
  have e5 : (l == 39) = false := by simpa using h5
  cases kind <;> cases inv <;> cases fuzzy <;>
    simp [classify, rawOver, hasPrefix, hasSuffix, hl, hl', e1, e2, e3, e4, e5, gl_snoc, dl_snoc, List.getLast?_cons_cons]

/-! ### One rendered term through `parseToken` -/

def isSyn (c : Nat) : Bool := c == 33 || c == 36 || c == 39 || c == 94 || c == 124

/-- What the theorem needs of the Unicode tables: lower-casing a non-ASCII character never yields
    one of the syntax characters `! $ ' ^ |`, and accent normalisation leaves those alone. (True
    of Go's tables: `unicode.ToLower` maps non-ASCII characters to letters, `normalizeRune` only
    touches U+00C0 and above.) -/
def CfgOk (cfg : Cfg) : Prop :=
  (∀ c, c > 127 → isSyn (cfg.U.lower c) = false) ∧ (∀ c, isSyn c = true → cfg.norm c = c)

theorem toLower_syn (cfg : Cfg) (hc : CfgOk cfg) (c s : Nat) (hs : isSyn s = true) : toLower cfg c = s ↔ c = s := by
  unfold toLower
  have hs' : s = 33 ∨ s = 36 ∨ s = 39 ∨ s = 94 ∨ s = 124 := by
    have := hs; simp [isSyn] at this; omega
  by_cases h1 : c ≤ 127
  · simp only [h1, if_true]
    by_cases h2 : 65 ≤ c ∧ c ≤ 90
    · simp only [h2, and_self, if_true]; omega
    · simp only [h2, if_false]
  · simp only [h1, if_false]
    have := hc.1 c (by omega)
    constructor
    · intro h; rw [h] at this; rw [hs] at this; cases this
    · intro h; omega

theorem toLower_syn_fix (cfg : Cfg) (s : Nat) (hs : isSyn s = true) : toLower cfg s = s := by
  have hs' : s = 33 ∨ s = 36 ∨ s = 39 ∨ s = 94 ∨ s = 124 := by
    have := hs; simp [isSyn] at this; omega
  unfold toLower
  rcases hs' with h | h | h | h | h <;> subst h <;> simp

/-- Mapping a function that fixes the syntax characters over a rendered term maps the text. -/
theorem map_rawOver (f : Nat → Nat) (hf : ∀ s, isSyn s = true → f s = s) (fuzzy : Bool) (kind : TermType) (inv : Bool) (t : Str) :
    (rawOver fuzzy kind inv t).map f = rawOver fuzzy kind inv (t.map f) := by
  have f33 := hf 33 (by decide)
  have f36 := hf 36 (by decide)
  have f39 := hf 39 (by decide)
  have f94 := hf 94 (by decide)
  cases kind <;> cases inv <;> cases fuzzy <;> simp [rawOver, f33, f36, f39, f94]

theorem rawOver_inj (fuzzy : Bool) (kind : TermType) (inv : Bool) (t1 t2 : Str) :
    rawOver fuzzy kind inv t1 = rawOver fuzzy kind inv t2 ↔ t1 = t2 := by
  cases kind <;> cases inv <;> cases fuzzy <;> simp [rawOver]

theorem rawOver_ne_bar (fuzzy : Bool) (kind : TermType) (inv : Bool) (t : Str) (hne : t ≠ []) (hb : t ≠ [124]) :
    rawOver fuzzy kind inv t ≠ [124] := by
  cases t with
  | nil => exact absurd rfl hne
  | cons h m =>
    cases kind <;> cases inv <;> cases fuzzy <;> simp [rawOver] <;> (try intro h1 h2; subst h1; subst h2; exact hb rfl)

def sp2tab (c : Nat) : Nat := if c = 32 then 9 else c

theorem tabToSpace_sp2tab (t : Str) (h : t.contains 9 = false) : tabToSpace (t.map sp2tab) = t := by
  induction t with
  | nil => rfl
  | cons c t ih =>
    have hc : c ≠ 9 := by
      intro e; subst e; simp at h
    have ht : t.contains 9 = false := by
      simp only [List.contains_cons, Bool.or_eq_false_iff] at h; exact h.2
    have ih' := ih ht
    unfold tabToSpace at ih' ⊢
    rw [List.map_cons, List.map_cons, ih']
    congr 1
    unfold sp2tab
    by_cases h32 : c = 32
    · subst h32; simp
    · simp [h32, hc]

/-- Adding a term to the parser state. -/
def pushTerm (st : PState) (t : Term) : PState :=
  if st.switchSet then { sets := st.set.reverse :: st.sets, set := [t], switchSet := true, afterBar := false }
  else { sets := st.sets, set := t :: st.set, switchSet := true, afterBar := false }

theorem edgeOk_of_wf (cfg : Cfg) (hc : CfgOk cfg) (t : Str) (hw : wfText t = true) (f : Nat → Nat)
    (hf : f = id ∨ f = toLower cfg) : EdgeOk (t.map f) ∧ t.map f ≠ [124] := by
  unfold wfText at hw
  simp only [Bool.and_eq_true, Bool.not_eq_true', Bool.or_eq_false_iff, bne_iff_ne, ne_eq] at hw
  obtain ⟨⟨⟨⟨hne, _⟩, hhead⟩, hlast⟩, hbar⟩ := hw
  cases t with
  | nil => simp at hne
  | cons h m =>
    have hfs : ∀ c s, isSyn s = true → (f c = s ↔ c = s) := by
      intro c s hs
      rcases hf with hf | hf <;> subst hf
      · simp
      · exact toLower_syn cfg hc c s hs
    obtain ⟨l, hl⟩ : ∃ l, (h :: m).getLast? = some l := ⟨(h :: m).getLast (by simp), List.getLast?_eq_some_getLast (by simp)⟩
    have hl2 : ((h :: m).map f).getLast? = some (f l) := by rw [List.getLast?_map, hl]; rfl
    rw [hl] at hlast
    have g1 : h ≠ 33 := by intro e; subst e; simp at hhead
    have g2 : h ≠ 39 := by intro e; subst e; simp at hhead
    have g3 : h ≠ 94 := by intro e; subst e; simp at hhead
    have g4 : l ≠ 36 := by intro e; subst e; simp at hlast
    have g5 : l ≠ 39 := by intro e; subst e; simp at hlast
    refine ⟨⟨f h, m.map f, f l, rfl, by simpa using hl2, ?_, ?_, ?_, ?_, ?_⟩, ?_⟩
    · intro e; exact g1 ((hfs h 33 (by decide)).mp e)
    · intro e; exact g2 ((hfs h 39 (by decide)).mp e)
    · intro e; exact g3 ((hfs h 94 (by decide)).mp e)
    · intro e; exact g4 ((hfs l 36 (by decide)).mp e)
    · intro e; exact g5 ((hfs l 39 (by decide)).mp e)
    · intro e
      simp only [List.map_cons, List.cons.injEq, List.map_eq_nil_iff] at e
      obtain ⟨e1, e2⟩ := e
      subst e2
      have := (hfs h 124 (by decide)).mp e1
      subst this
      exact hbar rfl

theorem rawOver_contains_tab (fuzzy : Bool) (kind : TermType) (inv : Bool) (t : Str) :
    (rawOver fuzzy kind inv t).contains 9 = t.contains 9 := by
  cases kind <;> cases inv <;> cases fuzzy <;> simp [rawOver, List.contains_cons]

theorem wfText_no_tab (t : Str) (hw : wfText t = true) : t.contains 9 = false := by
  unfold wfText at hw
  simp only [Bool.and_eq_true, Bool.not_eq_true'] at hw
  exact hw.1.1.1.2

/-- **One rendered term is read back as the documented term.** Whatever the parser state, the
    token that `parseTerms` sees for the rendering of an atom adds exactly `compile atom`. -/
theorem parseToken_atom (cfg : Cfg) (hc : CfgOk cfg) (fuzzy : Bool) (cm : CaseMode) (nz : Bool) (st : PState)
    (a : Atom) (hw : wfText a.text = true) :
    parseToken cfg fuzzy cm nz st ((rawOver fuzzy a.kind a.inv a.text).map sp2tab) = pushTerm st (compile cfg cm nz a) := by
  rw [parseToken_classify]
  unfold pushTerm compile
  have e0 : tabToSpace ((rawOver fuzzy a.kind a.inv a.text).map sp2tab) = rawOver fuzzy a.kind a.inv a.text :=
    tabToSpace_sp2tab _ (by rw [rawOver_contains_tab]; exact wfText_no_tab _ hw)
  have e1 : lowerStr cfg (rawOver fuzzy a.kind a.inv a.text) = rawOver fuzzy a.kind a.inv (lowerStr cfg a.text) :=
    map_rawOver (toLower cfg) (toLower_syn_fix cfg) _ _ _ _
  have e2 : ∀ X, normStr cfg (rawOver fuzzy a.kind a.inv X) = rawOver fuzzy a.kind a.inv (normStr cfg X) :=
    fun X => map_rawOver cfg.norm hc.2 _ _ _ _
  have e3 : (rawOver fuzzy a.kind a.inv a.text != rawOver fuzzy a.kind a.inv (lowerStr cfg a.text)) = (a.text != lowerStr cfg a.text) := by
    rw [Bool.eq_iff_iff]; simp only [bne_iff_ne, ne_eq, rawOver_inj]
  have e4 : (rawOver fuzzy a.kind a.inv (lowerStr cfg a.text) == rawOver fuzzy a.kind a.inv (normStr cfg (lowerStr cfg a.text)))
      = (lowerStr cfg a.text == normStr cfg (lowerStr cfg a.text)) := by
    rw [Bool.eq_iff_iff]; simp only [beq_iff_eq, rawOver_inj]
  simp only [e0, e1, e2, e3, e4]
  -- the text the recognition steps see
  generalize hcs : (cm == CaseMode.respect || cm == CaseMode.smart && a.text != lowerStr cfg a.text) = cs
  have hT : (if (!cs) = true then rawOver fuzzy a.kind a.inv (lowerStr cfg a.text) else rawOver fuzzy a.kind a.inv a.text)
      = rawOver fuzzy a.kind a.inv (if cs then a.text else lowerStr cfg a.text) := by
    cases cs <;> simp
  rw [hT]
  have hedge : EdgeOk (if cs then a.text else lowerStr cfg a.text) ∧ (if cs then a.text else lowerStr cfg a.text) ≠ [124] := by
    cases cs
    · simpa [lowerStr] using edgeOk_of_wf cfg hc a.text hw (toLower cfg) (Or.inr rfl)
    · simpa using edgeOk_of_wf cfg hc a.text hw id (Or.inl rfl)
  generalize (if cs then a.text else lowerStr cfg a.text) = T at hedge ⊢
  obtain ⟨hE, hbar⟩ := hedge
  have hne : T ≠ [] := by obtain ⟨h, m, _, rfl, _⟩ := hE; simp
  have hnb : (rawOver fuzzy a.kind a.inv T == [124]) = false := by
    have := rawOver_ne_bar fuzzy a.kind a.inv T hne hbar
    simpa using this
  rw [hnb, classify_rawOver fuzzy a.kind a.inv T hE]
  have hlen : T.length > 0 := List.length_pos_iff.mpr hne
  simp only [Bool.and_false, Bool.false_eq_true, if_false, hlen, if_true]
  cases st.switchSet <;> simp

/-! ### The `|` token and a whole OR-group -/

theorem parseToken_bar (cfg : Cfg) (fuzzy : Bool) (cm : CaseMode) (nz : Bool) (st : PState)
    (hs : st.set ≠ []) (ha : st.afterBar = false) :
    parseToken cfg fuzzy cm nz st [124] = { st with switchSet := false, afterBar := true } := by
  rw [parseToken_classify]
  have e0 : tabToSpace [124] = [124] := by decide
  have e1 : lowerStr cfg [124] = [124] := by simp [lowerStr, toLower]
  have hs' : st.set.isEmpty = false := by cases h : st.set with | nil => exact absurd h hs | cons _ _ => rfl
  simp only [e0, e1, hs', ha]
  cases (cm == CaseMode.respect || cm == CaseMode.smart && ([124] : Str) != [124]) <;> simp

/-- The token of one rendered atom, as `parseTerms` sees it after splitting. -/
def tokA (fuzzy : Bool) (a : Atom) : Str := (rawOver fuzzy a.kind a.inv a.text).map sp2tab

theorem parseToken_tokA (cfg : Cfg) (hc : CfgOk cfg) (fuzzy : Bool) (cm : CaseMode) (nz : Bool) (st : PState)
    (a : Atom) (hw : wfText a.text = true) :
    parseToken cfg fuzzy cm nz st (tokA fuzzy a) = pushTerm st (compile cfg cm nz a) :=
  parseToken_atom cfg hc fuzzy cm nz st a hw

/-- The tokens of one OR-group: its atoms separated by `|`. -/
def tokSet (fuzzy : Bool) : List Atom → List Str
  | [] => []
  | a :: rest => tokA fuzzy a :: rest.flatMap fun b => [[124], tokA fuzzy b]

/-- Further atoms of a group: each `| atom` prepends its term to the current group. -/
theorem fold_more (cfg : Cfg) (hc : CfgOk cfg) (fuzzy : Bool) (cm : CaseMode) (nz : Bool) (rest : List Atom)
    (hw : ∀ a ∈ rest, wfText a.text = true) (st : PState) (hs : st.set ≠ []) (ha : st.afterBar = false) (hsw : st.switchSet = true) :
    (rest.flatMap fun b => [[124], tokA fuzzy b]).foldl (parseToken cfg fuzzy cm nz) st =
      { st with set := (rest.map (compile cfg cm nz)).reverse ++ st.set } := by
  induction rest generalizing st with
  | nil => simp
  | cons b rest ih =>
    simp only [List.flatMap_cons, List.cons_append, List.nil_append, List.foldl_cons]
    rw [parseToken_bar cfg fuzzy cm nz st hs ha]
    rw [parseToken_tokA cfg hc fuzzy cm nz _ b (hw b List.mem_cons_self)]
    have := ih (fun a ha' => hw a (List.mem_cons_of_mem _ ha'))
      (pushTerm { st with switchSet := false, afterBar := true } (compile cfg cm nz b))
      (by simp [pushTerm]) (by simp [pushTerm]) (by simp [pushTerm])
    rw [this]
    simp [pushTerm, hsw, ha]

/-- **One OR-group.** Its tokens close the group before it (if any) and leave the group's
    documented terms as the current group. -/
theorem fold_set (cfg : Cfg) (hc : CfgOk cfg) (fuzzy : Bool) (cm : CaseMode) (nz : Bool) (s : List Atom) (hne : s ≠ [])
    (hw : ∀ a ∈ s, wfText a.text = true) (st : PState) :
    (tokSet fuzzy s).foldl (parseToken cfg fuzzy cm nz) st =
      { sets := if st.switchSet then st.set.reverse :: st.sets else st.sets,
        set := (s.map (compile cfg cm nz)).reverse ++ (if st.switchSet then [] else st.set),
        switchSet := true, afterBar := false } := by
  cases s with
  | nil => exact absurd rfl hne
  | cons a rest =>
    simp only [tokSet, List.foldl_cons]
    rw [parseToken_tokA cfg hc fuzzy cm nz st a (hw a List.mem_cons_self)]
    have := fold_more cfg hc fuzzy cm nz rest (fun b hb => hw b (List.mem_cons_of_mem _ hb))
      (pushTerm st (compile cfg cm nz a)) (by unfold pushTerm; split <;> simp) (by unfold pushTerm; split <;> simp)
      (by unfold pushTerm; split <;> simp)
    rw [this]
    unfold pushTerm
    cases st.switchSet <;> simp

/-- The tokens of a whole query. -/
def tokQuery (fuzzy : Bool) (q : Query) : List Str := q.flatMap (tokSet fuzzy)

/-- What `parseTerms` returns from its final state. -/
def closeSets (x : PState) : List TermSet := (if !x.set.isEmpty then x.set.reverse :: x.sets else x.sets).reverse

/-- **All groups.** The tokens of a query add its documented groups, in order, to whatever was
    parsed before. -/
theorem fold_query (cfg : Cfg) (hc : CfgOk cfg) (fuzzy : Bool) (cm : CaseMode) (nz : Bool) (q : Query)
    (hw : ∀ s ∈ q, s ≠ [] ∧ ∀ a ∈ s, wfText a.text = true) (st : PState) (hsw : st.switchSet = (!st.set.isEmpty)) :
    closeSets ((tokQuery fuzzy q).foldl (parseToken cfg fuzzy cm nz) st) = closeSets st ++ q.map (·.map (compile cfg cm nz)) := by
  induction q generalizing st with
  | nil => simp [tokQuery]
  | cons s q ih =>
    obtain ⟨hsne, hsw'⟩ := hw s List.mem_cons_self
    have hstep := fold_set cfg hc fuzzy cm nz s hsne hsw' st
    simp only [tokQuery, List.flatMap_cons, List.foldl_append]
    rw [hstep]
    have hrec := ih (fun s' hs' => hw s' (List.mem_cons_of_mem _ hs'))
      { sets := if st.switchSet then st.set.reverse :: st.sets else st.sets,
        set := (s.map (compile cfg cm nz)).reverse ++ (if st.switchSet then [] else st.set),
        switchSet := true, afterBar := false }
      (by
        cases s with
        | nil => exact absurd rfl hsne
        | cons a r => simp)
    simp only [tokQuery] at hrec
    rw [hrec]
    simp only [closeSets, List.map_cons]
    cases hset : st.set with
    | nil =>
      rw [hset] at hsw
      simp at hsw
      cases s with
      | nil => exact absurd rfl hsne
      | cons a r => simp [hsw]
    | cons t ts =>
      rw [hset] at hsw
      simp at hsw
      cases s with
      | nil => exact absurd rfl hsne
      | cons a r => simp [hsw]

/-! ### From the query string to the tokens -/

theorem joinWith_cons_ne (sep : Nat) (x : Str) (l : List Str) (h : l ≠ []) :
    joinWith sep (x :: l) = x ++ sep :: joinWith sep l := by
  cases l with
  | nil => exact absurd rfl h
  | cons y r => rfl

theorem joinWith_append (sep : Nat) (l1 l2 : List Str) (h1 : l1 ≠ []) (h2 : l2 ≠ []) :
    joinWith sep (l1 ++ l2) = joinWith sep l1 ++ sep :: joinWith sep l2 := by
  induction l1 with
  | nil => exact absurd rfl h1
  | cons x r ih =>
    by_cases hr : r = []
    · subst hr
      simp only [List.cons_append, List.nil_append]
      rw [joinWith_cons_ne sep x l2 h2]; rfl
    · rw [List.cons_append, joinWith_cons_ne sep x (r ++ l2) (by simp [hr]), ih hr, joinWith_cons_ne sep x r hr]
      simp

theorem joinWith_flatten (sep : Nat) (ls : List (List Str)) (h : ∀ l ∈ ls, l ≠ []) :
    joinWith sep (ls.map (joinWith sep)) = joinWith sep ls.flatten := by
  induction ls with
  | nil => rfl
  | cons l r ih =>
    have hl := h l List.mem_cons_self
    have hr := ih (fun x hx => h x (List.mem_cons_of_mem _ hx))
    by_cases hre : r = []
    · subst hre; simp [joinWith]
    · have hfl : r.flatten ≠ [] := by
        cases r with
        | nil => exact absurd rfl hre
        | cons y ys =>
          have := h y (List.mem_cons_of_mem _ List.mem_cons_self)
          cases y with
          | nil => exact absurd rfl this
          | cons _ _ => simp
      rw [List.map_cons, joinWith_cons_ne sep _ _ (by simp [hre]), hr, List.flatten_cons, joinWith_append sep l r.flatten hl hfl]

/-- The rendered tokens of one OR-group. -/
def rtokSet (fuzzy : Bool) : List Atom → List Str
  | [] => []
  | a :: rest => renderAtom fuzzy a :: rest.flatMap fun b => [[124], renderAtom fuzzy b]

theorem renderAtom_ne_nil (fuzzy : Bool) (a : Atom) (h : a.text ≠ []) : renderAtom fuzzy a ≠ [] := by
  unfold renderAtom
  cases hk : a.kind <;> cases hi : a.inv <;> cases fuzzy <;> simp [escapeSpaces] <;>
    (cases ht : a.text with
     | nil => exact absurd ht h
     | cons c r => by_cases h32 : c = 32 <;> simp [h32])

theorem foldl_bar (acc : Str) (hacc : acc ≠ []) (xs : List Str) :
    xs.foldl (fun acc x => if acc.isEmpty then x else acc ++ [32, 124, 32] ++ x) acc =
      acc ++ xs.flatMap (fun x => 32 :: 124 :: 32 :: x) := by
  induction xs generalizing acc with
  | nil => simp
  | cons x r ih =>
    have : acc.isEmpty = false := by cases acc with | nil => exact absurd rfl hacc | cons _ _ => rfl
    simp only [List.foldl_cons, this, Bool.false_eq_true, if_false]
    rw [ih _ (by simp [hacc])]
    simp

theorem joinWith_rtok (x : Str) (rest : List Str) :
    joinWith 32 (x :: rest.flatMap fun b => [[124], b]) = x ++ rest.flatMap (fun b => 32 :: 124 :: 32 :: b) := by
  induction rest generalizing x with
  | nil => simp [joinWith]
  | cons b r ih =>
    simp only [List.flatMap_cons, List.cons_append, List.nil_append]
    rw [joinWith_cons_ne 32 x _ (by simp), joinWith_cons_ne 32 [124] _ (by simp), ih b]
    simp

/-- The rendering of one OR-group is the space-join of its rendered tokens. -/
theorem render_set (fuzzy : Bool) (s : List Atom) (hne : s ≠ []) (hw : ∀ a ∈ s, a.text ≠ []) :
    (s.map (renderAtom fuzzy)).foldl (fun acc x => if acc.isEmpty then x else acc ++ [32, 124, 32] ++ x) [] =
      joinWith 32 (rtokSet fuzzy s) := by
  cases s with
  | nil => exact absurd rfl hne
  | cons a rest =>
    simp only [List.map_cons, List.foldl_cons, List.isEmpty_nil, if_true, rtokSet]
    rw [foldl_bar _ (renderAtom_ne_nil fuzzy a (hw a List.mem_cons_self))]
    have : (rest.flatMap fun b => [[124], renderAtom fuzzy b]) = (rest.map (renderAtom fuzzy)).flatMap fun b => [[124], b] := by
      simp [List.flatMap_map]
    rw [this, joinWith_rtok]

/-- **The query string is the space-join of its tokens.** -/
theorem render_flat (fuzzy : Bool) (q : Query) (hw : ∀ s ∈ q, s ≠ [] ∧ ∀ a ∈ s, a.text ≠ []) :
    render fuzzy q = joinWith 32 (q.flatMap (rtokSet fuzzy)) := by
  unfold render
  have h1 : q.map (fun s => (s.map (renderAtom fuzzy)).foldl (fun acc x => if acc.isEmpty then x else acc ++ [32, 124, 32] ++ x) [])
      = (q.map (rtokSet fuzzy)).map (joinWith 32) := by
    rw [List.map_map]
    apply List.map_congr_left
    intro s hs
    exact render_set fuzzy s (hw s hs).1 (hw s hs).2
  rw [h1, joinWith_flatten 32 _ (by
    intro l hl
    simp only [List.mem_map] at hl
    obtain ⟨s, hs, rfl⟩ := hl
    cases s with
    | nil => exact absurd rfl (hw _ hs).1
    | cons a r => simp [rtokSet])]
  simp [List.flatMap]

theorem esc_bs_sp (y : Str) : escSpaceToTab (92 :: 32 :: y) = 9 :: escSpaceToTab y := by
  rw [escSpaceToTab]

theorem esc_cons_ne (c : Nat) (y : Str) (h : c ≠ 92) : escSpaceToTab (c :: y) = c :: escSpaceToTab y := by
  rw [escSpaceToTab]
  intro rest' hc; exact absurd hc h

theorem esc_bs (y : Str) (h : y.head? ≠ some 32) : escSpaceToTab (92 :: y) = 92 :: escSpaceToTab y := by
  rw [escSpaceToTab]
  intro rest' _ hy; subst hy; simp at h

theorem escapeSpaces_head (t : Str) : (escapeSpaces t).head? ≠ some 32 := by
  cases t with
  | nil => simp [escapeSpaces]
  | cons c r =>
    unfold escapeSpaces
    by_cases h : c = 32
    · subst h; simp
    · simp [h]

theorem escapeSpaces_cons (c : Nat) (t : Str) :
    escapeSpaces (c :: t) = (if c = 32 then [92, 32] else [c]) ++ escapeSpaces t := by
  simp [escapeSpaces]

/-- Escaping the spaces of a text and reading the escapes back gives the text with tabs for
    spaces — also when something that does not start with a space follows. -/
theorem esc_escape (t s : Str) (hs : s.head? ≠ some 32) :
    escSpaceToTab (escapeSpaces t ++ s) = t.map sp2tab ++ escSpaceToTab s := by
  induction t with
  | nil => simp [escapeSpaces]
  | cons c r ih =>
    rw [escapeSpaces_cons]
    by_cases h32 : c = 32
    · subst h32
      simp only [if_true, List.cons_append, List.nil_append, List.map_cons]
      rw [esc_bs_sp, ih]; rfl
    · simp only [h32, if_false, List.cons_append, List.nil_append, List.map_cons]
      have hsp : sp2tab c = c := by simp [sp2tab, h32]
      rw [hsp]
      by_cases h92 : c = 92
      · subst h92
        rw [esc_bs _ (by
          cases hr : r with
          | nil => simpa [escapeSpaces] using hs
          | cons d r' =>
            have := escapeSpaces_head (d :: r')
            cases he : escapeSpaces (d :: r') with
            | nil => simp [escapeSpaces] at he; by_cases hd : d = 32 <;> simp [hd] at he
            | cons e es => rw [he] at this; simpa using this), ih]
      · rw [esc_cons_ne c _ h92, ih]

/-- The token `parseTerms` sees for a rendered atom. -/
theorem esc_renderAtom (fuzzy : Bool) (a : Atom) : escSpaceToTab (renderAtom fuzzy a) = tokA fuzzy a := by
  have hr : renderAtom fuzzy a = rawOver fuzzy a.kind a.inv (escapeSpaces a.text) := by
    unfold renderAtom rawOver; rfl
  rw [hr]
  unfold tokA
  have e0 := esc_escape a.text [] (by simp)
  have e36 := esc_escape a.text [36] (by simp)
  have e39 := esc_escape a.text [39] (by simp)
  have n36 : escSpaceToTab [36] = [36] := by decide
  have n39 : escSpaceToTab [39] = [39] := by decide
  simp only [List.append_nil, n36, n39, show escSpaceToTab [] = [] from rfl] at e0 e36 e39
  have c33 : ∀ y, escSpaceToTab (33 :: y) = 33 :: escSpaceToTab y := fun y => esc_cons_ne 33 y (by decide)
  have c39 : ∀ y, escSpaceToTab (39 :: y) = 39 :: escSpaceToTab y := fun y => esc_cons_ne 39 y (by decide)
  have c94 : ∀ y, escSpaceToTab (94 :: y) = 94 :: escSpaceToTab y := fun y => esc_cons_ne 94 y (by decide)
  have s33 : sp2tab 33 = 33 := by decide
  have s36 : sp2tab 36 = 36 := by decide
  have s39 : sp2tab 39 = 39 := by decide
  have s94 : sp2tab 94 = 94 := by decide
  cases a.kind <;> cases a.inv <;> cases fuzzy <;>
    simp [rawOver, c33, c39, c94, e0, e36, e39, s33, s36, s39, s94]

/-- Reading escapes distributes over a separating space when the text before it does not end
    with a backslash. -/
theorem esc_sep (x y : Str) (h : x.getLast? ≠ some 92) :
    escSpaceToTab (x ++ 32 :: y) = escSpaceToTab x ++ 32 :: escSpaceToTab y := by
  fun_induction escSpaceToTab x with
  | case1 rest ih =>
    have h' : rest.getLast? ≠ some 92 := by
      cases rest with
      | nil => simp
      | cons d r => simpa [List.getLast?_cons_cons] using h
    simp only [List.cons_append]
    rw [esc_bs_sp, ih h']
  | case2 c rest hcond ih =>
    by_cases hr : rest = []
    · subst hr
      have hc : c ≠ 92 := by intro e; subst e; simp at h
      simp only [List.cons_append, List.nil_append]
      rw [esc_cons_ne c _ hc, esc_cons_ne 32 _ (by decide)]
      simp [escSpaceToTab]
    · have h' : rest.getLast? ≠ some 92 := by
        cases rest with
        | nil => exact absurd rfl hr
        | cons d r => simpa [List.getLast?_cons_cons] using h
      simp only [List.cons_append]
      by_cases hc : c = 92
      · subst hc
        have hh : (rest ++ 32 :: y).head? ≠ some 32 := by
          cases rest with
          | nil => exact absurd rfl hr
          | cons d r =>
            simp only [List.cons_append, List.head?_cons, ne_eq, Option.some.injEq]
            intro e; subst e; exact hcond r rfl rfl
        rw [esc_bs _ hh, ih h']
      · rw [esc_cons_ne c _ hc, ih h']
  | case3 => simp [escSpaceToTab, esc_cons_ne]

theorem esc_join (ts : List Str) (h : ∀ t ∈ ts, t.getLast? ≠ some 92) :
    escSpaceToTab (joinWith 32 ts) = joinWith 32 (ts.map escSpaceToTab) := by
  induction ts with
  | nil => rfl
  | cons t r ih =>
    by_cases hr : r = []
    · subst hr; simp [joinWith]
    · rw [joinWith_cons_ne 32 t r hr, List.map_cons, joinWith_cons_ne 32 _ _ (by simp [hr]),
        esc_sep t _ (h t List.mem_cons_self), ih (fun x hx => h x (List.mem_cons_of_mem _ hx))]

theorem go_word (t : Str) (h32 : ∀ c ∈ t, c ≠ 32) (hne : t ≠ []) (cur : Str) (b : Bool) (r : Str) :
    splitSpaces.go cur b (t ++ r) = splitSpaces.go (t.reverse ++ cur) false r := by
  induction t generalizing cur b with
  | nil => exact absurd rfl hne
  | cons c t ih =>
    have hc : c ≠ 32 := h32 c List.mem_cons_self
    simp only [List.cons_append]
    rw [splitSpaces.go]
    simp only [hc, if_false]
    by_cases ht : t = []
    · subst ht; simp
    · rw [ih (fun d hd => h32 d (List.mem_cons_of_mem _ hd)) ht]
      simp

/-- Splitting the space-join of non-empty, space-free tokens gives the tokens back. -/
theorem split_join (ts : List Str) (hne : ts ≠ []) (h : ∀ t ∈ ts, t ≠ [] ∧ ∀ c ∈ t, c ≠ 32) (b : Bool) :
    splitSpaces.go [] b (joinWith 32 ts) = ts := by
  induction ts generalizing b with
  | nil => exact absurd rfl hne
  | cons t r ih =>
    obtain ⟨htne, ht32⟩ := h t List.mem_cons_self
    by_cases hr : r = []
    · subst hr
      have := go_word t ht32 htne [] b []
      simp only [List.append_nil] at this
      simp only [joinWith]
      rw [this, splitSpaces.go]
      simp
    · rw [joinWith_cons_ne 32 t r hr, go_word t ht32 htne [] b (32 :: joinWith 32 r)]
      rw [splitSpaces.go]
      simp only [if_true, Bool.false_eq_true, if_false, List.append_nil, List.reverse_reverse]
      rw [ih hr (fun x hx => h x (List.mem_cons_of_mem _ hx)) true]

theorem escapeSpaces_append (a b : Str) : escapeSpaces (a ++ b) = escapeSpaces a ++ escapeSpaces b := by
  simp [escapeSpaces]

theorem escapeSpaces_getLast (t : Str) (hne : t ≠ []) : (escapeSpaces t).getLast? = t.getLast? := by
  obtain ⟨init, l, rfl⟩ : ∃ init l, t = init ++ [l] := ⟨t.dropLast, t.getLast hne, (List.dropLast_concat_getLast hne).symm⟩
  rw [escapeSpaces_append]
  by_cases h : l = 32
  · subst h; simp [escapeSpaces, List.getLast?_append]
  · simp [escapeSpaces, h, List.getLast?_append]

theorem wfText_facts (t : Str) (hw : wfText t = true) : t ≠ [] ∧ t.getLast? ≠ some 92 ∧ t.contains 9 = false := by
  unfold wfText at hw
  simp only [Bool.and_eq_true, Bool.not_eq_true', Bool.or_eq_false_iff] at hw
  obtain ⟨⟨⟨⟨hne, htab⟩, _⟩, hlast⟩, _⟩ := hw
  refine ⟨by intro e; subst e; simp at hne, ?_, htab⟩
  intro e; rw [e] at hlast; simp at hlast

theorem renderAtom_last (fuzzy : Bool) (a : Atom) (hw : wfText a.text = true) : (renderAtom fuzzy a).getLast? ≠ some 92 := by
  obtain ⟨hne, hl, _⟩ := wfText_facts a.text hw
  have hr : renderAtom fuzzy a = rawOver fuzzy a.kind a.inv (escapeSpaces a.text) := by
    unfold renderAtom rawOver; rfl
  rw [hr]
  have he := escapeSpaces_getLast a.text hne
  have hene : escapeSpaces a.text ≠ [] := by
    intro e
    rw [e] at he
    cases h : a.text with
    | nil => exact hne h
    | cons c r =>
      rw [h] at he
      have : (c :: r).getLast? = some ((c :: r).getLast (by simp)) := List.getLast?_eq_some_getLast (by simp)
      rw [this] at he
      cases he
  obtain ⟨c, r, hcr⟩ : ∃ c r, escapeSpaces a.text = c :: r := by
    cases h : escapeSpaces a.text with
    | nil => exact absurd h hene
    | cons c r => exact ⟨c, r, rfl⟩
  rw [hcr] at he
  cases a.kind <;> cases a.inv <;> cases fuzzy <;>
    simp [rawOver, hcr, List.getLast?_cons_cons, he, hl, gl_snoc]

theorem tokA_ok (fuzzy : Bool) (a : Atom) (hw : wfText a.text = true) : tokA fuzzy a ≠ [] ∧ ∀ c ∈ tokA fuzzy a, c ≠ 32 := by
  obtain ⟨hne, _, _⟩ := wfText_facts a.text hw
  refine ⟨?_, ?_⟩
  · unfold tokA
    cases h : a.text with
    | nil => exact absurd h hne
    | cons c r => cases a.kind <;> cases a.inv <;> cases fuzzy <;> simp [rawOver]
  · intro c hc
    unfold tokA at hc
    simp only [List.mem_map] at hc
    obtain ⟨d, _, rfl⟩ := hc
    unfold sp2tab
    by_cases h : d = 32 <;> simp [h]

theorem map_rtokSet (fuzzy : Bool) (s : List Atom) : (rtokSet fuzzy s).map escSpaceToTab = tokSet fuzzy s := by
  cases s with
  | nil => rfl
  | cons a rest =>
    have hb : escSpaceToTab [124] = [124] := by decide
    simp only [rtokSet, tokSet, List.map_cons, esc_renderAtom, List.map_flatMap, List.map_nil, hb]

/-- **The documented syntax is read as documented.** For every well-formed query (non-empty
    groups of terms whose texts are non-empty, tab-free, do not begin with `! ' ^`, do not end with
    `$ ' \` and are not `|`), in fuzzy and in `--exact` mode, under every case mode and with or
    without normalisation: parsing the concrete syntax of the query yields exactly the documented
    terms — kind, polarity, smart-case decided per term, accent normalisation unless the term
    carries an accent, escaped spaces restored. -/
theorem parse_render (cfg : Cfg) (hc : CfgOk cfg) (fuzzy : Bool) (cm : CaseMode) (nz : Bool) (q : Query) (hw : wf q = true) :
    parseTerms cfg fuzzy cm nz (render fuzzy q) = q.map (·.map (compile cfg cm nz)) := by
  unfold wf at hw
  simp only [Bool.and_eq_true, Bool.not_eq_true', List.all_eq_true] at hw
  obtain ⟨hqne, hall⟩ := hw
  have hq : q ≠ [] := by intro e; subst e; simp at hqne
  have hsets : ∀ s ∈ q, s ≠ [] ∧ ∀ a ∈ s, wfText a.text = true := by
    intro s hs
    have := hall s hs
    obtain ⟨h1, h2⟩ := this
    exact ⟨by intro e; subst e; simp at h1, h2⟩
  have hflat := render_flat fuzzy q (fun s hs => ⟨(hsets s hs).1, fun a ha => (wfText_facts a.text ((hsets s hs).2 a ha)).1⟩)
  have hmemR : ∀ t ∈ q.flatMap (rtokSet fuzzy), t.getLast? ≠ some 92 := by
    intro t ht
    simp only [List.mem_flatMap] at ht
    obtain ⟨s, hs, hts⟩ := ht
    cases s with
    | nil => simp [rtokSet] at hts
    | cons a rest =>
      simp only [rtokSet, List.mem_cons, List.mem_flatMap, List.mem_nil_iff, or_false] at hts
      rcases hts with rfl | ⟨b, hb, rfl | rfl⟩
      · exact renderAtom_last fuzzy a ((hsets _ hs).2 a List.mem_cons_self)
      · simp
      · exact renderAtom_last fuzzy b ((hsets _ hs).2 b (List.mem_cons_of_mem _ hb))
  have htoks : (q.flatMap (rtokSet fuzzy)).map escSpaceToTab = tokQuery fuzzy q := by
    unfold tokQuery
    rw [List.map_flatMap]
    congr 1
    funext s
    exact map_rtokSet fuzzy s
  have hmemT : ∀ t ∈ tokQuery fuzzy q, t ≠ [] ∧ ∀ c ∈ t, c ≠ 32 := by
    intro t ht
    simp only [tokQuery, List.mem_flatMap] at ht
    obtain ⟨s, hs, hts⟩ := ht
    cases s with
    | nil => simp [tokSet] at hts
    | cons a rest =>
      simp only [tokSet, List.mem_cons, List.mem_flatMap, List.mem_nil_iff, or_false] at hts
      rcases hts with rfl | ⟨b, hb, rfl | rfl⟩
      · exact tokA_ok fuzzy a ((hsets _ hs).2 a List.mem_cons_self)
      · simp
      · exact tokA_ok fuzzy b ((hsets _ hs).2 b (List.mem_cons_of_mem _ hb))
  have hTne : tokQuery fuzzy q ≠ [] := by
    cases q with
    | nil => exact absurd rfl hq
    | cons s r =>
      obtain ⟨hs, _⟩ := hsets s List.mem_cons_self
      cases s with
      | nil => exact absurd rfl hs
      | cons a rest => simp [tokQuery, tokSet]
  have hsplit : splitSpaces (escSpaceToTab (render fuzzy q)) = tokQuery fuzzy q := by
    rw [hflat, esc_join _ hmemR, htoks]
    exact split_join _ hTne hmemT false
  unfold parseTerms
  simp only [hsplit]
  have := fold_query cfg hc fuzzy cm nz q hsets {} (by simp)
  simpa [closeSets] using this
