import Fzf.Lemmas.Rank
/-
C05 / C04: the ranked output of a sub-list is the ranked output of the whole list restricted to
the sub-list. Sorting by the total order `compareRanks` commutes with any restriction.
-/
namespace Fzf.Rank

/-- Merging depends on the comparison only at pairs (left element, right element). -/
theorem merge_congr {α : Type} (le1 le2 : α → α → Bool) : ∀ (xs ys : List α),
    (∀ x ∈ xs, ∀ y ∈ ys, le1 x y = le2 x y) → List.merge xs ys le1 = List.merge xs ys le2
  | [], ys, _ => by simp
  | xs, [], _ => by simp
  | x :: xs, y :: ys, h => by
    rw [List.cons_merge_cons, List.cons_merge_cons, h x List.mem_cons_self y List.mem_cons_self]
    split
    · rw [merge_congr le1 le2 xs (y :: ys) (fun a ha b hb => h a (List.mem_cons_of_mem _ ha) b hb)]
    · rw [merge_congr le1 le2 (x :: xs) ys (fun a ha b hb => h a ha b (List.mem_cons_of_mem _ hb))]

/-- Merge sort of a duplicate-free list depends on the comparison only at pairs of different
    elements (it never compares an element with itself). -/
theorem mergeSort_congr {α : Type} (le1 le2 : α → α → Bool) : ∀ (l : List α), l.Nodup →
    (∀ a ∈ l, ∀ b ∈ l, a ≠ b → le1 a b = le2 a b) → l.mergeSort le1 = l.mergeSort le2
  | [], _, _ => by simp
  | [a], _, _ => by simp
  | a :: b :: xs, hnd, h => by
    rw [List.mergeSort, List.mergeSort]
    have happ : (List.MergeSort.Internal.splitInTwo ⟨a :: b :: xs, rfl⟩).1.1 ++ (List.MergeSort.Internal.splitInTwo ⟨a :: b :: xs, rfl⟩).2.1 = a :: b :: xs :=
      List.MergeSort.Internal.splitInTwo_fst_append_splitInTwo_snd ⟨a :: b :: xs, rfl⟩
    have hl1 : (List.MergeSort.Internal.splitInTwo ⟨a :: b :: xs, rfl⟩).1.1.length < xs.length + 1 + 1 := by
      simp [List.MergeSort.Internal.splitInTwo_fst]; omega
    have hl2 : (List.MergeSort.Internal.splitInTwo ⟨a :: b :: xs, rfl⟩).2.1.length < xs.length + 1 + 1 := by
      simp [List.MergeSort.Internal.splitInTwo_snd]; omega
    generalize (List.MergeSort.Internal.splitInTwo ⟨a :: b :: xs, rfl⟩).1.1 = L at happ hl1
    generalize (List.MergeSort.Internal.splitInTwo ⟨a :: b :: xs, rfl⟩).2.1 = Rr at happ hl2
    have hnd' : (L ++ Rr).Nodup := by rw [happ]; exact hnd
    have hmemL : ∀ x ∈ L, x ∈ a :: b :: xs := fun x hx => by rw [← happ]; exact List.mem_append_left _ hx
    have hmemR : ∀ x ∈ Rr, x ∈ a :: b :: xs := fun x hx => by rw [← happ]; exact List.mem_append_right _ hx
    have hdisj : ∀ x ∈ L, ∀ y ∈ Rr, x ≠ y := by
      intro x hx y hy e
      subst e
      exact (List.nodup_append.mp hnd').2.2 x hx x hy rfl
    rw [mergeSort_congr le1 le2 L (List.nodup_append.mp hnd').1 (fun x hx y hy hne => h x (hmemL x hx) y (hmemL y hy) hne),
        mergeSort_congr le1 le2 Rr (List.nodup_append.mp hnd').2.1 (fun x hx y hy hne => h x (hmemR x hx) y (hmemR y hy) hne)]
    apply merge_congr
    intro x hx y hy
    have hx' := (List.mergeSort_perm L le2).subset hx
    have hy' := (List.mergeSort_perm Rr le2).subset hy
    exact h x (hmemL x hx') y (hmemR y hy') (hdisj x hx' y hy')
termination_by l => l.length

/-- The total preorder behind `compareRanks`: the packed points, then the item number (reversed
    under --tac). It agrees with `compareRanks` on results of different items and, unlike it, is
    reflexive — which is what the sorting lemmas of the library are stated for. -/
def leRank (tac : Bool) (a b : R) : Bool :=
  decide (packed a < packed b) || (decide (packed a = packed b) && (if tac then decide (b.index ≤ a.index) else decide (a.index ≤ b.index)))

theorem leRank_total (tac : Bool) (a b : R) : (leRank tac a b || leRank tac b a) = true := by
  unfold leRank
  cases tac <;> simp only [Bool.false_eq_true, if_false, if_true, Bool.or_eq_true, Bool.and_eq_true, decide_eq_true_eq] <;> omega

theorem leRank_trans (tac : Bool) (a b c : R) (h1 : leRank tac a b = true) (h2 : leRank tac b c = true) : leRank tac a c = true := by
  unfold leRank at *
  cases tac <;> simp only [Bool.false_eq_true, if_false, if_true, Bool.or_eq_true, Bool.and_eq_true, decide_eq_true_eq] at * <;> omega

theorem leRank_eq_cmp (tac : Bool) (a b : R) (h : a.index ≠ b.index) : compareRanks64 a b tac = leRank tac a b := by
  unfold compareRanks64 leRank
  by_cases h1 : packed a < packed b
  · simp [h1]
  · by_cases h2 : packed a > packed b
    · have h3 : ¬ packed a = packed b := by omega
      simp [h1, h2, h3]
    · have he : packed a = packed b := by omega
      simp only [he, Nat.lt_irrefl, gt_iff_lt, if_false, decide_false, Bool.false_or, decide_true, Bool.true_and]
      cases tac
      · simp
      · simp only [if_true]
        by_cases hle : a.index ≤ b.index
        · have : ¬ b.index ≤ a.index := by omega
          simp [hle, this]
        · have : b.index ≤ a.index := by omega
          simp [hle, this]

/-- Elements of a list with pairwise distinct item numbers are determined by their item number. -/
theorem eq_of_index_eq {l : List R} (hd : l.Pairwise fun a b => a.index ≠ b.index) {a b : R}
    (ha : a ∈ l) (hb : b ∈ l) (h : a.index = b.index) : a = b := by
  induction l with
  | nil => cases ha
  | cons x xs ih =>
    rw [List.pairwise_cons] at hd
    obtain ⟨hx, hxs⟩ := hd
    rcases List.mem_cons.mp ha with rfl | ha'
    · rcases List.mem_cons.mp hb with rfl | hb'
      · rfl
      · exact absurd h (hx b hb')
    · rcases List.mem_cons.mp hb with rfl | hb'
      · exact absurd h.symm (hx a ha')
      · exact ih hxs ha' hb'

theorem nodup_of_distinct {l : List R} (hd : l.Pairwise fun a b => a.index ≠ b.index) : l.Nodup :=
  hd.imp (fun h e => h (by rw [e]))

theorem sort_eq_leRank (l : List R) (tac : Bool) (hd : l.Pairwise fun a b => a.index ≠ b.index) :
    l.mergeSort (fun a b => compareRanks64 a b tac) = l.mergeSort (leRank tac) := by
  apply mergeSort_congr _ _ l (nodup_of_distinct hd)
  intro a ha b hb hne
  exact leRank_eq_cmp tac a b (fun e => hne (eq_of_index_eq hd ha hb e))

/-- **Sorting commutes with restriction.** For results of distinct items, ranking the results
    that satisfy any predicate gives the ranking of all results restricted to that predicate: same
    elements, same relative order — with or without --tac. -/
theorem sort_filter_comm (ms : List R) (tac : Bool) (hd : ms.Pairwise fun a b => a.index ≠ b.index) (q : R → Bool) :
    (ms.filter q).mergeSort (fun a b => compareRanks64 a b tac) =
      (ms.mergeSort (fun a b => compareRanks64 a b tac)).filter q := by
  rw [sort_eq_leRank ms tac hd, sort_eq_leRank (ms.filter q) tac (hd.filter q)]
  apply List.Perm.eq_of_pairwise (le := fun a b => leRank tac a b = true)
  · intro a b ha hb hab hba
    have ha' : a ∈ ms := (List.mem_filter.mp ((List.mergeSort_perm _ _).subset ha)).1
    have hb' : b ∈ ms := (List.mergeSort_perm _ _).subset (List.mem_filter.mp hb).1
    by_cases hi : a.index = b.index
    · exact eq_of_index_eq hd ha' hb' hi
    · have h1 := leRank_eq_cmp tac a b hi
      have h2 := leRank_eq_cmp tac b a (fun e => hi e.symm)
      have := cmp_total_asymm a b tac hi
      rw [h1, h2, hab, hba] at this
      cases this
  · exact List.pairwise_mergeSort (leRank_trans tac) (leRank_total tac) _
  · exact (List.pairwise_mergeSort (leRank_trans tac) (leRank_total tac) _).filter q
  · exact (List.mergeSort_perm _ _).trans ((List.mergeSort_perm _ _).filter q).symm

/-- The order depends on the item numbers only through their order: renumbering the items by a
    strictly increasing function (what taking a sub-list of the input does) does not change any
    comparison. -/
theorem cmp_reindex (a b : R) (tac : Bool) (f : Int → Int) (hf : ∀ x y, x ≤ y ↔ f x ≤ f y) :
    compareRanks64 ⟨a.pts, f a.index⟩ ⟨b.pts, f b.index⟩ tac = compareRanks64 a b tac := by
  unfold compareRanks64 packed
  simp only
  by_cases h1 : a.index ≤ b.index
  · have h1' := (hf _ _).mp h1
    by_cases h2 : b.index ≤ a.index
    · have h2' := (hf _ _).mp h2
      simp [h1, h2, h1', h2']
    · have h2' : ¬ f b.index ≤ f a.index := fun h => h2 ((hf _ _).mpr h)
      simp [h1, h2, h1', h2']
  · have h1' : ¬ f a.index ≤ f b.index := fun h => h1 ((hf _ _).mpr h)
    by_cases h2 : b.index ≤ a.index
    · have h2' := (hf _ _).mp h2
      simp [h1, h2, h1', h2']
    · have h2' : ¬ f b.index ≤ f a.index := fun h => h2 ((hf _ _).mpr h)
      simp [h1, h2, h1', h2']

end Fzf.Rank
