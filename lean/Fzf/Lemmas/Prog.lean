import Fzf.Model.AlgoSlab
/-
The generic fact behind C05's "reuse of scratch memory is unobservable":
if the *checked* run of a program returns a value, the *raw* run returns the same value from
every memory that agrees with the checked one on the initially reliable cells — i.e. for every
content of the slab.
-/
namespace Fzf.Algo.Prog

/-- `m₁` and `m₂` have the same size and agree wherever `w` says a cell is reliable. -/
def Agree (m₁ m₂ : Array Int) (w : Array Bool) : Prop :=
  m₁.size = m₂.size ∧ ∀ i (h₁ : i < m₁.size) (h₂ : i < m₂.size), w.getD i false = true → m₁[i] = m₂[i]

theorem agree_set {m₁ m₂ : Array Int} {w : Array Bool} (h : Agree m₁ m₂ w) (i : Nat) (v : Int) :
    Agree (m₁.setIfInBounds i v) (m₂.setIfInBounds i v) (w.setIfInBounds i true) := by
  obtain ⟨hs, ha⟩ := h
  refine ⟨by simp [hs], ?_⟩
  intro k h₁ h₂ hw
  have h₁' : k < m₁.size := by simpa using h₁
  have h₂' : k < m₂.size := by simpa using h₂
  rw [Array.getElem_setIfInBounds h₁', Array.getElem_setIfInBounds h₂']
  by_cases hik : i = k
  · simp [hik]
  · simp only [hik, if_false]
    apply ha k h₁' h₂'
    simp only [Array.getD_eq_getD_getElem?, Array.getElem?_setIfInBounds] at hw ⊢
    simpa [hik] using hw

theorem checked_ok_imp_raw (p : Prog α) (m₁ m₂ : Array Int) (w : Array Bool) (r : α)
    (hag : Agree m₁ m₂ w) (hc : p.runChk m₁ w = .ok r) : p.runRaw m₂ = .ok r := by
  induction p generalizing m₁ m₂ w with
  | ret a => simpa [runChk, runRaw] using hc
  | fail e => simp [runChk] at hc
  | read i k ih =>
    unfold runChk at hc
    unfold runRaw
    by_cases hi : i < m₁.size
    · have hi2 : i < m₂.size := hag.1 ▸ hi
      simp only [hi, dite_true] at hc
      simp only [hi2, dite_true]
      by_cases hw : w.getD i false = true
      · simp only [hw, if_true] at hc
        have := hag.2 i hi hi2 hw
        rw [← this]
        exact ih _ m₁ m₂ w hag hc
      · simp [hw] at hc
    · simp [hi] at hc
  | write i v k ih =>
    unfold runChk at hc
    unfold runRaw
    by_cases hi : i < m₁.size
    · have hi2 : i < m₂.size := hag.1 ▸ hi
      simp only [hi, if_true] at hc
      simp only [hi2, if_true]
      exact ih _ _ _ (agree_set hag i v) hc
    · simp [hi] at hc

end Fzf.Algo.Prog

namespace Fzf.Algo

theorem initMem_agree (L : Layout) (fc : Nat) (junk₁ junk₂ : Nat → Int) :
    Prog.Agree (initMem L fc junk₁) (initMem L fc junk₂) (initWritten L fc) := by
  refine ⟨by simp [initMem], ?_⟩
  intro i h₁ h₂ hw
  simp only [initMem, Array.size_ofFn] at h₁
  simp only [initWritten, Array.getD_eq_getD_getElem?, Array.getElem?_ofFn, h₁, dite_true,
    Option.getD_some, decide_eq_true_eq] at hw
  simp only [initMem, Array.getElem_ofFn]
  have h1 : ¬ i < L.phys16 := by omega
  have h2 : ¬ i < L.phys16 + L.phys32 := by omega
  simp [h1, h2]

end Fzf.Algo
