import Fzf.Lemmas.Prefilter
import Fzf.Lemmas.Subseq
/-
C02: FuzzyMatchV2 (the default algorithm) reports a match exactly when the pattern is a
subsequence of the folded text.
-/
namespace Fzf.Algo
open Fzf Fzf.Algo.Spec

theorem phase2Step_pidx_eq (cfg : Cfg) (cs norm fwd : Bool) (p : Text) (st : P2) (c0 : Nat) :
    (phase2Step cfg cs norm fwd p st c0).pidx =
      if st.stop then st.pidx
      else if (v2Fold cfg cs norm c0).2 == st.pchar ∧ st.pidx < p.size then st.pidx + 1 else st.pidx := by
  unfold phase2Step
  by_cases hs : st.stop = true
  · simp [hs]
  · simp only [hs, Bool.false_eq_true, if_false]
    by_cases hc : ((v2Fold cfg cs norm c0).2 == st.pchar) = true
    · by_cases hlt : st.pidx < p.size
      · simp only [hc, hlt, if_true, and_self]
        split
        · split
          · split <;> rfl
          · rfl
        · rfl
      · simp only [hc, hlt, if_true, if_false, and_false]
        split
        · split
          · split <;> rfl
          · rfl
        · rfl
    · simp only [hc, Bool.false_eq_true, if_false, false_and]
      split
      · split
        · split <;> rfl
        · rfl
      · rfl

theorem phase2Step_pchar_eq (cfg : Cfg) (cs norm fwd : Bool) (p : Text) (st : P2) (c0 : Nat) :
    (phase2Step cfg cs norm fwd p st c0).pchar =
      if st.stop then st.pchar
      else if (v2Fold cfg cs norm c0).2 == st.pchar ∧ st.pidx < p.size then p.getD (min (st.pidx + 1) (p.size - 1)) 0 else st.pchar := by
  unfold phase2Step
  by_cases hs : st.stop = true
  · simp [hs]
  · simp only [hs, Bool.false_eq_true, if_false]
    by_cases hc : ((v2Fold cfg cs norm c0).2 == st.pchar) = true
    · by_cases hlt : st.pidx < p.size
      · simp only [hc, hlt, if_true, and_self]
        split
        · split
          · split <;> rfl
          · rfl
        · rfl
      · simp only [hc, hlt, if_true, if_false, and_false]
        split
        · split
          · split <;> rfl
          · rfl
        · rfl
    · simp only [hc, Bool.false_eq_true, if_false, false_and]
      split
      · split
        · split <;> rfl
        · rfl
      · rfl

theorem phase2Step_stop (cfg : Cfg) (cs norm fwd : Bool) (p : Text) (st : P2) (c0 : Nat)
    (h : (phase2Step cfg cs norm fwd p st c0).stop = true) :
    st.stop = true ∨ (p.size = 1 ∧ (v2Fold cfg cs norm c0).2 = p.getD 0 0) := by
  unfold phase2Step at h
  by_cases hs : st.stop = true
  · exact Or.inl hs
  · simp only [hs, Bool.false_eq_true, if_false] at h
    by_cases h0 : ((v2Fold cfg cs norm c0).2 == p.getD 0 0) = true
    · by_cases hm : p.size = 1
      · exact Or.inr ⟨hm, by simpa using h0⟩
      · have hm' : (p.size == 1) = false := by simpa using hm
        simp only [h0, if_true, hm', Bool.false_and, Bool.false_eq_true, if_false] at h
        split at h <;> (try split at h) <;> simp_all
    · simp only [h0, Bool.false_eq_true, if_false] at h
      split at h <;> (try split at h) <;> simp_all

/-- What phase 2 maintains about the pattern cursor. -/
structure P2Inv (p : Text) (st : P2) : Prop where
  pchar : st.pchar = p.getD (min st.pidx (p.size - 1)) 0
  le : st.pidx ≤ p.size
  stop : st.stop = true → st.pidx = p.size

/-- The pattern cursor after one more (folded) character: greedy. -/
def advance (p : Text) (pidx c : Nat) : Nat :=
  if pidx < p.size ∧ c = p.getD pidx 0 then pidx + 1 else pidx

theorem phase2Step_inv (cfg : Cfg) (cs norm fwd : Bool) (p : Text) (st : P2) (c0 : Nat)
    (h : P2Inv p st) :
    P2Inv p (phase2Step cfg cs norm fwd p st c0) ∧
    (phase2Step cfg cs norm fwd p st c0).pidx = advance p st.pidx (v2Fold cfg cs norm c0).2 := by
  obtain ⟨hpc, hle, hstop⟩ := h
  have e1 := phase2Step_pidx_eq cfg cs norm fwd p st c0
  have e2 := phase2Step_pchar_eq cfg cs norm fwd p st c0
  have e3 := phase2Step_stop cfg cs norm fwd p st c0
  generalize phase2Step cfg cs norm fwd p st c0 = st' at e1 e2 e3
  generalize (v2Fold cfg cs norm c0).2 = c at e1 e2 e3
  have key : st'.pidx = advance p st.pidx c ∧ st'.pchar = p.getD (min st'.pidx (p.size - 1)) 0 := by
    unfold advance
    by_cases hs : st.stop = true
    · have hm := hstop hs
      simp only [hs, if_true] at e1 e2
      have hn : ¬ (st.pidx < p.size ∧ c = p.getD st.pidx 0) := by omega
      rw [if_neg hn, e1, e2]
      exact ⟨rfl, hpc⟩
    · simp only [hs, Bool.false_eq_true, if_false] at e1 e2
      by_cases hlt : st.pidx < p.size
      · have hmin : min st.pidx (p.size - 1) = st.pidx := by omega
        rw [hmin] at hpc
        by_cases hc : c = p.getD st.pidx 0
        · have hcb : (c == st.pchar) = true := by rw [hpc, hc]; exact beq_self_eq_true _
          rw [if_pos ⟨hcb, hlt⟩] at e1 e2
          rw [if_pos ⟨hlt, hc⟩, e1, e2]
          exact ⟨rfl, rfl⟩
        · have hcb : ¬ ((c == st.pchar) = true ∧ st.pidx < p.size) := by
            intro ⟨h1, _⟩; rw [hpc, beq_iff_eq] at h1; exact hc h1
          rw [if_neg hcb] at e1 e2
          have hn : ¬ (st.pidx < p.size ∧ c = p.getD st.pidx 0) := fun h => hc h.2
          rw [if_neg hn, e1, e2, hmin]
          exact ⟨rfl, hpc⟩
      · have hcb : ¬ ((c == st.pchar) = true ∧ st.pidx < p.size) := fun h => hlt h.2
        rw [if_neg hcb] at e1 e2
        have hn : ¬ (st.pidx < p.size ∧ c = p.getD st.pidx 0) := fun h => hlt h.1
        rw [if_neg hn, e1, e2]
        exact ⟨rfl, hpc⟩
  have hadv : advance p st.pidx c ≤ p.size := by unfold advance; split <;> omega
  refine ⟨⟨key.2, by rw [key.1]; exact hadv, ?_⟩, key.1⟩
  intro hs'
  rw [key.1]
  unfold advance
  rcases e3 hs' with h | ⟨hm, hc⟩
  · have := hstop h
    have hn : ¬ (st.pidx < p.size ∧ c = p.getD st.pidx 0) := by omega
    rw [if_neg hn]; exact this
  · by_cases h0 : st.pidx = 0
    · rw [if_pos ⟨by omega, by rw [h0]; exact hc⟩]; omega
    · have hn : ¬ (st.pidx < p.size ∧ c = p.getD st.pidx 0) := by omega
      rw [if_neg hn]; omega

theorem phase2_fold_pidx (cfg : Cfg) (cs norm fwd : Bool) (p : Text) (l : List Nat) (st : P2) (h : P2Inv p st) :
    P2Inv p (l.foldl (phase2Step cfg cs norm fwd p) st) ∧
    (l.foldl (phase2Step cfg cs norm fwd p) st).pidx = (l.map fun c => (v2Fold cfg cs norm c).2).foldl (advance p) st.pidx := by
  induction l generalizing st with
  | nil => exact ⟨h, rfl⟩
  | cons c l ih =>
    obtain ⟨h1, h2⟩ := phase2Step_inv cfg cs norm fwd p st c h
    obtain ⟨h3, h4⟩ := ih _ h1
    refine ⟨h3, ?_⟩
    simp only [List.foldl_cons, List.map_cons]
    rw [h4, h2]

/-- The greedy cursor reaches the end exactly when the rest of the pattern is a subsequence. -/
theorem advance_fold_iff (p : Text) (l : List Nat) (k : Nat) (hk : k ≤ p.size) :
    l.foldl (advance p) k = p.size ↔ isSubseq (p.toList.drop k) l = true := by
  induction l generalizing k with
  | nil =>
    simp only [List.foldl_nil]
    by_cases he : k = p.size
    · subst he
      have : p.toList.drop p.size = [] := by simp
      rw [this]; simp [isSubseq]
    · have hlt : k < p.size := by omega
      have hd : p.toList.drop k = p[k] :: p.toList.drop (k + 1) := by
        rw [List.drop_eq_getElem_cons (by simpa using hlt)]; simp
      rw [hd]; simp [isSubseq, he]
  | cons c l ih =>
    simp only [List.foldl_cons]
    by_cases he : k = p.size
    · subst he
      have : advance p p.size c = p.size := by unfold advance; simp
      rw [this, ih _ (Nat.le_refl _)]
      have : p.toList.drop p.size = [] := by simp
      rw [this]; simp [isSubseq]
    · have hlt : k < p.size := by omega
      have hd : p.toList.drop k = p[k] :: p.toList.drop (k + 1) := by
        rw [List.drop_eq_getElem_cons (by simpa using hlt)]; simp
      have hg : p.getD k 0 = p[k] := by simp [Array.getD, hlt]
      rw [hd]
      simp only [isSubseq]
      by_cases hc : c = p[k]
      · have : advance p k c = k + 1 := by unfold advance; simp [hlt, hg, hc]
        rw [this, ih _ (by omega)]
        simp [hc]
      · have : advance p k c = k := by unfold advance; simp [hg, hc]
        rw [this, ih _ hk, hd]
        have : (p[k] == c) = false := by simpa using fun h => hc h.symm
        simp [this]

/-- **Phase 2 finds the whole pattern exactly when it is a subsequence of the folded window.** -/
theorem phase2_pidx_iff (cfg : Cfg) (cs norm fwd : Bool) (win : Array Nat) (p : Text) (hp : 0 < p.size) :
    (phase2 cfg cs norm fwd win p).pidx = p.size ↔
      isSubseq p.toList (win.toList.map fun c => (v2Fold cfg cs norm c).2) = true := by
  unfold phase2
  have hinv : P2Inv p { pchar := p.getD 0 0, prevClass := cfg.sch.initClass } :=
    ⟨by simp, by simp, by simp⟩
  obtain ⟨_, h2⟩ := phase2_fold_pidx cfg cs norm fwd p win.toList _ hinv
  rw [h2]
  have := advance_fold_iff p (win.toList.map fun c => (v2Fold cfg cs norm c).2) 0 (by omega)
  simpa using this

/-- A character that folds to the pattern byte is one the pre-filter's relation accepts. -/
theorem fold_imp_preRel (cfg : Cfg) (cs norm : Bool) (hnorm : ∀ c, c < 128 → cfg.norm c = c) (c : Nat) (hc : c < 128)
    (b : Nat) (hfb : foldRune cfg cs norm c = b) : preRel cs c b = true := by
  obtain ⟨hf, _⟩ := foldRune_ascii cfg cs norm hnorm c hc
  rw [hf] at hfb
  unfold preRel skipRel
  cases cs
  · simp only [Bool.false_eq_true, if_false] at hfb
    by_cases hU : 65 ≤ c ∧ c ≤ 90
    · rw [if_pos hU] at hfb
      subst hfb
      simp
      omega
    · rw [if_neg hU] at hfb
      subst hfb; simp
  · simp only [if_true] at hfb
    subst hfb; simp

/-- Dropping a prefix in which the first pattern character does not occur keeps every embedding. -/
theorem sublist_drop_prefix (x : Nat) (ps : List Nat) : ∀ (pre rest : List Nat), (∀ c ∈ pre, c ≠ x) →
    List.Sublist (x :: ps) (pre ++ rest) → List.Sublist (x :: ps) rest
  | [], rest, _, h => h
  | c :: pre, rest, hne, h => by
    have hc : c ≠ x := hne c List.mem_cons_self
    have hpre : ∀ c ∈ pre, c ≠ x := fun d hd => hne d (List.mem_cons_of_mem _ hd)
    rw [List.cons_append] at h
    cases h with
    | cons _ h' => exact sublist_drop_prefix x ps pre rest hpre h'
    | cons_cons _ h' => exact absurd rfl hc

/-- … and dropping a suffix in which the last pattern character does not occur. -/
theorem sublist_drop_suffix (ps : List Nat) (x : Nat) (rest suf : List Nat) (hne : ∀ c ∈ suf, c ≠ x)
    (h : List.Sublist (ps ++ [x]) (rest ++ suf)) : List.Sublist (ps ++ [x]) rest := by
  have h' := List.reverse_sublist.mpr h
  simp only [List.reverse_append, List.reverse_cons, List.reverse_nil, List.nil_append, List.singleton_append] at h'
  have := sublist_drop_prefix x ps.reverse suf.reverse rest.reverse (by simpa using hne) h'
  have h2 := List.reverse_sublist.mpr this
  simpa using h2

/-- Past the first pattern character the loop leaves `firstIdx` alone and ends on a position of
    the text. -/
theorem loop_some_later (t p : Text) (cs : Bool) :
    ∀ (fuel pidx idx f l f' l' : Nat), pidx ≠ 0 → asciiFuzzyIndex.loop t p cs pidx idx f l fuel = some (f', l') →
      f' = f ∧ (fuel = 0 → l' = l) ∧ (0 < fuel → l' < t.size)
  | 0, pidx, idx, f, l, f', l', _, h => by
    unfold asciiFuzzyIndex.loop at h
    simp only [Option.some.injEq, Prod.mk.injEq] at h
    exact ⟨h.1.symm, fun _ => h.2.symm, fun h0 => absurd h0 (by omega)⟩
  | fuel + 1, pidx, idx, f, l, f', l', hp, h => by
    unfold asciiFuzzyIndex.loop at h
    rw [trySkip_eq] at h
    have hspec := trySkip_go_spec t (!cs && decide (97 ≤ p.getD pidx 0) && decide (p.getD pidx 0 ≤ 122)) (p.getD pidx 0)
      (t.size - idx)
    cases hres : trySkip.go t (p.getD pidx 0) (!cs && decide (97 ≤ p.getD pidx 0) && decide (p.getD pidx 0 ≤ 122)) idx (t.size - idx) with
    | none => rw [hres] at h; cases h
    | some i =>
      rw [hres] at h
      have hp0 : (pidx == 0) = false := by simpa using hp
      simp only [hp0, Bool.false_and, Bool.false_eq_true, if_false] at h
      obtain ⟨h1, h2, h3⟩ := loop_some_later t p cs fuel (pidx + 1) (i + 1) f i f' l' (by omega) h
      refine ⟨h1, fun h0 => absurd h0 (by omega), fun _ => ?_⟩
      by_cases hidx : idx ≤ t.size
      · have hs := hspec idx (by omega)
        rw [hres] at hs
        by_cases hf : fuel = 0
        · rw [h2 hf]; exact hs.2.1
        · exact h3 (by omega)
      · -- the scan cannot succeed past the end of the text
        have : t.size - idx = 0 := by omega
        rw [this] at hres
        unfold trySkip.go at hres
        cases hres

/-- The backward scan for the last pattern character: it ends right after the text, or right
    after the last position holding that character. -/
theorem back_spec (t : Text) (lastIdx b bu : Nat) : ∀ (off : Nat),
    lastIdx + 1 ≤ asciiFuzzyIndex.back t lastIdx b bu off ∧
    asciiFuzzyIndex.back t lastIdx b bu off ≤ lastIdx + off + 1 ∧
    ∀ j, asciiFuzzyIndex.back t lastIdx b bu off ≤ j → j ≤ lastIdx + off → (t.getD j 0 ≠ b ∧ t.getD j 0 ≠ bu)
  | 0 => by
    unfold asciiFuzzyIndex.back
    exact ⟨Nat.le_refl _, Nat.le_refl _, fun j h1 h2 => by omega⟩
  | off + 1 => by
    unfold asciiFuzzyIndex.back
    by_cases hc : (t.getD (lastIdx + (off + 1)) 0 == b || t.getD (lastIdx + (off + 1)) 0 == bu) = true
    · simp only [hc, if_true]
      exact ⟨by omega, by omega, fun j h1 h2 => by omega⟩
    · simp only [hc, Bool.false_eq_true, if_false]
      obtain ⟨h1, h2, h3⟩ := back_spec t lastIdx b bu off
      refine ⟨h1, by omega, fun j hj1 hj2 => ?_⟩
      by_cases hj : j = lastIdx + (off + 1)
      · subst hj
        simp only [Bool.or_eq_true, beq_iff_eq, not_or] at hc
        exact hc
      · exact h3 j hj1 (by omega)

/-- What the first phase returns for a non-empty pattern: `firstIdx` is the position before the
    first character the relation accepts for the first pattern byte (or 0), and `lastIdx` is a
    position of the text. -/
theorem loop_some_first (t p : Text) (cs : Bool) (fuel f' l' : Nat)
    (h : asciiFuzzyIndex.loop t p cs 0 0 0 0 (fuel + 1) = some (f', l')) :
    l' < t.size ∧ ∀ j, j < f' → preRel cs (t.getD j 0) (p.getD 0 0) = false := by
  unfold asciiFuzzyIndex.loop at h
  rw [trySkip_eq] at h
  have hspec := trySkip_go_spec t (!cs && decide (97 ≤ p.getD 0 0) && decide (p.getD 0 0 ≤ 122)) (p.getD 0 0)
    (t.size - 0) 0 (by omega)
  cases hres : trySkip.go t (p.getD 0 0) (!cs && decide (97 ≤ p.getD 0 0) && decide (p.getD 0 0 ≤ 122)) 0 (t.size - 0) with
  | none => rw [hres] at h; cases h
  | some i =>
    rw [hres] at h hspec
    obtain ⟨_, k2, _, k4⟩ := hspec
    obtain ⟨h1, h2, h3⟩ := loop_some_later t p cs fuel 1 (i + 1) _ i f' l' (by omega) h
    constructor
    · by_cases hf : fuel = 0
      · rw [h2 hf]; exact k2
      · exact h3 (by omega)
    · intro j hj
      rw [h1] at hj
      have hji : j < i := by
        by_cases hi : i > 0
        · simp [hi] at hj; omega
        · simp [hi] at hj
      exact k4 j (Nat.zero_le _) hji

/-- **The window the pre-filter hands to the matcher loses no embedding**: the pattern is a
    subsequence of the folded text exactly when it is one of the folded window. -/
theorem window_keeps (cfg : Cfg) (cs norm : Bool) (hnorm : ∀ c, c < 128 → cfg.norm c = c) (t p : Text) (isBytes : Bool)
    (hascii : isBytes = true → ∀ c ∈ t.toList, c < 128) (hp : 0 < p.size) (a b : Nat)
    (h : asciiFuzzyIndex t isBytes p cs = some (a, b)) :
    (List.Sublist p.toList (t.toList.map (foldRune cfg cs norm)) ↔
     List.Sublist p.toList ((t.extract a b).toList.map (foldRune cfg cs norm))) := by
  have hext : (t.extract a b).toList = (t.toList.drop a).take (b - a) := by simp
  rw [hext]
  refine ⟨fun hs => ?_, fun hs => hs.trans (List.Sublist.map _ ((List.take_sublist _ _).trans (List.drop_sublist _ _)))⟩
  unfold asciiFuzzyIndex at h
  cases hb : isBytes with
  | false =>
    simp only [hb, Bool.not_false, if_true, Option.some.injEq, Prod.mk.injEq] at h
    obtain ⟨rfl, rfl⟩ := h
    have : (t.toList.drop 0).take (t.size - 0) = t.toList := by
      rw [List.drop_zero, Nat.sub_zero]
      exact List.take_of_length_le (by simp)
    rw [this]; exact hs
  | true =>
    have hasc := hascii hb
    simp only [hb, Bool.not_true, Bool.false_eq_true, if_false] at h
    have hpat : isAsciiPat p = true := by
      cases hq : isAsciiPat p with
      | true => rfl
      | false => simp [hq] at h
    simp only [hpat, Bool.not_true, Bool.false_eq_true, if_false] at h
    obtain ⟨m, hm⟩ : ∃ m, p.size = m + 1 := ⟨p.size - 1, by omega⟩
    rw [hm] at h
    cases hl : asciiFuzzyIndex.loop t p cs 0 0 0 0 (m + 1) with
    | none => rw [hl] at h; cases h
    | some r =>
      obtain ⟨f', l'⟩ := r
      rw [hl] at h
      simp only [Option.some.injEq, Prod.mk.injEq] at h
      obtain ⟨ha, hbk⟩ := h
      obtain ⟨hl1, hfirst⟩ := loop_some_first t p cs m f' l' hl
      rw [ha] at hfirst
      have hm1 : m + 1 - 1 = m := by omega
      rw [hm1] at hbk
      obtain ⟨hb1, hb2, hb3⟩ := back_spec t l' (p.getD m 0)
        (if (!cs && decide (97 ≤ p.getD m 0) && decide (p.getD m 0 ≤ 122)) = true then p.getD m 0 - 32 else p.getD m 0) (t.size - l' - 1)
      rw [hbk] at hb1 hb2 hb3
      -- the characters of the text, with their bound
      have hget : ∀ j, j < t.size → t.getD j 0 < 128 := by
        intro j hj
        have : t.getD j 0 = t[j] := by simp [Array.getD, hj]
        rw [this]
        exact hasc _ (by simp)
      have hne0 : p.toList ≠ [] := by
        intro e
        have hlen : p.toList.length = 0 := by rw [e]; rfl
        rw [Array.length_toList] at hlen
        omega
      -- 1. drop the prefix
      have hpl : p.toList = p.getD 0 0 :: p.toList.tail := by
        have : p.toList ≠ [] := hne0
        cases hpt : p.toList with
        | nil => exact absurd hpt this
        | cons x xs =>
          have : p.getD 0 0 = x := by
            have h0 : 0 < p.size := by omega
            simp only [Array.getD, h0, dif_pos]
            have := List.getElem_of_eq hpt (i := 0) (by simp; omega)
            simpa using this
          rw [this]; rfl
      have hsplit : t.toList.map (foldRune cfg cs norm) =
          (t.toList.take a).map (foldRune cfg cs norm) ++ (t.toList.drop a).map (foldRune cfg cs norm) := by
        rw [← List.map_append, List.take_append_drop]
      rw [hsplit, hpl] at hs
      have hs1 := sublist_drop_prefix _ _ _ _ (by
        intro c hc
        rw [List.mem_map] at hc
        obtain ⟨d, hd, rfl⟩ := hc
        rw [List.mem_iff_getElem] at hd
        obtain ⟨j, hj, rfl⟩ := hd
        simp only [List.length_take, Array.length_toList] at hj
        have hjt : j < t.size := by omega
        intro heq
        have hd' : t.getD j 0 = (t.toList.take a)[j] := by simp [Array.getD, hjt]
        have := fold_imp_preRel cfg cs norm hnorm _ (by rw [← hd']; exact hget j hjt) _ heq
        rw [← hd', hfirst j (by omega)] at this
        cases this) hs
      rw [← hpl] at hs1
      -- 2. drop the suffix
      have hpr : p.toList = p.toList.dropLast ++ [p.getD m 0] := by
        have hne : p.toList ≠ [] := hne0
        have hlast : p.toList.getLast hne = p.getD m 0 := by
          rw [List.getLast_eq_getElem]
          have hmm : m < p.size := by omega
          simp only [Array.getD, hmm, dif_pos, Array.length_toList, Array.getElem_toList]
          congr 1
          omega
        rw [← hlast]
        exact (List.dropLast_concat_getLast hne).symm
      have hsplit2 : (t.toList.drop a).map (foldRune cfg cs norm) =
          ((t.toList.drop a).take (b - a)).map (foldRune cfg cs norm) ++ ((t.toList.drop a).drop (b - a)).map (foldRune cfg cs norm) := by
        rw [← List.map_append, List.take_append_drop]
      rw [hsplit2, hpr] at hs1
      have hs2 := sublist_drop_suffix _ _ _ _ (by
        intro c hc
        rw [List.mem_map] at hc
        obtain ⟨d, hd, rfl⟩ := hc
        rw [List.mem_iff_getElem] at hd
        obtain ⟨j, hj, rfl⟩ := hd
        simp only [List.length_drop, Array.length_toList] at hj
        have hjt : a + (b - a) + j < t.size := by omega
        intro heq
        have hd' : t.getD (a + (b - a) + j) 0 = ((t.toList.drop a).drop (b - a))[j] := by
          simp [Array.getD, hjt]
        have hrel := fold_imp_preRel cfg cs norm hnorm _ (by rw [← hd']; exact hget _ hjt) _ heq
        rw [← hd'] at hrel
        have := hb3 (a + (b - a) + j) (by omega) (by omega)
        unfold preRel skipRel at hrel
        by_cases hup : (!cs && decide (97 ≤ p.getD m 0) && decide (p.getD m 0 ≤ 122)) = true
        · rw [if_pos hup] at this
          simp only [hup, Bool.true_and, Bool.or_eq_true, beq_iff_eq] at hrel
          rcases hrel with h1 | h1
          · exact this.1 h1
          · exact this.2 h1
        · rw [if_neg hup] at this
          have hup' : (!cs && decide (97 ≤ p.getD m 0) && decide (p.getD m 0 ≤ 122)) = false := by simpa using hup
          simp only [hup', Bool.false_and, Bool.or_false, beq_iff_eq] at hrel
          exact this.1 hrel) hs1
      rw [← hpr] at hs2
      exact hs2

/-- V2's own folding of a character agrees with the folding the other matchers use. -/
theorem v2Fold_eq_foldRune (cfg : Cfg) (cs norm : Bool) (hnorm : ∀ c, c < 128 → cfg.norm c = c) (c : Nat) :
    (v2Fold cfg cs norm c).2 = foldRune cfg cs norm c := by
  unfold v2Fold
  by_cases hc : c ≤ 127
  · have hlt : c < 128 := by omega
    obtain ⟨hf, _⟩ := foldRune_ascii cfg cs norm hnorm c hlt
    rw [hf]
    simp only [hc, if_true]
    unfold asciiClass
    by_cases hl : 97 ≤ c ∧ c ≤ 122
    · have hU : ¬ (65 ≤ c ∧ c ≤ 90) := by omega
      cases cs <;> simp [hl, hU, cLower, cUpper]
    · by_cases hU : 65 ≤ c ∧ c ≤ 90
      · cases cs <;> simp [hl, hU, cUpper]
      · simp only [hl, hU, if_false]
        cases cs
        · simp only [Bool.not_false, Bool.true_and, Bool.false_eq_true, if_false]
          split <;> (try split) <;> (try split) <;> simp_all [cNumber, cWhite, cDelim, cNonWord, cUpper]
        · simp
  · simp only [hc, if_false]
    unfold foldRune lowerRune
    have h1 : ¬ (65 ≤ c ∧ c ≤ 90) := by omega
    have h2 : c > 127 := by omega
    cases cs <;> cases norm <;> simp [h1, h2]

theorem fuzzyMatchV1_sound_complete (cfg : Cfg) (cs norm fwd : Bool) (t : Text) (isBytes : Bool) (p : Text) (withPos : Bool)
    (r : Res) (hp : 0 < p.size)
    (hascii : isBytes = true → ∀ c ∈ t.toList, c < 128) (hnorm : ∀ c, c < 128 → cfg.norm c = c)
    (h : fuzzyMatchV1 cfg cs norm fwd t isBytes p withPos = .ok r) :
    (0 ≤ r.start ↔ List.Sublist p.toList (t.toList.map (foldRune cfg cs norm))) := by
  cases hpre : asciiFuzzyIndex t isBytes p cs with
  | some mm =>
    exact fuzzyMatchV1_decides cfg cs norm fwd t isBytes p withPos r hp (by simp [hpre]) h
  | none =>
    have hno := asciiFuzzyIndex_none_sound cfg cs norm t p isBytes hascii hnorm hpre
    unfold fuzzyMatchV1 at h
    have hp0 : (p.size == 0) = false := by
      have : p.size ≠ 0 := by omega
      simpa using this
    simp only [hp0, hpre, Option.isNone_none, Bool.false_eq_true, if_false, if_true] at h
    cases h
    constructor
    · intro h0; simp [Res.none] at h0
    · intro hs; exact absurd hs hno

theorem except_bind_ok {ε α β : Type} (x : Except ε α) (f : α → Except ε β) (r : β) (h : (x >>= f) = .ok r) :
    ∃ a, x = .ok a ∧ f a = .ok r := by
  cases x with
  | error e => cases h
  | ok a => exact ⟨a, rfl, h⟩

theorem sublist_length_le_false (p t : List Nat) (h : t.length < p.length) : ¬ List.Sublist p t :=
  fun hs => absurd hs.length_le (by omega)

/-- **FuzzyMatchV2 decides subsequence.** Whenever it returns (match decision: `withPos = false`,
    as `Pattern.Match` calls it), it reports a match exactly when the pattern is a subsequence of
    the folded text — for every slab capacity (including the fall-back to V1 on a small slab),
    both scan directions and both text representations. -/
theorem fuzzyMatchV2_decides (cfg : Cfg) (cs norm fwd : Bool) (t : Text) (isBytes : Bool) (p : Text)
    (slabCap : Option Nat) (r : Res) (hp : 0 < p.size)
    (hascii : isBytes = true → ∀ c ∈ t.toList, c < 128) (hnorm : ∀ c, c < 128 → cfg.norm c = c)
    (h : fuzzyMatchV2 cfg cs norm fwd t isBytes p false slabCap = .ok r) :
    (0 ≤ r.start ↔ List.Sublist p.toList (t.toList.map (foldRune cfg cs norm))) := by
  unfold fuzzyMatchV2 at h
  have hp0 : (p.size == 0) = false := by
    have : p.size ≠ 0 := by omega
    simpa using this
  simp only [hp0, Bool.false_eq_true, if_false] at h
  have hnone : (0 ≤ Res.none.start) = False := by simp [Res.none]
  have hmapfold : ∀ l : List Nat, (l.map fun c => (v2Fold cfg cs norm c).2) = l.map (foldRune cfg cs norm) := by
    intro l; apply List.map_congr_left; intro c _; exact v2Fold_eq_foldRune cfg cs norm hnorm c
  by_cases hlen : p.size > t.size
  · rw [if_pos hlen] at h
    cases h
    rw [hnone, false_iff]
    exact sublist_length_le_false _ _ (by simpa using hlen)
  rw [if_neg hlen] at h
  have hv1 : ∀ h' : fuzzyMatchV1 cfg cs norm fwd t isBytes p false = .ok r,
      (0 ≤ r.start ↔ List.Sublist p.toList (t.toList.map (foldRune cfg cs norm))) :=
    fun h' => fuzzyMatchV1_sound_complete cfg cs norm fwd t isBytes p false r hp hascii hnorm h'
  cases hpre : asciiFuzzyIndex t isBytes p cs with
  | none =>
    have hno := asciiFuzzyIndex_none_sound cfg cs norm t p isBytes hascii hnorm hpre
    simp only [hpre] at h
    cases slabCap with
    | none => simp only at h; cases h; rw [hnone, false_iff]; exact hno
    | some cap =>
      simp only at h
      by_cases hbig : t.size * p.size > cap
      · rw [if_pos hbig] at h; exact hv1 h
      · rw [if_neg hbig] at h; cases h; rw [hnone, false_iff]; exact hno
  | some mm =>
    obtain ⟨minIdx, maxIdx⟩ := mm
    have hw := window_keeps cfg cs norm hnorm t p isBytes hascii hp minIdx maxIdx hpre
    have hp2 := phase2_pidx_iff cfg cs norm fwd (t.extract minIdx maxIdx) p hp
    rw [hmapfold, Spec.isSubseq_iff, ← hw] at hp2
    simp only [hpre] at h
    by_cases hne : ((phase2 cfg cs norm fwd (t.extract minIdx maxIdx) p).pidx != p.size) = true
    · simp only [hne, if_true] at h
      have hno : ¬ List.Sublist p.toList (t.toList.map (foldRune cfg cs norm)) := by
        rw [← hp2]; simpa using hne
      cases slabCap with
      | none => simp only at h; cases h; rw [hnone, false_iff]; exact hno
      | some cap =>
        simp only at h
        by_cases hbig : t.size * p.size > cap
        · rw [if_pos hbig] at h; exact hv1 h
        · rw [if_neg hbig] at h; cases h; rw [hnone, false_iff]; exact hno
    · have hsub := hp2.mp (by simpa using hne)
      simp only [hne, Bool.false_eq_true, if_false] at h
      by_cases h1 : (p.size == 1) = true
      · simp only [h1, if_true] at h
        cases slabCap with
        | none => simp only at h; cases h; exact ⟨fun _ => hsub, fun _ => Int.add_nonneg (Int.natCast_nonneg _) (Int.natCast_nonneg _)⟩
        | some cap =>
          simp only at h
          by_cases hbig : t.size * p.size > cap
          · rw [if_pos hbig] at h; exact hv1 h
          · rw [if_neg hbig] at h; cases h; exact ⟨fun _ => hsub, fun _ => Int.add_nonneg (Int.natCast_nonneg _) (Int.natCast_nonneg _)⟩
      · simp only [h1, Bool.false_eq_true, if_false, Bool.not_false, if_true] at h
        cases slabCap with
        | none =>
          simp only at h
          obtain ⟨s, _, h2⟩ := except_bind_ok _ _ _ h
          simp only [pure, Except.pure, Except.ok.injEq] at h2
          subst h2
          exact ⟨fun _ => hsub, fun _ => Int.add_nonneg (Int.natCast_nonneg _) (Int.natCast_nonneg _)⟩
        | some cap =>
          simp only at h
          by_cases hbig : t.size * p.size > cap
          · rw [if_pos hbig] at h; exact hv1 h
          · rw [if_neg hbig] at h
            obtain ⟨s, _, h2⟩ := except_bind_ok _ _ _ h
            simp only [pure, Except.pure, Except.ok.injEq] at h2
            subst h2
            exact ⟨fun _ => hsub, fun _ => Int.add_nonneg (Int.natCast_nonneg _) (Int.natCast_nonneg _)⟩

end Fzf.Algo
