import Fzf.Lemmas.Iter
import Fzf.Lemmas.Exact
/-
C01 / C02: an exact term (`'t`, every term under --exact, every negated term) is decided exactly:
it is reported to match iff its text occurs in one of the searched fields.
-/
namespace Fzf.Pattern
open Fzf Fzf.Algo

/-- `iter` returns whenever the match function returns on every token. -/
theorem iter_total (cfg : Cfg) (v2 : Bool) (typ : TermType) (cs norm fwd : Bool) (p : Array Nat) (wp : Bool) (cap : Nat) :
    ∀ (toks : List Tok), (∀ t ∈ toks, ∃ r, runTerm cfg v2 typ cs norm fwd t.text t.isBytes p wp cap = .ok r) →
    ∃ x, iter cfg v2 typ toks cs norm fwd p wp cap = .ok x := by
  intro toks
  induction toks with
  | nil => intro _; exact ⟨none, iter_nil ..⟩
  | cons tk toks ih =>
    intro h
    obtain ⟨r, hr⟩ := h tk List.mem_cons_self
    rw [iter_cons, hr]
    simp only [bind, Except.bind]
    by_cases hs : r.start ≥ 0
    · simp only [hs, if_true]; exact ⟨_, rfl⟩
    · simp only [hs, if_false]; exact ih (fun t ht => h t (List.mem_cons_of_mem _ ht))

/-- The term's text occurs in the token (after case folding / normalisation of the token). -/
def OccursIn (cfg : Cfg) (cs norm : Bool) (p : Array Nat) (tk : Tok) : Prop :=
  ∃ s, s + p.size ≤ tk.text.size ∧ ∀ i, i < p.size → foldRune cfg cs norm (tk.text.getD (s + i) 0) = p.getD i 0

/-- **Exact terms are decided exactly.** In fzf's three schemes, for tokens whose `isBytes` flag
    is truthful (it says the text is all ASCII): the exact matcher run over the searched fields
    returns, and it reports a match if and only if the term's text occurs in one of them —
    whichever direction it searches, whatever partial matches precede the occurrence. -/
theorem exact_term_decides (cfg : Cfg) (hs : RealScheme cfg) (hnorm : ∀ c, c < 128 → cfg.norm c = c)
    (v2 : Bool) (cs norm fwd : Bool) (p : Array Nat) (hm : 0 < p.size) (wp : Bool) (cap : Nat) (toks : List Tok)
    (htok : ∀ t ∈ toks, t.isBytes = true → ∀ c ∈ t.text.toList, c < 128) :
    ∃ x, iter cfg v2 .exact toks cs norm fwd p wp cap = .ok x ∧
      (x.isSome = true ↔ ∃ t ∈ toks, OccursIn cfg cs norm p t) := by
  obtain ⟨x, hx⟩ := iter_total cfg v2 .exact cs norm fwd p wp cap toks (fun t _ => by
    simp only [runTerm]; exact exactMatchNaive_total cfg cs norm fwd false t.text t.isBytes p)
  refine ⟨x, hx, ?_⟩
  cases x with
  | some res =>
    simp only [Option.isSome_some, true_iff]
    obtain ⟨pre, tk, post, r, hl, hr, hs0, _, _⟩ := iter_some cfg v2 .exact cs norm fwd p wp cap toks res hx
    simp only [runTerm] at hr
    obtain ⟨h1, h2, h3⟩ := exactMatchNaive_sound cfg cs norm fwd false tk.text tk.isBytes p hm r hr hs0
    refine ⟨tk, by rw [hl]; simp, r.start.toNat, ?_, h3⟩
    have : (r.start.toNat : Int) = r.start := Int.toNat_of_nonneg hs0
    omega
  | none =>
    simp only [Option.isSome_none, Bool.false_eq_true, false_iff]
    rintro ⟨t, ht, s, hfit, hocc⟩
    obtain ⟨r, hr, hneg⟩ := iter_none cfg v2 .exact cs norm fwd p wp cap toks hx t ht
    simp only [runTerm] at hr
    exact exactMatchNaive_complete cfg hs hnorm cs norm fwd t.text t.isBytes p (htok t ht) hm r hr hneg ⟨s, hfit, hocc⟩

end Fzf.Pattern

namespace Fzf.Pattern
open Fzf Fzf.Algo

/-- Generic form: if on every token the match function returns and reports a match exactly when
    `D` holds of the token, then `iter` returns and reports a match exactly when `D` holds of some
    token. -/
theorem iter_decides (cfg : Cfg) (v2 : Bool) (typ : TermType) (cs norm fwd : Bool) (p : Array Nat) (wp : Bool) (cap : Nat)
    (D : Tok → Prop) (toks : List Tok)
    (h : ∀ t ∈ toks, ∃ r, runTerm cfg v2 typ cs norm fwd t.text t.isBytes p wp cap = .ok r ∧ (0 ≤ r.start ↔ D t)) :
    ∃ x, iter cfg v2 typ toks cs norm fwd p wp cap = .ok x ∧ (x.isSome = true ↔ ∃ t ∈ toks, D t) := by
  obtain ⟨x, hx⟩ := iter_total cfg v2 typ cs norm fwd p wp cap toks (fun t ht => (h t ht).imp fun r hr => hr.1)
  refine ⟨x, hx, ?_⟩
  cases x with
  | some res =>
    simp only [Option.isSome_some, true_iff]
    obtain ⟨pre, tk, post, r, hl, hr, hs0, _, _⟩ := iter_some cfg v2 typ cs norm fwd p wp cap toks res hx
    have hmem : tk ∈ toks := by rw [hl]; simp
    obtain ⟨r', hr', hiff⟩ := h tk hmem
    rw [hr] at hr'; cases hr'
    exact ⟨tk, hmem, hiff.mp hs0⟩
  | none =>
    simp only [Option.isSome_none, Bool.false_eq_true, false_iff]
    rintro ⟨t, ht, hd⟩
    obtain ⟨r, hr, hneg⟩ := iter_none cfg v2 typ cs norm fwd p wp cap toks hx t ht
    obtain ⟨r', hr', hiff⟩ := h t ht
    rw [hr] at hr'; cases hr'
    have := hiff.mpr hd
    omega

/-- **Anchored terms are decided exactly**: `^t` is reported iff some searched field has `t` right
    after its leading whitespace; `t$` iff some field has it right before its trailing whitespace;
    `^t$` iff some field, trimmed, is `t` (whitespace kept where the term itself has it). -/
theorem anchored_terms_decide (cfg : Cfg) (v2 : Bool) (cs norm fwd : Bool) (p : Array Nat) (hm : 0 < p.size) (wp : Bool) (cap : Nat)
    (toks : List Tok) :
    (∃ x, iter cfg v2 .prefix toks cs norm fwd p wp cap = .ok x ∧ (x.isSome = true ↔ ∃ t ∈ toks,
      OccAt (fun c pc => foldTL cfg cs norm c == pc) t.text p (if !cfg.U.isSpace (p.getD 0 0) then leadingWhitespaces cfg t.text else 0))) ∧
    (∃ x, iter cfg v2 .suffix toks cs norm fwd p wp cap = .ok x ∧ (x.isSome = true ↔ ∃ t ∈ toks,
      p.size ≤ suffixEnd cfg t.text p ∧ OccAt (fun c pc => foldTL cfg cs norm c == pc) t.text p (suffixEnd cfg t.text p - p.size))) ∧
    (∃ x, iter cfg v2 .equal toks cs norm fwd p wp cap = .ok x ∧ (x.isSome = true ↔ ∃ t ∈ toks,
      ((t.text.size : Int) - (if !cfg.U.isSpace (p.getD 0 0) then leadingWhitespaces cfg t.text else 0 : Nat) -
          (if !cfg.U.isSpace (p.getD (p.size - 1) 0) then trailingWhitespaces cfg t.text else 0 : Nat) = p.size ∧
        OccAt (equalOk cfg cs norm) t.text p (if !cfg.U.isSpace (p.getD 0 0) then leadingWhitespaces cfg t.text else 0)))) := by
  refine ⟨?_, ?_, ?_⟩
  · apply iter_decides
    intro t _
    obtain ⟨r, hr, hiff, _⟩ := prefixMatch_spec cfg cs norm t.text p hm
    exact ⟨r, by simpa [runTerm] using hr, hiff⟩
  · apply iter_decides
    intro t _
    obtain ⟨r, hr, hiff, _⟩ := suffixMatch_spec cfg cs norm t.text p hm
    exact ⟨r, by simpa [runTerm] using hr, hiff⟩
  · apply iter_decides
    intro t _
    obtain ⟨r, hr, hiff, _⟩ := equalMatch_spec cfg cs norm t.text p hm
    exact ⟨r, by simpa [runTerm] using hr, hiff⟩

end Fzf.Pattern
