import Fzf.Model.Pattern
namespace Fzf.Pattern
open Fzf Fzf.Algo

/-- Does the term match (as the match function reports)? -/
def hits (run : Term → M (Option Hit)) (t : Term) : Bool :=
  match run t with
  | .ok (some _) => true
  | _ => false

/-- An OR-group is satisfied when some term matches with the right polarity. -/
def setSat (run : Term → M (Option Hit)) (ts : TermSet) : Prop := ∃ t ∈ ts, t.inv ≠ hits run t

theorem setMatch_spec (run : Term → M (Option Hit)) (hrun : ∀ t, ∃ r, run t = .ok r) (ts : TermSet) :
    ∃ r, setMatch run ts = .ok r ∧ (r.isSome = true ↔ setSat run ts) := by
  induction ts with
  | nil => exact ⟨none, rfl, by simp [setSat]⟩
  | cons t ts ih =>
    obtain ⟨r, hr, hiff⟩ := ih
    obtain ⟨rt, hrt⟩ := hrun t
    have hh : hits run t = rt.isSome := by unfold hits; rw [hrt]; cases rt <;> rfl
    simp only [setMatch, hrt, bind, Except.bind, pure, Except.pure]
    cases rt with
    | some h =>
      by_cases hinv : t.inv = true
      · refine ⟨r, by simp [hinv, hr], ?_⟩
        rw [hiff]
        simp only [setSat, List.mem_cons]
        constructor
        · rintro ⟨x, hx, hne⟩; exact ⟨x, Or.inr hx, hne⟩
        · rintro ⟨x, hx | hx, hne⟩
          · subst hx; simp [hh, hinv] at hne
          · exact ⟨x, hx, hne⟩
      · refine ⟨some h, by simp [hinv], ?_⟩
        simp only [Option.isSome_some, true_iff]
        exact ⟨t, List.mem_cons_self, by simp [hh, hinv]⟩
    | none =>
      by_cases hinv : t.inv = true
      · refine ⟨some (r.getD Hit.zero), by simp [hinv, hr], ?_⟩
        simp only [Option.isSome_some, true_iff]
        exact ⟨t, List.mem_cons_self, by simp [hh, hinv]⟩
      · refine ⟨r, by simp [hinv, hr], ?_⟩
        rw [hiff]
        simp only [setSat, List.mem_cons]
        constructor
        · rintro ⟨x, hx, hne⟩; exact ⟨x, Or.inr hx, hne⟩
        · rintro ⟨x, hx | hx, hne⟩
          · subst hx; simp [hh, hinv] at hne
          · exact ⟨x, hx, hne⟩

theorem setsMatch_spec (run : Term → M (Option Hit)) (hrun : ∀ t, ∃ r, run t = .ok r) (withPos : Bool)
    (sets : List TermSet) :
    ∃ r, setsMatch run withPos sets = .ok r ∧ r.1.length ≤ sets.length ∧
      (r.1.length = sets.length ↔ ∀ ts ∈ sets, setSat run ts) := by
  induction sets with
  | nil => exact ⟨([], 0, []), rfl, by simp, by simp⟩
  | cons ts rest ih =>
    obtain ⟨r, hr, hle, hiff⟩ := ih
    obtain ⟨rs, hrs, hsat⟩ := setMatch_spec run hrun ts
    obtain ⟨offs, total, allPos⟩ := r
    simp only [setsMatch, hrs, hr, bind, Except.bind, pure, Except.pure]
    cases rs with
    | some h =>
      refine ⟨_, rfl, by simp at hle ⊢; omega, ?_⟩
      simp only [List.length_cons, Nat.add_right_cancel_iff, List.forall_mem_cons]
      have : setSat run ts := hsat.mp rfl
      simp only at hiff
      rw [hiff]; simp [this]
    | none =>
      refine ⟨_, rfl, by simp at hle ⊢; omega, ?_⟩
      have hns : ¬ setSat run ts := by
        intro h; have := hsat.mpr h; simp at this
      simp only [List.length_cons, List.forall_mem_cons]
      simp only at hle
      constructor
      · intro h; omega
      · intro h; exact absurd h.1 hns

end Fzf.Pattern
