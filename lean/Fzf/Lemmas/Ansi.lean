import Fzf.Spec.Ansi
namespace Fzf.Ansi
open Fzf

/-- No byte that can start (or end) an escape sequence. -/
def Plain (s : Bytes) : Prop := ∀ i (h : i < s.size), s[i] ≠ 8 ∧ s[i] ≠ 0x0e ∧ s[i] ≠ 0x0f ∧ s[i] ≠ 0x1b

theorem nextEscape_go_plain (s : Bytes) (frm : Nat) (hp : Plain s) (i fuel : Nat) :
    nextEscape.go s frm i fuel = none := by
  induction fuel generalizing i with
  | zero => simp [nextEscape.go]
  | succ fuel ih =>
    unfold nextEscape.go
    by_cases h : i < s.size
    · obtain ⟨h1, h2, h3, h4⟩ := hp i h
      simp only [h, dite_true]
      have e1 : (s[i] == 8) = false := by simp [h1]
      have e2 : (s[i] == 0x1b) = false := by simp [h4]
      have e3 : (s[i] == 0x0e) = false := by simp [h2]
      have e4 : (s[i] == 0x0f) = false := by simp [h3]
      simp only [e1, e2, e3, e4, Bool.false_eq_true, if_false, Bool.or_self]
      exact ih (i + 1)
    · simp [h]

theorem nextEscape_plain (s : Bytes) (frm : Nat) (hp : Plain s) : nextEscape s frm = none := by
  unfold nextEscape; exact nextEscape_go_plain s frm hp _ _

theorem extractLoop_plain (s : Bytes) (idBase : Nat) (hp : Plain s) (x : EX) (fuel : Nat) :
    extractLoop s idBase x fuel = x := by
  cases fuel with
  | zero => rfl
  | succ fuel =>
    unfold extractLoop
    split
    · simp only [nextEscape_plain s _ hp]
    · rfl

theorem extractColor_plain (s : Bytes) (st : Option State) (idBase : Nat) (hp : Plain s) :
    (extractColor s st idBase).1 = s := by
  unfold extractColor
  rw [extractLoop_plain s idBase hp]
  unfold extractFinish
  simp only [if_true]
  split <;> rfl

end Fzf.Ansi
