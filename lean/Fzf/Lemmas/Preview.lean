import Fzf.Model.Preview
namespace Fzf.Preview
open Fzf

structure Inv (s : S) : Prop where
  a : ∀ r, s.box = some r → r = s.enq
  b : s.quit = false → s.box = none → (s.enq = 0 ∧ s.started = []) ∨ s.started.getLast? = some s.enq
  c : ∀ p, s.run = some p → s.started.getLast? = some p.req ∧ p.version = s.version
  d : s.quit = false → ∀ p, s.run = some p → p.killed = true → s.box.isSome = true
  e : s.quit = false → s.run = none → s.box = none → s.enq = 0 ∨ s.shown = some (s.version, s.enq)
  g : ∀ x ∈ s.started, x ≤ s.enq
  h : ∀ r, s.box = some r → ∀ x ∈ s.started, x < r
  i : s.started.Pairwise (· < ·)
  j : s.version = s.started.length

theorem init_inv : Inv {} := by
  constructor <;> simp

theorem step_inv (ends : Nat → Bool) (s s' : S) (l : Label) (h : Inv s) (hs : step ends s l = some s') : Inv s' := by
  cases l with
  | refresh =>
    simp only [step] at hs
    split at hs
    · cases hs
    · rename_i hq
      injection hs with hs; subst hs
      constructor
      · intro r hr; simp at hr; simp [hr]
      · intro _ hb; simp at hb
      · intro p hp
        simp only [Option.map_eq_some_iff] at hp
        obtain ⟨p0, hp0, hpe⟩ := hp
        have := h.c p0 hp0
        split at hpe <;> (subst hpe; exact this)
      · intro _ p _ _; simp
      · intro _ _ hb; simp at hb
      · intro x hx; have := h.g x hx; simp; omega
      · intro r hr x hx; simp at hr; have := h.g x hx; omega
      · exact h.i
      · exact h.j
  | take =>
    simp only [step] at hs
    split at hs
    · rename_i r hrun hbox
      split at hs
      · cases hs
      · rename_i hq
        have hq' : s.quit = false := by simpa using hq
        injection hs with hs; subst hs
        have hr : r = s.enq := h.a r hbox
        constructor
        · intro r' hr'; simp at hr'
        · intro _ _; right; simp [hr]
        · intro p hp; simp at hp; subst hp; simp
        · intro _ p hp hk; simp at hp; subst hp; simp at hk
        · intro _ hrun'; simp at hrun'
        · intro x hx
          simp at hx
          rcases hx with hx | hx
          · exact h.g x hx
          · simp [hx, hr]
        · intro r' hr'; simp at hr'
        · simp only [List.pairwise_append]
          refine ⟨h.i, by simp, ?_⟩
          intro a ha b hb
          simp at hb; rw [hb]
          exact h.h r hbox a ha
        · simp [h.j]
    · cases hs
  | ready =>
    simp only [step] at hs
    split at hs
    · rename_i p hrun
      split at hs
      · cases hs
      · injection hs with hs; subst hs
        constructor
        · exact h.a
        · exact h.b
        · intro p' hp'; simp at hp'; subst hp'; exact h.c p hrun
        · intro hq p' hp' hk; simp at hp'; subst hp'; exact h.d hq p hrun hk
        · intro _ hr; simp at hr
        · exact h.g
        · exact h.h
        · exact h.i
        · exact h.j
    · cases hs
  | poll =>
    simp only [step] at hs
    split at hs
    · rename_i p hrun
      split at hs
      · rename_i hc
        injection hs with hs; subst hs
        constructor
        · exact h.a
        · exact h.b
        · intro p' hp'; simp at hp'; subst hp'; exact h.c p hrun
        · intro _ p' _ _; exact hc.2.1
        · intro _ hr; simp at hr
        · exact h.g
        · exact h.h
        · exact h.i
        · exact h.j
      · cases hs
    · cases hs
  | finish =>
    simp only [step] at hs
    split at hs
    · rename_i p hrun
      split at hs
      · injection hs with hs; subst hs
        constructor
        · exact h.a
        · exact h.b
        · intro p' hp'; simp at hp'
        · intro _ p' hp'; simp at hp'
        · intro hq _ hb
          simp only at hb
          have hc := h.c p hrun
          rcases h.b hq hb with ⟨_, hst⟩ | hl
          · rw [hst] at hc; simp at hc
          · right
            rw [hl] at hc
            have : s.enq = p.req := by simpa using hc.1
            simp [this, hc.2]
        · exact h.g
        · exact h.h
        · exact h.i
        · exact h.j
      · cases hs
    · cases hs
  | die =>
    simp only [step] at hs
    split at hs
    · rename_i p hrun
      split at hs
      · rename_i hk
        injection hs with hs; subst hs
        constructor
        · exact h.a
        · exact h.b
        · intro p' hp'; simp at hp'
        · intro _ p' hp'; simp at hp'
        · intro hq _ hb
          simp only at hb
          have := h.d hq p hrun hk
          rw [hb] at this; simp at this
        · exact h.g
        · exact h.h
        · exact h.i
        · exact h.j
      · cases hs
    · cases hs
  | exit =>
    simp only [step] at hs
    split at hs
    · cases hs
    · injection hs with hs; subst hs
      constructor
      · intro r hr; simp at hr
      · intro hq; simp at hq
      · intro p hp
        simp only [Option.map_eq_some_iff] at hp
        obtain ⟨p0, hp0, hpe⟩ := hp
        have := h.c p0 hp0
        split at hpe <;> (subst hpe; exact this)
      · intro hq; simp at hq
      · intro hq; simp at hq
      · exact h.g
      · intro r hr; simp at hr
      · exact h.i
      · exact h.j

theorem run_inv (ends : Nat → Bool) (ls : List Label) (s : S) (h : Inv s) : Inv (run ends s ls) := by
  induction ls generalizing s with
  | nil => exact h
  | cons l ls ih =>
    simp only [run, List.foldl_cons]
    apply ih
    cases hs : step ends s l with
    | none => exact h
    | some s' => exact step_inv ends s s' l h hs

end Fzf.Preview
