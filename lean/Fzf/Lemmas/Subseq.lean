import Fzf.Spec.Algo
/-
The greedy decision procedure `isSubseq` is exactly `List.Sublist`.
-/
namespace Fzf.Algo.Spec

theorem isSubseq_sound : ∀ (p t : List Nat), isSubseq p t = true → List.Sublist p t
  | [], t, _ => List.nil_sublist t
  | _ :: _, [], h => by simp [isSubseq] at h
  | a :: ps, b :: ts, h => by
    unfold isSubseq at h
    by_cases hab : a = b
    · subst hab
      simp only [BEq.rfl, if_true] at h
      exact (isSubseq_sound ps ts h).cons_cons a
    · have : (a == b) = false := by simp [hab]
      simp only [this] at h
      exact (isSubseq_sound (a :: ps) ts h).cons b

theorem isSubseq_complete : ∀ (p t : List Nat), List.Sublist p t → isSubseq p t = true
  | [], t, _ => by cases t <;> simp [isSubseq]
  | a :: ps, [], h => by cases h
  | a :: ps, b :: ts, h => by
    unfold isSubseq
    by_cases hab : a = b
    · subst hab
      simp only [BEq.rfl, if_true]
      cases h with
      | cons _ h' =>
        -- a :: ps is a sublist of ts: drop its head
        exact isSubseq_complete ps ts ((List.sublist_cons_self a ps).trans h')
      | cons_cons _ h' => exact isSubseq_complete ps ts h'
    · have : (a == b) = false := by simp [hab]
      simp only [this]
      cases h with
      | cons _ h' => exact isSubseq_complete (a :: ps) ts h'
      | cons_cons _ h' => exact absurd rfl hab

theorem isSubseq_iff (p t : List Nat) : isSubseq p t = true ↔ List.Sublist p t :=
  ⟨isSubseq_sound p t, isSubseq_complete p t⟩

end Fzf.Algo.Spec
