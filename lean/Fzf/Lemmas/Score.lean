import Fzf.Lemmas.Algo
/-
C03: what `calculateScore` returns on a range in which every position matches — the documented
score of an occurrence, as a function of the line and the range alone.
-/
namespace Fzf.Algo

theorem toLower_eq_lowerRune (cfg : Cfg) (c : Nat) : toLower cfg c = lowerRune cfg c := by
  unfold toLower lowerRune
  by_cases h1 : c ≤ 127
  · by_cases h2 : 65 ≤ c ∧ c ≤ 90
    · simp [h1, h2]
    · have : ¬ c > 127 := by omega
      simp [h1, h2, this]
  · have h2 : ¬ (65 ≤ c ∧ c ≤ 90) := by omega
    have h3 : c > 127 := by omega
    simp [h1, h2, h3]

theorem foldTL_eq_foldRune (cfg : Cfg) (cs norm : Bool) (c : Nat) : foldTL cfg cs norm c = foldRune cfg cs norm c := by
  unfold foldTL foldRune
  rw [toLower_eq_lowerRune]

/-- **The documented score of a run of matched positions.** `k` = how many pattern characters
    were matched before, `prev` = class of the character before the first position, `fb` = the
    bonus the current run started with. Every position earns 16 plus its bonus; the first
    pattern character's bonus counts twice (in Go's int16); inside a run the bonus is at least the
    consecutive bonus 4 and at least the run's first bonus, and a boundary bonus larger than the
    run's first bonus becomes the new first bonus. -/
def runScore (cfg : Cfg) (t : Text) : List Nat → Nat → Nat → Int → Int
  | [], _, _, _ => 0
  | idx :: rest, k, prev, fb =>
    let cls := charClassOf cfg (t.getD idx 0)
    let b0 := bonusFor cfg.sch prev cls
    let fb' := if k = 0 then b0 else if b0 ≥ bonusBoundary ∧ b0 > fb then b0 else fb
    let bonus := if k = 0 then b0 else max (max b0 fb') bonusConsecutive
    scoreMatch + (if k = 0 then w16 (bonus * bonusFirstCharMultiplier) else bonus) + runScore cfg t rest (k + 1) cls fb'

/-- The documented score of the occurrence `[s, s+m)` of a line. -/
def occScore (cfg : Cfg) (t : Text) (s m : Nat) : Int :=
  runScore cfg t ((List.range m).map (s + ·)) 0
    (if s > 0 then charClassOf cfg (t.getD (s - 1) 0) else cfg.sch.initClass) 0

theorem max16_eq_max (a b : Int) : max16 a b = max a b := by
  unfold max16; split <;> omega

/-- One step of the walk on a matching position. -/
theorem calcStep_match (cfg : Cfg) (cs norm : Bool) (t p : Text) (st : CS) (idx : Nat)
    (h1 : idx < t.size) (h2 : st.pidx < p.size)
    (hm : foldRune cfg cs norm (t.getD idx 0) = p.getD st.pidx 0) (hk : st.consecutive = st.pidx) :
    ∃ st', calcStep cfg cs norm t p false st idx = .ok st' ∧
      st'.pidx = st.pidx + 1 ∧ st'.consecutive = st'.pidx ∧
      st'.prevClass = charClassOf cfg (t.getD idx 0) ∧
      st'.firstBonus = (let b0 := bonusFor cfg.sch st.prevClass (charClassOf cfg (t.getD idx 0))
        if st.pidx = 0 then b0 else if b0 ≥ bonusBoundary ∧ b0 > st.firstBonus then b0 else st.firstBonus) ∧
      st'.score = st.score + scoreMatch +
        (let b0 := bonusFor cfg.sch st.prevClass (charClassOf cfg (t.getD idx 0))
         let fb' := if st.pidx = 0 then b0 else if b0 ≥ bonusBoundary ∧ b0 > st.firstBonus then b0 else st.firstBonus
         let bonus := if st.pidx = 0 then b0 else max (max b0 fb') bonusConsecutive
         if st.pidx = 0 then w16 (bonus * bonusFirstCharMultiplier) else bonus) := by
  unfold calcStep
  rw [get_ok t idx _ h1, get_ok p st.pidx _ h2]
  simp only [bind, Except.bind]
  have hd : t.getD idx 0 = t[idx] := by simp [Array.getD, h1]
  have hpd : p.getD st.pidx 0 = p[st.pidx] := by simp [Array.getD, h2]
  rw [hd, hpd] at hm
  rw [hd]
  have hc : (foldRune cfg cs norm t[idx] == p[st.pidx]) = true := by rw [hm]; simp
  rw [if_pos hc]
  by_cases h0 : st.pidx = 0
  · have hc0 : st.consecutive = 0 := by omega
    refine ⟨_, rfl, rfl, ?_, rfl, ?_, ?_⟩
    · simp only; omega
    · simp [hc0, h0]
    · simp [hc0, h0]
  · have hc0 : ¬ st.consecutive = 0 := by omega
    refine ⟨_, rfl, rfl, ?_, rfl, ?_, ?_⟩
    · simp only; omega
    · simp [hc0, h0]
    · simp [hc0, h0, max16_eq_max]

/-- The walk over positions that all match adds exactly their documented run score. -/
theorem calcFold_run (cfg : Cfg) (cs norm : Bool) (t p : Text) (idxs : List Nat) (st : CS)
    (hin : ∀ idx ∈ idxs, idx < t.size) (hp : st.pidx + idxs.length ≤ p.size)
    (hm : ∀ j (h : j < idxs.length), foldRune cfg cs norm (t.getD idxs[j] 0) = p.getD (st.pidx + j) 0)
    (hk : st.consecutive = st.pidx) :
    ∃ st', idxs.foldlM (calcStep cfg cs norm t p false) st = .ok st' ∧
      st'.score = st.score + runScore cfg t idxs st.pidx st.prevClass st.firstBonus := by
  induction idxs generalizing st with
  | nil => exact ⟨st, rfl, by simp [runScore]⟩
  | cons idx rest ih =>
    simp only [List.length_cons] at hp
    have hm0 := hm 0 (by simp)
    simp only [List.getElem_cons_zero, Nat.add_zero] at hm0
    obtain ⟨st1, hs, hp1, hk1, hcls, hfb, hsc⟩ :=
      calcStep_match cfg cs norm t p st idx (hin idx List.mem_cons_self) (by omega) hm0 hk
    obtain ⟨st2, hr, hsc2⟩ := ih st1 (fun j hj => hin j (List.mem_cons_of_mem _ hj)) (by omega)
      (by
        intro j hj
        have := hm (j + 1) (by simp; omega)
        simp only [List.getElem_cons_succ] at this
        rw [this, hp1]; congr 1; omega)
      hk1
    refine ⟨st2, ?_, ?_⟩
    · simp only [List.foldlM_cons, hs, bind, Except.bind]; exact hr
    · rw [hsc2, hsc, hp1, hcls, hfb]
      simp only [runScore]
      omega

/-- **calculateScore on an occurrence.** On a range `[s, s+m)` inside the text in which every
    position carries the corresponding pattern character (under the folding calculateScore
    applies), `calculateScore` returns the documented score of that occurrence — a function of
    the line and the range, not of the pattern text. -/
theorem calculateScore_occ (cfg : Cfg) (cs norm : Bool) (t p : Text) (s : Nat)
    (hfit : s + p.size ≤ t.size)
    (hocc : ∀ i, i < p.size → foldRune cfg cs norm (t.getD (s + i) 0) = p.getD i 0) :
    calculateScore cfg cs norm t p s (s + p.size) false = .ok (occScore cfg t s p.size, Option.none) := by
  unfold calculateScore occScore
  have hsub : s + p.size - s = p.size := by omega
  rw [hsub]
  have hrun : ∀ c : Nat, ∃ st', ((List.range p.size).map (s + ·)).foldlM (calcStep cfg cs norm t p false) { prevClass := c } = .ok st' ∧
      st'.score = runScore cfg t ((List.range p.size).map (s + ·)) 0 c 0 := by
    intro c
    obtain ⟨st', h1, h2⟩ := calcFold_run cfg cs norm t p ((List.range p.size).map (s + ·)) { prevClass := c }
      (by intro idx hidx; simp only [List.mem_map, List.mem_range] at hidx; obtain ⟨k, hk, rfl⟩ := hidx; omega)
      (by simp)
      (by
        intro j hj
        simp only [List.length_map, List.length_range] at hj
        have := hocc j hj
        simp only [List.getElem_map, List.getElem_range, Nat.zero_add]
        exact this)
      rfl
    exact ⟨st', h1, by simpa using h2⟩
  by_cases hs : s > 0
  · simp only [hs, if_true, bind, Except.bind]
    have hlt0 : s - 1 < t.size := by omega
    rw [get_ok t (s - 1) _ hlt0]
    simp only [pure, Except.pure]
    have hlt : s - 1 < t.size := by omega
    have hd : t.getD (s - 1) 0 = t[s - 1] := by simp [Array.getD, hlt]
    obtain ⟨st', h1, h2⟩ := hrun (charClassOf cfg t[s - 1])
    rw [h1, hd]
    simp only [Bool.false_eq_true, if_false, h2]
  · simp only [hs, if_false, bind, Except.bind, pure, Except.pure]
    obtain ⟨st', h1, h2⟩ := hrun cfg.sch.initClass
    rw [h1]
    simp only [Bool.false_eq_true, if_false, h2]

/-- PrefixMatch scores the occurrence it reports. -/
theorem prefixMatch_score (cfg : Cfg) (cs norm : Bool) (t p : Text) (hp : 0 < p.size) (r : Res)
    (hr : prefixMatch cfg cs norm t p = .ok r) (hm : 0 ≤ r.start) :
    r.score = occScore cfg t r.start.toNat p.size := by
  unfold prefixMatch at hr
  have hp0 : (p.size == 0) = false := by
    have : p.size ≠ 0 := by omega
    simpa using this
  simp only [hp0, Bool.false_eq_true, if_false] at hr
  generalize (if !cfg.U.isSpace (p.getD 0 0) then leadingWhitespaces cfg t else 0) = off at hr
  by_cases hlen : (t.size : Int) - off < p.size
  · simp only [hlen, if_true] at hr
    injection hr with hr; subst hr; simp [Res.none] at hm
  · simp only [hlen, if_false] at hr
    have hfit : off + p.size ≤ t.size := by omega
    rw [cmpAt_ok _ t p off (List.range p.size) (by intro i hi; simp at hi; omega)] at hr
    simp only [bind, Except.bind] at hr
    by_cases hall : ((List.range p.size).all fun i => foldTL cfg cs norm (t.getD (off + i) 0) == p.getD i 0) = true
    · simp only [hall, Bool.not_true, Bool.false_eq_true, if_false] at hr
      have hocc : ∀ i, i < p.size → foldRune cfg cs norm (t.getD (off + i) 0) = p.getD i 0 := by
        intro i hi
        have := (all_range_iff _ _).mp hall i hi
        rw [foldTL_eq_foldRune] at this
        simpa using this
      rw [calculateScore_occ cfg cs norm t p off hfit hocc] at hr
      injection hr with hr; subst hr
      simp
    · simp only [hall, Bool.not_false, if_true] at hr
      injection hr with hr; subst hr; simp [Res.none] at hm

/-- SuffixMatch scores the occurrence it reports. -/
theorem suffixMatch_score (cfg : Cfg) (cs norm : Bool) (t p : Text) (hp : 0 < p.size) (r : Res)
    (hr : suffixMatch cfg cs norm t p = .ok r) (hm : 0 ≤ r.start) :
    r.score = occScore cfg t r.start.toNat p.size := by
  unfold suffixMatch at hr
  have hp0 : (p.size == 0) = false := by
    have : p.size ≠ 0 := by omega
    simpa using this
  simp only [hp0, Bool.false_or, Bool.false_eq_true, if_false] at hr
  have hte : (if (!cfg.U.isSpace (p.getD (p.size - 1) 0)) = true then t.size - trailingWhitespaces cfg t else t.size) = suffixEnd cfg t p := rfl
  rw [hte] at hr
  have hle : suffixEnd cfg t p ≤ t.size := by unfold suffixEnd; split <;> omega
  generalize suffixEnd cfg t p = te at *
  by_cases hlen : te < p.size
  · simp only [hlen, if_true] at hr
    injection hr with hr; subst hr; simp [Res.none] at hm
  · simp only [hlen, if_false] at hr
    rw [cmpAt_ok _ t p (te - p.size) (List.range p.size) (by intro i hi; simp at hi; omega)] at hr
    simp only [bind, Except.bind] at hr
    by_cases hall : ((List.range p.size).all fun i => foldTL cfg cs norm (t.getD (te - p.size + i) 0) == p.getD i 0) = true
    · simp only [hall, Bool.not_true, Bool.false_eq_true, if_false] at hr
      have hocc : ∀ i, i < p.size → foldRune cfg cs norm (t.getD (te - p.size + i) 0) = p.getD i 0 := by
        intro i hi
        have := (all_range_iff _ _).mp hall i hi
        rw [foldTL_eq_foldRune] at this
        simpa using this
      have hte2 : te = te - p.size + p.size := by omega
      have hcs := calculateScore_occ cfg cs norm t p (te - p.size) (by omega) hocc
      rw [← hte2] at hcs
      rw [hcs] at hr
      injection hr with hr; subst hr
      simp
    · simp only [hall, Bool.not_false, if_true] at hr
      injection hr with hr; subst hr; simp [Res.none] at hm

/-- In the three schemes fzf has, every bonus is between 0 and 10, so doubling the first
    character's bonus never leaves int16. -/
theorem bonusFor_range (sch : Scheme) (prev cls : Nat)
    (hs : sch = schemeDefault ∨ sch = schemePath ∨ sch = schemeHistory) :
    0 ≤ bonusFor sch prev cls ∧ bonusFor sch prev cls ≤ 10 := by
  rcases hs with h | h | h <;> subst h <;> unfold bonusFor <;> (repeat' split) <;> simp [schemeDefault, schemePath, schemeHistory, bonusBoundary, bonusCamel123, bonusNonWord]

theorem w16_small (x : Int) (h1 : -32768 ≤ x) (h2 : x < 32768) : w16 x = x := by
  unfold w16; omega

/-- Bounds of the run score in the three schemes: every matched character earns 16, every
    character after the first at least the consecutive bonus 4 and at most 10, the first at most
    twice 10. -/
theorem runScore_bounds (cfg : Cfg) (t : Text) (hs : cfg.sch = schemeDefault ∨ cfg.sch = schemePath ∨ cfg.sch = schemeHistory)
    (idxs : List Nat) (k prev : Nat) (fb : Int) (hfb : 0 ≤ fb ∧ fb ≤ 10) :
    (20 : Int) * idxs.length - (if k = 0 ∧ idxs ≠ [] then 4 else 0) ≤ runScore cfg t idxs k prev fb ∧
    runScore cfg t idxs k prev fb ≤ (26 : Int) * idxs.length + (if k = 0 ∧ idxs ≠ [] then 10 else 0) := by
  induction idxs generalizing k prev fb with
  | nil => simp [runScore]
  | cons idx rest ih =>
    have hb := bonusFor_range cfg.sch prev (charClassOf cfg (t.getD idx 0)) hs
    simp only [runScore]
    have e16 : (scoreMatch : Int) = 16 := rfl
    rw [e16]
    generalize bonusFor cfg.sch prev (charClassOf cfg (t.getD idx 0)) = b0 at hb ⊢
    by_cases hk : k = 0
    · subst hk
      simp only [if_true]
      have hw : w16 (b0 * bonusFirstCharMultiplier) = b0 * 2 := by
        rw [show b0 * bonusFirstCharMultiplier = b0 * 2 from rfl]; exact w16_small _ (by omega) (by omega)
      rw [hw]
      have := ih 1 (charClassOf cfg (t.getD idx 0)) b0 hb
      simp only [Nat.succ_ne_zero, false_and, if_false] at this
      simp only [List.length_cons, ne_eq, reduceCtorEq, not_false_eq_true, and_self, if_true]
      push_cast
      constructor <;> omega
    · simp only [hk, if_false, false_and]
      have hfb' : 0 ≤ (if b0 ≥ bonusBoundary ∧ b0 > fb then b0 else fb) ∧ (if b0 ≥ bonusBoundary ∧ b0 > fb then b0 else fb) ≤ 10 := by
        split <;> omega
      generalize (if b0 ≥ bonusBoundary ∧ b0 > fb then b0 else fb) = fb' at hfb' ⊢
      have := ih (k + 1) (charClassOf cfg (t.getD idx 0)) fb' hfb'
      simp only [Nat.succ_ne_zero, false_and, if_false] at this
      simp only [List.length_cons]
      push_cast
      have hmx : (4 : Int) ≤ max (max b0 fb') bonusConsecutive ∧ max (max b0 fb') bonusConsecutive ≤ 10 := by
        simp only [bonusConsecutive]; omega
      constructor <;> omega

end Fzf.Algo
