import Fzf.Lemmas.Algo
/-
The ASCII pre-filter (`asciiFuzzyIndex` / `trySkip`) is sound: when it rejects a text, the
pattern is not a subsequence of the folded text.
-/
namespace Fzf.Algo
open Fzf.Algo.Spec

/-- Greedy subsequence test under an arbitrary "text character matches pattern character" relation. -/
def greedyBy (R : Nat → Nat → Bool) : List Nat → List Nat → Bool
  | [], _ => true
  | _ :: _, [] => false
  | b :: ps, c :: ts => if R c b then greedyBy R ps ts else greedyBy R (b :: ps) ts

/-- If the pattern embeds into the mapped text and, on the characters of this text, the relation
    is at least as permissive as equality after mapping, the greedy test succeeds. -/
theorem greedyBy_complete (R : Nat → Nat → Bool) (f : Nat → Nat) :
    ∀ (ps ts : List Nat), (∀ c ∈ ts, ∀ b, f c = b → R c b = true) → List.Sublist ps (ts.map f) → greedyBy R ps ts = true
  | [], ts, _, _ => by cases ts <;> simp [greedyBy]
  | b :: ps, [], _, h => by simp at h
  | b :: ps, c :: ts, hR, h => by
    unfold greedyBy
    simp only [List.map_cons] at h
    have hR' : ∀ c' ∈ ts, ∀ b, f c' = b → R c' b = true := fun c' hc' => hR c' (List.mem_cons_of_mem _ hc')
    by_cases hr : R c b = true
    · simp only [hr, if_true]
      cases h with
      | cons _ h' => exact greedyBy_complete R f ps ts hR' ((List.sublist_cons_self b ps).trans h')
      | cons_cons _ h' => exact greedyBy_complete R f ps ts hR' h'
    · simp only [hr, Bool.false_eq_true, if_false]
      cases h with
      | cons _ h' => exact greedyBy_complete R f (b :: ps) ts hR' h'
      | cons_cons _ h' => exact absurd (hR c List.mem_cons_self (f c) rfl) hr

theorem greedyBy_none (R : Nat → Nat → Bool) (b : Nat) (ps : List Nat) :
    ∀ (l : List Nat), (∀ x ∈ l, R x b = false) → greedyBy R (b :: ps) l = false
  | [], _ => rfl
  | x :: l, h => by
    have hx : R x b = false := h x List.mem_cons_self
    simp only [greedyBy, hx, Bool.false_eq_true, if_false]
    exact greedyBy_none R b ps l (fun y hy => h y (List.mem_cons_of_mem _ hy))

theorem greedyBy_skip (R : Nat → Nat → Bool) (b : Nat) (ps : List Nat) :
    ∀ (l1 l2 : List Nat), (∀ x ∈ l1, R x b = false) → greedyBy R (b :: ps) (l1 ++ l2) = greedyBy R (b :: ps) l2
  | [], l2, _ => rfl
  | x :: l1, l2, h => by
    have hx : R x b = false := h x List.mem_cons_self
    simp only [List.cons_append, greedyBy, hx, Bool.false_eq_true, if_false]
    exact greedyBy_skip R b ps l1 l2 (fun y hy => h y (List.mem_cons_of_mem _ hy))

/-- The relation `trySkip` searches with (`up` = the pattern byte is a lower-case letter and the
    match is case-insensitive). -/
def skipRel (up : Bool) (c b : Nat) : Bool := c == b || (up && c == b - 32)

theorem trySkip_go_spec (t : Text) (up : Bool) (b : Nat) :
    ∀ (fuel i : Nat), i + fuel = t.size →
      match trySkip.go t b up i fuel with
      | none => ∀ j, i ≤ j → j < t.size → skipRel up (t.getD j 0) b = false
      | some k => i ≤ k ∧ k < t.size ∧ skipRel up (t.getD k 0) b = true ∧ ∀ j, i ≤ j → j < k → skipRel up (t.getD j 0) b = false
  | 0, i, h => by
    unfold trySkip.go
    intro j h1 h2; omega
  | fuel + 1, i, h => by
    unfold trySkip.go
    have hi : i < t.size := by omega
    simp only [hi, dif_pos]
    have hd : t.getD i 0 = t[i] := by simp [Array.getD, hi]
    by_cases hm : (t[i] == b || (up && t[i] == b - 32)) = true
    · simp only [hm, if_true]
      refine ⟨Nat.le_refl _, hi, ?_, ?_⟩
      · unfold skipRel; rw [hd]; exact hm
      · intro j h1 h2; omega
    · simp only [hm, Bool.false_eq_true, if_false]
      have ih := trySkip_go_spec t up b fuel (i + 1) (by omega)
      have hfalse : skipRel up (t.getD i 0) b = false := by
        unfold skipRel; rw [hd]; simpa using hm
      cases hres : trySkip.go t b up (i + 1) fuel with
      | none =>
        rw [hres] at ih
        intro j h1 h2
        by_cases hj : j = i
        · subst hj; exact hfalse
        · exact ih j (by omega) h2
      | some k =>
        rw [hres] at ih
        obtain ⟨k1, k2, k3, k4⟩ := ih
        refine ⟨by omega, k2, k3, ?_⟩
        intro j h1 h2
        by_cases hj : j = i
        · subst hj; exact hfalse
        · exact k4 j (by omega) h2

/-- The relation of the pre-filter for a pattern byte `b`. -/
def preRel (cs : Bool) (c b : Nat) : Bool := skipRel (!cs && decide (97 ≤ b) && decide (b ≤ 122)) c b

theorem trySkip_eq (t : Text) (cs : Bool) (b frm : Nat) :
    trySkip t cs b frm = trySkip.go t b (!cs && decide (97 ≤ b) && decide (b ≤ 122)) frm (t.size - frm) := rfl

/-- Pattern bytes `pidx, pidx+1, …` (`n` of them). -/
def patSlice (p : Text) (pidx n : Nat) : List Nat := (List.range n).map fun k => p.getD (pidx + k) 0

theorem patSlice_succ (p : Text) (pidx n : Nat) : patSlice p pidx (n + 1) = p.getD pidx 0 :: patSlice p (pidx + 1) n := by
  unfold patSlice
  rw [List.range_succ_eq_map, List.map_cons, List.map_map]
  simp only [Nat.add_zero, List.cons.injEq, true_and]
  apply List.map_congr_left
  intro k _
  simp only [Function.comp]
  congr 1
  omega

theorem drop_split (l : List Nat) (idx i : Nat) (h1 : idx ≤ i) (h2 : i < l.length) :
    l.drop idx = (l.drop idx).take (i - idx) ++ l[i] :: l.drop (i + 1) := by
  have h3 : (l.drop idx).drop (i - idx) = l[i] :: l.drop (i + 1) := by
    rw [List.drop_drop]
    have : idx + (i - idx) = i := by omega
    rw [this]
    exact List.drop_eq_getElem_cons h2
  rw [← h3]
  exact (List.take_append_drop _ _).symm

/-- When the first phase of the pre-filter gives up, the greedy test under its relation fails. -/
theorem loop_none (t p : Text) (cs : Bool) :
    ∀ (fuel pidx idx f l : Nat), idx ≤ t.size → asciiFuzzyIndex.loop t p cs pidx idx f l fuel = none →
      greedyBy (preRel cs) (patSlice p pidx fuel) (t.toList.drop idx) = false
  | 0, pidx, idx, f, l, _, h => by unfold asciiFuzzyIndex.loop at h; cases h
  | fuel + 1, pidx, idx, f, l, hidx, h => by
    unfold asciiFuzzyIndex.loop at h
    rw [patSlice_succ]
    have hspec := trySkip_go_spec t (!cs && decide (97 ≤ p.getD pidx 0) && decide (p.getD pidx 0 ≤ 122)) (p.getD pidx 0)
      (t.size - idx) idx (by omega)
    rw [trySkip_eq] at h
    cases hres : trySkip.go t (p.getD pidx 0) (!cs && decide (97 ≤ p.getD pidx 0) && decide (p.getD pidx 0 ≤ 122)) idx (t.size - idx) with
    | none =>
      rw [hres] at hspec
      apply greedyBy_none
      intro x hx
      rw [List.mem_iff_getElem] at hx
      obtain ⟨j, hj, rfl⟩ := hx
      simp only [List.length_drop, Array.length_toList] at hj
      have := hspec (idx + j) (by omega) (by omega)
      have hlt : idx + j < t.size := by omega
      simp only [List.getElem_drop, Array.getElem_toList]
      simpa [preRel, Array.getD, hlt] using this
    | some i =>
      rw [hres] at hspec h
      obtain ⟨k1, k2, k3, k4⟩ := hspec
      simp only at h
      have ih := loop_none t p cs fuel (pidx + 1) (i + 1) _ _ (by omega) h
      rw [drop_split t.toList idx i k1 (by simpa using k2)]
      rw [greedyBy_skip]
      · simp only [greedyBy]
        have hi : preRel cs (t.toList[i]'(by simpa using k2)) (p.getD pidx 0) = true := by
          simpa [preRel, Array.getD, k2] using k3
        simp only [hi, if_true]
        exact ih
      · intro x hx
        rw [List.mem_iff_getElem] at hx
        obtain ⟨j, hj, rfl⟩ := hx
        simp only [List.length_take, List.length_drop, Array.length_toList] at hj
        have hlt : idx + j < t.size := by omega
        have := k4 (idx + j) (by omega) (by omega)
        simp only [List.getElem_take, List.getElem_drop, Array.getElem_toList]
        simpa [preRel, Array.getD, hlt] using this

theorem patSlice_all (p : Text) : patSlice p 0 p.size = p.toList := by
  unfold patSlice
  have := range_map_getD p id
  simpa using this

theorem foldRune_ascii (cfg : Cfg) (cs norm : Bool) (hnorm : ∀ c, c < 128 → cfg.norm c = c) (c : Nat) (hc : c < 128) :
    foldRune cfg cs norm c = (if cs then c else if 65 ≤ c ∧ c ≤ 90 then c + 32 else c) ∧ foldRune cfg cs norm c < 128 := by
  unfold foldRune lowerRune
  have h127 : ¬ c > 127 := by omega
  by_cases hU : 65 ≤ c ∧ c ≤ 90
  · have h32 : c + 32 < 128 := by omega
    cases cs <;> cases norm <;> simp [hU, hnorm _ h32, hnorm _ hc] <;> omega
  · cases cs <;> cases norm <;> simp [hU, h127, hnorm _ hc] <;> omega

/-- **The ASCII pre-filter is sound**: a text it rejects does not contain the pattern as a
    subsequence (of its folded characters). `isBytes` means the text is all ASCII; normalisation
    leaves ASCII alone (checked against the regenerated table). -/
theorem asciiFuzzyIndex_none_sound (cfg : Cfg) (cs norm : Bool) (t p : Text) (isBytes : Bool)
    (hascii : isBytes = true → ∀ c ∈ t.toList, c < 128)
    (hnorm : ∀ c, c < 128 → cfg.norm c = c)
    (h : asciiFuzzyIndex t isBytes p cs = none) :
    ¬ List.Sublist p.toList (t.toList.map (foldRune cfg cs norm)) := by
  unfold asciiFuzzyIndex at h
  cases hb : isBytes with
  | false => simp [hb] at h
  | true =>
    have hasc := hascii hb
    simp only [hb, Bool.not_true, Bool.false_eq_true, if_false] at h
    by_cases hpat : isAsciiPat p = true
    · simp only [hpat, Bool.not_true, Bool.false_eq_true, if_false] at h
      cases hl : asciiFuzzyIndex.loop t p cs 0 0 0 0 p.size with
      | some r => rw [hl] at h; obtain ⟨a, b⟩ := r; simp at h
      | none =>
        have hg := loop_none t p cs p.size 0 0 0 0 (Nat.zero_le _) hl
        rw [patSlice_all, List.drop_zero] at hg
        intro hsub
        have := greedyBy_complete (preRel cs) (foldRune cfg cs norm) p.toList t.toList ?_ hsub
        · rw [this] at hg; cases hg
        · intro c hc b hfb
          have hlt := hasc c hc
          obtain ⟨hf, _⟩ := foldRune_ascii cfg cs norm hnorm c hlt
          rw [hf] at hfb
          unfold preRel skipRel
          cases cs
          · simp only [Bool.false_eq_true, if_false] at hfb
            by_cases hU : 65 ≤ c ∧ c ≤ 90
            · rw [if_pos hU] at hfb
              subst hfb
              simp
              omega
            · rw [if_neg hU] at hfb
              subst hfb; simp
          · simp only [if_true] at hfb
            subst hfb; simp
    · -- a pattern character outside ASCII cannot occur in an ASCII text
      intro hsub
      apply hpat
      unfold isAsciiPat
      rw [Array.all_eq_true']
      intro x hx
      have hmem : x ∈ t.toList.map (foldRune cfg cs norm) := hsub.subset (by simpa using hx)
      rw [List.mem_map] at hmem
      obtain ⟨c, hc, rfl⟩ := hmem
      simpa using (foldRune_ascii cfg cs norm hnorm c (hasc c hc)).2

end Fzf.Algo
