import Fzf.Model.Algo
import Fzf.Lemmas.Algo
import Fzf.Lemmas.Score
import Fzf.Lemmas.Prefilter
/-
ExactMatchNaive / ExactMatchBoundary: the scanning loop never indexes out of range, what it
reports is an occurrence of the term, and (ExactMatchNaive) it reports one whenever one exists.
-/
namespace Fzf.Algo

/-- The text character at scan position `j` agrees with the pattern character at scan position
    `k` (scan positions run from the end when searching backward). -/
def MAt (cfg : Cfg) (cs norm fwd : Bool) (t p : Text) (j k : Nat) : Prop :=
  foldRune cfg cs norm (t.getD (indexAt j t.size fwd) 0) = p.getD (indexAt k p.size fwd) 0

theorem bonusAt_ok (cfg : Cfg) (t : Text) (idx : Nat) (h : idx < t.size) : ∃ b, bonusAt cfg t idx = .ok b := by
  unfold bonusAt
  by_cases h0 : idx = 0
  · simp [h0, pure, Except.pure]
  · have h1 : idx - 1 < t.size := by omega
    simp only [h0, if_false]
    rw [get_ok t (idx - 1) _ h1, get_ok t idx _ h]
    exact ⟨_, rfl⟩

/-- The neighbour test of ExactMatchBoundary returns. -/
theorem exNbr_ok (cfg : Cfg) (t : Text) (cond : Bool) (j : Nat) (hj : cond = false → j < t.size) :
    ∃ b, exNbr cfg t cond j = .ok b := by
  unfold exNbr
  cases cond with
  | true => exact ⟨true, rfl⟩
  | false =>
    simp only [Bool.false_eq_true, if_false]
    rw [get_ok t j _ (hj rfl)]
    exact ⟨_, rfl⟩

/-- **The comparison returns** and says "agree" only when the characters agree; without the
    boundary conditions it says "agree" exactly then. -/
theorem exDecide_spec (cfg : Cfg) (cs norm fwd boundary : Bool) (t p : Text) (st : EX)
    (hi : st.index < t.size) (hp : st.pidx < p.size) :
    ∃ ok bonus, exDecide cfg cs norm fwd boundary t p st = .ok (ok, bonus) ∧
      (ok = true → MAt cfg cs norm fwd t p st.index st.pidx) ∧
      (boundary = false → (ok = true ↔ MAt cfg cs norm fwd t p st.index st.pidx)) := by
  unfold exDecide MAt
  have h1 := indexAt_lt st.index t.size fwd hi
  have h2 := indexAt_lt st.pidx p.size fwd hp
  rw [get_ok t _ _ h1, get_ok p _ _ h2]
  simp only [bind, Except.bind]
  have hd1 : t.getD (indexAt st.index t.size fwd) 0 = t[indexAt st.index t.size fwd] := by simp [Array.getD, h1]
  have hd2 : p.getD (indexAt st.pidx p.size fwd) 0 = p[indexAt st.pidx p.size fwd] := by simp [Array.getD, h2]
  rw [hd1, hd2]
  by_cases hc : (p[indexAt st.pidx p.size fwd] == foldRune cfg cs norm t[indexAt st.index t.size fwd]) = true
  · have heq : foldRune cfg cs norm t[indexAt st.index t.size fwd] = p[indexAt st.pidx p.size fwd] := (beq_iff_eq.mp hc).symm
    rw [if_pos hc]
    obtain ⟨b, hb⟩ : ∃ b, exBonus cfg t (indexAt st.pidx p.size fwd) (indexAt st.index t.size fwd) st.bonus = .ok b := by
      unfold exBonus
      split
      · exact bonusAt_ok cfg t _ h1
      · exact ⟨_, rfl⟩
    rw [hb]
    simp only []
    cases boundary with
    | false => exact ⟨true, b, rfl, fun _ => heq, fun _ => ⟨fun _ => heq, fun _ => rfl⟩⟩
    | true =>
      simp only [if_true]
      obtain ⟨o2, ho2⟩ : ∃ o2, exLeft cfg t (decide (indexAt st.pidx p.size fwd > 0) || decide (b ≥ bonusBoundary)) (indexAt st.pidx p.size fwd) (indexAt st.index t.size fwd) = .ok o2 := by
        unfold exLeft
        split
        · exact exNbr_ok cfg t _ _ (by intro h; simp at h; omega)
        · exact ⟨_, rfl⟩
      rw [ho2]
      simp only []
      obtain ⟨o3, ho3⟩ : ∃ o3, exRight cfg t o2 (indexAt st.pidx p.size fwd) (indexAt st.index t.size fwd) p.size = .ok o3 := by
        unfold exRight
        split
        · exact exNbr_ok cfg t _ _ (by intro h; simp at h; omega)
        · exact ⟨_, rfl⟩
      rw [ho3]
      refine ⟨o3, b, rfl, fun _ => heq, ?_⟩
      intro h; cases h
  · rw [if_neg hc]
    have hne : ¬ foldRune cfg cs norm t[indexAt st.index t.size fwd] = p[indexAt st.pidx p.size fwd] := by
      intro e; exact hc (by rw [e]; simp)
    refine ⟨false, st.bonus, rfl, ?_, ?_⟩
    · intro h; cases h
    · intro _
      constructor
      · intro h; cases h
      · intro h; exact absurd h hne

/-- What the scan knows at the top of an iteration. -/
structure ExInv (cfg : Cfg) (cs norm fwd : Bool) (t p : Text) (st : EX) : Prop where
  /-- unless it has stopped: the attempt started at `index - pidx`, is shorter than the term, and
      agrees with the term so far -/
  cur : st.done = false → st.pidx ≤ st.index ∧ st.pidx < p.size ∧
    ∀ k, k < st.pidx → MAt cfg cs norm fwd t p (st.index - st.pidx + k) k
  /-- the recorded best position ends a complete occurrence (in scan coordinates) -/
  best : ∀ b, st.bestPos = some b → p.size ≤ b + 1 ∧ b < t.size ∧
    ∀ k, k < p.size → MAt cfg cs norm fwd t p (b + 1 - p.size + k) k

theorem exInv_init (cfg : Cfg) (cs norm fwd : Bool) (t p : Text) (hm : 0 < p.size) : ExInv cfg cs norm fwd t p {} :=
  ⟨fun _ => ⟨Nat.le_refl _, hm, fun k hk => absurd hk (Nat.not_lt_zero k)⟩, fun b hb => by cases hb⟩

/-- The transition keeps the invariant. -/
theorem exNext_inv (cfg : Cfg) (cs norm fwd : Bool) (t p : Text) (st : EX) (ok : Bool) (bonus : Int)
    (hinv : ExInv cfg cs norm fwd t p st) (hd : st.done = false) (hi : st.index < t.size)
    (hok : ok = true → MAt cfg cs norm fwd t p st.index st.pidx) :
    ExInv cfg cs norm fwd t p (exNext p.size st ok bonus) := by
  obtain ⟨hle, hlt, hpart⟩ := hinv.cur hd
  have hbest := hinv.best
  unfold exNext
  cases ok with
  | false =>
    simp only [Bool.false_eq_true, if_false]
    exact ⟨fun _ => ⟨Nat.zero_le _, by show 0 < p.size; omega, fun k hk => absurd hk (Nat.not_lt_zero k)⟩, hbest⟩
  | true =>
    have hm := hok rfl
    simp only [if_true]
    by_cases hfull : (st.pidx + 1 == p.size) = true
    · have hfull' : st.pidx + 1 = p.size := by simpa using hfull
      rw [if_pos hfull]
      -- the occurrence that just completed
      have hocc : p.size ≤ st.index + 1 ∧ st.index < t.size ∧
          ∀ k, k < p.size → MAt cfg cs norm fwd t p (st.index + 1 - p.size + k) k := by
        refine ⟨by omega, hi, ?_⟩
        intro k hk
        have e : st.index + 1 - p.size + k = st.index - st.pidx + k := by omega
        rw [e]
        by_cases hk' : k < st.pidx
        · exact hpart k hk'
        · have : k = st.pidx := by omega
          subst this
          have e2 : st.index - st.pidx + st.pidx = st.index := by omega
          rw [e2]; exact hm
      have hbest' : ∀ b, (if bonus > st.bestBonus then (some st.index, bonus) else (st.bestPos, st.bestBonus)).1 = some b →
          p.size ≤ b + 1 ∧ b < t.size ∧ ∀ k, k < p.size → MAt cfg cs norm fwd t p (b + 1 - p.size + k) k := by
        intro b hb
        split at hb
        · simp only [Option.some.injEq] at hb; subst hb; exact hocc
        · exact hbest b hb
      by_cases hbb : bonus ≥ bonusBoundary
      · simp only [hbb, if_true]
        exact ⟨fun h => by simp at h, hbest'⟩
      · simp only [hbb, if_false]
        exact ⟨fun _ => ⟨Nat.zero_le _, by show 0 < p.size; omega, fun k hk => absurd hk (Nat.not_lt_zero k)⟩, hbest'⟩
    · have hfull' : st.pidx + 1 ≠ p.size := by simpa using hfull
      rw [if_neg hfull]
      refine ⟨fun _ => ⟨by simp only; omega, by simp only; omega, ?_⟩, hbest⟩
      intro k hk
      simp only at hk ⊢
      have e : st.index + 1 - (st.pidx + 1) + k = st.index - st.pidx + k := by omega
      rw [e]
      by_cases hk' : k < st.pidx
      · exact hpart k hk'
      · have : k = st.pidx := by omega
        subst this
        have e2 : st.index - st.pidx + st.pidx = st.index := by omega
        rw [e2]; exact hm

theorem exStep_inv (cfg : Cfg) (cs norm fwd boundary : Bool) (t p : Text) (st : EX)
    (hinv : ExInv cfg cs norm fwd t p st) (hd : st.done = false) (hi : st.index < t.size) :
    ∃ st', exStep cfg cs norm fwd boundary t p st = .ok st' ∧ ExInv cfg cs norm fwd t p st' := by
  obtain ⟨_, hlt, _⟩ := hinv.cur hd
  obtain ⟨ok, bonus, hdec, hok, _⟩ := exDecide_spec cfg cs norm fwd boundary t p st hi hlt
  refine ⟨exNext p.size st ok bonus, ?_, exNext_inv cfg cs norm fwd t p st ok bonus hinv hd hi hok⟩
  unfold exStep
  rw [hdec]; rfl

/-- **The scanning loop returns** (no index is ever out of range) and keeps the invariant. -/
theorem exLoop_inv (cfg : Cfg) (cs norm fwd boundary : Bool) (t p : Text) (fuel : Nat) (st : EX)
    (hinv : ExInv cfg cs norm fwd t p st) :
    ∃ st', exLoop cfg cs norm fwd boundary t p fuel st = .ok st' ∧ ExInv cfg cs norm fwd t p st' := by
  induction fuel generalizing st with
  | zero => exact ⟨st, rfl, hinv⟩
  | succ fuel ih =>
    unfold exLoop
    by_cases hstop : (st.done || decide (st.index ≥ t.size)) = true
    · rw [if_pos hstop]; exact ⟨st, rfl, hinv⟩
    · rw [if_neg hstop]
      have hd : st.done = false := by
        cases h : st.done with
        | false => rfl
        | true => simp [h] at hstop
      have hi : st.index < t.size := by
        have : ¬ st.index ≥ t.size := by intro h; simp [h] at hstop
        omega
      obtain ⟨st1, hs, hinv1⟩ := exStep_inv cfg cs norm fwd boundary t p st hinv hd hi
      simp only [hs, bind, Except.bind]
      exact ih st1 hinv1

theorem underscoreAt_ok (t : Text) (cond : Bool) (j : Nat) (h : cond = true → j < t.size) : ∃ b, underscoreAt t cond j = .ok b := by
  unfold underscoreAt
  cases cond with
  | false => exact ⟨false, rfl⟩
  | true =>
    simp only [if_true]
    rw [get_ok t j _ (h rfl)]
    exact ⟨_, rfl⟩

theorem exBoundaryScore_ok (cfg : Cfg) (t : Text) (bonus : Int) (sidx eidx m : Nat) (hs : sidx ≤ t.size) :
    ∃ v, exBoundaryScore cfg t bonus sidx eidx m = .ok v := by
  unfold exBoundaryScore
  obtain ⟨u1, h1⟩ := underscoreAt_ok t (decide (sidx > 0)) (sidx - 1) (by intro h; simp at h; omega)
  obtain ⟨u2, h2⟩ := underscoreAt_ok t (decide (eidx < t.size)) eidx (by intro h; simpa using h)
  simp only [h1, h2, bind, Except.bind]
  exact ⟨_, rfl⟩

/-- The range reported for a best position is where the occurrence is, in text coordinates. -/
theorem exRange_occ (cfg : Cfg) (cs norm fwd : Bool) (t p : Text) (b : Nat)
    (h1 : p.size ≤ b + 1) (h2 : b < t.size)
    (h3 : ∀ k, k < p.size → MAt cfg cs norm fwd t p (b + 1 - p.size + k) k) :
    let r := exRange fwd t.size p.size b
    r.2 = r.1 + p.size ∧ r.2 ≤ t.size ∧
    ∀ i, i < p.size → foldRune cfg cs norm (t.getD (r.1 + i) 0) = p.getD i 0 := by
  cases fwd with
  | true =>
    simp only [exRange, if_true]
    refine ⟨by omega, by omega, ?_⟩
    intro i hi
    have := h3 i hi
    simpa [MAt, indexAt] using this
  | false =>
    simp only [exRange, Bool.false_eq_true, if_false]
    refine ⟨by omega, by omega, ?_⟩
    intro i hi
    have := h3 (p.size - 1 - i) (by omega)
    unfold MAt indexAt at this
    simp only [Bool.false_eq_true, if_false] at this
    have e1 : t.size - (b + 1 - p.size + (p.size - 1 - i)) - 1 = t.size - (b + 1) + i := by omega
    have e2 : p.size - (p.size - 1 - i) - 1 = i := by omega
    rw [e1, e2] at this
    exact this

/-- **ExactMatchNaive / ExactMatchBoundary return for every input** — the scanning loop with its
    backing up after a partial match, the neighbour look-ups of the boundary variant and the
    scoring never index outside the text or the term. -/
theorem exactMatchNaive_total (cfg : Cfg) (cs norm fwd boundary : Bool) (t : Text) (isBytes : Bool) (p : Text) :
    ∃ r, exactMatchNaive cfg cs norm fwd boundary t isBytes p = .ok r := by
  unfold exactMatchNaive
  by_cases h0 : (p.size == 0) = true
  · rw [if_pos h0]; exact ⟨_, rfl⟩
  · rw [if_neg h0]
    have hm : 0 < p.size := by
      have : p.size ≠ 0 := by simpa using h0
      omega
    by_cases h1 : t.size < p.size
    · rw [if_pos h1]; exact ⟨_, rfl⟩
    · rw [if_neg h1]
      by_cases h2 : (asciiFuzzyIndex t isBytes p cs).isNone = true
      · rw [if_pos h2]; exact ⟨_, rfl⟩
      · rw [if_neg h2]
        obtain ⟨st, hl, hinv⟩ := exLoop_inv cfg cs norm fwd boundary t p (t.size * (p.size + 1) + 1) {} (exInv_init cfg cs norm fwd t p hm)
        simp only [hl, bind, Except.bind]
        unfold exFinish
        cases hb : st.bestPos with
        | none => exact ⟨_, rfl⟩
        | some b =>
          obtain ⟨g1, g2, g3⟩ := hinv.best b hb
          obtain ⟨r1, r2, _⟩ := exRange_occ cfg cs norm fwd t p b g1 g2 g3
          simp only []
          cases boundary with
          | true =>
            obtain ⟨v, hv⟩ := exBoundaryScore_ok cfg t st.bonus (exRange fwd t.size p.size b).1 (exRange fwd t.size p.size b).2 p.size (by omega)
            simp only [if_true, hv, bind, Except.bind]
            exact ⟨_, rfl⟩
          | false =>
            obtain ⟨sc, hsc⟩ := calculateScore_ok cfg cs norm t p (exRange fwd t.size p.size b).1 (exRange fwd t.size p.size b).2 false r2 (by omega) (by omega)
            simp only [Bool.false_eq_true, if_false, hsc, bind, Except.bind]
            exact ⟨_, rfl⟩

/-- **What ExactMatchNaive / ExactMatchBoundary report is an occurrence of the term**: the
    reported range has the length of the term, lies inside the line, and carries the term
    character by character (after case folding / normalisation of the line) — searching forward
    or backward. -/
theorem exactMatchNaive_sound (cfg : Cfg) (cs norm fwd boundary : Bool) (t : Text) (isBytes : Bool) (p : Text)
    (hm : 0 < p.size) (r : Res) (hr : exactMatchNaive cfg cs norm fwd boundary t isBytes p = .ok r) (hs : 0 ≤ r.start) :
    r.stop = r.start + p.size ∧ r.stop ≤ t.size ∧
    ∀ i, i < p.size → foldRune cfg cs norm (t.getD (r.start.toNat + i) 0) = p.getD i 0 := by
  unfold exactMatchNaive at hr
  have h0 : ¬ (p.size == 0) = true := by
    have : p.size ≠ 0 := by omega
    simpa using this
  rw [if_neg h0] at hr
  by_cases h1 : t.size < p.size
  · rw [if_pos h1] at hr; injection hr with hr; subst hr; simp [Res.none] at hs
  · rw [if_neg h1] at hr
    by_cases h2 : (asciiFuzzyIndex t isBytes p cs).isNone = true
    · rw [if_pos h2] at hr; injection hr with hr; subst hr; simp [Res.none] at hs
    · rw [if_neg h2] at hr
      obtain ⟨st, hl, hinv⟩ := exLoop_inv cfg cs norm fwd boundary t p (t.size * (p.size + 1) + 1) {} (exInv_init cfg cs norm fwd t p hm)
      simp only [hl, bind, Except.bind] at hr
      unfold exFinish at hr
      cases hb : st.bestPos with
      | none => rw [hb] at hr; injection hr with hr; subst hr; simp [Res.none] at hs
      | some b =>
        rw [hb] at hr
        obtain ⟨g1, g2, g3⟩ := hinv.best b hb
        obtain ⟨r1, r2, r3⟩ := exRange_occ cfg cs norm fwd t p b g1 g2 g3
        simp only [] at hr
        cases boundary with
        | true =>
          obtain ⟨v, hv⟩ := exBoundaryScore_ok cfg t st.bonus (exRange fwd t.size p.size b).1 (exRange fwd t.size p.size b).2 p.size (by omega)
          simp only [if_true, hv, bind, Except.bind] at hr
          injection hr with hr; subst hr
          simp only [Int.toNat_natCast]
          exact ⟨by rw [r1]; push_cast; rfl, by exact_mod_cast r2, r3⟩
        | false =>
          obtain ⟨sc, hsc⟩ := calculateScore_ok cfg cs norm t p (exRange fwd t.size p.size b).1 (exRange fwd t.size p.size b).2 false r2 (by omega) (by omega)
          simp only [Bool.false_eq_true, if_false, hsc, bind, Except.bind] at hr
          injection hr with hr; subst hr
          simp only [Int.toNat_natCast]
          exact ⟨by rw [r1]; push_cast; rfl, by exact_mod_cast r2, r3⟩

/-! ### Completeness of ExactMatchNaive -/

def RealScheme (cfg : Cfg) : Prop := cfg.sch = schemeDefault ∨ cfg.sch = schemePath ∨ cfg.sch = schemeHistory

theorem bonusAt_nn (cfg : Cfg) (hs : RealScheme cfg) (t : Text) (idx : Nat) (b : Int) (h : bonusAt cfg t idx = .ok b) : 0 ≤ b := by
  unfold bonusAt at h
  by_cases h0 : idx = 0
  · simp only [h0, if_true, pure, Except.pure] at h
    injection h with h; subst h
    rcases hs with e | e | e <;> rw [e] <;> decide
  · simp only [h0, if_false] at h
    cases ha : get t ((idx - 1 : Nat) : Int) "bonusAt" with
    | error _ => simp [ha, bind, Except.bind] at h
    | ok a =>
      cases hb : get t (idx : Int) "bonusAt" with
      | error _ => simp [ha, hb, bind, Except.bind] at h
      | ok c =>
        simp only [ha, hb, bind, Except.bind, pure, Except.pure] at h
        injection h with h; subst h
        exact (bonusFor_range cfg.sch _ _ hs).1

/-- The bonus the comparison hands on is never negative (in fzf's three schemes). -/
theorem exDecide_bonus_nn (cfg : Cfg) (hs : RealScheme cfg) (cs norm fwd boundary : Bool) (t p : Text) (st : EX)
    (hb : 0 ≤ st.bonus) (ok : Bool) (bonus : Int) (h : exDecide cfg cs norm fwd boundary t p st = .ok (ok, bonus)) : 0 ≤ bonus := by
  unfold exDecide at h
  cases h1 : get t (indexAt st.index t.size fwd : Nat) "exact" with
  | error _ => simp [h1, bind, Except.bind] at h
  | ok c0 =>
    cases h2 : get p (indexAt st.pidx p.size fwd : Nat) "exact pattern" with
    | error _ => simp [h1, h2, bind, Except.bind] at h
    | ok pc =>
      simp only [h1, h2, bind, Except.bind] at h
      by_cases hc : (pc == foldRune cfg cs norm c0) = true
      · rw [if_pos hc] at h
        cases h3 : exBonus cfg t (indexAt st.pidx p.size fwd) (indexAt st.index t.size fwd) st.bonus with
        | error _ => simp [h3] at h
        | ok b =>
          have hbn : 0 ≤ b := by
            unfold exBonus at h3
            split at h3
            · exact bonusAt_nn cfg hs t _ b h3
            · injection h3 with h3; subst h3; exact hb
          simp only [h3] at h
          cases boundary with
          | false =>
            simp only [Bool.false_eq_true, if_false, pure, Except.pure] at h
            injection h with h; injection h with _ h; subst h; exact hbn
          | true =>
            simp only [if_true] at h
            cases h4 : exLeft cfg t (decide (indexAt st.pidx p.size fwd > 0) || decide (b ≥ bonusBoundary)) (indexAt st.pidx p.size fwd) (indexAt st.index t.size fwd) with
            | error _ => simp [h4] at h
            | ok o2 =>
              simp only [h4] at h
              cases h5 : exRight cfg t o2 (indexAt st.pidx p.size fwd) (indexAt st.index t.size fwd) p.size with
              | error _ => simp [h5] at h
              | ok o3 =>
                simp only [h5, pure, Except.pure] at h
                injection h with h; injection h with _ h; subst h; exact hbn
      · rw [if_neg hc] at h
        simp only [pure, Except.pure] at h
        injection h with h; injection h with _ h; subst h; exact hb

/-- The term occurs at scan position `s`. -/
def OccScan (cfg : Cfg) (cs norm fwd : Bool) (t p : Text) (s : Nat) : Prop :=
  ∀ k, k < p.size → MAt cfg cs norm fwd t p (s + k) k

/-- What the scan has ruled out (ExactMatchNaive: no boundary conditions). -/
structure CInv (cfg : Cfg) (cs norm fwd : Bool) (t p : Text) (st : EX) : Prop where
  bonus_nn : 0 ≤ st.bonus
  none_bb : st.bestPos = none → st.bestBonus = -1
  done_some : st.done = true → st.bestPos ≠ none
  covered : st.bestPos = none → ∀ s, s + p.size ≤ t.size → s < st.index - st.pidx → ¬ OccScan cfg cs norm fwd t p s

theorem cInv_init (cfg : Cfg) (cs norm fwd : Bool) (t p : Text) : CInv cfg cs norm fwd t p {} :=
  ⟨Int.le_refl 0, fun _ => rfl, fun h => (by cases h), fun _ s _ hs => absurd hs (Nat.not_lt_zero s)⟩

/-- Progress measure: start of the current attempt, then its length. -/
def exPhi (m : Nat) (st : EX) : Nat := (st.index - st.pidx) * (m + 1) + st.pidx

theorem exNext_cinv (cfg : Cfg) (cs norm fwd : Bool) (t p : Text) (st : EX) (ok : Bool) (bonus : Int)
    (hinv : ExInv cfg cs norm fwd t p st) (hc : CInv cfg cs norm fwd t p st) (hd : st.done = false) (hi : st.index < t.size)
    (hok : ok = true ↔ MAt cfg cs norm fwd t p st.index st.pidx) (hbn : 0 ≤ bonus) :
    CInv cfg cs norm fwd t p (exNext p.size st ok bonus) ∧
    ((exNext p.size st ok bonus).done = false → exPhi p.size st < exPhi p.size (exNext p.size st ok bonus)) := by
  obtain ⟨hle, hlt, hpart⟩ := hinv.cur hd
  unfold exNext
  cases ok with
  | false =>
    have hnm : ¬ MAt cfg cs norm fwd t p st.index st.pidx := fun h => by have := hok.mpr h; cases this
    simp only [Bool.false_eq_true, if_false]
    refine ⟨⟨Int.le_refl 0, hc.none_bb, fun h => (by simp [hd] at h), ?_⟩, ?_⟩
    · intro hb s hs hlt' hocc
      simp only at hlt'
      by_cases hs0 : s < st.index - st.pidx
      · exact hc.covered hb s hs hs0 hocc
      · have : s = st.index - st.pidx := by omega
        subst this
        have := hocc st.pidx hlt
        have e : st.index - st.pidx + st.pidx = st.index := by omega
        rw [e] at this
        exact hnm this
    · intro _
      simp only [exPhi]
      have : (st.index - st.pidx + 1 - 0) * (p.size + 1) = (st.index - st.pidx) * (p.size + 1) + (p.size + 1) := by
        rw [Nat.sub_zero, Nat.add_mul]; simp
      omega
  | true =>
    simp only [if_true]
    by_cases hfull : (st.pidx + 1 == p.size) = true
    · rw [if_pos hfull]
      have hsome : (if bonus > st.bestBonus then (some st.index, bonus) else (st.bestPos, st.bestBonus)).1 ≠ none := by
        split
        · simp
        · rename_i hgt
          intro hn
          have := hc.none_bb hn
          rw [this] at hgt
          exact hgt (by omega)
      by_cases hbb : bonus ≥ bonusBoundary
      · simp only [hbb, if_true]
        exact ⟨⟨hbn, fun h => absurd h hsome, fun _ => hsome, fun h => absurd h hsome⟩, fun h => (by simp at h)⟩
      · simp only [hbb, if_false]
        refine ⟨⟨Int.le_refl 0, fun h => absurd h hsome, fun h => (by simp at h), fun h => absurd h hsome⟩, ?_⟩
        intro _
        have hfull' : st.pidx + 1 = p.size := by simpa using hfull
        simp only [exPhi]
        have e : st.index - (st.pidx + 1 - 1) + 1 - 0 = st.index - st.pidx + 1 := by omega
        rw [e, Nat.add_mul]
        omega
    · rw [if_neg hfull]
      refine ⟨⟨hbn, hc.none_bb, fun h => (by simp [hd] at h), ?_⟩, ?_⟩
      · intro hb s hs hlt'
        simp only at hlt'
        exact hc.covered hb s hs (by omega)
      · intro _
        simp only [exPhi]
        have e : st.index + 1 - (st.pidx + 1) = st.index - st.pidx := by omega
        rw [e]
        omega

theorem exStep_cinv (cfg : Cfg) (hs : RealScheme cfg) (cs norm fwd : Bool) (t p : Text) (st : EX)
    (hinv : ExInv cfg cs norm fwd t p st) (hc : CInv cfg cs norm fwd t p st) (hd : st.done = false) (hi : st.index < t.size) :
    ∃ st', exStep cfg cs norm fwd false t p st = .ok st' ∧ ExInv cfg cs norm fwd t p st' ∧ CInv cfg cs norm fwd t p st' ∧
      (st'.done = false → exPhi p.size st < exPhi p.size st') := by
  obtain ⟨_, hlt, _⟩ := hinv.cur hd
  obtain ⟨ok, bonus, hdec, hok, hiff⟩ := exDecide_spec cfg cs norm fwd false t p st hi hlt
  have hbn := exDecide_bonus_nn cfg hs cs norm fwd false t p st hc.bonus_nn ok bonus hdec
  obtain ⟨h1, h2⟩ := exNext_cinv cfg cs norm fwd t p st ok bonus hinv hc hd hi (hiff rfl) hbn
  refine ⟨exNext p.size st ok bonus, ?_, exNext_inv cfg cs norm fwd t p st ok bonus hinv hd hi hok, h1, h2⟩
  unfold exStep
  rw [hdec]; rfl

/-- With enough fuel the loop runs to its end: it stops only at a boundary-bonus occurrence or
    when the text is exhausted. -/
theorem exLoop_complete (cfg : Cfg) (hs : RealScheme cfg) (cs norm fwd : Bool) (t p : Text) (fuel : Nat) (st : EX)
    (hinv : ExInv cfg cs norm fwd t p st) (hc : CInv cfg cs norm fwd t p st)
    (hfuel : t.size * (p.size + 1) ≤ exPhi p.size st + fuel) :
    ∃ st', exLoop cfg cs norm fwd false t p fuel st = .ok st' ∧ ExInv cfg cs norm fwd t p st' ∧ CInv cfg cs norm fwd t p st' ∧
      (st'.done = true ∨ st'.index ≥ t.size) := by
  induction fuel generalizing st with
  | zero =>
    refine ⟨st, rfl, hinv, hc, ?_⟩
    cases hd : st.done with
    | true => exact Or.inl rfl
    | false =>
      right
      obtain ⟨hle, hlt, _⟩ := hinv.cur hd
      simp only [exPhi, Nat.add_zero] at hfuel
      -- (index - pidx) * (m+1) + pidx ≥ n * (m+1) with pidx < m+1 forces index - pidx ≥ n
      by_cases hcon : st.index - st.pidx < t.size
      · exfalso
        have h1 : (st.index - st.pidx + 1) * (p.size + 1) ≤ t.size * (p.size + 1) := Nat.mul_le_mul_right _ (by omega)
        rw [Nat.add_mul] at h1
        omega
      · omega
  | succ fuel ih =>
    unfold exLoop
    by_cases hstop : (st.done || decide (st.index ≥ t.size)) = true
    · rw [if_pos hstop]
      refine ⟨st, rfl, hinv, hc, ?_⟩
      cases hd : st.done with
      | true => exact Or.inl rfl
      | false => right; simpa [hd] using hstop
    · rw [if_neg hstop]
      have hd : st.done = false := by
        cases h : st.done with
        | false => rfl
        | true => simp [h] at hstop
      have hi : st.index < t.size := by
        have : ¬ st.index ≥ t.size := by intro h; simp [h] at hstop
        omega
      obtain ⟨st1, hs1, hinv1, hc1, hphi⟩ := exStep_cinv cfg hs cs norm fwd t p st hinv hc hd hi
      simp only [hs1, bind, Except.bind]
      cases hd1 : st1.done with
      | true =>
        -- stopped: any further fuel returns it unchanged
        cases fuel with
        | zero => exact ⟨st1, rfl, hinv1, hc1, Or.inl hd1⟩
        | succ f =>
          unfold exLoop
          simp only [hd1, Bool.true_or, if_true]
          exact ⟨st1, rfl, hinv1, hc1, Or.inl hd1⟩
      | false =>
        have := hphi hd1
        exact ih st1 hinv1 hc1 (by omega)

/-- An occurrence in text coordinates is an occurrence in scan coordinates. -/
theorem occ_to_scan (cfg : Cfg) (cs norm fwd : Bool) (t p : Text) (s : Nat) (hfit : s + p.size ≤ t.size)
    (hocc : ∀ i, i < p.size → foldRune cfg cs norm (t.getD (s + i) 0) = p.getD i 0) :
    OccScan cfg cs norm fwd t p (if fwd then s else t.size - s - p.size) := by
  intro k hk
  unfold MAt indexAt
  cases fwd with
  | true => simpa using hocc k hk
  | false =>
    simp only [Bool.false_eq_true, if_false]
    have := hocc (p.size - 1 - k) (by omega)
    have e1 : t.size - (t.size - s - p.size + k) - 1 = s + (p.size - 1 - k) := by omega
    have e2 : p.size - k - 1 = p.size - 1 - k := by omega
    rw [e1, e2]; exact this

/-- An occurrence makes the term a subsequence of the folded line. -/
theorem occ_sublist (f : Nat → Nat) (t p : Text) (s : Nat) (hfit : s + p.size ≤ t.size)
    (hocc : ∀ i, i < p.size → f (t.getD (s + i) 0) = p.getD i 0) :
    List.Sublist p.toList (t.toList.map f) := by
  have : p.toList = ((t.toList.map f).drop s).take p.size := by
    apply List.ext_getElem
    · simp; omega
    · intro i h1 h2
      simp only [List.getElem_take, List.getElem_drop, List.getElem_map, Array.getElem_toList]
      have hi : i < p.size := by simpa using h1
      have := hocc i hi
      have hsi : s + i < t.size := by omega
      simp only [Array.getD, hsi, hi, dite_true] at this
      exact this.symm
  rw [this]
  exact (List.take_sublist _ _).trans (List.drop_sublist _ _)

/-- **ExactMatchNaive never misses an occurrence.** In fzf's three schemes, searching forward or
    backward: when it reports no match, the term occurs nowhere in the (case-folded, normalised)
    line. `isBytes` = the text is all ASCII (what the ASCII pre-filter relies on). -/
theorem exactMatchNaive_complete (cfg : Cfg) (hs : RealScheme cfg) (hnorm : ∀ c, c < 128 → cfg.norm c = c)
    (cs norm fwd : Bool) (t : Text) (isBytes : Bool) (p : Text)
    (hascii : isBytes = true → ∀ c ∈ t.toList, c < 128) (hm : 0 < p.size) (r : Res)
    (hr : exactMatchNaive cfg cs norm fwd false t isBytes p = .ok r) (hneg : r.start < 0) :
    ¬ ∃ s, s + p.size ≤ t.size ∧ ∀ i, i < p.size → foldRune cfg cs norm (t.getD (s + i) 0) = p.getD i 0 := by
  rintro ⟨s, hfit, hocc⟩
  unfold exactMatchNaive at hr
  have h0 : ¬ (p.size == 0) = true := by
    have : p.size ≠ 0 := by omega
    simpa using this
  rw [if_neg h0] at hr
  have h1 : ¬ t.size < p.size := by omega
  rw [if_neg h1] at hr
  by_cases h2 : (asciiFuzzyIndex t isBytes p cs).isNone = true
  · have hnone : asciiFuzzyIndex t isBytes p cs = none := by
      cases h : asciiFuzzyIndex t isBytes p cs with
      | none => rfl
      | some _ => simp [h] at h2
    exact asciiFuzzyIndex_none_sound cfg cs norm t p isBytes hascii hnorm hnone (occ_sublist _ t p s hfit hocc)
  · rw [if_neg h2] at hr
    obtain ⟨st, hl, hinv, hc, hstop⟩ := exLoop_complete cfg hs cs norm fwd t p (t.size * (p.size + 1) + 1) {}
      (exInv_init cfg cs norm fwd t p hm) (cInv_init cfg cs norm fwd t p) (by omega)
    simp only [hl, bind, Except.bind] at hr
    unfold exFinish at hr
    cases hb : st.bestPos with
    | some b =>
      rw [hb] at hr
      obtain ⟨g1, g2, g3⟩ := hinv.best b hb
      obtain ⟨_, r2, _⟩ := exRange_occ cfg cs norm fwd t p b g1 g2 g3
      simp only [Bool.false_eq_true, if_false] at hr
      obtain ⟨sc, hsc⟩ := calculateScore_ok cfg cs norm t p (exRange fwd t.size p.size b).1 (exRange fwd t.size p.size b).2 false r2 (by omega) (by omega)
      simp only [hsc, bind, Except.bind] at hr
      injection hr with hr; subst hr
      simp at hneg
      omega
    | none =>
      have hd : st.done = false := by
        cases h : st.done with
        | false => rfl
        | true => exact absurd hb (hc.done_some h)
      obtain ⟨_, hlt, _⟩ := hinv.cur hd
      have hidx : st.index ≥ t.size := by
        rcases hstop with h | h
        · rw [hd] at h; cases h
        · exact h
      have hscan := occ_to_scan cfg cs norm fwd t p s hfit hocc
      refine hc.covered hb (if fwd then s else t.size - s - p.size) ?_ ?_ hscan
      · cases fwd <;> simp <;> omega
      · cases fwd <;> simp <;> omega

/-- ExactMatchNaive scores the occurrence it reports with the documented occurrence score. -/
theorem exactMatchNaive_score (cfg : Cfg) (cs norm fwd : Bool) (t : Text) (isBytes : Bool) (p : Text)
    (hm : 0 < p.size) (r : Res) (hr : exactMatchNaive cfg cs norm fwd false t isBytes p = .ok r) (hs : 0 ≤ r.start) :
    r.score = occScore cfg t r.start.toNat p.size := by
  unfold exactMatchNaive at hr
  have h0 : ¬ (p.size == 0) = true := by
    have : p.size ≠ 0 := by omega
    simpa using this
  rw [if_neg h0] at hr
  by_cases h1 : t.size < p.size
  · rw [if_pos h1] at hr; injection hr with hr; subst hr; simp [Res.none] at hs
  · rw [if_neg h1] at hr
    by_cases h2 : (asciiFuzzyIndex t isBytes p cs).isNone = true
    · rw [if_pos h2] at hr; injection hr with hr; subst hr; simp [Res.none] at hs
    · rw [if_neg h2] at hr
      obtain ⟨st, hl, hinv⟩ := exLoop_inv cfg cs norm fwd false t p (t.size * (p.size + 1) + 1) {} (exInv_init cfg cs norm fwd t p hm)
      simp only [hl, bind, Except.bind] at hr
      unfold exFinish at hr
      cases hb : st.bestPos with
      | none => rw [hb] at hr; injection hr with hr; subst hr; simp [Res.none] at hs
      | some b =>
        rw [hb] at hr
        obtain ⟨g1, g2, g3⟩ := hinv.best b hb
        obtain ⟨r1, r2, r3⟩ := exRange_occ cfg cs norm fwd t p b g1 g2 g3
        simp only [Bool.false_eq_true, if_false] at hr
        have hcs := calculateScore_occ cfg cs norm t p (exRange fwd t.size p.size b).1 (by omega) r3
        rw [← r1] at hcs
        simp only [hcs, bind, Except.bind] at hr
        injection hr with hr; subst hr
        simp
