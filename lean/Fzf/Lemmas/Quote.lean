import Fzf.Model.Quote
import Fzf.Spec.ShEval
namespace Fzf.Quote
open Fzf Fzf.ShEval

/-- Inside an open quote, the escaped text followed by the closing quote appends exactly `s`. -/
theorem eval_escPosix (s rest : Str) (ws : List Str) (cur : Str) :
    eval (escPosix s ++ 39 :: rest) true ws (some cur) = eval rest false ws (some (s.reverse ++ cur)) := by
  induction s generalizing cur with
  | nil => simp [escPosix, eval]
  | cons c cs ih =>
    by_cases hc : c = 39
    · subst hc
      have : escPosix (39 :: cs) = 39 :: 92 :: 39 :: 39 :: escPosix cs := by simp [escPosix]
      rw [this]
      simp only [List.cons_append, eval, if_true, Option.getD_some]
      have h10 : (39 : Nat) ≠ 10 := by decide
      simp only [h10, if_false]
      rw [ih]; simp
    · have : escPosix (c :: cs) = c :: escPosix cs := by simp [escPosix, hc]
      rw [this]
      simp only [List.cons_append, eval, hc, if_false, Option.getD_some]
      rw [ih]; simp

theorem eval_open (rest : Str) (ws : List Str) (cur : Option Str) :
    eval (39 :: rest) false ws cur = eval rest true ws (some (cur.getD [])) := by
  rw [eval.eq_def]
  simp

theorem eval_blank (rest : Str) (ws : List Str) (w : Str) :
    eval (32 :: rest) false ws (some w) = eval rest false (w.reverse :: ws) none := by
  rw [eval.eq_def]
  simp [isBlank]

theorem eval_quoteEntry (s rest : Str) (ws : List Str) (cur : Option Str) :
    eval (quoteEntry s ++ rest) false ws cur = eval rest false ws (some (s.reverse ++ cur.getD [])) := by
  unfold quoteEntry
  simp only [List.cons_append, List.append_assoc, List.singleton_append]
  rw [eval_open]
  exact eval_escPosix s rest ws (cur.getD [])

theorem words_quoteEntry (s : Str) : words (quoteEntry s) = some [s] := by
  have := eval_quoteEntry s [] [] none
  simp only [List.append_nil, Option.getD_none] at this
  unfold words; rw [this]; simp [eval]

theorem eval_join (xs : List Str) (ws : List Str) :
    eval (joinWith 32 (xs.map quoteEntry)) false ws none = some (ws.reverse ++ xs) := by
  induction xs generalizing ws with
  | nil => simp [joinWith, eval]
  | cons x rest ih =>
    cases rest with
    | nil =>
      simp only [List.map_cons, List.map_nil, joinWith]
      have := eval_quoteEntry x [] ws none
      simp only [List.append_nil, Option.getD_none] at this
      rw [this]; simp [eval]
    | cons y ys =>
      simp only [List.map_cons, joinWith]
      have := eval_quoteEntry x (32 :: joinWith 32 (quoteEntry y :: ys.map quoteEntry)) ws none
      simp only [Option.getD_none, List.append_nil] at this
      rw [this]
      rw [eval_blank, List.reverse_reverse]
      have := ih (x :: ws)
      simp only [List.map_cons] at this
      rw [this]; simp

theorem fish_go (s : Str) (acc : Str) :
    fishQuoted.go (escFish s ++ [39]) acc = some (acc.reverse ++ s) := by
  induction s generalizing acc with
  | nil => simp [escFish, fishQuoted.go]
  | cons c cs ih =>
    by_cases h1 : c = 92
    · subst h1
      have : escFish (92 :: cs) = 92 :: 92 :: escFish cs := by simp [escFish]
      rw [this]; simp only [List.cons_append, fishQuoted.go]; rw [ih]; simp
    · by_cases h2 : c = 39
      · subst h2
        have : escFish (39 :: cs) = 92 :: 39 :: escFish cs := by simp [escFish]
        rw [this]; simp only [List.cons_append, fishQuoted.go]; rw [ih]; simp
      · have : escFish (c :: cs) = c :: escFish cs := by simp [escFish, h1, h2]
        rw [this]
        simp only [List.cons_append]
        rw [fishQuoted.go.eq_def]
        split
        · next heq => simp at heq
        · next heq => simp at heq; exact absurd heq.1 h2
        · next heq => simp at heq; exact absurd heq.1 h1
        · next heq => simp at heq; exact absurd heq.1 h1
        · next heq =>
          simp at heq
          obtain ⟨rfl, rfl, rfl⟩ := heq
          rw [ih]; simp

end Fzf.Quote
