import Fzf.Spec.Reader
namespace Fzf.Reader
open Fzf

theorem splitBuf_go_spec (delim : Nat) (fuel : Nat) :
    ∀ (cur rest leftover : Str) (acc : List Str) (whole : Str),
      whole = cur.reverse ++ rest → rest.length < fuel →
      ∀ tail : Str,
        acc.reverse ++ splitRecords.go delim ((leftover ++ cur.reverse).reverse) (rest ++ tail) =
          (splitBuf.go delim true cur rest leftover acc whole fuel).1.reverse ++
            splitRecords.go delim (splitBuf.go delim true cur rest leftover acc whole fuel).2.1.reverse tail := by
  induction fuel with
  | zero => intro _ rest _ _ _ _ h; omega
  | succ fuel ih =>
    intro cur rest leftover acc whole hw hf tail
    unfold splitBuf.go
    cases rest with
    | nil =>
      simp only [List.append_nil] at hw
      by_cases he : whole.isEmpty = true
      · simp only [he, if_true, List.nil_append]
        have : cur.reverse = [] := by rw [← hw]; simpa using he
        simp [this]
      · subst hw
        simp only [he, Bool.false_eq_true, if_false, List.nil_append]
    | cons c rest' =>
      simp only
      by_cases hc : c = delim
      · subst hc
        simp only [if_true, true_or, List.cons_append, splitRecords.go]
        have := ih [] rest' [] ((leftover ++ cur.reverse) :: acc) rest' (by simp) (by simp at hf; omega) tail
        simp only [List.reverse_nil, List.append_nil, List.reverse_cons, List.append_assoc, List.singleton_append, List.nil_append] at this
        rw [← this]
        simp
      · simp only [hc, if_false, List.cons_append, splitRecords.go]
        have := ih (c :: cur) rest' leftover acc whole (by simp [hw]) (by simp at hf; omega) tail
        rw [← this]
        simp

theorem splitBuf_spec (delim : Nat) (leftover buf : Str) (acc : List Str) (tail : Str) :
    acc.reverse ++ splitRecords.go delim leftover.reverse (buf ++ tail) =
      (splitBuf delim true leftover buf acc).1.reverse ++
        splitRecords.go delim (splitBuf delim true leftover buf acc).2.1.reverse tail := by
  have := splitBuf_go_spec delim (buf.length + 1) [] buf leftover acc buf (by simp) (by omega) tail
  simpa [splitBuf] using this

/-- State invariant while reading. -/
theorem feed_fold_spec (delim : Nat) (reads : List Read) (h : OSReads reads) (s : St) (hs : s.done = false) :
    finish (reads.foldl (step delim) s) =
      s.pushed.reverse ++ splitRecords.go delim s.leftover.reverse (reads.map (·.data)).flatten := by
  induction reads generalizing s with
  | nil => exact absurd h (by simp [OSReads])
  | cons r rest ih =>
    cases rest with
    | nil =>
      simp only [OSReads] at h
      obtain ⟨hd, he⟩ := h
      simp only [List.foldl_cons, List.foldl_nil, List.map_cons, List.map_nil, List.flatten_cons, List.flatten_nil, hd,
        List.append_nil]
      unfold step
      simp only [hs, Bool.false_eq_true, if_false, hd, List.isEmpty_nil, if_true, he]
      simp only [reduceCtorEq, if_false]
      unfold splitRecords.go finish
      by_cases hl : s.leftover = []
      · simp [hl]
      · simp [hl]
    | cons r2 rest2 =>
      simp only [OSReads] at h
      obtain ⟨hn, hd, hrest⟩ := h
      simp only [List.foldl_cons, List.map_cons, List.flatten_cons]
      have hstep : step delim s r = { leftover := (splitBuf delim true s.leftover r.data s.pushed).2.1,
                                      pushed := (splitBuf delim true s.leftover r.data s.pushed).1, zeros := 0 } := by
        unfold step
        have : r.data.isEmpty = false := by cases hdd : r.data <;> simp_all
        simp [hs, this, hn]
      have := ih hrest (step delim s r) (by rw [hstep])
      simp only [List.foldl_cons, List.map_cons, List.flatten_cons] at this
      rw [this, hstep]
      simp only
      rw [← splitBuf_spec]

end Fzf.Reader

namespace Fzf.Reader
open Fzf

theorem go_record (d : Nat) (r : Str) (hr : d ∉ r) (cur rest : Str) :
    splitRecords.go d cur (r ++ d :: rest) = (cur.reverse ++ r) :: splitRecords.go d [] rest := by
  induction r generalizing cur with
  | nil => simp [splitRecords.go]
  | cons c cs ih =>
    have hc : c ≠ d := by intro h; apply hr; simp [h]
    have hcs : d ∉ cs := by intro h; apply hr; simp [h]
    simp only [List.cons_append, splitRecords.go, hc, if_false]
    rw [ih hcs]; simp

theorem go_last (d : Nat) (r : Str) (hr : d ∉ r) (cur : Str) :
    splitRecords.go d cur r = if (cur.reverse ++ r).isEmpty then [] else [cur.reverse ++ r] := by
  induction r generalizing cur with
  | nil => simp [splitRecords.go]
  | cons c cs ih =>
    have hc : c ≠ d := by intro h; apply hr; simp [h]
    have hcs : d ∉ cs := by intro h; apply hr; simp [h]
    simp only [splitRecords.go, hc, if_false]
    rw [ih hcs]; simp

theorem splitRecords_join (d : Nat) (recs : List Str) (hfree : ∀ r ∈ recs, d ∉ r) (last : Str) (hl : d ∉ last) :
    splitRecords d (recs.flatMap (· ++ [d]) ++ last) = recs ++ (if last.isEmpty then [] else [last]) := by
  unfold splitRecords
  induction recs with
  | nil => simpa using go_last d last hl []
  | cons r rs ih =>
    have := go_record d r (hfree r (by simp)) [] (rs.flatMap (· ++ [d]) ++ last)
    simp only [List.flatMap_cons, List.append_assoc, List.singleton_append, List.reverse_nil, List.nil_append,
      List.cons_append] at this ⊢
    rw [this, ih (fun x hx => hfree x (List.mem_cons_of_mem _ hx))]

end Fzf.Reader
