import Fzf.Model.KeyDecode
/-
Helper lemmas for C14: the input decoder never indexes out of range and always consumes input.
-/
namespace Fzf.KeyDecode
open Fzf Fzf.Generated

theorem decodeRune_width (b : List Nat) (h : b ≠ []) :
    1 ≤ (Utf8.decodeRune b).2 ∧ (Utf8.decodeRune b).2 ≤ b.length := by
  match b, h with
  | [b0], _ => simp only [Utf8.decodeRune]; repeat' split
               all_goals simp
  | [b0, b1], _ => simp only [Utf8.decodeRune]; repeat' split
                   all_goals simp
  | [b0, b1, b2], _ => simp only [Utf8.decodeRune]; repeat' split
                       all_goals simp
  | b0 :: b1 :: b2 :: b3 :: r, _ => simp only [Utf8.decodeRune]; repeat' split
                                    all_goals simp

theorem idx_ok (b : List Nat) (i : Nat) (h : i < b.length) : idx b i = .ok b[i] := by
  unfold idx; simp [h]

theorem fallbackKey_sz (b : List Nat) (h : 2 ≤ b.length) :
    1 ≤ (fallbackKey b).2 ∧ (fallbackKey b).2 ≤ b.length := by
  unfold fallbackKey
  have hne : b.drop 1 ≠ [] := by
    intro he
    have := congrArg List.length he
    simp at this; omega
  have hw := decodeRune_width (b.drop 1) hne
  simp only [List.isEmpty_iff, hne, if_false]
  simp only [List.length_drop] at hw
  omega

/-- Shape of a successful decoding step: the size is at least one and within the buffer. -/
def Good (b : List Nat) (r : M (Ev × Nat)) : Prop := ∃ ev sz, r = .ok (ev, sz) ∧ 1 ≤ sz ∧ sz ≤ b.length

theorem good_pure (b : List Nat) (ev : Ev) (sz : Nat) (h1 : 1 ≤ sz) (h2 : sz ≤ b.length) :
    Good b (pure (ev, sz)) := ⟨ev, sz, rfl, h1, h2⟩

theorem good_fallback (b : List Nat) (h : 2 ≤ b.length) : Good b (pure (fallbackKey b)) :=
  ⟨(fallbackKey b).1, (fallbackKey b).2, rfl, (fallbackKey_sz b h).1, (fallbackKey_sz b h).2⟩

theorem good_ite (b : List Nat) (c : Prop) [Decidable c] (x y : M (Ev × Nat))
    (hx : c → Good b x) (hy : ¬c → Good b y) : Good b (if c then x else y) := by
  by_cases h : c
  · rw [if_pos h]; exact hx h
  · rw [if_neg h]; exact hy h

theorem seqModified_ok (b : List Nat) (h : 4 ≤ b.length) : Good b (seqModified b) := by
  unfold seqModified
  by_cases h6 : b.length < 6
  · simp only [h6, if_true]; exact good_pure b _ _ (by omega) (by omega)
  · simp only [h6, if_false]
    rw [idx_ok b 4 (by omega), idx_ok b 5 (by omega)]
    simp only [bind, Except.bind]
    split
    · split
      · by_cases h7 : b.length < 7
        · simp only [h7, if_true]; exact good_pure b _ _ (by omega) (by omega)
        · simp only [h7, if_false]
          rw [idx_ok b 6 (by omega)]
          simp only []
          repeat' split
          all_goals first | exact good_pure b _ _ (by omega) (by omega) | exact good_fallback b (by omega)
      · repeat' split
        all_goals first | exact good_pure b _ _ (by omega) (by omega) | exact good_fallback b (by omega)
    · exact good_fallback b (by omega)

theorem seqDigit_ok (b : List Nat) (b2 : Nat) (h : 3 ≤ b.length) : Good b (seqDigit b b2) := by
  unfold seqDigit
  by_cases h4 : b.length < 4
  · simp only [h4, if_true]; exact good_pure b _ _ (by omega) (by omega)
  · simp only [h4, if_false]
    rw [idx_ok b 3 (by omega)]
    simp only [bind, Except.bind]
    by_cases c2 : (b2 == 50) = true
    · rw [if_pos c2]
      split
      · exact good_pure b _ _ (by omega) (by omega)
      · by_cases h5 : (b.length > 4 && b[4]? == some 126) = true
        · rw [if_pos h5]
          have : b.length > 4 := by simp at h5; exact h5.1
          repeat' split
          all_goals exact good_pure b _ _ (by omega) (by omega)
        · rw [if_neg h5]
          by_cases hp : isPaste b b[3] = true
          · rw [if_pos hp]
            have : b.length > 5 := by
              unfold isPaste at hp; simp at hp; exact hp.1.1.1
            exact good_pure b _ _ (by omega) (by omega)
          · rw [if_neg hp]
            exact good_pure b _ _ (by omega) (by omega)
    · rw [if_neg c2]
      by_cases c3 : (b2 == 51) = true
      · rw [if_pos c3]
        split
        · exact good_pure b _ _ (by omega) (by omega)
        · by_cases h6 : (b.length == 6 && b[5]? == some 126) = true
          · rw [if_pos h6]
            have h6' : b.length = 6 := by simp at h6; exact h6.1
            rw [idx_ok b 4 (by omega)]
            simp only []
            repeat' split
            all_goals exact good_pure b _ _ (by omega) (by omega)
          · rw [if_neg h6]
            exact good_pure b _ _ (by omega) (by omega)
      · rw [if_neg c3]
        refine good_ite b _ _ _ (fun _ => good_pure b _ _ (by omega) (by omega)) (fun _ => ?_)
        refine good_ite b _ _ _ (fun _ => good_pure b _ _ (by omega) (by omega)) (fun _ => ?_)
        refine good_ite b _ _ _ (fun _ => good_pure b _ _ (by omega) (by omega)) (fun _ => ?_)
        refine good_ite b _ _ _ (fun _ => good_pure b _ _ (by omega) (by omega)) (fun _ => ?_)
        refine good_ite b _ _ _ (fun _ => good_pure b _ _ (by omega) (by omega)) (fun _ => ?_)
        refine good_ite b _ _ _ (fun _ => good_pure b _ _ (by omega) (by omega)) (fun _ => ?_)
        refine good_ite b _ _ _ (fun _ => ?_) (fun _ => ?_)
        · refine good_ite b _ _ _ (fun h5 => ?_) (fun _ => good_pure b _ _ (by omega) (by omega))
          have : b.length = 5 := by simp at h5; exact h5.1
          exact good_pure b _ _ (by omega) (by omega)
        · exact good_ite b _ _ _ (fun _ => seqModified_ok b (by omega)) (fun _ => good_fallback b (by omega))

theorem takeWhile_length_le (p : Nat → Bool) (l : List Nat) : (l.takeWhile p).length ≤ l.length := by
  induction l with
  | nil => simp
  | cons a t ih => simp only [List.takeWhile]; split <;> simp <;> omega

theorem mouseSequence_sz (mouse : Bool) (yoffset : Int) (cs : Clicks) (b : List Nat) (h : 3 ≤ b.length) :
    1 ≤ (mouseSequence mouse yoffset cs b).2.1 ∧ (mouseSequence mouse yoffset cs b).2.1 ≤ b.length := by
  unfold mouseSequence
  split
  · simp; omega
  · simp only []
    have hle := takeWhile_length_le (fun c => c != 109 && c != 77) (b.drop 3)
    split
    · simp; omega
    · rename_i hne
      have hlt : (List.takeWhile (fun c => c != 109 && c != 77) (List.drop 3 b)).length < (b.drop 3).length := by omega
      simp only [List.length_drop] at hlt
      split
      · split
        · simp; omega
        · repeat' split
          all_goals (simp; omega)
      · simp; omega

theorem cursorReport_le (b : List Nat) (n : Nat) (h : cursorReport b = some n) : 1 ≤ n ∧ n ≤ b.length := by
  unfold cursorReport at h
  split at h
  · rename_i rest
    simp only [] at h
    split at h
    · exact absurd h (by simp)
    · split at h
      · rename_i rest2 heq
        split at h
        · exact absurd h (by simp)
        · split at h
          · rename_i tl heq2
            simp only [Option.some.injEq] at h
            have l1 := congrArg List.length heq
            have l2 := congrArg List.length heq2
            simp only [List.length_drop, List.length_cons] at l1 l2
            simp only [List.length_cons]
            omega
          · exact absurd h (by simp)
      · exact absurd h (by simp)
  · exact absurd h (by simp)

/-- Shape of a successful step that also returns the click state. -/
def Good3 (b : List Nat) (r : M (Ev × Nat × Clicks)) : Prop := ∃ ev sz cs, r = .ok (ev, sz, cs) ∧ 1 ≤ sz ∧ sz ≤ b.length

theorem good3_pure (b : List Nat) (ev : Ev) (sz : Nat) (cs : Clicks) (h1 : 1 ≤ sz) (h2 : sz ≤ b.length) :
    Good3 b (pure (ev, sz, cs)) := ⟨ev, sz, cs, rfl, h1, h2⟩

theorem good3_ite (b : List Nat) (c : Prop) [Decidable c] (x y : M (Ev × Nat × Clicks))
    (hx : c → Good3 b x) (hy : ¬c → Good3 b y) : Good3 b (if c then x else y) := by
  by_cases h : c
  · rw [if_pos h]; exact hx h
  · rw [if_neg h]; exact hy h

theorem seqCSI_ok (mouse : Bool) (yoffset : Int) (cs : Clicks) (alt : Bool) (b : List Nat) (h : 2 ≤ b.length) :
    Good3 b (seqCSI mouse yoffset cs alt b) := by
  unfold seqCSI
  by_cases h3 : b.length < 3
  · rw [if_pos h3]; exact good3_pure b _ _ _ (by omega) (by omega)
  · rw [if_neg h3]
    rw [idx_ok b 2 (by omega)]
    simp only [bind, Except.bind]
    refine good3_ite b _ _ _ (fun _ => good3_pure b _ _ _ (by omega) (by omega)) (fun _ => ?_)
    refine good3_ite b _ _ _ (fun _ => good3_pure b _ _ _ (by omega) (by omega)) (fun _ => ?_)
    refine good3_ite b _ _ _ (fun _ => good3_pure b _ _ _ (by omega) (by omega)) (fun _ => ?_)
    refine good3_ite b _ _ _ (fun _ => good3_pure b _ _ _ (by omega) (by omega)) (fun _ => ?_)
    refine good3_ite b _ _ _ (fun _ => good3_pure b _ _ _ (by omega) (by omega)) (fun _ => ?_)
    refine good3_ite b _ _ _ (fun _ => good3_pure b _ _ _ (by omega) (by omega)) (fun _ => ?_)
    refine good3_ite b _ _ _ (fun _ => good3_pure b _ _ _ (by omega) (by omega)) (fun _ => ?_)
    refine good3_ite b _ _ _ (fun _ => ?_) (fun _ => ?_)
    · have := mouseSequence_sz mouse yoffset cs b (by omega)
      exact ⟨_, _, _, rfl, this.1, this.2⟩
    refine good3_ite b _ _ _ (fun _ => good3_pure b _ _ _ (by omega) (by omega)) (fun _ => ?_)
    refine good3_ite b _ _ _ (fun _ => good3_pure b _ _ _ (by omega) (by omega)) (fun _ => ?_)
    refine good3_ite b _ _ _ (fun _ => good3_pure b _ _ _ (by omega) (by omega)) (fun _ => ?_)
    refine good3_ite b _ _ _ (fun _ => good3_pure b _ _ _ (by omega) (by omega)) (fun _ => ?_)
    refine good3_ite b _ _ _ (fun _ => ?_) (fun _ => ?_)
    · obtain ⟨ev, sz, he, h1, h2⟩ := seqDigit_ok b b[2] (by omega)
      rw [he]
      exact ⟨ev, sz, cs, rfl, h1, h2⟩
    · have := fallbackKey_sz b h
      exact ⟨_, _, _, rfl, this.1, this.2⟩

/-- `escSequence` never panics; the size it reports is at least one and lies within the buffer it
    is to be dropped from, which is the given buffer or that buffer without its first byte. -/
theorem escSequence_ok (mouse : Bool) (yoffset : Int) (cs : Clicks) (b : List Nat) (h : 1 ≤ b.length) :
    ∃ ev sz b' cs', escSequence mouse yoffset cs b = .ok (ev, sz, b', cs') ∧ 1 ≤ sz ∧ sz ≤ b'.length ∧
      (b' = b ∨ b' = b.drop 1) := by
  unfold escSequence
  by_cases h2 : b.length < 2
  · rw [if_pos h2]; exact ⟨_, _, _, _, rfl, by omega, by omega, Or.inl rfl⟩
  · rw [if_neg h2]
    cases hcr : cursorReport b with
    | some n =>
      have := cursorReport_le b n hcr
      exact ⟨_, _, _, _, rfl, this.1, this.2, Or.inl rfl⟩
    | none =>
      simp only []
      rw [idx_ok b 1 (by omega)]
      simp only [bind, Except.bind]
      by_cases hca : (decide (b[1] ≥ 1) && decide (b[1] ≤ 26)) = true
      · rw [if_pos hca]; exact ⟨_, _, _, _, rfl, by omega, by omega, Or.inl rfl⟩
      · rw [if_neg hca]
        -- the buffer after a doubled ESC was skipped
        generalize hb' : (if (decide (b.length > 2) && b[1] == 27) = true then List.drop 1 b else b) = b'
        have hlen : 2 ≤ b'.length := by
          rw [← hb']; split
          · rename_i hc; simp at hc; simp; omega
          · omega
        have hor : b' = b ∨ b' = b.drop 1 := by
          rw [← hb']; split
          · exact Or.inr rfl
          · exact Or.inl rfl
        rw [idx_ok b' 1 (by omega)]
        simp only []
        by_cases c1 : (b'[1] == 27) = true
        · rw [if_pos c1]; exact ⟨_, _, _, _, rfl, by omega, by omega, hor⟩
        · rw [if_neg c1]
          by_cases c2 : (b'[1] == 127) = true
          · rw [if_pos c2]; exact ⟨_, _, _, _, rfl, by omega, by omega, hor⟩
          · rw [if_neg c2]
            by_cases c3 : (b'[1] == 91 || b'[1] == 79) = true
            · rw [if_pos c3]
              obtain ⟨ev, sz, cs', he, h1, h2'⟩ := seqCSI_ok mouse yoffset cs (decide (b.length > 2) && b[1] == 27) b' hlen
              rw [he]
              exact ⟨_, _, _, _, rfl, h1, h2', hor⟩
            · rw [if_neg c3]
              have := fallbackKey_sz b' hlen
              exact ⟨_, _, _, _, rfl, this.1, this.2, hor⟩

/-- A step that consumed input: fewer bytes are pending afterwards (buffer plus terminal). -/
def Progress (b tty : List Nat) (r : M Step) : Prop :=
  ∃ st, r = .ok st ∧ ∀ ev b' tty' cs', st = some (ev, b', tty', cs') → b'.length + tty'.length < b.length + tty.length

theorem progress_simple (b tty : List Nat) (ev : Ev) (cs : Clicks) (h : 1 ≤ b.length) :
    Progress b tty (pure (some (ev, b.drop 1, tty, cs))) := by
  refine ⟨_, rfl, ?_⟩
  intro ev b' tty' cs' he
  simp only [Option.some.injEq, Prod.mk.injEq] at he
  obtain ⟨_, hb, ht, _⟩ := he
  subst hb; subst ht
  simp; omega

theorem progress_ite (b tty : List Nat) (c : Prop) [Decidable c] (x y : M Step)
    (hx : c → Progress b tty x) (hy : ¬c → Progress b tty y) : Progress b tty (if c then x else y) := by
  by_cases h : c
  · rw [if_pos h]; exact hx h
  · rw [if_neg h]; exact hy h

theorem escChar_progress (mouse : Bool) (yoffset : Int) (cs : Clicks) (b tty : List Nat) (h : 1 ≤ b.length) :
    Progress b tty (escChar mouse yoffset cs b tty) := by
  unfold escChar
  obtain ⟨ev, sz, b', cs', he, h1, h2, hor⟩ := escSequence_ok mouse yoffset cs b h
  rw [he]
  simp only [bind, Except.bind]
  have hb' : b'.length ≤ b.length := by
    rcases hor with e | e <;> subst e <;> simp
  by_cases hinv : (ev.typ == Key.invalid) = true
  · rw [if_pos hinv]
    by_cases hty : tty.isEmpty = true
    · rw [if_pos hty]
      exact ⟨none, rfl, by intro _ _ _ _ hh; exact absurd hh (by simp)⟩
    · rw [if_neg hty]
      have hpos : 1 ≤ (b' ++ tty).length := by simp; omega
      obtain ⟨ev2, sz2, b'', cs'', he2, g1, g2, hor2⟩ := escSequence_ok mouse yoffset cs' (b' ++ tty) hpos
      rw [he2]
      simp only []
      rw [if_neg (by omega)]
      refine ⟨_, rfl, ?_⟩
      intro e bb tt cc hh
      simp only [pure, Except.pure, Option.some.injEq, Prod.mk.injEq] at hh
      obtain ⟨_, hb, ht, _⟩ := hh
      subst hb; subst ht
      have : b''.length ≤ (b' ++ tty).length := by
        rcases hor2 with e | e <;> subst e <;> simp
      simp only [List.length_append] at this
      simp only [List.length_drop, List.length_nil]
      omega
  · rw [if_neg hinv]
    rw [if_neg (by omega)]
    refine ⟨_, rfl, ?_⟩
    intro e bb tt cc hh
    simp only [pure, Except.pure, Option.some.injEq, Prod.mk.injEq] at hh
    obtain ⟨_, hb, ht, _⟩ := hh
    subst hb; subst ht
    simp only [List.length_drop]
    omega

/-- **`GetChar` never panics and always consumes input** on a non-empty buffer, whatever the
    bytes, whatever the terminal still has to deliver, with or without mouse support. -/
theorem getChar_progress (mouse : Bool) (yoffset : Int) (cs : Clicks) (b tty : List Nat) (h : b ≠ []) :
    Progress b tty (getChar mouse yoffset cs b tty) := by
  have hl : 1 ≤ b.length := by
    cases b with
    | nil => exact absurd rfl h
    | cons a t => simp
  unfold getChar
  rw [idx_ok b 0 (by omega)]
  simp only [bind, Except.bind]
  refine progress_ite b tty _ _ _ (fun _ => progress_simple b tty _ cs hl) (fun _ => ?_)
  refine progress_ite b tty _ _ _ (fun _ => progress_simple b tty _ cs hl) (fun _ => ?_)
  refine progress_ite b tty _ _ _ (fun _ => progress_simple b tty _ cs hl) (fun _ => ?_)
  refine progress_ite b tty _ _ _ (fun _ => progress_simple b tty _ cs hl) (fun _ => ?_)
  refine progress_ite b tty _ _ _ (fun _ => progress_simple b tty _ cs hl) (fun _ => ?_)
  refine progress_ite b tty _ _ _ (fun _ => progress_simple b tty _ cs hl) (fun _ => ?_)
  refine progress_ite b tty _ _ _ (fun _ => progress_simple b tty _ cs hl) (fun _ => ?_)
  refine progress_ite b tty _ _ _ (fun _ => progress_simple b tty _ cs hl) (fun _ => ?_)
  refine progress_ite b tty _ _ _ (fun _ => progress_simple b tty _ cs hl) (fun _ => ?_)
  refine progress_ite b tty _ _ _ (fun _ => escChar_progress mouse yoffset cs b tty hl) (fun _ => ?_)
  refine progress_ite b tty _ _ _ (fun _ => progress_simple b tty _ cs hl) (fun _ => ?_)
  refine progress_ite b tty _ _ _ (fun _ => progress_simple b tty _ cs hl) (fun _ => ?_)
  have hw := decodeRune_width b h
  refine ⟨_, rfl, ?_⟩
  intro e bb tt cc hh
  simp only [Option.some.injEq, Prod.mk.injEq] at hh
  obtain ⟨_, hb, ht, _⟩ := hh
  subst hb; subst ht
  simp only [List.length_drop]
  omega

end Fzf.KeyDecode
