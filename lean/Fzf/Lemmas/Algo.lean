import Fzf.Model.Algo
import Fzf.Lemmas.Subseq
/-
Helper lemmas for C02: the comparison loops and the scoring walk never index out of range
under the guards the match functions apply, and what the comparison loops decide.
-/
namespace Fzf.Algo

theorem get_ok {α : Type} (a : Array α) (i : Nat) (w : String) (h : i < a.size) : get a (i : Int) w = .ok a[i] := by
  unfold get
  have : ¬ ((i : Int) < 0) := by omega
  simp [this, h]
  rfl

/-- The comparison loop returns, and says whether every listed position agrees. -/
theorem cmpAt_ok (ok : Nat → Nat → Bool) (t p : Text) (off : Nat) (is : List Nat)
    (h : ∀ i ∈ is, off + i < t.size) :
    cmpAt ok t p off is = .ok (is.all fun i => ok (t.getD (off + i) 0) (p.getD i 0)) := by
  induction is with
  | nil => rfl
  | cons i is ih =>
    have hi : off + i < t.size := h i (List.mem_cons_self)
    have ih' := ih (fun j hj => h j (List.mem_cons_of_mem _ hj))
    unfold cmpAt
    have hg : get t ((off + i : Nat) : Int) "compare" = .ok t[off + i] := get_ok t (off + i) _ hi
    simp only [hg, bind, Except.bind]
    have hd : t.getD (off + i) 0 = t[off + i] := by simp [Array.getD, hi]
    by_cases hc : ok t[off + i] (p.getD i 0) = true
    · simp only [hc, if_true, ih', List.all_cons, hd, Bool.true_and]
    · simp only [hc, Bool.false_eq_true, if_false, List.all_cons, hd, Bool.false_and]
      rfl

theorem calcStep_ok (cfg : Cfg) (cs norm : Bool) (t p : Text) (withPos : Bool) (st : CS) (idx : Nat)
    (h1 : idx < t.size) (h2 : st.pidx < p.size) :
    ∃ st', calcStep cfg cs norm t p withPos st idx = .ok st' ∧ st'.pidx ≤ st.pidx + 1 := by
  unfold calcStep
  rw [get_ok t idx _ h1, get_ok p st.pidx _ h2]
  simp only [bind, Except.bind]
  split
  · exact ⟨_, rfl, by simp⟩
  · exact ⟨_, rfl, by simp⟩

/-- The scoring walk over a list of positions returns when the positions are inside the text and
    the pattern cannot be exhausted before the last position. -/
theorem calcFold_ok (cfg : Cfg) (cs norm : Bool) (t p : Text) (withPos : Bool) (idxs : List Nat) (st : CS)
    (h1 : ∀ idx ∈ idxs, idx < t.size) (h2 : st.pidx + idxs.length ≤ p.size) :
    ∃ st', idxs.foldlM (calcStep cfg cs norm t p withPos) st = .ok st' := by
  induction idxs generalizing st with
  | nil => exact ⟨st, rfl⟩
  | cons idx rest ih =>
    simp only [List.length_cons] at h2
    obtain ⟨st1, hs, hp⟩ := calcStep_ok cfg cs norm t p withPos st idx (h1 idx List.mem_cons_self) (by omega)
    obtain ⟨st2, hr⟩ := ih st1 (fun j hj => h1 j (List.mem_cons_of_mem _ hj)) (by omega)
    refine ⟨st2, ?_⟩
    simp only [List.foldlM_cons, hs, bind, Except.bind]
    exact hr

/-- `calculateScore` returns on a range inside the text that is not longer than the pattern. -/
theorem calculateScore_ok (cfg : Cfg) (cs norm : Bool) (t p : Text) (sidx eidx : Nat) (withPos : Bool)
    (h1 : eidx ≤ t.size) (h2 : eidx - sidx ≤ p.size) (h3 : sidx ≤ eidx) :
    ∃ r, calculateScore cfg cs norm t p sidx eidx withPos = .ok r := by
  unfold calculateScore
  have hfold : ∀ c : Nat, ∃ st', ((List.range (eidx - sidx)).map (sidx + ·)).foldlM (calcStep cfg cs norm t p withPos) { prevClass := c } = .ok st' := by
    intro c
    exact calcFold_ok cfg cs norm t p withPos ((List.range (eidx - sidx)).map (sidx + ·)) { prevClass := c }
      (by intro idx hidx; simp only [List.mem_map, List.mem_range] at hidx; obtain ⟨k, hk, rfl⟩ := hidx; omega)
      (by simp; omega)
  by_cases hs : sidx > 0
  · simp only [hs, if_true, bind, Except.bind]
    rw [get_ok t (sidx - 1) _ (by omega)]
    simp only [pure, Except.pure]
    obtain ⟨st', hst⟩ := hfold (charClassOf cfg t[sidx - 1])
    rw [hst]
    exact ⟨_, rfl⟩
  · simp only [hs, if_false, bind, Except.bind, pure, Except.pure]
    obtain ⟨st', hst⟩ := hfold cfg.sch.initClass
    rw [hst]
    exact ⟨_, rfl⟩

end Fzf.Algo

namespace Fzf.Algo

/-- The term occurs in the text at offset `off`, character by character, under `ok`. -/
def OccAt (ok : Nat → Nat → Bool) (t p : Text) (off : Nat) : Prop :=
  off + p.size ≤ t.size ∧ ∀ i, i < p.size → ok (t.getD (off + i) 0) (p.getD i 0) = true

theorem all_range_iff (n : Nat) (f : Nat → Bool) : (List.range n).all f = true ↔ ∀ i, i < n → f i = true := by
  simp [List.all_eq_true]

/-- PrefixMatch: returns for every input; reports a match exactly when the term occurs right after
    the leading whitespace (which is kept when the term itself starts with whitespace), and then
    reports exactly that occurrence. -/
theorem prefixMatch_spec (cfg : Cfg) (cs norm : Bool) (t p : Text) (hp : 0 < p.size) :
    ∃ r, prefixMatch cfg cs norm t p = .ok r ∧
      (0 ≤ r.start ↔ OccAt (fun c pc => foldTL cfg cs norm c == pc) t p
        (if !cfg.U.isSpace (p.getD 0 0) then leadingWhitespaces cfg t else 0)) ∧
      (0 ≤ r.start → r.start = ((if !cfg.U.isSpace (p.getD 0 0) then leadingWhitespaces cfg t else 0 : Nat) : Int) ∧
        r.stop = r.start + p.size) := by
  unfold prefixMatch
  have hp0 : (p.size == 0) = false := by
    have : p.size ≠ 0 := by omega
    simpa using this
  simp only [hp0, Bool.false_eq_true, if_false]
  generalize (if !cfg.U.isSpace (p.getD 0 0) then leadingWhitespaces cfg t else 0) = off
  by_cases hlen : (t.size : Int) - off < p.size
  · simp only [hlen, if_true]
    refine ⟨Res.none, rfl, ?_, ?_⟩
    · simp only [Res.none]
      constructor
      · intro h; omega
      · intro h; have := h.1; omega
    · intro h; simp [Res.none] at h
  · simp only [hlen, if_false]
    have hfit : off + p.size ≤ t.size := by omega
    rw [cmpAt_ok _ t p off (List.range p.size) (by intro i hi; simp at hi; omega)]
    simp only [bind, Except.bind]
    by_cases hall : ((List.range p.size).all fun i => foldTL cfg cs norm (t.getD (off + i) 0) == p.getD i 0) = true
    · simp only [hall, Bool.not_true, Bool.false_eq_true, if_false]
      obtain ⟨sc, hsc⟩ := calculateScore_ok cfg cs norm t p off (off + p.size) false hfit (by omega) (by omega)
      rw [hsc]
      refine ⟨_, rfl, ?_, ?_⟩
      · simp only
        constructor
        · intro _; exact ⟨hfit, (all_range_iff _ _).mp hall⟩
        · intro _; omega
      · intro _; simp
    · simp only [hall, Bool.not_false, if_true]
      refine ⟨Res.none, rfl, ?_, ?_⟩
      · simp only [Res.none]
        constructor
        · intro h; omega
        · intro h; exact absurd ((all_range_iff _ _).mpr h.2) hall
      · intro h; simp [Res.none] at h

end Fzf.Algo

namespace Fzf.Algo

/-- Where the text ends for SuffixMatch: before the trailing whitespace, unless the term itself
    ends with whitespace. -/
def suffixEnd (cfg : Cfg) (t p : Text) : Nat :=
  if !cfg.U.isSpace (p.getD (p.size - 1) 0) then t.size - trailingWhitespaces cfg t else t.size

/-- SuffixMatch: returns for every input; reports a match exactly when the term occurs right
    before the trailing whitespace, and then reports exactly that occurrence. -/
theorem suffixMatch_spec (cfg : Cfg) (cs norm : Bool) (t p : Text) (hp : 0 < p.size) :
    ∃ r, suffixMatch cfg cs norm t p = .ok r ∧
      (0 ≤ r.start ↔ p.size ≤ suffixEnd cfg t p ∧
        OccAt (fun c pc => foldTL cfg cs norm c == pc) t p (suffixEnd cfg t p - p.size)) ∧
      (0 ≤ r.start → r.start = ((suffixEnd cfg t p - p.size : Nat) : Int) ∧ r.stop = (suffixEnd cfg t p : Int)) := by
  unfold suffixMatch
  have hp0 : (p.size == 0) = false := by
    have : p.size ≠ 0 := by omega
    simpa using this
  simp only [hp0, Bool.false_or, Bool.false_eq_true, if_false]
  have hte : (if (!cfg.U.isSpace (p.getD (p.size - 1) 0)) = true then t.size - trailingWhitespaces cfg t else t.size) = suffixEnd cfg t p := rfl
  rw [hte]
  have hle : suffixEnd cfg t p ≤ t.size := by unfold suffixEnd; split <;> omega
  generalize suffixEnd cfg t p = te at *
  by_cases hlen : te < p.size
  · simp only [hlen, if_true]
    refine ⟨Res.none, rfl, ?_, ?_⟩
    · simp only [Res.none]
      constructor
      · intro h; omega
      · intro h; omega
    · intro h; simp [Res.none] at h
  · simp only [hlen, if_false]
    rw [cmpAt_ok _ t p (te - p.size) (List.range p.size) (by intro i hi; simp at hi; omega)]
    simp only [bind, Except.bind]
    by_cases hall : ((List.range p.size).all fun i => foldTL cfg cs norm (t.getD (te - p.size + i) 0) == p.getD i 0) = true
    · simp only [hall, Bool.not_true, Bool.false_eq_true, if_false]
      obtain ⟨sc, hsc⟩ := calculateScore_ok cfg cs norm t p (te - p.size) te false hle (by omega) (by omega)
      rw [hsc]
      refine ⟨_, rfl, ?_, ?_⟩
      · simp only
        constructor
        · intro _; exact ⟨by omega, by omega, (all_range_iff _ _).mp hall⟩
        · intro _; omega
      · intro _; simp
    · simp only [hall, Bool.not_false, if_true]
      refine ⟨Res.none, rfl, ?_, ?_⟩
      · simp only [Res.none]
        constructor
        · intro h; omega
        · intro h; exact absurd ((all_range_iff _ _).mpr h.2.2) hall
      · intro h; simp [Res.none] at h

/-- EqualMatch: returns for every input; reports a match exactly when the text without its leading
    and trailing whitespace (each kept when the term starts / ends with whitespace) has the length
    of the term and agrees with it character by character. -/
theorem equalMatch_spec (cfg : Cfg) (cs norm : Bool) (t p : Text) (hp : 0 < p.size) :
    ∃ r, equalMatch cfg cs norm t p = .ok r ∧
      (0 ≤ r.start ↔
        (t.size : Int) - (if !cfg.U.isSpace (p.getD 0 0) then leadingWhitespaces cfg t else 0 : Nat) -
          (if !cfg.U.isSpace (p.getD (p.size - 1) 0) then trailingWhitespaces cfg t else 0 : Nat) = p.size ∧
        OccAt (equalOk cfg cs norm) t p (if !cfg.U.isSpace (p.getD 0 0) then leadingWhitespaces cfg t else 0)) ∧
      (0 ≤ r.start → r.start = ((if !cfg.U.isSpace (p.getD 0 0) then leadingWhitespaces cfg t else 0 : Nat) : Int) ∧
        r.stop = r.start + p.size) := by
  unfold equalMatch
  have hp0 : (p.size == 0) = false := by
    have : p.size ≠ 0 := by omega
    simpa using this
  simp only [hp0, Bool.false_eq_true, if_false]
  generalize (if !cfg.U.isSpace (p.getD 0 0) then leadingWhitespaces cfg t else 0) = lead
  generalize (if !cfg.U.isSpace (p.getD (p.size - 1) 0) then trailingWhitespaces cfg t else 0) = trail
  by_cases hlen : ((t.size : Int) - lead - trail != p.size) = true
  · simp only [hlen, if_true]
    refine ⟨Res.none, rfl, ?_, ?_⟩
    · simp only [Res.none]
      constructor
      · intro h; omega
      · intro h; simp at hlen; exact absurd h.1 hlen
    · intro h; simp [Res.none] at h
  · simp only [hlen, Bool.false_eq_true, if_false]
    have heq : (t.size : Int) - lead - trail = p.size := by simpa using hlen
    have hfit : ∀ i ∈ List.range p.size, lead + i < t.size := by intro i hi; simp at hi; omega
    rw [cmpAt_ok _ t p lead (List.range p.size) hfit]
    simp only [bind, Except.bind]
    by_cases hall : ((List.range p.size).all fun i => equalOk cfg cs norm (t.getD (lead + i) 0) (p.getD i 0)) = true
    · simp only [hall, if_true]
      refine ⟨_, rfl, ?_, ?_⟩
      · simp only
        constructor
        · intro _; exact ⟨heq, by omega, (all_range_iff _ _).mp hall⟩
        · intro _; omega
      · intro _; simp
    · simp only [hall, Bool.false_eq_true, if_false]
      refine ⟨Res.none, rfl, ?_, ?_⟩
      · simp only [Res.none]
        constructor
        · intro h; omega
        · intro h; exact absurd ((all_range_iff _ _).mpr h.2.2) hall
      · intro h; simp [Res.none] at h

end Fzf.Algo

namespace Fzf.Algo
open Fzf.Algo.Spec

/-- The folded characters the V1 scans look at, in scan order. -/
def scanChars (cfg : Cfg) (cs norm fwd : Bool) (t : Text) (idxs : List Nat) : List Nat :=
  idxs.map fun index => foldRune cfg cs norm (t.getD (indexAt index t.size fwd) 0)

/-- The pattern characters from `pidx` on, in scan order. -/
def patFrom (fwd : Bool) (p : Text) (pidx : Nat) : List Nat :=
  (List.range (p.size - pidx)).map fun k => p.getD (indexAt (pidx + k) p.size fwd) 0

theorem indexAt_lt (i n : Nat) (fwd : Bool) (h : i < n) : indexAt i n fwd < n := by
  unfold indexAt; split <;> omega

theorem patFrom_cons (fwd : Bool) (p : Text) (pidx : Nat) (h : pidx < p.size) :
    patFrom fwd p pidx = p.getD (indexAt pidx p.size fwd) 0 :: patFrom fwd p (pidx + 1) := by
  unfold patFrom
  have : p.size - pidx = (p.size - (pidx + 1)) + 1 := by omega
  rw [this, List.range_succ_eq_map, List.map_cons, List.map_map]
  simp only [Nat.add_zero, List.cons.injEq, true_and]
  apply List.map_congr_left
  intro k _
  simp only [Function.comp]
  congr 2
  omega

theorem patFrom_nil (fwd : Bool) (p : Text) : patFrom fwd p p.size = [] := by
  unfold patFrom; simp

/-- The forward scan of V1 is the greedy subsequence test: it reports an end exactly when the rest
    of the pattern is a subsequence of the characters still to be scanned. -/
theorem v1Forward_spec (cfg : Cfg) (cs norm fwd : Bool) (t p : Text) (idxs : List Nat) (pidx : Nat) (sidx : Option Nat)
    (hi : ∀ i ∈ idxs, i < t.size) (hp : pidx < p.size) :
    ∃ r, v1Forward cfg cs norm fwd t p idxs pidx sidx = .ok r ∧
      r.2.2.isSome = isSubseq (patFrom fwd p pidx) (scanChars cfg cs norm fwd t idxs) := by
  induction idxs generalizing pidx sidx with
  | nil =>
    refine ⟨_, rfl, ?_⟩
    rw [patFrom_cons fwd p pidx hp]
    simp [scanChars, isSubseq]
  | cons index rest ih =>
    have hidx : index < t.size := hi index List.mem_cons_self
    have hrest : ∀ i ∈ rest, i < t.size := fun i h => hi i (List.mem_cons_of_mem _ h)
    have hti := indexAt_lt index t.size fwd hidx
    have hpi := indexAt_lt pidx p.size fwd hp
    unfold v1Forward
    rw [get_ok t _ _ hti, get_ok p _ _ hpi]
    simp only [bind, Except.bind]
    have hd : t.getD (indexAt index t.size fwd) 0 = t[indexAt index t.size fwd]'hti := by simp [Array.getD, hti]
    have hpd : p.getD (indexAt pidx p.size fwd) 0 = p[indexAt pidx p.size fwd]'hpi := by simp [Array.getD, hpi]
    rw [patFrom_cons fwd p pidx hp]
    simp only [scanChars, List.map_cons, isSubseq]
    rw [hd, hpd]
    have hrec := ih pidx sidx hrest hp
    rw [patFrom_cons fwd p pidx hp, hpd] at hrec
    simp only [scanChars] at hrec
    generalize t[indexAt index t.size fwd]'hti = cv
    generalize p[indexAt pidx p.size fwd]'hpi = pv at hrec ⊢
    by_cases hc : (foldRune cfg cs norm cv == pv) = true
    · have hc' : (pv == foldRune cfg cs norm cv) = true := by
        rw [beq_iff_eq] at hc ⊢; exact hc.symm
      simp only [hc, hc', if_true]
      by_cases hlast : (pidx + 1 == p.size) = true
      · simp only [hlast, if_true]
        refine ⟨_, rfl, ?_⟩
        have : pidx + 1 = p.size := by simpa using hlast
        rw [this, patFrom_nil]
        cases (List.map (fun index => foldRune cfg cs norm (t.getD (indexAt index t.size fwd) 0)) rest) <;> simp [isSubseq]
      · simp only [hlast, Bool.false_eq_true, if_false]
        have hlt : pidx + 1 < p.size := by
          have : pidx + 1 ≠ p.size := by simpa using hlast
          omega
        exact ih (pidx + 1) _ hrest hlt
    · have hc' : (pv == foldRune cfg cs norm cv) = false := by
        cases h : (pv == foldRune cfg cs norm cv)
        · rfl
        · rw [beq_iff_eq] at h; exact absurd (by rw [beq_iff_eq]; exact h.symm) hc
      simp only [hc, hc', Bool.false_eq_true, if_false]
      exact hrec

end Fzf.Algo

namespace Fzf.Algo
open Fzf.Algo.Spec

/-- The forward scan reports an end only together with a start, and keeps a start it was given. -/
theorem v1Forward_start (cfg : Cfg) (cs norm fwd : Bool) (t p : Text) (idxs : List Nat) (pidx : Nat) (sidx : Option Nat)
    (hi : ∀ i ∈ idxs, i < t.size) (hp : pidx < p.size)
    (r : Nat × Option Nat × Option Nat) (h : v1Forward cfg cs norm fwd t p idxs pidx sidx = .ok r) :
    (sidx.isSome = true → r.2.1.isSome = true) ∧ (r.2.2.isSome = true → r.2.1.isSome = true) := by
  induction idxs generalizing pidx sidx with
  | nil =>
    unfold v1Forward at h
    cases h
    exact ⟨fun hs => hs, fun he => by simp at he⟩
  | cons index rest ih =>
    have hidx : index < t.size := hi index List.mem_cons_self
    have hrest : ∀ i ∈ rest, i < t.size := fun i h => hi i (List.mem_cons_of_mem _ h)
    have hti := indexAt_lt index t.size fwd hidx
    have hpi := indexAt_lt pidx p.size fwd hp
    unfold v1Forward at h
    rw [get_ok t _ _ hti, get_ok p _ _ hpi] at h
    simp only [bind, Except.bind] at h
    generalize t[indexAt index t.size fwd]'hti = cv at h
    generalize p[indexAt pidx p.size fwd]'hpi = pv at h
    by_cases hc : (foldRune cfg cs norm cv == pv) = true
    · simp only [hc, if_true] at h
      have hsome : (if sidx.isNone = true then some index else sidx).isSome = true := by
        cases sidx <;> simp
      by_cases hlast : (pidx + 1 == p.size) = true
      · simp only [hlast, if_true] at h
        cases h
        exact ⟨fun _ => hsome, fun _ => hsome⟩
      · simp only [hlast, Bool.false_eq_true, if_false] at h
        have hlt : pidx + 1 < p.size := by
          have : pidx + 1 ≠ p.size := by simpa using hlast
          omega
        have := ih (pidx + 1) _ hrest hlt h
        exact ⟨fun _ => this.1 hsome, this.2⟩
    · simp only [hc, Bool.false_eq_true, if_false] at h
      exact ih pidx sidx hrest hp h

theorem range_map_getD (a : Array Nat) (f : Nat → Nat) :
    (List.range a.size).map (fun i => f (a.getD i 0)) = a.toList.map f := by
  apply List.ext_getElem
  · simp
  · intro i h1 h2
    simp only [List.length_map, List.length_range] at h1
    simp [Array.getD, h1]

theorem range_map_getD_rev (a : Array Nat) (f : Nat → Nat) :
    (List.range a.size).map (fun i => f (a.getD (a.size - i - 1) 0)) = (a.toList.map f).reverse := by
  apply List.ext_getElem
  · simp
  · intro i h1 h2
    simp only [List.length_map, List.length_range] at h1
    have h3 : a.size - i - 1 < a.size := by omega
    have h4 : a.size - i - 1 = a.size - 1 - i := by omega
    simp [Array.getD, h3]
    simp only [h4]

/-- In scan order the V1 scans see the folded text (reversed when scanning backward) … -/
theorem scanChars_range (cfg : Cfg) (cs norm fwd : Bool) (t : Text) :
    scanChars cfg cs norm fwd t (List.range t.size) =
      if fwd then t.toList.map (foldRune cfg cs norm) else (t.toList.map (foldRune cfg cs norm)).reverse := by
  unfold scanChars indexAt
  cases fwd
  · simp only [Bool.false_eq_true, if_false]; exact range_map_getD_rev t _
  · simp only [if_true]; exact range_map_getD t _

/-- … and the pattern (reversed likewise). -/
theorem patFrom_zero (fwd : Bool) (p : Text) : patFrom fwd p 0 = if fwd then p.toList else p.toList.reverse := by
  unfold patFrom indexAt
  cases fwd
  · simp only [Bool.false_eq_true, if_false, Nat.sub_zero, Nat.zero_add]
    have := range_map_getD_rev p id
    simpa using this
  · simp only [if_true, Nat.sub_zero, Nat.zero_add]
    have := range_map_getD p id
    simpa using this

/-- **FuzzyMatchV1 decides subsequence.** Whenever it returns (and the ASCII pre-filter let the
    text through), it reports a match exactly when the pattern is a subsequence of the folded
    text — scanning forward or backward. -/
theorem fuzzyMatchV1_decides (cfg : Cfg) (cs norm fwd : Bool) (t : Text) (isBytes : Bool) (p : Text) (withPos : Bool)
    (r : Res) (hp : 0 < p.size) (hpre : (asciiFuzzyIndex t isBytes p cs).isSome = true)
    (h : fuzzyMatchV1 cfg cs norm fwd t isBytes p withPos = .ok r) :
    (0 ≤ r.start ↔ List.Sublist p.toList (t.toList.map (foldRune cfg cs norm))) := by
  unfold fuzzyMatchV1 at h
  have hp0 : (p.size == 0) = false := by
    have : p.size ≠ 0 := by omega
    simpa using this
  have hpre' : (asciiFuzzyIndex t isBytes p cs).isNone = false := by
    cases hh : asciiFuzzyIndex t isBytes p cs <;> simp_all
  simp only [hp0, hpre', Bool.false_eq_true, if_false] at h
  obtain ⟨fr, hfr, hsub⟩ := v1Forward_spec cfg cs norm fwd t p (List.range t.size) 0 Option.none
    (by intro i hi; simpa using hi) hp
  rw [hfr] at h
  simp only [bind, Except.bind] at h
  rw [scanChars_range, patFrom_zero] at hsub
  have hiff : fr.2.2.isSome = true ↔ List.Sublist p.toList (t.toList.map (foldRune cfg cs norm)) := by
    rw [hsub, isSubseq_iff]
    cases fwd
    · simp only [Bool.false_eq_true, if_false]; exact List.reverse_sublist
    · simp only [if_true]
  obtain ⟨pidx, sidx, eidx⟩ := fr
  simp only at h hiff
  cases hs : sidx with
  | none =>
    -- no pattern character was found at all: the scan cannot have reported an end
    simp only [hs] at h
    cases h
    constructor
    · intro h0; simp [Res.none] at h0
    · intro hsl
      have he : eidx.isSome = true := hiff.mpr hsl
      -- an end is only reported together with a start
      have := (v1Forward_start cfg cs norm fwd t p (List.range t.size) 0 Option.none
        (by intro i hi; simpa using hi) hp _ hfr).2 he
      simp [hs] at this
  | some s =>
    cases he : eidx with
    | none =>
      simp only [hs, he] at h
      cases h
      constructor
      · intro h0; simp [Res.none] at h0
      · intro hsl; have := hiff.mpr hsl; simp [he] at this
    | some e =>
      simp only [hs, he] at h
      have hmatch : List.Sublist p.toList (t.toList.map (foldRune cfg cs norm)) := hiff.mp (by simp [he])
      refine ⟨fun _ => hmatch, fun _ => ?_⟩
      -- every successful path builds the result from natural numbers
      cases hb : v1Backward cfg cs norm fwd t p ((List.range (e - s)).map (e - 1 - ·)) ((pidx : Int) - 1) with
      | error err => rw [hb] at h; cases h
      | ok back =>
        rw [hb] at h
        simp only at h
        cases fwd
        · simp only [Bool.false_eq_true, if_false] at h
          cases hc : calculateScore cfg cs norm t p (t.size - e) (t.size - back.getD s) withPos with
          | error err => rw [hc] at h; cases h
          | ok sc => rw [hc] at h; cases h; simp
        · simp only [if_true] at h
          cases hc : calculateScore cfg cs norm t p (back.getD s) e withPos with
          | error err => rw [hc] at h; cases h
          | ok sc => rw [hc] at h; cases h; simp

end Fzf.Algo
