import Fzf.Model.Coordinator
/-
C08: the "latest request wins" invariant of the coordinator / matcher / terminal interplay.
-/
namespace Fzf.Coordinator

/-- Once input has ended, the current search key is on its way to the screen: an event that will
    make the coordinator request it is pending, or it is the request in the mailbox, or the scan
    running (with nothing newer in the mailbox), or the result posted, or what is shown. -/
def Inv (s : Co) : Prop :=
  s.reading = true ∨ s.evRead = true ∨ s.evSearch = true ∨ s.box = some (cur s) ∨
  (s.box = none ∧ s.running = some (cur s)) ∨
  (s.box = none ∧ s.running = none ∧ s.evFin = some (cur s)) ∨
  (s.box = none ∧ s.running = none ∧ s.evFin = none ∧ s.shown = some (cur s))

theorem inv_init : Inv {} := Or.inl rfl

theorem inv_step (s t : Co) (l : Label) (h : Inv s) (hs : step s l = some t) : Inv t := by
  cases l with
  | push =>
    simp only [step] at hs
    split at hs
    · cases hs; exact Or.inr (Or.inl rfl)
    · cases hs
  | eof =>
    simp only [step] at hs
    split at hs
    · cases hs; exact Or.inr (Or.inl rfl)
    · cases hs
  | edit q => simp only [step] at hs; cases hs; exact Or.inr (Or.inr (Or.inl rfl))
  | reload => simp only [step] at hs; cases hs; exact Or.inl rfl
  | coordRead =>
    simp only [step] at hs
    split at hs
    · cases hs; exact Or.inr (Or.inr (Or.inr (Or.inl rfl)))
    · cases hs
  | coordSearch =>
    simp only [step] at hs
    split at hs
    · cases hs; exact Or.inr (Or.inr (Or.inr (Or.inl rfl)))
    · cases hs
  | take =>
    simp only [step] at hs
    split at hs
    · rename_i hr hb
      cases hs
      rcases h with h | h | h | h | h | h | h
      · exact Or.inl h
      · exact Or.inr (Or.inl h)
      · exact Or.inr (Or.inr (Or.inl h))
      · refine Or.inr (Or.inr (Or.inr (Or.inr (Or.inl ⟨rfl, ?_⟩))))
        rw [hb] at h
        simpa [cur] using h
      · rw [hb] at h; exact absurd h.1 (by simp)
      · rw [hb] at h; exact absurd h.1 (by simp)
      · rw [hb] at h; exact absurd h.1 (by simp)
    · cases hs
  | cancel =>
    simp only [step] at hs
    split at hs
    · rename_i hr hb
      cases hs
      rcases h with h | h | h | h | h | h | h
      · exact Or.inl h
      · exact Or.inr (Or.inl h)
      · exact Or.inr (Or.inr (Or.inl h))
      · exact Or.inr (Or.inr (Or.inr (Or.inl h)))
      · rw [hb] at h; exact absurd h.1 (by simp)
      · rw [hb] at h; exact absurd h.1 (by simp)
      · rw [hb] at h; exact absurd h.1 (by simp)
    · cases hs
  | finish =>
    simp only [step] at hs
    split at hs
    · rename_i r hr
      cases hs
      rcases h with h | h | h | h | h | h | h
      · exact Or.inl h
      · exact Or.inr (Or.inl h)
      · exact Or.inr (Or.inr (Or.inl h))
      · exact Or.inr (Or.inr (Or.inr (Or.inl h)))
      · refine Or.inr (Or.inr (Or.inr (Or.inr (Or.inr (Or.inl ⟨h.1, rfl, ?_⟩)))))
        have := h.2; rw [hr] at this
        simpa [cur] using this
      · rw [hr] at h; exact absurd h.2.1 (by simp)
      · rw [hr] at h; exact absurd h.2.1 (by simp)
    · cases hs
  | coordFin =>
    simp only [step] at hs
    split at hs
    · rename_i r hr
      cases hs
      rcases h with h | h | h | h | h | h | h
      · exact Or.inl h
      · exact Or.inr (Or.inl h)
      · exact Or.inr (Or.inr (Or.inl h))
      · exact Or.inr (Or.inr (Or.inr (Or.inl h)))
      · exact Or.inr (Or.inr (Or.inr (Or.inr (Or.inl h))))
      · refine Or.inr (Or.inr (Or.inr (Or.inr (Or.inr (Or.inr ⟨h.1, h.2.1, rfl, ?_⟩)))))
        have := h.2.2; rw [hr] at this
        simpa [cur] using this
      · rw [hr] at h; exact absurd h.2.2.1 (by simp)
    · cases hs

theorem inv_run (s t : Co) (ls : List Label) (h : Inv s) (hr : run s ls = some t) : Inv t := by
  induction ls generalizing s with
  | nil => simp only [run] at hr; cases hr; exact h
  | cons l ls ih =>
    simp only [run] at hr
    cases hl : step s l with
    | none => rw [hl] at hr; cases hr
    | some u => rw [hl] at hr; exact ih u (inv_step s u l h hl) hr

/-- **At rest the screen shows the search of the current settings over everything loaded.** -/
theorem quiescent_shows_current (ls : List Label) (t : Co) (hr : run {} ls = some t) (hq : Quiescent t) :
    t.shown = some ⟨t.q, t.n, true⟩ := by
  have h := inv_run {} t ls inv_init hr
  obtain ⟨h1, h2, h3, h4, h5, h6⟩ := hq
  rcases h with h | h | h | h | h | h | h
  · rw [h1] at h; cases h
  · rw [h2] at h; cases h
  · rw [h3] at h; cases h
  · rw [h5] at h; cases h
  · rw [h6] at h; cases h.2
  · rw [h4] at h; cases h.2.2
  · have := h.2.2.2; simpa [cur, h1] using this

/-- fzf's own transitions, as opposed to those of the world (reader, user). -/
def own : Label → Bool
  | .coordRead | .coordSearch | .take | .cancel | .finish | .coordFin => true
  | _ => false

/-- Progress: whenever the state is not at rest some transition of fzf itself is enabled — work
    that is pending is never stuck. -/
theorem not_stuck (s : Co) (hread : s.reading = false) (h : ¬ Quiescent s) :
    ∃ l, own l = true ∧ (step s l).isSome = true := by
  unfold Quiescent at h
  by_cases h2 : s.evRead = true
  · exact ⟨.coordRead, rfl, by simp [step, h2]⟩
  by_cases h3 : s.evSearch = true
  · exact ⟨.coordSearch, rfl, by simp [step, h3]⟩
  cases h4 : s.evFin with
  | some r => exact ⟨.coordFin, rfl, by simp [step, h4]⟩
  | none =>
    cases h6 : s.running with
    | some r => exact ⟨.finish, rfl, by simp [step, h6]⟩
    | none =>
      cases h5 : s.box with
      | some r => exact ⟨.take, rfl, by simp [step, h6, h5]⟩
      | none => exact absurd ⟨hread, by simpa using h2, by simpa using h3, h4, h5, h6⟩ h

/-- Pending work, weighted by how many steps it can still cause. -/
def measure (s : Co) : Nat :=
  (if s.evRead then 4 else 0) + (if s.evSearch then 4 else 0) + (if s.box.isSome then 3 else 0) +
  (if s.running.isSome then 2 else 0) + (if s.evFin.isSome then 1 else 0)

/-- Each of fzf's own transitions uses up pending work: while the world is silent at most
    `measure s` of them can happen, so the rest state is reached. -/
theorem own_step_decreases (s t : Co) (l : Label) (ho : own l = true) (hs : step s l = some t) :
    measure t < measure s := by
  cases l with
  | push => cases ho
  | eof => cases ho
  | edit q => cases ho
  | reload => cases ho
  | coordRead =>
    simp only [step] at hs
    split at hs
    · rename_i h; cases hs; simp only [measure, h]; cases s.box <;> simp <;> omega
    · cases hs
  | coordSearch =>
    simp only [step] at hs
    split at hs
    · rename_i h; cases hs; simp only [measure, h]; cases s.box <;> simp <;> omega
    · cases hs
  | take =>
    simp only [step] at hs
    split at hs
    · rename_i hr hb; cases hs; simp only [measure, hr, hb]; simp
    · cases hs
  | cancel =>
    simp only [step] at hs
    split at hs
    · rename_i hr hb; cases hs; simp only [measure, hr, hb]; simp
    · cases hs
  | finish =>
    simp only [step] at hs
    split at hs
    · rename_i r hr; cases hs; simp only [measure, hr]; cases s.evFin <;> simp <;> omega
    · cases hs
  | coordFin =>
    simp only [step] at hs
    split at hs
    · rename_i r hr; cases hs; simp only [measure, hr]; simp
    · cases hs

/-- fzf's own steps change neither what is loaded nor the query nor the reading flag. -/
theorem step_own_keeps_world (s t : Co) (l : Label) (ho : own l = true) (hs : step s l = some t) :
    t.reading = s.reading ∧ t.q = s.q ∧ t.n = s.n := by
  cases l with
  | push => cases ho
  | eof => cases ho
  | edit q => cases ho
  | reload => cases ho
  | coordRead => simp only [step] at hs; split at hs <;> first | (cases hs; exact ⟨rfl, rfl, rfl⟩) | cases hs
  | coordSearch => simp only [step] at hs; split at hs <;> first | (cases hs; exact ⟨rfl, rfl, rfl⟩) | cases hs
  | take => simp only [step] at hs; split at hs <;> first | (cases hs; exact ⟨rfl, rfl, rfl⟩) | cases hs
  | cancel => simp only [step] at hs; split at hs <;> first | (cases hs; exact ⟨rfl, rfl, rfl⟩) | cases hs
  | finish => simp only [step] at hs; split at hs <;> first | (cases hs; exact ⟨rfl, rfl, rfl⟩) | cases hs
  | coordFin => simp only [step] at hs; split at hs <;> first | (cases hs; exact ⟨rfl, rfl, rfl⟩) | cases hs

/-- Any run of fzf's own steps is at most `measure s` long. -/
theorem own_run_bounded : ∀ (ls : List Label) (s t : Co), (∀ l ∈ ls, own l = true) → run s ls = some t →
    ls.length + measure t ≤ measure s
  | [], s, t, _, h => by simp only [run] at h; cases h; simp
  | l :: ls, s, t, ho, h => by
    simp only [run] at h
    cases hl : step s l with
    | none => rw [hl] at h; cases h
    | some u =>
      rw [hl] at h
      have h1 := own_step_decreases s u l (ho l List.mem_cons_self) hl
      have h2 := own_run_bounded ls u t (fun x hx => ho x (List.mem_cons_of_mem _ hx)) h
      simp only [List.length_cons]
      omega

/-- Once input has ended and the world is silent, fzf's own steps lead to the rest state. -/
theorem reaches_rest : ∀ (n : Nat) (s : Co), measure s ≤ n → s.reading = false →
    ∃ ls t, (∀ l ∈ ls, own l = true) ∧ run s ls = some t ∧ Quiescent t ∧ t.q = s.q ∧ t.n = s.n
  | 0, s, hm, hr => by
    by_cases hq : Quiescent s
    · exact ⟨[], s, by simp, rfl, hq, rfl, rfl⟩
    · obtain ⟨l, ho, hs⟩ := not_stuck s hr hq
      cases hl : step s l with
      | none => rw [hl] at hs; cases hs
      | some u => have := own_step_decreases s u l ho hl; omega
  | n + 1, s, hm, hr => by
    by_cases hq : Quiescent s
    · exact ⟨[], s, by simp, rfl, hq, rfl, rfl⟩
    · obtain ⟨l, ho, hs⟩ := not_stuck s hr hq
      cases hl : step s l with
      | none => rw [hl] at hs; cases hs
      | some u =>
        have hdec := own_step_decreases s u l ho hl
        obtain ⟨hkr, hkq, hkn⟩ := step_own_keeps_world s u l ho hl
        have hru : u.reading = false := by rw [hkr]; exact hr
        obtain ⟨ls, t, h1, h2, h3, h4, h5⟩ := reaches_rest n u (by omega) hru
        have hqn : u.q = s.q ∧ u.n = s.n := ⟨hkq, hkn⟩
        refine ⟨l :: ls, t, ?_, ?_, h3, by rw [h4, hqn.1], by rw [h5, hqn.2]⟩
        · intro x hx
          rcases List.mem_cons.mp hx with rfl | hx
          · exact ho
          · exact h1 x hx
        · simp only [run, hl]; exact h2

end Fzf.Coordinator
