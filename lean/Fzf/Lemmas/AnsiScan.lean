import Fzf.Lemmas.Ansi
import Fzf.Lemmas.KeyDecode
/-
The escape-sequence scanner reports ranges that are non-empty, start at or after the position it
was asked to scan from, and end inside the line.
-/
namespace Fzf.Ansi
open Fzf

theorem mcs_go_bound (s : Bytes) (i : Nat) : ∀ (fuel k r : Nat), matchControlSequence.go s i k fuel = some r →
    1 ≤ r ∧ i + r ≤ s.size
  | 0, k, r, h => by simp [matchControlSequence.go] at h
  | fuel + 1, k, r, h => by
    unfold matchControlSequence.go at h
    by_cases hi : i + k < s.size
    · simp only [hi, dite_true] at h
      split at h
      · exact mcs_go_bound s i fuel (k + 1) r h
      · split at h
        · simp only [Option.some.injEq] at h; omega
        · cases h
    · simp only [hi, dite_false] at h; cases h

theorem matchOSC_bound (s : Bytes) (i start r : Nat) (h : matchOSC s i start = some r) : 1 ≤ r ∧ i + r ≤ s.size := by
  unfold matchOSC at h
  simp only at h
  generalize matchOSC.skip s i (s.size - i) start (s.size - i + 1) = k at h
  split at h
  · rename_i hc; simp only [Option.some.injEq] at h; omega
  · split at h
    · rename_i hc; simp only [Option.some.injEq] at h; omega
    · split at h
      · rename_i hc; simp only [Option.some.injEq] at h; omega
      · cases h

theorem back_le (s : Bytes) (lim : Nat) : ∀ (fuel : Nat) (st : Int), lastRuneWidth.back s lim st fuel ≤ st
  | 0, st => by simp [lastRuneWidth.back]
  | fuel + 1, st => by
    unfold lastRuneWidth.back
    split
    · split
      · exact Int.le_refl _
      · have := back_le s lim fuel (st - 1); omega
    · exact Int.le_refl _

theorem lastRuneWidth_bound (s : Bytes) (e : Nat) (he : 0 < e) : 1 ≤ lastRuneWidth s e ∧ lastRuneWidth s e ≤ e := by
  unfold lastRuneWidth
  have h0 : ¬ e = 0 := by omega
  simp only [h0, if_false]
  split
  · omega
  · have hb := back_le s (e - 4) 5 ((e : Int) - 2)
    generalize lastRuneWidth.back s (e - 4) ((e : Int) - 2) 5 = st0 at hb
    generalize hst : (if st0 < 0 then 0 else st0.toNat) = st
    have hlt : st < e := by
      rw [← hst]; split <;> omega
    generalize (Utf8.decodeRune (s.extract st e).toList).2 = w
    split
    · omega
    · rename_i hw; simp at hw; omega

/-- **Every range the scanner reports is a proper piece of the line**: non-empty, not before the
    position the scan started from, not past the end — for arbitrary bytes. -/
theorem nextEscape_go_range (s : Bytes) (frm : Nat) : ∀ (fuel i b e : Nat), frm ≤ i →
    nextEscape.go s frm i fuel = some (b, e) → frm ≤ b ∧ b < e ∧ e ≤ s.size
  | 0, i, b, e, _, h => by simp [nextEscape.go] at h
  | fuel + 1, i, b, e, hfi, h => by
    unfold nextEscape.go at h
    by_cases hi : i < s.size
    · simp only [hi, dite_true] at h
      split at h
      · -- backspace
        split at h
        · rename_i hbs
          split at h
          · simp only [Option.some.injEq, Prod.mk.injEq] at h; omega
          · simp only [Option.some.injEq, Prod.mk.injEq] at h
            have := lastRuneWidth_bound (s.extract frm i) (i - frm) (by omega)
            omega
        · exact nextEscape_go_range s frm fuel (i + 1) b e (by omega) h
      · split at h
        · -- ESC
          split at h
          · rename_i r hcsi
            simp only [Option.some.injEq] at h
            subst h
            split at hcsi
            · cases hm : matchControlSequence s i with
              | none => rw [hm] at hcsi; simp at hcsi
              | some j =>
                rw [hm] at hcsi
                simp only [Option.map_some, Option.some.injEq, Prod.mk.injEq] at hcsi
                unfold matchControlSequence at hm
                have := mcs_go_bound s i _ _ _ hm
                omega
            · cases hcsi
          · split at h
            · rename_i r hosc
              simp only [Option.some.injEq] at h
              subst h
              split at hosc
              · split at hosc
                · cases hm : matchOSC s i _ with
                  | none => rw [hm] at hosc; simp at hosc
                  | some k =>
                    rw [hm] at hosc
                    simp only [Option.map_some, Option.some.injEq, Prod.mk.injEq] at hosc
                    have := matchOSC_bound s i _ k hm
                    omega
                · cases hosc
              · cases hosc
            · split at h
              · split at h
                · simp only [Option.some.injEq, Prod.mk.injEq] at h; omega
                · simp only [Option.some.injEq, Prod.mk.injEq] at h
                  have hne : (s.extract (i + 1) s.size).toList ≠ [] := by
                    intro he
                    have := congrArg List.length he
                    simp at this; omega
                  have hw := Fzf.KeyDecode.decodeRune_width _ hne
                  have hl : (s.extract (i + 1) s.size).toList.length = s.size - (i + 1) := by simp
                  rw [hl] at hw
                  omega
              · exact nextEscape_go_range s frm fuel (i + 1) b e (by omega) h
        · split at h
          · simp only [Option.some.injEq, Prod.mk.injEq] at h; omega
          · exact nextEscape_go_range s frm fuel (i + 1) b e (by omega) h
    · simp only [hi, dite_false] at h; cases h

theorem nextEscape_range (s : Bytes) (frm b e : Nat) (h : nextEscape s frm = some (b, e)) :
    frm ≤ b ∧ b < e ∧ e ≤ s.size := by
  unfold nextEscape at h
  exact nextEscape_go_range s frm _ frm b e (Nat.le_refl _) h

end Fzf.Ansi

namespace Fzf.Ansi
open Fzf

theorem extract_toList (s : Bytes) (i j : Nat) : (s.extract i j).toList = (s.toList.drop i).take (j - i) := by
  simp [List.extract]

/-- Dropping a middle piece of a list leaves a sublist. -/
theorem sublist_skip (l : List Nat) (a b c : Nat) (hab : a ≤ b) (hbc : b ≤ c) :
    ((l.drop a).take (b - a) ++ l.drop c).Sublist (l.drop a) := by
  have h1 : l.drop a = (l.drop a).take (b - a) ++ (l.drop a).drop (b - a) := (List.take_append_drop _ _).symm
  conv => rhs; rw [h1]
  apply List.Sublist.append_left
  rw [List.drop_drop]
  have : a + (b - a) = b := by omega
  rw [this]
  have h2 : l.drop c = (l.drop b).drop (c - b) := by
    rw [List.drop_drop]; congr 1; omega
  rw [h2]
  exact List.drop_sublist _ _

/-- What the stripping loop maintains: output followed by what is still to be scanned is a sublist
    of the line. -/
def StripInv (s : Bytes) (x : EX) : Prop :=
  x.idx = x.prevIdx ∧ x.prevIdx ≤ s.size ∧ (x.out.toList ++ s.toList.drop x.prevIdx).Sublist s.toList

theorem extractLoop_inv (s : Bytes) (idBase : Nat) : ∀ (fuel : Nat) (x : EX), StripInv s x →
    StripInv s (extractLoop s idBase x fuel)
  | 0, x, h => by simpa [extractLoop] using h
  | fuel + 1, x, h => by
    obtain ⟨h1, h2, h3⟩ := h
    unfold extractLoop
    by_cases hidx : x.idx < s.size
    · simp only [hidx, if_true]
      cases hne : nextEscape s x.idx with
      | none => exact ⟨h1, h2, h3⟩
      | some r =>
        obtain ⟨start, stop⟩ := r
        obtain ⟨r1, r2, r3⟩ := nextEscape_range s x.idx start stop hne
        rw [h1] at r1
        have hnext : ((x.out ++ s.extract x.prevIdx start).toList ++ s.toList.drop stop).Sublist s.toList := by
          rw [Array.toList_append, extract_toList, List.append_assoc]
          refine List.Sublist.trans ?_ h3
          apply List.Sublist.append_left
          exact sublist_skip s.toList x.prevIdx start stop r1 (by omega)
        simp only
        repeat' split
        all_goals (apply extractLoop_inv; exact ⟨rfl, r3, hnext⟩)
    · simp only [hidx, if_false]
      exact ⟨h1, h2, h3⟩

/-- **`--ansi` only removes**: whatever the bytes and whatever colour state is carried over, the
    stripped text is a sublist of the line — characters are never added, changed or reordered. -/
theorem extractColor_sublist (s : Bytes) (st : Option State) (idBase : Nat) :
    (extractColor s st idBase).1.toList.Sublist s.toList := by
  unfold extractColor
  have hinv := extractLoop_inv s idBase (s.size + 1)
    { state := st, offsets := match st with | some st => #[⟨0, 0, st⟩] | none => #[] }
    ⟨rfl, Nat.zero_le _, by simp⟩
  generalize extractLoop s idBase _ (s.size + 1) = y at hinv
  obtain ⟨_, h2, h3⟩ := hinv
  have htr : (if y.prevIdx = 0 then s else y.out ++ s.extract y.prevIdx s.size).toList.Sublist s.toList := by
    split
    · exact List.Sublist.refl _
    · rw [Array.toList_append, extract_toList]
      have : (s.toList.drop y.prevIdx).take (s.size - y.prevIdx) = s.toList.drop y.prevIdx := by
        apply List.take_of_length_le; simp
      rw [this]; exact h3
  unfold extractFinish
  simp only
  split <;> exact htr

end Fzf.Ansi
