import Fzf.Model.Terminal
namespace Fzf.Terminal
open Fzf

theorem lastBoundary_go_le (w : Nat → Bool) (l : Str) (i best : Nat) (hb : best ≤ i + l.length) :
    lastBoundary.go w i l best ≤ i + l.length := by
  induction l generalizing i best with
  | nil => simpa [lastBoundary.go] using hb
  | cons a rest ih =>
    cases rest with
    | nil => simpa [lastBoundary.go] using hb
    | cons b rest' =>
      unfold lastBoundary.go
      have := ih (i + 1) (if !w a && w b then i + 1 else best) (by
        split <;> simp at * <;> omega)
      simp at this ⊢; omega

theorem lastBoundary_le (w : Nat → Bool) (s : Str) : lastBoundary w s ≤ s.length := by
  have := lastBoundary_go_le w s 0 0 (by omega)
  simpa [lastBoundary] using this

theorem nextBoundary_go_le (w : Nat → Bool) (l : Str) (i : Nat) :
    nextBoundary.go w i l ≤ i + l.length := by
  induction l generalizing i with
  | nil => simp [nextBoundary.go]
  | cons a rest ih =>
    cases rest with
    | nil => unfold nextBoundary.go; split <;> simp
    | cons b rest' =>
      unfold nextBoundary.go
      split
      · simp
      · have := ih (i + 1); simp at this ⊢; omega

theorem nextBoundary_le (w : Nat → Bool) (s : Str) : nextBoundary w s ≤ s.length := by
  have := nextBoundary_go_le w s 0
  simpa [nextBoundary] using this

/-- The query cursor stays inside the query. -/
def CxOk (s : TS) : Prop := s.cx ≤ s.input.length

theorem vset_fields (s : TS) (o : Int) :
    (vset s o).input = s.input ∧ (vset s o).cx = s.cx ∧ (vset s o).selected = s.selected ∧
    (vset s o).results = s.results := by simp [vset]

theorem vmove_fields (op : Opts) (s : TS) (o : Int) :
    (vmove op s o).input = s.input ∧ (vmove op s o).cx = s.cx ∧ (vmove op s o).selected = s.selected ∧
    (vmove op s o).results = s.results := by
  unfold vmove; exact vset_fields _ _

theorem selectItem_fields (op : Opts) (s : TS) (i : Nat) :
    (selectItem op s i).1.input = s.input ∧ (selectItem op s i).1.cx = s.cx ∧ (selectItem op s i).1.results = s.results := by
  unfold selectItem; split
  · simp
  · split <;> simp

/-- Never more than `--multi` items selected; nothing selectable without `--multi`. -/
def SelOk (op : Opts) (s : TS) : Prop := s.selected.length ≤ op.multi

theorem selectItem_selOk (op : Opts) (s : TS) (i : Nat) (h : SelOk op s) : SelOk op (selectItem op s i).1 := by
  unfold selectItem SelOk at *
  split
  · exact h
  · split
    · exact h
    · simp; omega

theorem deselectItem_selOk (op : Opts) (s : TS) (i : Nat) (h : SelOk op s) : SelOk op (deselectItem s i) := by
  unfold deselectItem SelOk at *
  exact Nat.le_trans (List.length_filter_le _ _) h

theorem toggleCurrent_selOk (op : Opts) (s : TS) (h : SelOk op s) : SelOk op (toggleCurrent op s).1 := by
  unfold toggleCurrent
  split
  · exact h
  · split
    · exact selectItem_selOk op s _ h
    · exact deselectItem_selOk op s _ h

theorem foldl_select_inv (op : Opts) (f : Nat → Bool) (P : TS → Prop)
    (hsel : ∀ s i, P s → P (selectItem op s i).1) (l : List Nat) (acc : TS × Bool) (h : P acc.1) :
    P (l.foldl (fun (acc : TS × Bool) i => if acc.2 ∧ f i then selectItem op acc.1 i else acc) acc).1 := by
  induction l generalizing acc with
  | nil => exact h
  | cons x xs ih =>
    simp only [List.foldl_cons]
    apply ih
    split
    · exact hsel _ _ h
    · exact h

theorem selectMany_selOk (op : Opts) (f : Nat → Bool) (s : TS) (l : List Nat) (h : SelOk op s) :
    SelOk op (selectMany op f s l) :=
  foldl_select_inv op f (SelOk op) (fun s i hs => selectItem_selOk op s i hs) l (s, true) h

theorem selectMany_fields (op : Opts) (f : Nat → Bool) (s : TS) (l : List Nat) :
    (selectMany op f s l).input = s.input ∧ (selectMany op f s l).cx = s.cx ∧ (selectMany op f s l).results = s.results :=
  foldl_select_inv op f (fun t => t.input = s.input ∧ t.cx = s.cx ∧ t.results = s.results)
    (fun t i ht => by
      obtain ⟨h1, h2, h3⟩ := selectItem_fields op t i
      exact ⟨h1.trans ht.1, h2.trans ht.2.1, h3.trans ht.2.2⟩) l (s, true) ⟨rfl, rfl, rfl⟩

theorem toggleCurrent_fields (op : Opts) (s : TS) :
    (toggleCurrent op s).1.input = s.input ∧ (toggleCurrent op s).1.cx = s.cx ∧ (toggleCurrent op s).1.results = s.results := by
  unfold toggleCurrent
  split
  · exact ⟨rfl, rfl, rfl⟩
  · split
    · exact selectItem_fields op s _
    · exact ⟨rfl, rfl, rfl⟩

theorem constrain_fields (op : Opts) (s : TS) :
    (constrain op s).input = s.input ∧ (constrain op s).cx = s.cx ∧ (constrain op s).selected = s.selected ∧
    (constrain op s).results = s.results := by
  unfold constrain
  exact ⟨rfl, rfl, rfl, rfl⟩

theorem updateList_fields (op : Opts) (s : TS) (new : List Nat) :
    (updateList op s new).input = s.input ∧ (updateList op s new).cx = s.cx ∧ (updateList op s new).selected = s.selected := by
  unfold updateList
  by_cases ht : op.track = true
  · simp only [ht, if_true]
    generalize (if s.results.length > 0 then currentItem s else new.head?) = prev
    cases prev with
    | none => exact ⟨rfl, rfl, rfl⟩
    | some i =>
      simp only []
      cases new.findIdx? (· == i) with
      | some k => exact ⟨rfl, rfl, rfl⟩
      | none =>
        simp only []
        split <;> exact ⟨rfl, rfl, rfl⟩
  · simp only [ht]
    exact ⟨rfl, rfl, rfl⟩

theorem afterActions_fields (op : Opts) (b s : TS) :
    (afterActions op b s).input = s.input.take maxPatternLength ∧
    (afterActions op b s).cx = min s.cx (min s.input.length maxPatternLength) ∧
    (afterActions op b s).selected = s.selected := by
  unfold afterActions
  dsimp only
  split
  · generalize hs0 : ({ s with input := List.take maxPatternLength s.input, cx := min s.cx (min s.input.length maxPatternLength) } : TS) = s0
    generalize hnew : ((op.resultsOf (List.take maxPatternLength s.input) s.sort).filter (fun i => !s.excluded.contains i)) = new
    obtain ⟨c1, c2, c3, _⟩ := constrain_fields op (updateList op (constrain op s0) new)
    obtain ⟨u1, u2, u3⟩ := updateList_fields op (constrain op s0) new
    obtain ⟨d1, d2, d3, _⟩ := constrain_fields op s0
    subst hs0
    exact ⟨(c1.trans u1).trans d1, (c2.trans u2).trans d2, (c3.trans u3).trans d3⟩
  · obtain ⟨c1, c2, c3, _⟩ := constrain_fields op
      { s with input := List.take maxPatternLength s.input, cx := min s.cx (min s.input.length maxPatternLength) }
    exact ⟨c1, c2, c3⟩

end Fzf.Terminal
