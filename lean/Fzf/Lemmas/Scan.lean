import Fzf.Model.Scan
namespace Fzf.Scan
open Fzf

def WInv (w : Worker) : Prop :=
  w.done ++ w.todo = w.orig ∧ (∀ r, w.result = some r → w.todo = [] ∧ r = w.done.flatten)

def Inv (s : S) : Prop :=
  (∀ w ∈ s.ws, WInv w) ∧
  (∀ out, s.phase = .finished (some out) → out = expected s ∧ s.cancelled = false) ∧
  (s.cancelled = true → s.phase = .finished none)

theorem winv_flatten {w : Worker} (h : WInv w) {r : List Int} (hr : w.result = some r) : r = w.orig.flatten := by
  obtain ⟨h1, h2⟩ := h
  obtain ⟨ht, hr'⟩ := h2 r hr
  rw [hr', ← h1, ht]; simp

theorem stepWorker_inv (c : Bool) (w w' : Worker) (l : Label) (n : Nat) (h : WInv w)
    (hs : stepWorker c w l = some (w', n)) : WInv w' ∧ w'.orig = w.orig := by
  obtain ⟨h1, h2⟩ := h
  cases l with
  | work i =>
    simp only [stepWorker] at hs
    split at hs
    · rename_i ch rest htodo
      split at hs
      · injection hs with hs; injection hs with hs _; subst hs
        refine ⟨⟨?_, ?_⟩, rfl⟩
        · simp [← h1, htodo]
        · intro r hr
          obtain ⟨ht, _⟩ := h2 r hr
          rw [htodo] at ht; cases ht
      · cases hs
    · cases hs
  | check i =>
    simp only [stepWorker] at hs
    split at hs
    · split at hs <;> (injection hs with hs; injection hs with hs _; subst hs; exact ⟨⟨h1, h2⟩, rfl⟩)
    · cases hs
  | finish i =>
    simp only [stepWorker] at hs
    split at hs
    · rename_i hc
      injection hs with hs; injection hs with hs _; subst hs
      refine ⟨⟨h1, ?_⟩, rfl⟩
      intro r hr
      simp at hr; subst hr
      exact ⟨by simpa using hc.1, rfl⟩
    · cases hs
  | recv _ => simp [stepWorker] at hs
  | collect => simp [stepWorker] at hs

theorem expected_set (s : S) (i : Nat) (w w' : Worker) (hw : s.ws[i]? = some w) (ho : w'.orig = w.orig) :
    (s.ws.set i w').map (fun w => w.orig.flatten) = s.ws.map (fun w => w.orig.flatten) := by
  have hlt : i < s.ws.length := by
    rcases Nat.lt_or_ge i s.ws.length with h | h
    · exact h
    · rw [List.getElem?_eq_none h] at hw; cases hw
  rw [List.map_set]
  apply List.ext_getElem?
  intro j
  by_cases hj : i = j
  · subst hj
    have hw' : s.ws[i] = w := by
      have := List.getElem?_eq_getElem hlt
      rw [hw] at this; injection this with this; exact this.symm
    simp [List.getElem?_set, hlt, ho, hw']
  · rw [List.getElem?_set_ne hj]

theorem stepWorker_orig (c : Bool) (w w' : Worker) (l : Label) (n : Nat)
    (hs : stepWorker c w l = some (w', n)) : w'.orig = w.orig := by
  cases l with
  | work i =>
    simp only [stepWorker] at hs
    split at hs
    · split at hs
      · injection hs with hs; injection hs with hs _; subst hs; rfl
      · cases hs
    · cases hs
  | check i =>
    simp only [stepWorker] at hs
    split at hs
    · split at hs <;> (injection hs with hs; injection hs with hs _; subst hs; rfl)
    · cases hs
  | finish i =>
    simp only [stepWorker] at hs
    split at hs
    · injection hs with hs; injection hs with hs _; subst hs; rfl
    · cases hs
  | recv _ => simp [stepWorker] at hs
  | collect => simp [stepWorker] at hs

theorem stepAt_inv (s s' : S) (i : Nat) (l : Label) (h : Inv s) (hs : stepAt s i l = some s') : Inv s' := by
  obtain ⟨hw, hf, hc⟩ := h
  simp only [stepAt] at hs
  split at hs
  · rename_i w hwi
    split at hs
    · rename_i w' sent hsw
      injection hs with hs; subst hs
      have hmem : w ∈ s.ws := List.mem_of_getElem? hwi
      obtain ⟨hinv', horig⟩ := stepWorker_inv _ _ _ _ _ (hw w hmem) hsw
      refine ⟨?_, ?_, ?_⟩
      · intro x hx
        rcases List.mem_or_eq_of_mem_set hx with hx | hx
        · exact hw x hx
        · rw [hx]; exact hinv'
      · intro out hout
        obtain ⟨h1, h2⟩ := hf out hout
        refine ⟨?_, h2⟩
        rw [h1]; unfold expected
        exact (expected_set s i w w' hwi horig).symm
      · exact hc
    · cases hs
  · cases hs

theorem stepMain_inv (s s' : S) (l : Label) (h : Inv s) (hs : stepMain s l = some s') : Inv s' := by
  obtain ⟨hw, hf, hc⟩ := h
  cases l with
  | work i => simp [stepMain] at hs
  | check i => simp [stepMain] at hs
  | finish i => simp [stepMain] at hs
  | recv newer =>
    simp only [stepMain] at hs
    split at hs
    · rename_i hcond
      have hnc : s.cancelled = false := by
        cases hcc : s.cancelled with
        | false => rfl
        | true => have := hc hcc; rw [this] at hcond; exact absurd hcond.1 (by decide)
      split at hs
      · injection hs with hs; subst hs
        refine ⟨hw, ?_, ?_⟩
        · intro out hout; cases hout
        · intro h; simp [hnc] at h
      · split at hs
        · injection hs with hs; subst hs
          refine ⟨hw, ?_, ?_⟩
          · intro out hout; cases hout
          · intro _; rfl
        · injection hs with hs; subst hs
          refine ⟨hw, ?_, ?_⟩
          · intro out hout; simp only at hout; rw [hcond.1] at hout; cases hout
          · intro h; simp [hnc] at h
    · cases hs
  | collect =>
    simp only [stepMain] at hs
    split at hs
    · rename_i hcond
      injection hs with hs; subst hs
      have hnc : s.cancelled = false := by
        cases hcc : s.cancelled with
        | false => rfl
        | true => have := hc hcc; rw [this] at hcond; exact absurd hcond.1 (by decide)
      refine ⟨hw, ?_, ?_⟩
      · intro out hout
        injection hout with hout; injection hout with hout
        refine ⟨?_, hnc⟩
        rw [← hout]; unfold expected
        apply List.map_congr_left
        intro w hwm
        have hsome : w.result.isSome := by
          have := hcond.2
          rw [List.all_eq_true] at this
          exact this w hwm
        obtain ⟨r, hr⟩ := Option.isSome_iff_exists.mp hsome
        rw [hr]; exact winv_flatten (hw w hwm) hr
      · intro h; simp [hnc] at h
    · cases hs

theorem step_inv (s s' : S) (l : Label) (h : Inv s) (hs : step s l = some s') : Inv s' := by
  cases l with
  | work i => exact stepAt_inv s s' i _ h hs
  | check i => exact stepAt_inv s s' i _ h hs
  | finish i => exact stepAt_inv s s' i _ h hs
  | recv newer => exact stepMain_inv s s' (.recv newer) h hs
  | collect => exact stepMain_inv s s' .collect h hs

theorem stepAt_expected (s s' : S) (i : Nat) (l : Label) (hs : stepAt s i l = some s') : expected s' = expected s := by
  simp only [stepAt] at hs
  split at hs
  · rename_i w hwi
    split at hs
    · rename_i w' sent hsw
      injection hs with hs; subst hs
      exact expected_set s i w w' hwi (stepWorker_orig _ _ _ _ _ hsw)
    · cases hs
  · cases hs

theorem stepMain_expected (s s' : S) (l : Label) (hs : stepMain s l = some s') : expected s' = expected s := by
  cases l with
  | work i => simp [stepMain] at hs
  | check i => simp [stepMain] at hs
  | finish i => simp [stepMain] at hs
  | recv newer =>
    simp only [stepMain] at hs
    split at hs
    · split at hs
      · injection hs with hs; subst hs; rfl
      · split at hs <;> (injection hs with hs; subst hs; rfl)
    · cases hs
  | collect =>
    simp only [stepMain] at hs
    split at hs
    · injection hs with hs; subst hs; rfl
    · cases hs

theorem step_expected (s s' : S) (l : Label) (hs : step s l = some s') : expected s' = expected s := by
  cases l with
  | work i => exact stepAt_expected s s' i _ hs
  | check i => exact stepAt_expected s s' i _ hs
  | finish i => exact stepAt_expected s s' i _ hs
  | recv newer => exact stepMain_expected s s' (.recv newer) hs
  | collect => exact stepMain_expected s s' .collect hs

theorem init_inv (slices : List (List (List Int))) : Inv (init slices) := by
  refine ⟨?_, ?_, ?_⟩
  · intro w hw
    simp [init] at hw
    obtain ⟨sl, _, rfl⟩ := hw
    exact ⟨by simp, by intro r hr; cases hr⟩
  · intro out hout; cases hout
  · intro h; cases h

theorem run_inv (s : S) (ls : List Label) (h : Inv s) : Inv (run s ls) := by
  induction ls generalizing s with
  | nil => exact h
  | cons l ls ih =>
    simp only [run, List.foldl_cons]
    apply ih
    cases hs : step s l with
    | none => exact h
    | some s' => exact step_inv s s' l h hs

theorem expected_run (s : S) (ls : List Label) : expected (run s ls) = expected s := by
  induction ls generalizing s with
  | nil => rfl
  | cons l ls ih =>
    simp only [run, List.foldl_cons]
    have := ih ((step s l).getD s)
    simp only [run] at this
    rw [this]
    cases hs : step s l with
    | none => rfl
    | some s' => exact step_expected s s' l hs

theorem expected_init (slices : List (List (List Int))) : expected (init slices) = slices.map List.flatten := by
  simp [expected, init, List.map_map, Function.comp_def]

end Fzf.Scan
