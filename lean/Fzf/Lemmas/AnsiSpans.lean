import Fzf.Model.Ansi
/-
C11: the colour spans `extractColor` returns are ordered and do not overlap — for arbitrary bytes.
-/
namespace Fzf.Ansi
open Fzf

/-- Spans: each one non-empty-or-empty but not inverted, ending at or before `rc`, and every span
    ends where or before every later one begins. -/
def SpansOk (l : List Offset) (rc : Nat) : Prop :=
  (∀ o ∈ l, o.b ≤ o.e ∧ o.e ≤ rc) ∧ l.Pairwise (fun a b => a.e ≤ b.b)

theorem spansOk_mono {l : List Offset} {rc rc' : Nat} (h : SpansOk l rc) (hle : rc ≤ rc') : SpansOk l rc' :=
  ⟨fun o ho => ⟨(h.1 o ho).1, Nat.le_trans (h.1 o ho).2 hle⟩, h.2⟩

theorem spansOk_push {l : List Offset} {rc : Nat} (h : SpansOk l rc) (c : State) : SpansOk (l ++ [⟨rc, rc, c⟩]) rc := by
  refine ⟨?_, ?_⟩
  · intro o ho
    rcases List.mem_append.mp ho with ho | ho
    · exact h.1 o ho
    · simp only [List.mem_singleton] at ho; subst ho; exact ⟨Nat.le_refl _, Nat.le_refl _⟩
  · rw [List.pairwise_append]
    refine ⟨h.2, List.pairwise_singleton _ _, ?_⟩
    intro a ha b hb
    simp only [List.mem_singleton] at hb; subst hb
    exact (h.1 a ha).2

/-- Moving the end of the last span to `e'` (not before the bound so far). -/
theorem spansOk_setLast (init : List Offset) (last : Offset) (rc e' : Nat) (h : SpansOk (init ++ [last]) rc) (hle : rc ≤ e') :
    SpansOk (init ++ [{ last with e := e' }]) e' := by
  have hlast := h.1 last (by simp)
  refine ⟨?_, ?_⟩
  · intro o ho
    rcases List.mem_append.mp ho with ho | ho
    · have := h.1 o (List.mem_append_left _ ho); exact ⟨this.1, by omega⟩
    · simp only [List.mem_singleton] at ho; subst ho; exact ⟨by simp only; omega, Nat.le_refl _⟩
  · have hp := List.pairwise_append.mp h.2
    rw [List.pairwise_append]
    refine ⟨hp.1, List.pairwise_singleton _ _, ?_⟩
    intro a ha b hb
    simp only [List.mem_singleton] at hb; subst hb
    exact hp.2.2 a ha last (by simp)

theorem setLastEnd_toList (offs : Array Offset) (e : Nat) :
    (setLastEnd offs e).toList =
      match offs.toList.getLast? with
      | none => []
      | some last => offs.toList.dropLast ++ [{ last with e := e }] := by
  unfold setLastEnd
  by_cases h0 : offs.size = 0
  · have : offs.toList = [] := by
      have := Array.length_toList (xs := offs); rw [h0] at this; exact List.eq_nil_of_length_eq_zero this
    simp [h0, this]
  · rw [if_neg h0]
    have hne : offs.toList ≠ [] := by
      intro e0; apply h0; have := Array.length_toList (xs := offs); rw [e0] at this; simpa using this.symm
    obtain ⟨init, last, hil⟩ : ∃ init last, offs.toList = init ++ [last] :=
      ⟨offs.toList.dropLast, offs.toList.getLast hne, (List.dropLast_concat_getLast hne).symm⟩
    have hsz : offs.size = init.length + 1 := by
      have := Array.length_toList (xs := offs); rw [hil] at this; simp at this; omega
    rw [hil]
    simp only [List.getLast?_append, List.getLast?_singleton, Option.some_or, List.dropLast_concat]
    apply List.ext_getElem
    · simp [Array.size_modify, hsz]
    · intro i h1 h2
      simp only [Array.getElem_toList]
      by_cases hi : i = init.length
      · subst hi
        have hlt : offs.size - 1 < offs.size := by omega
        have e1 : offs.size - 1 = init.length := by omega
        simp only [Array.getElem_modify, e1, if_true, List.getElem_append_right (Nat.le_refl _), Nat.sub_self, List.getElem_cons_zero]
        have : offs[init.length]'(by omega) = last := by
          have := List.getElem_of_eq hil (i := init.length) (by simp [← Array.length_toList, hil])
          simpa [Array.getElem_toList] using this
        rw [this]
      · have hi' : i < init.length := by
          simp at h2; omega
        have e1 : offs.size - 1 = init.length := by omega
        simp only [Array.getElem_modify, e1]
        rw [if_neg (by omega), List.getElem_append_left hi']
        have := List.getElem_of_eq hil (i := i) (by simp [← Array.length_toList, hil]; omega)
        simpa [Array.getElem_toList, List.getElem_append_left hi'] using this

/-- `setLastEnd` keeps the spans well-formed when the new end is not before the bound so far. -/
theorem spansOk_setLastEnd (offs : Array Offset) (rc e' : Nat) (h : SpansOk offs.toList rc) (hle : rc ≤ e') :
    SpansOk (setLastEnd offs e').toList e' := by
  rw [setLastEnd_toList]
  cases hg : offs.toList.getLast? with
  | none => exact ⟨fun o ho => (by cases ho), List.Pairwise.nil⟩
  | some last =>
    simp only
    have hne : offs.toList ≠ [] := by intro e0; rw [e0] at hg; simp at hg
    have hil : offs.toList = offs.toList.dropLast ++ [last] := by
      have := List.dropLast_concat_getLast hne
      have hl : offs.toList.getLast hne = last := by
        have := List.getLast?_eq_some_getLast hne; rw [this] at hg; exact Option.some.inj hg
      rw [hl] at this; exact this.symm
    rw [hil] at h
    exact spansOk_setLast _ last rc e' h hle

end Fzf.Ansi

namespace Fzf.Ansi
open Fzf

/-- What one round of the loop does to the state, given the rune count after the text before the
    sequence, the state the sequence leads to, and whether that is the state as before. -/
def stepEX (x : EX) (out : Array Nat) (rc stop : Nat) (newState : State) (same : Bool) : EX :=
  let x' : EX := { x with out := out, runeCount := rc, prevIdx := stop, idx := stop }
  if !same then
    let offs := if x.state.isSome then setLastEnd x.offsets rc else x.offsets
    if newState.colored then { x' with state := some newState, offsets := offs.push ⟨rc, rc, newState⟩ }
    else { x' with state := none, offsets := offs }
  else x'

theorem stepEX_spans (x : EX) (out : Array Nat) (rc stop : Nat) (newState : State) (same : Bool)
    (h : SpansOk x.offsets.toList x.runeCount) (hle : x.runeCount ≤ rc) :
    SpansOk (stepEX x out rc stop newState same).offsets.toList (stepEX x out rc stop newState same).runeCount := by
  have hoffs : SpansOk (if x.state.isSome then setLastEnd x.offsets rc else x.offsets).toList rc := by
    split
    · exact spansOk_setLastEnd x.offsets x.runeCount rc h hle
    · exact spansOk_mono h hle
  unfold stepEX
  cases same with
  | true => simpa using spansOk_mono h hle
  | false =>
    simp only [Bool.not_false, if_true]
    by_cases hc : newState.colored = true
    · simp only [hc, if_true, Array.toList_push]
      exact spansOk_push hoffs newState
    · simp only [hc, Bool.false_eq_true, if_false]
      exact hoffs

/-- The loop, one round at a time. -/
theorem extractLoop_succ (s : Bytes) (idBase : Nat) (x : EX) (fuel : Nat) :
    extractLoop s idBase x (fuel + 1) =
      if x.idx < s.size then
        match nextEscape s x.idx with
        | none => x
        | some (start, stop) =>
          extractLoop s idBase
            (stepEX x (x.out ++ s.extract x.prevIdx start)
              (x.runeCount + (if (s.extract x.prevIdx start).size != 0 then Utf8.runeCount (s.extract x.prevIdx start).toList else 0))
              stop (interpretCode (s.extract start stop).toList x.state (idBase + start))
              (match x.state with
                | none => !(interpretCode (s.extract start stop).toList x.state (idBase + start)).colored
                | some st => st == interpretCode (s.extract start stop).toList x.state (idBase + start))) fuel
      else x := by
  rw [extractLoop]
  by_cases hidx : x.idx < s.size
  · simp only [hidx, if_true]
    cases nextEscape s x.idx with
    | none => rfl
    | some p =>
      obtain ⟨start, stop⟩ := p
      simp only [stepEX]
      generalize interpretCode (s.extract start stop).toList x.state (idBase + start) = ns
      cases hst : x.state with
      | none => cases hcol : ns.colored <;> simp [hcol]
      | some st0 => cases hcol : ns.colored <;> cases heq : (st0 == ns) <;> simp [hcol, heq]
  · simp only [hidx, if_false]

theorem extractLoop_spans (s : Bytes) (idBase : Nat) (fuel : Nat) (x : EX)
    (h : SpansOk x.offsets.toList x.runeCount) :
    SpansOk (extractLoop s idBase x fuel).offsets.toList (extractLoop s idBase x fuel).runeCount := by
  induction fuel generalizing x with
  | zero => exact h
  | succ fuel ih =>
    rw [extractLoop_succ]
    by_cases hidx : x.idx < s.size
    · rw [if_pos hidx]
      cases nextEscape s x.idx with
      | none => exact h
      | some p =>
        obtain ⟨start, stop⟩ := p
        simp only
        exact ih _ (stepEX_spans x _ _ _ _ _ h (by omega))
    · rw [if_neg hidx]; exact h

theorem extractFinish_spans (s : Bytes) (x : EX) (hl : SpansOk x.offsets.toList x.runeCount) (offs : List Offset)
    (h : (extractFinish s x).2.1 = some offs) :
    (∀ o ∈ offs, o.b ≤ o.e) ∧ offs.Pairwise (fun a b => a.e ≤ b.b) := by
  have hfin : SpansOk (if x.state.isSome then setLastEnd x.offsets (x.runeCount + Utf8.runeCount (s.extract x.prevIdx s.size).toList) else x.offsets).toList
      (x.runeCount + Utf8.runeCount (s.extract x.prevIdx s.size).toList) := by
    split
    · exact spansOk_setLastEnd x.offsets x.runeCount _ hl (by omega)
    · exact spansOk_mono hl (by omega)
  unfold extractFinish at h
  by_cases hsz : x.offsets.size > 0
  · simp only [hsz, if_true, Option.some.injEq] at h
    rw [← h]
    exact ⟨fun o ho => (hfin.1 o ho).1, hfin.2⟩
  · simp only [hsz, if_false] at h
    cases h

/-- **The colour spans are ordered and do not overlap.** For arbitrary bytes and any state
    carried over from the previous line, the spans `extractColor` returns are not inverted
    (`b ≤ e`) and every span ends where or before every later span begins. -/
theorem extractColor_spans (s : Bytes) (st : Option State) (idBase : Nat) (offs : List Offset)
    (h : (extractColor s st idBase).2.1 = some offs) :
    (∀ o ∈ offs, o.b ≤ o.e) ∧ offs.Pairwise (fun a b => a.e ≤ b.b) := by
  unfold extractColor at h
  cases st with
  | none =>
    exact extractFinish_spans s _ (extractLoop_spans s idBase (s.size + 1) _ ⟨fun o ho => (by cases ho), List.Pairwise.nil⟩) offs h
  | some st0 =>
    refine extractFinish_spans s _ (extractLoop_spans s idBase (s.size + 1) _ ⟨?_, by simp⟩) offs h
    intro o ho
    simp at ho; subst ho; exact ⟨Nat.le_refl _, Nat.le_refl _⟩

end Fzf.Ansi
