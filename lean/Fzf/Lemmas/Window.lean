import Fzf.Lemmas.Terminal
/-
C09 / C15: after `constrain` the list cursor is inside the window: the row of the current result
is one of the rows of the list, and the window does not scroll past the end of the list.
-/
namespace Fzf.Terminal

theorem constrainInt_range (v lo hi : Int) (h : lo ≤ hi) : lo ≤ constrainInt v lo hi ∧ constrainInt v lo hi ≤ hi := by
  unfold constrainInt; split <;> (try split) <;> omega

theorem phase0_range (ml cy lo so : Int) : ∀ (fuel : Nat) (o : Int), lo ≤ o →
    lo ≤ constrain.phase0 ml cy lo so o fuel ∧ constrain.phase0 ml cy lo so o fuel ≤ o := by
  intro fuel
  induction fuel with
  | zero => intro o h; unfold constrain.phase0; exact ⟨h, Int.le_refl _⟩
  | succ fuel ih =>
    intro o h
    unfold constrain.phase0
    simp only
    split
    · exact ⟨h, Int.le_refl _⟩
    · split
      · split
        · exact ⟨h, Int.le_refl _⟩
        · have := ih (max lo (o - 1)) (by omega)
          omega
      · exact ⟨h, Int.le_refl _⟩

theorem phase1_range (ml cy hi so : Int) : ∀ (fuel : Nat) (o : Int), o ≤ hi →
    o ≤ constrain.phase1 ml cy hi so o fuel ∧ constrain.phase1 ml cy hi so o fuel ≤ hi := by
  intro fuel
  induction fuel with
  | zero => intro o h; unfold constrain.phase1; exact ⟨Int.le_refl _, h⟩
  | succ fuel ih =>
    intro o h
    unfold constrain.phase1
    simp only
    split
    · exact ⟨Int.le_refl _, h⟩
    · split
      · split
        · exact ⟨Int.le_refl _, h⟩
        · have := ih (min hi (o + 1)) (by omega)
          omega
      · exact ⟨Int.le_refl _, h⟩

theorem iter_range (step : Int → Int) (lo hi : Int) (hs : ∀ x, lo ≤ step x ∧ step x ≤ hi) :
    ∀ (fuel : Nat) (x : Int), (fuel ≥ 1 ∨ (lo ≤ x ∧ x ≤ hi)) →
      lo ≤ constrain.iter step x fuel ∧ constrain.iter step x fuel ≤ hi := by
  intro fuel
  induction fuel with
  | zero =>
    intro x h
    unfold constrain.iter
    rcases h with h | h
    · omega
    · exact h
  | succ fuel ih =>
    intro x _
    unfold constrain.iter
    simp only
    split
    · rename_i heq
      rw [← heq]; exact hs x
    · exact ih (step x) (Or.inr (hs x))

/-- **The cursor is on screen.** After `constrain`, for a list window of at least one row and a
    non-empty result list: the scroll offset is not negative, the current result lies inside the
    window (`offset ≤ cy < offset + rows`), and the window does not extend past the end of the
    list unless the list is shorter than the window (`offset ≤ max (count - rows) 0`). -/
theorem constrain_window (op : Opts) (s : TS) (hrows : 0 < rowsOf op s) (hne : s.results ≠ []) :
    let s' := constrain op s
    0 ≤ s'.offset ∧ s'.offset ≤ s'.cy ∧ s'.cy < s'.offset + (rowsOf op s : Int) ∧
    s'.offset ≤ max ((s.results.length : Int) - (rowsOf op s : Int)) 0 := by
  have hl : 0 < s.results.length := List.length_pos_iff.mpr hne
  have hcy : 0 ≤ constrainInt s.cy 0 (max 0 ((s.results.length : Int) - 1)) ∧
      constrainInt s.cy 0 (max 0 ((s.results.length : Int) - 1)) ≤ (s.results.length : Int) - 1 := by
    have := constrainInt_range s.cy 0 (max 0 ((s.results.length : Int) - 1)) (by omega)
    omega
  unfold constrain
  simp only
  have hr0 : ¬ rowsOf op s = 0 := by omega
  rw [if_neg hr0]
  generalize hcyd : constrainInt s.cy 0 (max 0 ((s.results.length : Int) - 1)) = cy at hcy
  -- every value of `step` lies between minOffset and maxOffset
  have hstep : ∀ x : Int,
      max (cy - (rowsOf op s : Int) + 1) 0 ≤
        (if op.scrollOff > 0 then
          constrain.phase1 (rowsOf op s : Int) cy (max (min ((s.results.length : Int) - (rowsOf op s : Int)) cy) 0) (min ((rowsOf op s : Int) / 2) (op.scrollOff : Int))
            (constrain.phase0 (rowsOf op s : Int) cy (max (cy - (rowsOf op s : Int) + 1) 0) (min ((rowsOf op s : Int) / 2) (op.scrollOff : Int))
              (constrainInt x (max (cy - (rowsOf op s : Int) + 1) 0) (max (min ((s.results.length : Int) - (rowsOf op s : Int)) cy) 0)) (rowsOf op s + 1))
            (rowsOf op s + 1)
        else constrainInt x (max (cy - (rowsOf op s : Int) + 1) 0) (max (min ((s.results.length : Int) - (rowsOf op s : Int)) cy) 0)) ∧
      (if op.scrollOff > 0 then
          constrain.phase1 (rowsOf op s : Int) cy (max (min ((s.results.length : Int) - (rowsOf op s : Int)) cy) 0) (min ((rowsOf op s : Int) / 2) (op.scrollOff : Int))
            (constrain.phase0 (rowsOf op s : Int) cy (max (cy - (rowsOf op s : Int) + 1) 0) (min ((rowsOf op s : Int) / 2) (op.scrollOff : Int))
              (constrainInt x (max (cy - (rowsOf op s : Int) + 1) 0) (max (min ((s.results.length : Int) - (rowsOf op s : Int)) cy) 0)) (rowsOf op s + 1))
            (rowsOf op s + 1)
        else constrainInt x (max (cy - (rowsOf op s : Int) + 1) 0) (max (min ((s.results.length : Int) - (rowsOf op s : Int)) cy) 0)) ≤
        max (min ((s.results.length : Int) - (rowsOf op s : Int)) cy) 0 := by
    intro x
    have hlohi : max (cy - (rowsOf op s : Int) + 1) 0 ≤ max (min ((s.results.length : Int) - (rowsOf op s : Int)) cy) 0 := by omega
    have hc := constrainInt_range x _ _ hlohi
    generalize constrainInt x (max (cy - (rowsOf op s : Int) + 1) 0) (max (min ((s.results.length : Int) - (rowsOf op s : Int)) cy) 0) = c0 at hc ⊢
    split
    · have h0 := phase0_range (rowsOf op s : Int) cy (max (cy - (rowsOf op s : Int) + 1) 0) (min ((rowsOf op s : Int) / 2) (op.scrollOff : Int)) (rowsOf op s + 1) c0 hc.1
      generalize constrain.phase0 (rowsOf op s : Int) cy (max (cy - (rowsOf op s : Int) + 1) 0) (min ((rowsOf op s : Int) / 2) (op.scrollOff : Int)) c0 (rowsOf op s + 1) = p0 at h0 ⊢
      have h1 := phase1_range (rowsOf op s : Int) cy (max (min ((s.results.length : Int) - (rowsOf op s : Int)) cy) 0) (min ((rowsOf op s : Int) / 2) (op.scrollOff : Int)) (rowsOf op s + 1) p0 (by omega)
      generalize constrain.phase1 (rowsOf op s : Int) cy (max (min ((s.results.length : Int) - (rowsOf op s : Int)) cy) 0) (min ((rowsOf op s : Int) / 2) (op.scrollOff : Int)) p0 (rowsOf op s + 1) = p1 at h1 ⊢
      omega
    · exact hc
  have hit := iter_range _ _ _ hstep (rowsOf op s) (constrainInt s.offset 0 (s.results.length : Int)) (Or.inl (by omega))
  omega

end Fzf.Terminal
