import Fzf.Model.Rank
namespace Fzf.Rank

theorem sliceGo_flatten (ps : Nat) (k : Nat) (l : List α) (hk : 0 < k) :
    (sliceGo ps k l).flatten = l := by
  induction k generalizing l with
  | zero => omega
  | succ k ih =>
    cases k with
    | zero => simp [sliceGo]
    | succ k => simp [sliceGo, ih (l.drop ps) (by omega)]

theorem sliceGo_length (ps : Nat) (k : Nat) (l : List α) : (sliceGo ps k l).length = k := by
  induction k generalizing l with
  | zero => simp [sliceGo]
  | succ k ih =>
    cases k with
    | zero => simp [sliceGo]
    | succ k => simp [sliceGo, ih]

/-- Rank points as Go holds them: four uint16. -/
def WF (r : R) : Prop := r.pts.length = 4 ∧ ∀ p ∈ r.pts, p < 65536

theorem wf_get (r : R) (h : WF r) (i : Nat) : r.pts.getD i 0 < 65536 := by
  obtain ⟨_, hp⟩ := h
  by_cases hi : i < r.pts.length
  · simp only [List.getD_eq_getElem?_getD, List.getElem?_eq_getElem hi, Option.getD_some]
    exact hp _ (List.getElem_mem hi)
  · simp only [List.getD_eq_getElem?_getD, List.getElem?_eq_none (by omega : r.pts.length ≤ i), Option.getD_none]
    omega

/-- Chunks of a list in which every chunk except possibly the last holds exactly `cs` items, and the
    last one at most `cs`. -/
def Uniform (cs : Nat) : List (List Int) → Prop
  | [] => True
  | [c] => c.length ≤ cs
  | c :: c' :: rest => c.length = cs ∧ Uniform cs (c' :: rest)

/-- Indexing a uniformly chunked list by division and remainder is indexing the flat list. -/
theorem uniform_get (cs : Nat) (hcs : 0 < cs) :
    ∀ (l : List (List Int)) (j : Nat), Uniform cs l → (l[j / cs]?).bind (·[j % cs]?) = l.flatten[j]?
  | [], j, _ => by simp
  | [c], j, h => by
    simp only [Uniform] at h
    simp only [List.flatten_cons, List.flatten_nil, List.append_nil]
    by_cases hj : j < cs
    · have h0 : j / cs = 0 := Nat.div_eq_of_lt hj
      have h1 : j % cs = j := Nat.mod_eq_of_lt hj
      simp [h0, h1]
    · have h0 : 0 < j / cs := Nat.div_pos (by omega) hcs
      have : [c][j / cs]? = none := by
        rw [List.getElem?_eq_none]; simp; omega
      rw [this, Option.bind_none]
      rw [List.getElem?_eq_none]; omega
  | c :: c' :: rest, j, h => by
    obtain ⟨hc, hrest⟩ := h
    simp only [List.flatten_cons]
    by_cases hj : j < cs
    · have h0 : j / cs = 0 := Nat.div_eq_of_lt hj
      have h1 : j % cs = j := Nat.mod_eq_of_lt hj
      simp only [h0, h1, List.getElem?_cons_zero, Option.bind_some]
      rw [List.getElem?_append_left (by omega)]
    · have hge : cs ≤ j := by omega
      have hd : j / cs = (j - cs) / cs + 1 := by
        have := Nat.sub_add_cancel hge
        conv => lhs; rw [← this]
        exact Nat.add_div_right _ hcs
      have hm : j % cs = (j - cs) % cs := by
        have := Nat.sub_add_cancel hge
        conv => lhs; rw [← this]
        exact Nat.add_mod_right _ _
      rw [hd, hm, List.getElem?_cons_succ]
      rw [List.getElem?_append_right (by omega), hc]
      have ih := uniform_get cs hcs (c' :: rest) (j - cs) hrest
      simp only [List.flatten_cons] at ih
      exact ih

/-- The chunk layouts a snapshot can have: the first chunk possibly partial (after --tail trimming),
    every chunk between it and the last one full, the last one at most full. -/
def Layout (cs : Nat) : List (List Int) → Prop
  | [] => True
  | first :: rest => first.length ≤ cs ∧ Uniform cs rest

theorem sum_length_flatten (l : List (List Int)) : (l.map List.length).sum = l.flatten.length := by
  induction l with
  | nil => rfl
  | cons c l ih => simp only [List.map_cons, List.sum_cons, List.flatten_cons, List.length_append, ih]

theorem passGet_fwd (cs : Nat) (hcs : 0 < cs) (chunks : List (List Int)) (h : Layout cs chunks) (idx : Nat) :
    passGet cs chunks false idx = chunks.flatten[idx]? := by
  unfold passGet
  simp only [Bool.false_eq_true, if_false]
  have hnn : ¬ ((idx : Int) < 0) := by omega
  simp only [hnn, if_false, Int.toNat_natCast]
  cases chunks with
  | nil => simp
  | cons first rest =>
    obtain ⟨hf, hu⟩ := h
    simp only [List.flatten_cons]
    by_cases hA : first.length < cs ∧ idx ≥ first.length
    · rw [if_pos hA, List.getElem?_cons_succ, uniform_get cs hcs rest _ hu]
      rw [List.getElem?_append_right hA.2]
    · rw [if_neg hA]
      by_cases hfull : first.length = cs
      · have hU : Uniform cs (first :: rest) := by
          cases rest with
          | nil => simp only [Uniform]; omega
          | cons c r => exact ⟨hfull, hu⟩
        have := uniform_get cs hcs (first :: rest) idx hU
        simpa using this
      · have hlt : idx < first.length := by omega
        have hcsi : idx < cs := by omega
        have h0 : idx / cs = 0 := Nat.div_eq_of_lt hcsi
        have h1 : idx % cs = idx := Nat.mod_eq_of_lt hcsi
        simp only [h0, h1, List.getElem?_cons_zero, Option.bind_some]
        rw [List.getElem?_append_left hlt]

theorem passGet_tac (cs : Nat) (hcs : 0 < cs) (chunks : List (List Int)) (h : Layout cs chunks) (idx : Nat) :
    passGet cs chunks true idx = chunks.flatten.reverse[idx]? := by
  have hsum := sum_length_flatten chunks
  by_cases hidx : idx < chunks.flatten.length
  · have hf := passGet_fwd cs hcs chunks h (chunks.flatten.length - 1 - idx)
    unfold passGet at hf ⊢
    simp only [Bool.false_eq_true, if_false, if_true] at hf ⊢
    rw [hsum]
    have e1 : ((chunks.flatten.length : Int) - (idx : Int) - 1) = ((chunks.flatten.length - 1 - idx : Nat) : Int) := by omega
    rw [e1]
    rw [List.getElem?_reverse hidx]
    exact hf
  · unfold passGet
    simp only [if_true]
    rw [hsum]
    have : ((chunks.flatten.length : Int) - (idx : Int) - 1) < 0 := by omega
    simp only [this, if_true]
    rw [List.getElem?_eq_none (by simp; omega)]

theorem cmp_total_asymm (a b : R) (tac : Bool) (hidx : a.index ≠ b.index) :
    compareRanks64 a b tac = !compareRanks64 b a tac := by
  unfold compareRanks64
  by_cases h1 : packed a < packed b
  · have : ¬ packed b < packed a := by omega
    have : packed b > packed a := h1
    simp [h1, *]
  · by_cases h2 : packed a > packed b
    · have : packed b < packed a := h2
      simp [h1, h2, this]
    · have he : packed a = packed b := by omega
      simp only [he, Nat.lt_irrefl, gt_iff_lt, if_false]
      by_cases hle : a.index ≤ b.index
      · have : ¬ b.index ≤ a.index := by omega
        cases tac <;> simp [hle, this]
      · have : b.index ≤ a.index := by omega
        cases tac <;> simp [hle, this]

theorem cmp_trans (a b c : R) (tac : Bool)
    (hab : compareRanks64 a b tac = true) (hbc : compareRanks64 b c tac = true) : compareRanks64 a c tac = true := by
  unfold compareRanks64 at *
  by_cases h1 : packed a < packed b
  · by_cases h2 : packed b < packed c
    · rw [if_pos (by omega)]
    · by_cases h2' : packed b > packed c
      · simp [h2, h2'] at hbc
      · have : packed b = packed c := by omega
        rw [if_pos (by omega)]
  · by_cases h1' : packed a > packed b
    · simp [h1, h1'] at hab
    · have e1 : packed a = packed b := by omega
      simp only [e1, Nat.lt_irrefl, gt_iff_lt, if_false] at hab
      by_cases h2 : packed b < packed c
      · rw [if_pos (by omega)]
      · by_cases h2' : packed b > packed c
        · simp [h2, h2'] at hbc
        · have e2 : packed b = packed c := by omega
          simp only [e2, Nat.lt_irrefl, gt_iff_lt, if_false] at hbc
          simp only [e1, e2, Nat.lt_irrefl, gt_iff_lt, if_false]
          cases tac <;> simp at * <;> omega


end Fzf.Rank
