import Fzf.Model.Rank
namespace Fzf.Rank

theorem sliceGo_flatten (ps : Nat) (k : Nat) (l : List α) (hk : 0 < k) :
    (sliceGo ps k l).flatten = l := by
  induction k generalizing l with
  | zero => omega
  | succ k ih =>
    cases k with
    | zero => simp [sliceGo]
    | succ k => simp [sliceGo, ih (l.drop ps) (by omega)]

theorem sliceGo_length (ps : Nat) (k : Nat) (l : List α) : (sliceGo ps k l).length = k := by
  induction k generalizing l with
  | zero => simp [sliceGo]
  | succ k ih =>
    cases k with
    | zero => simp [sliceGo]
    | succ k => simp [sliceGo, ih]

/-- Rank points as Go holds them: four uint16. -/
def WF (r : R) : Prop := r.pts.length = 4 ∧ ∀ p ∈ r.pts, p < 65536

theorem wf_get (r : R) (h : WF r) (i : Nat) : r.pts.getD i 0 < 65536 := by
  obtain ⟨_, hp⟩ := h
  by_cases hi : i < r.pts.length
  · simp only [List.getD_eq_getElem?_getD, List.getElem?_eq_getElem hi, Option.getD_some]
    exact hp _ (List.getElem_mem hi)
  · simp only [List.getD_eq_getElem?_getD, List.getElem?_eq_none (by omega : r.pts.length ≤ i), Option.getD_none]
    omega

end Fzf.Rank
