import Fzf.Model.Render
/-
Helper lemmas for C15 (rendering model).
-/
namespace Fzf.Render
open Fzf Fzf.Terminal

theorem lastN_length (n : Nat) (l : List α) : (lastN n l).length = min n l.length := by
  unfold lastN; simp; omega

theorem lastN_infix (n : Nat) (l : List α) : lastN n l <:+: l := by
  unfold lastN; exact (List.drop_suffix _ _).isInfix

theorem fit_of_le (o : ROpts) (mw : Nat) (line : Str) (maxe : Nat) (hasPos : Bool)
    (h : line.length ≤ mw) : fit o mw line maxe hasPos = line := by
  unfold fit; simp [h]

theorem fit_length_le (o : ROpts) (mw : Nat) (line : Str) (maxe : Nat) (hasPos : Bool) :
    (fit o mw line maxe hasPos).length ≤ mw := by
  unfold fit
  by_cases h : line.length ≤ mw
  · simp [h]
  · simp only [h, if_false]
    have hew : (o.ellipsis.take (mw / 2)).length ≤ mw / 2 := by simp; omega
    generalize o.ellipsis.take (mw / 2) = ell at *
    have : mw / 2 ≤ mw := Nat.div_le_self _ _
    split
    · split
      · simp [lastN_length]; omega
      · split
        · simp; omega
        · simp [lastN_length]; omega
    · simp; omega

theorem lastN_append_right (n : Nat) (a b : List α) (h : b.length ≤ n) :
    lastN n (a ++ b) = lastN (n - b.length) a ++ b := by
  unfold lastN
  rw [List.length_append, List.drop_append_of_le_length (by omega)]
  congr 2
  omega

theorem fit_is_slice (o : ROpts) (mw : Nat) (line : Str) (maxe : Nat) (hasPos : Bool)
    (h : mw < line.length) :
    ∃ pre slice suf, fit o mw line maxe hasPos = pre ++ slice ++ suf ∧ slice <:+: line ∧
      (pre = [] ∨ pre = o.ellipsis.take (mw / 2)) ∧ (suf = [] ∨ suf = o.ellipsis.take (mw / 2)) := by
  unfold fit
  have h' : ¬ line.length ≤ mw := by omega
  simp only [h', if_false]
  have hew : (o.ellipsis.take (mw / 2)).length ≤ mw / 2 := by simp; omega
  generalize o.ellipsis.take (mw / 2) = ell at *
  split
  · split
    · exact ⟨ell, lastN (mw - ell.length) line, [], by simp, lastN_infix _ _, Or.inr rfl, Or.inl rfl⟩
    · split
      · exact ⟨[], line.take (mw - ell.length), ell, by simp, (List.take_prefix _ _).isInfix, Or.inl rfl, Or.inr rfl⟩
      · split
        · refine ⟨ell, lastN (mw - ell.length - ell.length) (line.take (min (maxe + min (mw / 2 - ell.length) o.hscrollOff) line.length)), ell, ?_, ?_, Or.inr rfl, Or.inr rfl⟩
          · rw [lastN_append_right _ _ _ (by omega)]; simp
          · exact (lastN_infix _ _).trans (List.take_prefix _ _).isInfix
        · exact ⟨ell, lastN (mw - ell.length) line, [], by simp, lastN_infix _ _, Or.inr rfl, Or.inl rfl⟩
  · exact ⟨[], line.take (mw - ell.length), ell, by simp, (List.take_prefix _ _).isInfix, Or.inl rfl, Or.inr rfl⟩


theorem put_length (row : Str) (col : Nat) (seg : Str) : (put row col seg).length = row.length := by
  unfold put
  simp only [List.length_take, List.length_append, List.length_drop]
  omega

theorem put_getElem? (row : Str) (col : Nat) (seg : Str) (i : Nat) :
    (put row col seg)[i]? =
      if i < row.length then (if i < col then row[i]? else if i < col + seg.length then seg[i - col]? else row[i]?) else none := by
  unfold put
  rw [List.getElem?_take]
  by_cases hi : i < row.length
  · simp only [hi, if_true]
    by_cases h1 : i < col
    · simp only [h1, if_true]
      rw [List.append_assoc, List.getElem?_append_left (by simp; omega), List.getElem?_take]
      simp [h1]
    · simp only [h1, if_false]
      have hc : col ≤ row.length := by omega
      have hl : (row.take col).length = col := by simp; omega
      rw [List.append_assoc, List.getElem?_append_right (by omega), hl]
      by_cases h2 : i < col + seg.length
      · simp only [h2, if_true]
        rw [List.getElem?_append_left (by omega)]
      · simp only [h2, if_false]
        rw [List.getElem?_append_right (by omega), List.getElem?_drop]
        congr 1; omega
  · simp [hi]

theorem blanks_getElem? (n i : Nat) : (blanks n)[i]? = if i < n then some 32 else none := by
  unfold blanks
  by_cases h : i < n <;> simp [h]

theorem rowOf_length (W : Nat) (cells : Str) : (rowOf W cells).length = W := by
  simp [rowOf, blanks]

theorem rowOf_getElem? (W : Nat) (cells : Str) (i : Nat) :
    (rowOf W cells)[i]? = if i < W then (if i < cells.length then cells[i]? else some 32) else none := by
  unfold rowOf
  rw [List.getElem?_take]
  by_cases hi : i < W
  · simp only [hi, if_true]
    by_cases hc : i < cells.length
    · simp only [hc, if_true]; rw [List.getElem?_append_left hc]
    · simp only [hc, if_false]
      rw [List.getElem?_append_right (by omega), blanks_getElem?]
      simp; omega
  · simp [hi]

theorem rowInv_blank (o : ROpts) : RowInv o (blanks o.W) ⟨0⟩ := by
  refine ⟨by simp [blanks], ?_⟩
  intro i _ hi
  rw [blanks_getElem?]; simp [hi]

theorem itemCells_length (o : ROpts) (r : RowIn) :
    (itemCells o r).length = ind o + (if o.W - (ind o + 1) > 0 then fit o (o.W - (ind o + 1)) r.text r.maxe r.hasPos else []).length := by
  unfold itemCells ind
  simp only [List.length_append]
  have h1 : (if r.current then o.pointer else blanks o.pointer.length).length = o.pointer.length := by
    split <;> simp [blanks]
  have h2 : (if r.selected then o.marker else blanks o.marker.length).length = o.marker.length := by
    split <;> simp [blanks]
  rw [h1, h2]

theorem paint_eq_full (o : ROpts) (old : Str) (prev : Prev) (r : RowIn) (hinv : RowInv o old prev) :
    (paintItemRow o old prev r).1 = itemRow o r ∧ RowInv o (paintItemRow o old prev r).1 (paintItemRow o old prev r).2 := by
  obtain ⟨hlen, hblank⟩ := hinv
  have hcl := itemCells_length o r
  have heq : (paintItemRow o old prev r).1 = itemRow o r := by
    unfold paintItemRow itemRow
    simp only
    generalize htxt : (if o.W - (ind o + 1) > 0 then fit o (o.W - (ind o + 1)) r.text r.maxe r.hasPos else []) = txt at *
    generalize itemCells o r = cells at *
    apply List.ext_getElem?
    intro i
    rw [put_getElem?, put_length, put_getElem?, rowOf_getElem?, hlen]
    by_cases hi : i < o.W
    · simp only [hi, if_true]
      by_cases hc : i < cells.length
      · simp [hc]
      · simp only [hc, if_false, Nat.zero_add]
        have h0 : ¬ i < 0 := by omega
        simp only [h0, if_false]
        by_cases hf : i < cells.length + (blanks (prev.width - txt.length)).length
        · simp only [hf, if_true]
          rw [blanks_getElem?]
          simp [blanks] at hf
          simp; omega
        · simp only [hf, if_false]
          simp [blanks] at hf
          exact hblank i (by omega) hi
    · simp [hi]
  refine ⟨heq, ?_⟩
  rw [heq]
  refine ⟨by simp [itemRow, rowOf_length], ?_⟩
  intro i h1 h2
  unfold itemRow
  rw [rowOf_getElem?]
  simp only [h2, if_true]
  have : ¬ i < (itemCells o r).length := by
    rw [hcl]
    simp only [paintItemRow] at h1
    omega
  simp [this]

theorem listRows_length (o : ROpts) (v : View) : (listRows o v).length = maxItems o := by
  unfold listRows
  simp only [List.length_append, List.length_map, List.length_take, List.length_replicate]
  omega

theorem listRows_get (o : ROpts) (v : View) (k : Nat) (hk : k < maxItems o) (r : RowIn) (hr : v.rows[k]? = some r) :
    (listRows o v)[k]? = some (itemRow o r) := by
  unfold listRows
  have hlt : k < v.rows.length := by
    rcases List.getElem?_eq_some_iff.mp hr with ⟨h, _⟩; exact h
  simp only
  rw [List.getElem?_append_left (by simp; omega)]
  simp [hk, hr]

theorem promptLines_cases (o : ROpts) :
    (o.inputless = true ∧ promptLines o = 0) ∨ (o.inputless = false ∧ (promptLines o = 1 ∨ promptLines o = 2)) := by
  unfold promptLines
  cases o.inputless <;> simp

theorem inputRows_length (o : ROpts) (v : View) : (inputRows o v).length = promptLines o := by
  unfold inputRows
  rcases promptLines_cases o with ⟨hi, h⟩ | ⟨hi, h | h⟩ <;> simp [h, hi]

theorem hdr0Rows_length (o : ROpts) : (hdr0Rows o).length = o.header0.length := by
  unfold hdr0Rows; simp only; split <;> simp

theorem logical_length (o : ROpts) (v : View) : (logical o v).length = promptLines o + o.header0.length := by
  unfold logical; rw [List.length_append, inputRows_length, hdr0Rows_length]

/-- The fixed block has the same height with and without --header-first. -/
theorem fixedBlock_length (o : ROpts) (v : View) :
    (fixedBlock o v).length = promptLines o + o.header0.length + o.headerItems.length := by
  unfold fixedBlock
  simp only
  split
  · simp only [List.length_append, List.length_map, inputRows_length, hdr0Rows_length]; omega
  · simp only [List.length_append, List.length_map, logical_length]

theorem bottomBlock_length (o : ROpts) (v : View) :
    (if o.headerFirst then hdr0Rows o ++ inputRows o v else logical o v).length = promptLines o + o.header0.length := by
  split
  · simp only [List.length_append, inputRows_length, hdr0Rows_length]; omega
  · exact logical_length o v

theorem fullRender_length (o : ROpts) (v : View) (hroom : promptLines o + o.header0.length + o.headerItems.length ≤ o.H) :
    (fullRender o v).length = o.H := by
  have hl := fixedBlock_length o v
  have hb := bottomBlock_length o v
  have hr := listRows_length o v
  unfold fullRender
  unfold maxItems at hr
  cases o.layout <;> simp [hl, hr, hb] <;> omega

theorem fullRender_list_row (o : ROpts) (v : View) (k : Nat) (hk : k < maxItems o)
    (hroom : promptLines o + o.header0.length + o.headerItems.length ≤ o.H) :
    let fixed := promptLines o + o.header0.length + o.headerItems.length
    (o.layout = .reverse → (fullRender o v)[fixed + k]? = (listRows o v)[k]?) ∧
    (o.layout = .default → (fullRender o v)[o.H - 1 - (fixed + k)]? = (listRows o v)[k]?) ∧
    (o.layout = .reverseList → (fullRender o v)[o.headerItems.length + k]? = (listRows o v)[k]?) := by
  have hl := fixedBlock_length o v
  have hr := listRows_length o v
  have hk' := hk
  unfold maxItems at hk'
  intro fixed
  have hX : (fixedBlock o v ++ listRows o v).length = o.H := by
    simp [hl, hr, maxItems]; omega
  have hget : (fixedBlock o v ++ listRows o v)[fixed + k]? = (listRows o v)[k]? := by
    rw [List.getElem?_append_right (by rw [hl]; omega)]
    congr 1
    rw [hl]; omega
  refine ⟨?_, ?_, ?_⟩
  · intro h
    unfold fullRender
    simp only [h]
    rw [List.getElem?_take, if_pos (by omega)]
    exact hget
  · intro h
    unfold fullRender
    simp only [h]
    rw [List.take_of_length_le (by omega), List.getElem?_reverse (by omega), hX]
    rw [← hget]
    congr 1
    omega
  · intro h
    unfold fullRender
    simp only [h]
    rw [List.append_assoc, List.getElem?_append_right (by simp), List.getElem?_append_left (by simp [hr]; omega)]
    simp

theorem promptRow_prefix (o : ROpts) (input : Str) (found total nsel : Nat)
    (hinfo : o.info ≠ .inline) (hinfo2 : o.info ≠ .inlineRight) (hp : o.prompt.length ≤ o.W - 2) (hfit : o.prompt.length + input.length ≤ o.W) :
    (promptRow o input found total nsel).take (o.prompt.length + input.length) = o.prompt ++ input := by
  have hrow : promptRow o input found total nsel = rowOf o.W (o.prompt ++ input) := by
    unfold promptRow
    rw [fit_of_le _ _ _ _ _ hp]
    cases h : o.info <;> simp_all
  rw [hrow]
  simp only [rowOf]
  rw [List.take_take, Nat.min_eq_left hfit, List.take_append_of_le_length (by simp)]
  exact List.take_of_length_le (by simp)

theorem infoRow_counter (o : ROpts) (found total nsel : Nat) (hinfo : o.info = .default)
    (hfit : (infoText o found total nsel).length + 3 ≤ o.W) :
    ((infoRow o found total nsel).drop 2).take (infoText o found total nsel).length = infoText o found total nsel := by
  unfold infoRow
  simp only [hinfo]
  have htm : trimMessage (infoText o found total nsel) (o.W - 2 - 1) = infoText o found total nsel := by
    unfold trimMessage; rw [if_pos (by omega)]
  rw [htm]
  generalize infoText o found total nsel = txt at *
  apply List.ext_getElem?
  intro i
  rw [List.getElem?_take]
  by_cases hi : i < txt.length
  · simp only [hi, if_true]
    rw [List.getElem?_drop]
    have hb : (blanks o.W).length = o.W := by simp [blanks]
    have hinner : (put (blanks o.W) 2 txt)[2 + i]? = txt[i]? := by
      rw [put_getElem?, hb, if_pos (by omega), if_neg (by omega), if_pos (by omega)]
      congr 1; omega
    split
    · rw [put_getElem?, put_length, hb, if_pos (by omega), if_pos (by omega)]
      exact hinner
    · exact hinner
  · simp only [hi, if_false]
    rw [List.getElem?_eq_none (by omega)]

/-- With --info=inline-right the counter sits at the right end of the prompt row (one margin cell
    after it), and the prompt and the query are still at its start. -/
theorem promptRow_inlineRight (o : ROpts) (input : Str) (found total nsel : Nat) (hinfo : o.info = .inlineRight)
    (hp : o.prompt.length ≤ o.W - 2)
    (hroom : o.prompt.length + input.length + 1 + (infoText o found total nsel).length + 3 ≤ o.W) :
    ((promptRow o input found total nsel).drop (o.W - (infoText o found total nsel).length - 1)).take
        (infoText o found total nsel).length = infoText o found total nsel ∧
    (promptRow o input found total nsel).take (o.prompt.length + input.length) = o.prompt ++ input := by
  unfold promptRow
  rw [fit_of_le _ _ _ _ _ hp]
  simp only [hinfo]
  generalize infoText o found total nsel = txt at *
  have hp1 : max (o.prompt.length + input.length + 1) (o.W - txt.length - 3) = o.W - txt.length - 3 := by omega
  rw [hp1]
  have h2 : o.W - txt.length - 3 < o.W := by omega
  rw [if_pos h2]
  have h3 : o.W - txt.length - 3 + 1 < o.W - 1 := by omega
  rw [if_pos h3]
  have htm : trimMessage txt (o.W - (o.W - txt.length - 3 + 1 + 1) - 1) = txt := by
    unfold trimMessage; rw [if_pos (by omega)]
  rw [htm]
  have hcol : o.W - txt.length - 3 + 1 + 1 = o.W - txt.length - 1 := by omega
  rw [hcol]
  have hb : (rowOf o.W (o.prompt ++ input)).length = o.W := rowOf_length _ _
  constructor
  · apply List.ext_getElem?
    intro i
    rw [List.getElem?_take]
    by_cases hi : i < txt.length
    · simp only [hi, if_true]
      rw [List.getElem?_drop, put_getElem?, put_length, hb, if_pos (by omega), if_neg (by omega), if_pos (by omega)]
      congr 1; omega
    · simp only [hi, if_false]
      rw [List.getElem?_eq_none (by omega)]
  · apply List.ext_getElem?
    intro i
    rw [List.getElem?_take]
    by_cases hi : i < o.prompt.length + input.length
    · simp only [hi, if_true]
      rw [put_getElem?, put_length, hb, if_pos (by omega), if_pos (by omega)]
      rw [put_getElem?, hb, if_pos (by omega), if_pos (by omega)]
      rw [rowOf_getElem?, if_pos (by omega), if_pos (by simp; omega)]
    · simp only [hi, if_false]
      rw [List.getElem?_eq_none (by simp; omega)]

/-- With --info=right the counter sits at the right end of the info row (one margin cell after it),
    the separator — or blanks — filling the row before it. -/
theorem infoRow_right (o : ROpts) (found total nsel : Nat) (hinfo : o.info = .right)
    (hroom : (infoText o found total nsel).length + 2 ≤ o.W) :
    ((infoRow o found total nsel).drop (o.W - (infoText o found total nsel).length - 1)).take
        (infoText o found total nsel).length = infoText o found total nsel ∧
    (infoRow o found total nsel).length = o.W := by
  unfold infoRow
  simp only [hinfo]
  generalize infoText o found total nsel = txt at *
  have htm : trimMessage txt (o.W - 1) = txt := by unfold trimMessage; rw [if_pos (by omega)]
  rw [htm]
  refine ⟨?_, rowOf_length _ _⟩
  have hfl : ∀ (pre : Str), pre.length = o.W - txt.length - 2 →
      ((rowOf o.W (pre ++ [32] ++ txt)).drop (o.W - txt.length - 1)).take txt.length = txt := by
    intro pre hpre
    apply List.ext_getElem?
    intro i
    rw [List.getElem?_take]
    by_cases hi : i < txt.length
    · simp only [hi, if_true]
      rw [List.getElem?_drop, rowOf_getElem?, if_pos (by omega), if_pos (by simp; omega)]
      rw [List.getElem?_append_right (by simp; omega)]
      congr 1
      simp
      omega
    · simp only [hi, if_false]
      rw [List.getElem?_eq_none (by omega)]
  by_cases hs : o.separator = true
  · simp only [hs, if_true]
    exact hfl _ (by simp)
  · simp only [hs, Bool.false_eq_true, if_false]
    exact hfl _ (by simp [blanks])

end Fzf.Render
