import Fzf.Model.Filter
/-
C04: every matching line appears once in the output of filter mode.
-/
namespace Fzf.Filter
open Fzf

theorem buildItems_go_increasing (o : Opts) : ∀ (ls : List Str) (hdr idx : Nat),
    (buildItems.go o ls hdr idx).Pairwise (fun a b => a.index < b.index) ∧
    ∀ it ∈ buildItems.go o ls hdr idx, idx ≤ it.index := by
  intro ls
  induction ls with
  | nil => intro hdr idx; simp [buildItems.go]
  | cons l rest ih =>
    intro hdr idx
    unfold buildItems.go
    split
    · exact ih _ _
    · obtain ⟨hp, hb⟩ := ih hdr (idx + 1)
      split
      · refine ⟨List.pairwise_cons.mpr ⟨fun b hbm => ?_, hp⟩, ?_⟩
        · have := hb b hbm; simp only; omega
        · intro it hit
          rcases List.mem_cons.mp hit with rfl | h
          · exact Nat.le_refl _
          · have := hb it h; omega
      · refine ⟨List.pairwise_cons.mpr ⟨fun b hbm => ?_, hp⟩, ?_⟩
        · have := hb b hbm; simp only; omega
        · intro it hit
          rcases List.mem_cons.mp hit with rfl | h
          · exact Nat.le_refl _
          · have := hb it h; omega

/-- The item builder numbers the items in input order. -/
theorem buildItems_increasing (o : Opts) (lines : List Str) :
    (buildItems o lines).Pairwise (fun a b => a.index < b.index) :=
  (buildItems_go_increasing o lines 0 0).1

/-- The keys of what a successful `mapM` into `Option (Option _)` kept form a sub-list of the keys
    of the input. -/
theorem mapM_filterMap_sublist {α β : Type} (f : α → Option (Option β)) (k : β → Nat) (k' : α → Nat)
    (hk : ∀ a e, f a = some (some e) → k e = k' a) : ∀ (l : List α) (rs : List (Option β)),
    l.mapM f = some rs → ((rs.filterMap id).map k).Sublist (l.map k') := by
  intro l
  induction l with
  | nil => intro rs h; simp at h; subst h; simp
  | cons a l ih =>
    intro rs h
    rw [← List.mapM'_eq_mapM] at h
    simp only [List.mapM'_cons, bind, Option.bind, pure] at h
    cases hfa : f a with
    | none => simp [hfa] at h
    | some b =>
      simp only [hfa] at h
      cases hl : List.mapM' f l with
      | none => simp [hl] at h
      | some bs =>
        simp only [hl, Option.some.injEq] at h
        subst h
        have ih' := ih bs (by rw [← List.mapM'_eq_mapM]; exact hl)
        cases b with
        | none => simpa using ih'.cons (k' a)
        | some e =>
          simp only [List.filterMap_cons, id, List.map_cons]
          rw [hk a e hfa]
          exact ih'.cons₂ (k' a)

/-- **Every line appears at most once.** Whatever the query and the options, no input record is
    printed twice by `fzf --filter`: the item numbers of the output are pairwise distinct. -/
theorem runIdx_nodup (o : Opts) (slabCap : Nat) (query : Str) (lines : List Str) (out : List (Nat × Str))
    (h : runIdx o slabCap query lines = some out) : (out.map (·.1)).Nodup := by
  have hinc := buildItems_increasing o lines
  have hsub : (if o.tail > 0 ∧ !(!o.sort && !o.tac) then lastN o.tail (buildItems o lines) else buildItems o lines).Pairwise
      (fun a b => a.index < b.index) := by
    split
    · exact hinc.sublist (List.drop_sublist _ _)
    · exact hinc
  unfold runIdx at h
  simp only at h
  generalize (if o.tail > 0 ∧ !(!o.sort && !o.tac) then lastN o.tail (buildItems o lines) else buildItems o lines) = items at h hsub
  have hnd : (items.map (·.index)).Nodup := by
    rw [List.Nodup, List.pairwise_map]
    exact hsub.imp (fun h => Nat.ne_of_lt h)
  split at h
  · simp only [Option.some.injEq] at h
    subst h
    simp only [List.map_map, Function.comp_def]
    split
    · rw [List.map_reverse]; exact (List.reverse_perm _).nodup_iff.mpr hnd
    · exact hnd
  · split at h
    · cases h
    · rename_i rs hrs
      simp only [Option.some.injEq] at h
      subst h
      simp only [List.map_map, Function.comp_def]
      have hsl := mapM_filterMap_sublist _ (fun (e : Rank.R × (Nat × Str)) => e.2.1) (fun (it : Item) => it.index) (by
        intro a e hfa
        split at hfa
        · cases hfa
        · cases hfa
        · simp only [Option.some.injEq] at hfa; rw [← hfa]) items rs hrs
      have hms : ((rs.filterMap id).map fun e => e.2.1).Nodup := hnd.sublist hsl
      split
      · exact ((List.mergeSort_perm _ _).map _).nodup_iff.mpr hms
      · split
        · rw [List.map_reverse]; exact (List.reverse_perm _).nodup_iff.mpr hms
        · exact hms

end Fzf.Filter

namespace Fzf.Filter
open Fzf

/-- What a successful `mapM` in `Option` returns is, element for element, what `f` returns. -/
theorem mem_mapM_iff {α β : Type} (f : α → Option β) : ∀ (l : List α) (rs : List β), l.mapM f = some rs →
    ∀ r, r ∈ rs ↔ ∃ a ∈ l, f a = some r := by
  intro l
  induction l with
  | nil => intro rs h r; simp at h; subst h; simp
  | cons a l ih =>
    intro rs h r
    rw [← List.mapM'_eq_mapM] at h
    simp only [List.mapM'_cons, bind, Option.bind, pure] at h
    cases hfa : f a with
    | none => simp [hfa] at h
    | some b =>
      simp only [hfa] at h
      cases hl : List.mapM' f l with
      | none => simp [hl] at h
      | some bs =>
        simp only [hl, Option.some.injEq] at h
        subst h
        have ih' := ih bs (by rw [← List.mapM'_eq_mapM]; exact hl) r
        constructor
        · intro hr
          rcases List.mem_cons.mp hr with rfl | hr'
          · exact ⟨a, List.mem_cons_self, hfa⟩
          · obtain ⟨a', ha', hfa'⟩ := ih'.mp hr'
            exact ⟨a', List.mem_cons_of_mem _ ha', hfa'⟩
        · rintro ⟨a', ha', hfa'⟩
          rcases List.mem_cons.mp ha' with rfl | ha''
          · rw [hfa] at hfa'; simp only [Option.some.injEq] at hfa'; subst hfa'; exact List.mem_cons_self
          · exact List.mem_cons_of_mem _ (ih'.mpr ⟨a', ha'', hfa'⟩)

/-- The items filter mode works on: all of them, or the last `--tail` of them. -/
def itemsOf (o : Opts) (lines : List Str) : List Item :=
  if o.tail > 0 ∧ !(!o.sort && !o.tac) then lastN o.tail (buildItems o lines) else buildItems o lines

/-- **The output is exactly the matching lines.** With a non-empty pattern, an item number is in
    the output of `fzf --filter` if and only if it is the number of an item (of the last `--tail`
    items) on which the pattern matches — no matching line is dropped, no other line is shown;
    the record printed with it is the item's original record. -/
theorem runIdx_exact (o : Opts) (slabCap : Nat) (query : Str) (lines : List Str) (out : List (Nat × Str))
    (h : runIdx o slabCap query lines = some out)
    (hpat : ¬ ((Pattern.buildPattern o.cfg o.fuzzy o.v2 o.extended o.caseMode o.normalize (dirAndPos o.criteria).1 false query).isEmpty = true ∧
              (!(!o.sort && !o.tac)) = true)) :
    ∀ p : Nat × Str, p ∈ out ↔ ∃ it ∈ itemsOf o lines, p = (it.index, it.orig) ∧
      ∃ m, Pattern.matchItem o.cfg (Pattern.buildPattern o.cfg o.fuzzy o.v2 o.extended o.caseMode o.normalize (dirAndPos o.criteria).1 false query)
        (inputTokens o it) (if (!o.sort && !o.tac) then false else (dirAndPos o.criteria).2) slabCap = .ok (some m) := by
  intro p
  unfold runIdx at h
  simp only at h
  unfold itemsOf
  generalize (if o.tail > 0 ∧ !(!o.sort && !o.tac) then lastN o.tail (buildItems o lines) else buildItems o lines) = items at h
  rw [if_neg hpat] at h
  split at h
  · cases h
  · rename_i rs hrs
    simp only [Option.some.injEq] at h
    subst h
    have hmem : p ∈ ((rs.filterMap id).map (·.2)) ↔ ∃ it ∈ items, p = (it.index, it.orig) ∧
        ∃ m, Pattern.matchItem o.cfg (Pattern.buildPattern o.cfg o.fuzzy o.v2 o.extended o.caseMode o.normalize (dirAndPos o.criteria).1 false query)
          (inputTokens o it) (if (!o.sort && !o.tac) then false else (dirAndPos o.criteria).2) slabCap = .ok (some m) := by
      simp only [List.mem_map, List.mem_filterMap, id]
      constructor
      · rintro ⟨e, ⟨oe, hoe, rfl⟩, rfl⟩
        obtain ⟨it, hit, hval⟩ := (mem_mapM_iff _ items rs hrs (some e)).mp hoe
        refine ⟨it, hit, ?_⟩
        split at hval
        · cases hval
        · cases hval
        · rename_i m hm
          simp only [Option.some.injEq] at hval
          rw [← hval]
          exact ⟨rfl, m, hm⟩
      · rintro ⟨it, hit, rfl, m, hm⟩
        refine ⟨((⟨Rank.buildPoints o.cfg o.criteria it.text m.offsets m.score, it.index⟩ : Rank.R), (it.index, it.orig)),
          ⟨some _, (mem_mapM_iff _ items rs hrs _).mpr ⟨it, hit, ?_⟩, rfl⟩, rfl⟩
        simp only [hm]
    rw [← hmem]
    split
    · exact ⟨fun hp => (List.mem_map.mp hp).elim fun e he => List.mem_map.mpr ⟨e, (List.mergeSort_perm _ _).subset he.1, he.2⟩,
             fun hp => (List.mem_map.mp hp).elim fun e he => List.mem_map.mpr ⟨e, (List.mergeSort_perm _ _).symm.subset he.1, he.2⟩⟩
    · split
      · simp only [List.map_reverse, List.mem_reverse]
      · exact Iff.rfl

end Fzf.Filter
