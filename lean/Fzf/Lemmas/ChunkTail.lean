import Fzf.Lemmas.ChunkHeap
/-
The --tail side of `ChunkList.Snapshot`: what the trimmed list holds, what the `changed` result
says, and what that means for two snapshots taken under one revision.
-/
namespace Fzf.ChunkHeap
open Fzf

theorem countItems_cons (cl : CL) (a : Nat) (l : List Nat) :
    countItems cl (a :: l) = (cl.cell a).length + countItems cl l := by simp [countItems]

theorem countItems_append (cl : CL) (a b : List Nat) :
    countItems cl (a ++ b) = countItems cl a + countItems cl b := by simp [countItems]

theorem countItems_reverse (cl : CL) (l : List Nat) : countItems cl l.reverse = countItems cl l := by
  induction l with
  | nil => rfl
  | cons a l ih =>
    rw [List.reverse_cons, countItems_append, ih, countItems_cons, countItems_cons]
    simp [countItems]; omega

theorem countItems_contents (cl : CL) (l : List Nat) : countItems cl l = (contents cl l).length := by
  induction l with
  | nil => rfl
  | cons a l ih => simp [countItems, contents] at ih ⊢

/-- The first loop of `Snapshot`, exactly: it takes chunks from the end while something is left to
    take; the chunk taken last was still needed; it stops early only when nothing is left. -/
theorem keep_char (cl : CL) (rev : List Nat) (left : Int) (acc : List Nat) :
    ∃ taken rest, rev = taken ++ rest ∧
      keep cl rev left acc = (taken.reverse ++ acc, left - (countItems cl taken : Nat)) ∧
      (∀ t0 x, taken = t0 ++ [x] → left - (countItems cl t0 : Nat) > 0) ∧
      (rest ≠ [] → left - (countItems cl taken : Nat) ≤ 0) := by
  induction rev generalizing left acc with
  | nil =>
    refine ⟨[], [], rfl, by simp [keep, countItems], ?_, by simp⟩
    intro t0 x h; simp at h
  | cons id rest' ih =>
    unfold keep
    by_cases hl : left > 0
    · rw [if_pos hl]
      obtain ⟨taken', r, h1, h2, h3, h4⟩ := ih (left - (cl.cell id).length) (id :: acc)
      refine ⟨id :: taken', r, by rw [h1]; rfl, ?_, ?_, ?_⟩
      · rw [h2, countItems_cons]
        simp only [List.reverse_cons, List.append_assoc, List.singleton_append]
        congr 1; push_cast; omega
      · intro t0 x ht
        cases t0 with
        | nil => simp [countItems]; exact hl
        | cons a t0' =>
          simp only [List.cons_append, List.cons.injEq] at ht
          obtain ⟨ha, ht'⟩ := ht
          subst ha
          have := h3 t0' x ht'
          rw [countItems_cons]; push_cast; omega
      · intro hr
        have := h4 hr
        rw [countItems_cons]; push_cast; omega
    · rw [if_neg hl]
      refine ⟨[], id :: rest', rfl, by simp [countItems], ?_, ?_⟩
      · intro t0 x h; simp at h
      · intro _; simp [countItems]; omega

theorem contents_cons (cl : CL) (a : Nat) (l : List Nat) : contents cl (a :: l) = cl.cell a ++ contents cl l := by
  simp [contents]

/-- **What --tail leaves.** After the trimming step of `Snapshot(tail)` the list holds exactly the
    last `tail` items it held before, in order. -/
theorem trim_contents (tail : Nat) (cl : CL) (h : WF cl) (ht : 0 < tail) :
    contents (trim tail cl) (trim tail cl).ids = lastN tail (contents cl cl.ids) := by
  unfold trim
  by_cases hc : tail > 0 ∧ countItems cl cl.ids > tail
  · rw [if_pos hc]
    obtain ⟨taken, rest, hrev, hkeep, hlast, hrest⟩ := keep_char cl cl.ids.reverse tail []
    rw [hkeep]
    simp only [List.append_nil]
    have hids : cl.ids = rest.reverse ++ taken.reverse := by
      have := congrArg List.reverse hrev; simpa using this
    cases hT : taken.reverse with
    | nil =>
      exfalso
      have ht0 : taken = [] := by simpa using hT
      subst ht0
      by_cases hr : rest = []
      · subst hr; simp at hids; rw [hids] at hc; simp [countItems] at hc
      · have := hrest hr; simp [countItems] at this; omega
    | cons first restIds =>
      have htk : taken = restIds.reverse ++ [first] := by
        have := congrArg List.reverse hT; simpa using this
      have hcount : countItems cl taken = countItems cl restIds + (cl.cell first).length := by
        rw [htk, countItems_append, countItems_reverse]; simp [countItems]
      have hneed : (tail : Int) - (countItems cl restIds : Nat) > 0 := by
        have := hlast restIds.reverse first htk
        rw [countItems_reverse] at this; exact this
      have htotal : countItems cl cl.ids = countItems cl rest + countItems cl taken := by
        rw [hids, countItems_append, countItems_reverse, countItems_reverse]
      have hle : (tail : Int) - (countItems cl taken : Nat) ≤ 0 := by
        by_cases hr : rest = []
        · subst hr
          rw [show countItems cl ([] : List Nat) = 0 from rfl] at htotal
          omega
        · exact hrest hr
      rw [hT] at hids
      have hbound : ∀ id ∈ restIds, id < cl.cells.length := fun id hid =>
        h.2 id (by rw [hids]; simp [hid])
      -- the whole list before trimming
      have hW : contents cl cl.ids = contents cl rest.reverse ++ (cl.cell first ++ contents cl restIds) := by
        rw [hids, contents_append, contents_cons]
      have hA : (contents cl rest.reverse).length = countItems cl rest := by
        rw [← countItems_contents, countItems_reverse]
      have hC : (contents cl restIds).length = countItems cl restIds := (countItems_contents cl restIds).symm
      show contents (match (first :: restIds, (tail : Int) - (countItems cl taken : Nat)) with
        | ([], _) => cl
        | (first :: rest, left) =>
          if left < 0 then
            let (cl', id) := alloc cl ((cl.cell first).drop (-left).toNat)
            { cl' with ids := id :: rest }
          else { cl with ids := first :: rest }) _ = _
      simp only
      by_cases hneg : (tail : Int) - (countItems cl taken : Nat) < 0
      · rw [if_pos hneg]
        simp only [alloc]
        rw [contents_cons]
        have hnew : ({ ids := cl.cells.length :: restIds, cells := cl.cells ++ [List.drop (-((tail : Int) - (countItems cl taken : Nat))).toNat (cl.cell first)] } : CL).cell cl.cells.length
            = List.drop (-((tail : Int) - (countItems cl taken : Nat))).toNat (cl.cell first) := by
          simp [CL.cell, List.getD_eq_getElem?_getD]
        rw [hnew]
        have hold : contents ({ ids := cl.cells.length :: restIds, cells := cl.cells ++ [List.drop (-((tail : Int) - (countItems cl taken : Nat))).toNat (cl.cell first)] } : CL) restIds
            = contents cl restIds := by
          apply contents_congr
          intro id hid
          exact cell_append cl _ id (hbound id hid)
        rw [hold, hW]
        unfold lastN
        have hk : (contents cl rest.reverse ++ (cl.cell first ++ contents cl restIds)).length - tail
            = (contents cl rest.reverse).length + (-((tail : Int) - (countItems cl taken : Nat))).toNat := by
          simp only [List.length_append, hA, hC]; omega
        rw [hk, List.drop_length_add_append]
        rw [List.drop_append_of_le_length (by omega)]
      · rw [if_neg hneg]
        have h0 : (tail : Int) - (countItems cl taken : Nat) = 0 := by omega
        show contents cl (first :: restIds) = _
        rw [contents_cons, hW]
        unfold lastN
        have hk : (contents cl rest.reverse ++ (cl.cell first ++ contents cl restIds)).length - tail
            = (contents cl rest.reverse).length + 0 := by
          simp only [List.length_append, hA, hC]; omega
        rw [hk, List.drop_length_add_append]; rfl
  · rw [if_neg hc]
    unfold lastN
    have : (contents cl cl.ids).length ≤ tail := by
      rw [← countItems_contents]; omega
    rw [Nat.sub_eq_zero_of_le this]; rfl

/-- Handing out a snapshot (copies of the boundary chunks, the rest shared) changes neither what the
    snapshot shows nor what the list holds. -/
theorem handOut_contents (tail : Nat) (cl : CL) (h : WF cl) :
    contents (handOut tail cl).1 (handOut tail cl).2 = contents cl cl.ids ∧
    contents (handOut tail cl).1 (handOut tail cl).1.ids = contents cl cl.ids := by
  obtain ⟨hnd, hb⟩ := h
  refine ⟨?_, ?_⟩
  · unfold handOut
    split
    · rename_i hrev
      have : cl.ids = [] := by simpa using hrev
      simp [contents, this]
    · rename_i lastId restRev hrev
      have hids : cl.ids = restRev.reverse ++ [lastId] := by
        have := congrArg List.reverse hrev; simpa using this
      have hfront : ∀ id ∈ restRev.reverse, id < cl.cells.length := fun id hid =>
        hb id (by rw [hids]; exact List.mem_append_left _ hid)
      split
      · rename_i hfr
        rw [hids, hfr]
        simp [contents, CL.cell, List.getD_eq_getElem?_getD]
      · rename_i firstId mid hfr
        rw [hfr] at hfront
        split
        · have key : ∀ I : List Nat,
              contents (⟨I, cl.cells ++ [cl.cell lastId, cl.cell firstId]⟩ : CL) ((cl.cells.length + 1) :: mid ++ [cl.cells.length])
                = cl.cell firstId ++ (contents cl mid ++ cl.cell lastId) := by
            intro I
            simp only [List.cons_append]
            rw [contents_cons, contents_append]
            have h1 : (⟨I, cl.cells ++ [cl.cell lastId, cl.cell firstId]⟩ : CL).cell (cl.cells.length + 1) = cl.cell firstId := by
              simp [CL.cell, List.getD_eq_getElem?_getD]
            have h2 : contents (⟨I, cl.cells ++ [cl.cell lastId, cl.cell firstId]⟩ : CL) [cl.cells.length] = cl.cell lastId := by
              simp [contents, CL.cell, List.getD_eq_getElem?_getD]
            have h3 : contents (⟨I, cl.cells ++ [cl.cell lastId, cl.cell firstId]⟩ : CL) mid = contents cl mid := by
              apply contents_congr
              intro id hid
              have := hfront id (List.mem_cons_of_mem _ hid)
              simp [CL.cell, List.getD_eq_getElem?_getD, List.getElem?_append_left this]
            rw [h1, h2, h3]
          rw [key, hids, hfr]
          simp [contents]
        · rw [hids, ← hfr, contents_append, contents_append]
          congr 1
          · exact contents_congr _ _ _ (fun id hid => cell_append cl _ id (by rw [hfr] at hid; exact hfront id hid))
          · simp [contents, CL.cell, List.getD_eq_getElem?_getD]
  · rw [handOut_ids]
    exact contents_congr _ _ _ (fun id hid => handOut_cell tail cl id (hb id hid))

/-- **A snapshot under --tail.** The snapshot handed out, and the list itself afterwards, hold
    exactly the last `tail` items the list held before, in order. -/
theorem snapshot_tail_contents (tail : Nat) (cl : CL) (h : WF cl) (ht : 0 < tail) :
    contents (snapshot tail cl).1 (snapshot tail cl).2 = lastN tail (contents cl cl.ids) ∧
    contents (snapshot tail cl).1 (snapshot tail cl).1.ids = lastN tail (contents cl cl.ids) := by
  have hw := trim_wf tail cl h
  have hc := handOut_contents tail (trim tail cl) hw
  unfold snapshot
  rw [hc.1, hc.2, trim_contents tail cl h ht]
  exact ⟨rfl, rfl⟩

/-- Without trimming (no --tail, or not more than `tail` items) a snapshot shows the list as it is
    and leaves it as it is. -/
theorem snapshot_unchanged_contents (tail : Nat) (cl : CL) (h : WF cl) (hc : changed tail cl = false) :
    contents (snapshot tail cl).1 (snapshot tail cl).2 = contents cl cl.ids ∧
    contents (snapshot tail cl).1 (snapshot tail cl).1.ids = contents cl cl.ids := by
  have htrim : trim tail cl = cl := by
    unfold trim
    rw [if_neg]
    simpa [changed] using hc
  unfold snapshot
  rw [htrim]
  exact handOut_contents tail cl h

/-- **`changed` is exact.** `Snapshot` reports `changed` precisely when the list afterwards holds
    other items than before. -/
theorem changed_iff (tail : Nat) (cl : CL) (h : WF cl) :
    changed tail cl = true ↔
      contents (snapshot tail cl).1 (snapshot tail cl).1.ids ≠ contents cl cl.ids := by
  constructor
  · intro hc
    have hc' : tail > 0 ∧ countItems cl cl.ids > tail := by simpa [changed] using hc
    rw [(snapshot_tail_contents tail cl h hc'.1).2]
    intro heq
    have := congrArg List.length heq
    rw [countItems_contents] at hc'
    simp [lastN] at this
    omega
  · intro hne
    cases hc : changed tail cl with
    | true => rfl
    | false => exact absurd (snapshot_unchanged_contents tail cl h hc).2 hne

/-! ### --tail over a whole history: what stays searchable -/

/-- Items pushed by a history. -/
def pushedBy : List Op → List Int
  | [] => []
  | .push i :: ops => i :: pushedBy ops
  | .snap _ :: ops => pushedBy ops

theorem pushedBy_append (a b : List Op) : pushedBy (a ++ b) = pushedBy a ++ pushedBy b := by
  induction a with
  | nil => rfl
  | cons op a ih => cases op <;> simp [pushedBy, ih]

theorem lastN_length (n : Nat) (l : List α) : (lastN n l).length = min n l.length := by
  simp [lastN]; omega

theorem lastN_suffix (n : Nat) (l : List α) : lastN n l <:+ l := List.drop_suffix _ _

theorem lastN_of_suffix {l p : List α} (n : Nat) (h : l <:+ p) (hn : n ≤ l.length) : lastN n l = lastN n p := by
  obtain ⟨pre, rfl⟩ := h
  unfold lastN
  rw [List.length_append]
  have : pre.length + l.length - n = pre.length + (l.length - n) := by omega
  rw [this, List.drop_length_add_append]

theorem lastN_all (n : Nat) (l : List α) (h : l.length ≤ n) : lastN n l = l := by
  unfold lastN; rw [Nat.sub_eq_zero_of_le h]; rfl

/-- What the list holds along a history whose snapshots all trim to `tail`: a suffix of what was
    pushed, and at least the last `tail` of it (or everything). -/
def TailInv (tail : Nat) (cl : CL) (P : List Int) : Prop :=
  contents cl cl.ids <:+ P ∧ (tail ≤ (contents cl cl.ids).length ∨ contents cl cl.ids = P)

def snapsWith (tail : Nat) : List Op → Prop
  | [] => True
  | .push _ :: ops => snapsWith tail ops
  | .snap t :: ops => t = tail ∧ snapsWith tail ops

theorem tailInv_steps (cz tail : Nat) (ht : 0 < tail) (ops : List Op) (hs : snapsWith tail ops) (cl : CL) (P : List Int)
    (hw : WF cl) (h : TailInv tail cl P) :
    TailInv tail (ops.foldl (step cz) cl) (P ++ pushedBy ops) := by
  induction ops generalizing cl P with
  | nil => simpa [pushedBy] using h
  | cons op ops ih =>
    cases op with
    | push i =>
      rw [List.foldl_cons]
      have := ih hs (step cz cl (.push i)) (P ++ [i]) (step_wf cz cl _ hw) (by
        simp only [step]
        unfold TailInv
        rw [push_contents cz cl i hw]
        obtain ⟨h1, h2⟩ := h
        refine ⟨?_, ?_⟩
        · obtain ⟨pre, hp⟩ := h1
          exact ⟨pre, by rw [← hp, List.append_assoc]⟩
        · rcases h2 with h2 | h2
          · left; simp; omega
          · right; rw [h2])
      simpa [pushedBy, List.append_assoc] using this
    | snap t =>
      obtain ⟨ht', hs'⟩ := hs
      subst ht'
      rw [List.foldl_cons]
      have := ih hs' (step cz cl (.snap t)) P (step_wf cz cl _ hw) (by
        simp only [step]
        unfold TailInv
        rw [(snapshot_tail_contents t cl hw ht).2]
        obtain ⟨h1, h2⟩ := h
        refine ⟨(lastN_suffix _ _).trans h1, ?_⟩
        rcases h2 with h2 | h2
        · left; rw [lastN_length]; omega
        · by_cases hl : t ≤ (contents cl cl.ids).length
          · left; rw [lastN_length]; omega
          · right; rw [lastN_all _ _ (by omega)]; exact h2)
      simpa [pushedBy] using this

/-- **--tail N keeps exactly the last N records.** After any history of pushes and snapshots
    (every snapshot trimming to `tail`), the snapshot taken next shows exactly the last `tail`
    items pushed since the start, in order — all of them when fewer were pushed. -/
theorem tail_snapshot_is_last_pushed (cz tail : Nat) (ht : 0 < tail) (ops : List Op) (hs : snapsWith tail ops) :
    let cl := ops.foldl (step cz) ⟨[], []⟩
    contents (snapshot tail cl).1 (snapshot tail cl).2 = lastN tail (pushedBy ops) := by
  intro cl
  have hw : WF cl := steps_wf cz ops _ wf_empty
  have hinv := tailInv_steps cz tail ht ops hs ⟨[], []⟩ [] wf_empty (by simp [TailInv, contents])
  simp only [List.nil_append] at hinv
  rw [(snapshot_tail_contents tail cl hw ht).1]
  obtain ⟨h1, h2⟩ := hinv
  rcases h2 with h2 | h2
  · exact lastN_of_suffix tail h1 h2
  · rw [h2]

/-! ### Snapshots and revisions

The coordinator (src/core.go) bumps the minor revision whenever `Snapshot` reports `changed`.
`coRun` is that rule over a history of pushes and snapshots; it records, for every snapshot, the
revision it was taken under and the items it shows. -/

structure Rec where
  rev : Nat
  items : List Int

def coRun (cz tail : Nat) : CL → Nat → List Op → List Rec
  | _, _, [] => []
  | cl, rev, .push i :: ops => coRun cz tail (push cz cl i) rev ops
  | cl, rev, .snap _ :: ops =>
    let rev' := if changed tail cl then rev + 1 else rev
    let r := snapshot tail cl
    ⟨rev', contents r.1 r.2⟩ :: coRun cz tail r.1 rev' ops

theorem coRun_rev_ge (cz tail : Nat) (ops : List Op) (cl : CL) (rev : Nat) :
    ∀ x ∈ coRun cz tail cl rev ops, rev ≤ x.rev := by
  induction ops generalizing cl rev with
  | nil => intro x hx; cases hx
  | cons op ops ih =>
    cases op with
    | push i => exact ih _ _
    | snap t =>
      intro x hx
      simp only [coRun] at hx
      rcases List.mem_cons.mp hx with hx | hx
      · subst hx; simp only; split <;> omega
      · have := ih _ _ x hx
        split at this <;> omega

/-- Under one revision the list only grows: every later snapshot of the same revision starts with
    what the list held. -/
theorem coRun_prefix (cz tail : Nat) (ops : List Op) (cl : CL) (rev : Nat) (h : WF cl) :
    ∀ x ∈ coRun cz tail cl rev ops, x.rev = rev → contents cl cl.ids <+: x.items := by
  induction ops generalizing cl rev with
  | nil => intro x hx; cases hx
  | cons op ops ih =>
    cases op with
    | push i =>
      intro x hx hr
      have := ih (push cz cl i) rev (push_wf cz cl i h) x hx hr
      rw [push_contents cz cl i h] at this
      exact (List.prefix_append _ _).trans this
    | snap t =>
      intro x hx hr
      simp only [coRun] at hx
      have hw := snapshot_wf tail cl h
      cases hc : changed tail cl with
      | true =>
        rw [hc] at hx
        simp only [if_true] at hx
        rcases List.mem_cons.mp hx with hx | hx
        · subst hx; simp at hr
        · have := coRun_rev_ge cz tail ops _ _ x hx; omega
      | false =>
        rw [hc] at hx
        simp only [Bool.false_eq_true, if_false] at hx
        have hu := snapshot_unchanged_contents tail cl h hc
        rcases List.mem_cons.mp hx with hx | hx
        · subst hx; simp only; rw [hu.1]; exact List.prefix_refl _
        · have := ih _ rev hw x hx hr
          rw [hu.2] at this; exact this

/-- **Same revision, same count ⇒ same items.** Of the snapshots taken along any history of pushes
    and snapshots, any two taken under the same revision are prefix-ordered; with the same number
    of items they are the same items. -/
theorem coRun_pairwise (cz tail : Nat) (ops : List Op) (cl : CL) (rev : Nat) (h : WF cl) :
    (coRun cz tail cl rev ops).Pairwise fun a b => a.rev = b.rev → a.items <+: b.items := by
  induction ops generalizing cl rev with
  | nil => exact List.Pairwise.nil
  | cons op ops ih =>
    cases op with
    | push i => exact ih _ _ (push_wf cz cl i h)
    | snap t =>
      simp only [coRun]
      have hw := snapshot_wf tail cl h
      refine List.pairwise_cons.mpr ⟨?_, ih _ _ hw⟩
      intro b hb hr
      simp only at hr ⊢
      have hp := coRun_prefix cz tail ops _ _ hw b hb hr.symm
      cases hc : changed tail cl with
      | true =>
        have hc' : tail > 0 ∧ countItems cl cl.ids > tail := by simpa [changed] using hc
        have hs := snapshot_tail_contents tail cl h hc'.1
        rw [hs.1, ← hs.2]; exact hp
      | false =>
        have hu := snapshot_unchanged_contents tail cl h hc
        rw [hu.1, ← hu.2]; exact hp

end Fzf.ChunkHeap
