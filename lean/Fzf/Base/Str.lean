/-
Base definitions shared by all models: byte / rune strings as `List Nat`
and the Go `strings` functions the modelled code uses.  Core-only.
-/
namespace Fzf

/-- A byte string or a rune string, depending on context. -/
abbrev Str := List Nat

/-- `strings.Split(s, sep)` for a one-element separator: never empty. -/
def splitOn (sep : Nat) : Str → List Str
  | [] => [[]]
  | c :: cs =>
    if c = sep then [] :: splitOn sep cs
    else match splitOn sep cs with
      | [] => [[c]]
      | x :: xs => (c :: x) :: xs

/-- `strings.TrimLeft(s, string(c))`. -/
def trimLeft (c : Nat) (s : Str) : Str := s.dropWhile (· == c)

/-- `strings.TrimRight(s, string(c))`. -/
def trimRight (c : Nat) (s : Str) : Str := (s.reverse.dropWhile (· == c)).reverse

/-- `strings.Trim(s, string(c))`. -/
def trim (c : Nat) (s : Str) : Str := trimRight c (trimLeft c s)

/-- `strings.Join(xs, string(sep))`. -/
def joinWith (sep : Nat) : List Str → Str
  | [] => []
  | [x] => x
  | x :: y :: rest => x ++ sep :: joinWith sep (y :: rest)

/-- The last `n` elements (`l[len(l)-n:]` when `len(l) > n`, else `l`). -/
def lastN (n : Nat) (l : List α) : List α := l.drop (l.length - n)

end Fzf
