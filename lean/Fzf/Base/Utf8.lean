import Fzf.Base.Str
/-
Go-faithful UTF-8: `utf8.DecodeRune` (invalid or truncated sequences decode as U+FFFD, width 1)
and `utf8.EncodeRune` / `string(rune)` (surrogates and out-of-range runes encode as U+FFFD).
-/
namespace Fzf.Utf8

def runeError : Nat := 0xFFFD

def isCont (b : Nat) : Bool := 0x80 ≤ b && b ≤ 0xBF

/-- `utf8.DecodeRune`: (rune, width) for a non-empty byte string. -/
def decodeRune : List Nat → Nat × Nat
  | [] => (runeError, 0)
  | b0 :: rest =>
    if b0 < 0x80 then (b0, 1)
    else if 0xC2 ≤ b0 ∧ b0 ≤ 0xDF then
      match rest with
      | b1 :: _ => if isCont b1 then ((b0 - 0xC0) * 64 + (b1 - 0x80), 2) else (runeError, 1)
      | _ => (runeError, 1)
    else if 0xE0 ≤ b0 ∧ b0 ≤ 0xEF then
      match rest with
      | b1 :: b2 :: _ =>
        let lo := if b0 = 0xE0 then 0xA0 else 0x80
        let hi := if b0 = 0xED then 0x9F else 0xBF
        if lo ≤ b1 ∧ b1 ≤ hi ∧ isCont b2 then ((b0 - 0xE0) * 4096 + (b1 - 0x80) * 64 + (b2 - 0x80), 3)
        else (runeError, 1)
      | _ => (runeError, 1)
    else if 0xF0 ≤ b0 ∧ b0 ≤ 0xF4 then
      match rest with
      | b1 :: b2 :: b3 :: _ =>
        let lo := if b0 = 0xF0 then 0x90 else 0x80
        let hi := if b0 = 0xF4 then 0x8F else 0xBF
        if lo ≤ b1 ∧ b1 ≤ hi ∧ isCont b2 ∧ isCont b3 then
          ((b0 - 0xF0) * 262144 + (b1 - 0x80) * 4096 + (b2 - 0x80) * 64 + (b3 - 0x80), 4)
        else (runeError, 1)
      | _ => (runeError, 1)
    else (runeError, 1)

/-- `[]rune(string(bytes))`. -/
def toRunes (bs : List Nat) : List Nat :=
  let rec go (bs : List Nat) (fuel : Nat) : List Nat :=
    match fuel, bs with
    | 0, _ => []
    | _, [] => []
    | fuel + 1, bs =>
      let (r, w) := decodeRune bs
      r :: go (bs.drop (max w 1)) fuel
  go bs bs.length

def runeCount (bs : List Nat) : Nat := (toRunes bs).length

/-- `utf8.EncodeRune`. -/
def encodeRune (r : Nat) : List Nat :=
  let r := if (0xD800 ≤ r ∧ r ≤ 0xDFFF) ∨ r > 0x10FFFF then runeError else r
  if r < 0x80 then [r]
  else if r < 0x800 then [0xC0 + r / 64, 0x80 + r % 64]
  else if r < 0x10000 then [0xE0 + r / 4096, 0x80 + (r / 64) % 64, 0x80 + r % 64]
  else [0xF0 + r / 262144, 0x80 + (r / 4096) % 64, 0x80 + (r / 64) % 64, 0x80 + r % 64]

/-- `string(runes)`. -/
def fromRunes (rs : List Nat) : List Nat := rs.flatMap encodeRune

def isAscii (bs : List Nat) : Bool := bs.all (· < 128)

end Fzf.Utf8
