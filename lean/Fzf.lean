-- Root of the `Fzf` library: models, specifications, lemmas and property theorems.
import Fzf.Base.Str
import Fzf.Model.History
