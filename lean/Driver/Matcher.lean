import Driver.Proto
import Driver.Algo
import Driver.Tok
import Fzf.Model.Filter
import Fzf.Model.Matcher
namespace Driver.Matcher
open Fzf Fzf.Algo Driver

def results (ctx : Algo.Ctx) (lines : List Str) (query : Str) (sort tac : Bool) : List Nat :=
  let cfg : Cfg := { U := ctx.unicode, sch := schemeDefault, norm := ctx.norm }
  let fo : Fzf.Filter.Opts := {
    cfg, criteria := Fzf.Filter.schemeCriteria "default", fuzzy := true, v2 := true, extended := true,
    caseMode := .smart, normalize := true, sort := sort, tac := tac, nth := none, withNth := none,
    delim := .awk, tail := 0, headerLines := 0, isSpace := Tok.isSpace }
  let q := Utf8.toRunes query
  let pat := Fzf.Pattern.buildPattern cfg true true true .smart true true true q
  let items := Fzf.Filter.buildItems fo lines
  if pat.isEmpty then (if tac then items.reverse else items).map (·.index)
  else ((Fzf.Filter.runIdx fo Generated.slab16Size q lines).getD []).map (·.1)

def run (ctx : Algo.Ctx) (op : String) (args impl : List String) : Outcome :=
  match op, args with
  | "pending", [lines, reqs] =>
    let ls := parseStrList lines
    let rs := (reqs.splitOn ";").map (·.splitOn "~")
    match rs.getLast? with
    | some [q, _, upto] =>
      let query := parseNatList q
      let n := upto.toNat!
      let idx := results ctx (ls.take n) query true false
      -- the pattern text the merger reports is the trimmed query
      -- (the second field is the merger's own count = number of matches)
      let model := s!"{showNatList (Utf8.fromRunes (Fzf.Pattern.trimQueryExtended (Utf8.toRunes query)))} {idx.length} {showNatList idx}"
      let spec := if " ".intercalate impl == model then specOk
        else specFail s!"[C08] with several requests pending the matcher published {" ".intercalate (impl.take 2)} instead of the latest request ({q} over {n} items)"
      { model, spec, tags := ["pending", "nt"] }
    | _ => { model := "bad" }
  | "scan", [lines, q, sort, tac, _parts, cancel] =>
    let ls := parseStrList lines
    let idx := results ctx ls (parseNatList q) (sort == "1") (tac == "1")
    let full := s!"0 1 {showNatList idx}"
    let implS := " ".intercalate impl
    let okOutcome := implS == full || (cancel != "0" && implS == "1 0 -")
    { model := if okOutcome then implS else full, same := some okOutcome,
      spec := if okOutcome then specOk else specFail "[C13] a scan returned something other than the complete result of its snapshot or a cancellation",
      tags := ["scan"] ++ (if ls.length > 100 then ["multichunk", "nt"] else []) ++ (if cancel != "0" then ["cancel"] else []) }
  | "hist", [linesA, linesB, reqs, tac] =>
    let sets := [parseStrList linesA, parseStrList linesB]
    let raw := (reqs.splitOn ";").map (·.splitOn "~")
    -- pattern strings (trimmed queries) numbered in order of appearance
    let pstr (q : String) : Str := Utf8.fromRunes (Fzf.Pattern.trimQueryExtended (Utf8.toRunes (parseNatList q)))
    let pats := (raw.map fun f => pstr (f.getD 0 "-")).eraseDups
    let firstSet := ((raw.headD []).getD 1 "0").toNat!
    let rs : List (Fzf.Matcher.SReq × Str) := raw.map fun f =>
      let set := (f.getD 1 "0").toNat!
      let upto := (f.getD 2 "0").toNat!
      ({ pat := pats.idxOf (pstr (f.getD 0 "-")), snap := set * 1000000 + upto, count := upto,
         final := f.getD 3 "0" == "1", sort := f.getD 4 "1" == "1", rev := if set == firstSet then 0 else 1 },
       parseNatList (f.getD 0 "-"))
    let queryOf (r : Fzf.Matcher.SReq) : Str := ((rs.find? fun x => x.1 == r).map (·.2)).getD []
    let scan (r : Fzf.Matcher.SReq) : List Nat :=
      let set := r.snap / 1000000
      results ctx ((sets.getD set []).take r.count) (queryOf r) r.sort (tac == "1")
    let published := Fzf.Matcher.serveAll scan (fun l => l.length < Generated.mergerCacheMax) { sort := true, rev := 0 } (rs.map (·.1))
    let model := ";".intercalate (published.map showNatList)
    let implL := ((" ".intercalate impl).splitOn ";").map parseNatList
    let fresh := rs.map fun x => scan x.1
    let badFinal := (List.zip (List.zip (rs.map (·.1)) implL) fresh).filter fun ((r, got), want) => r.final && got != want
    let stale := (List.zip published fresh).any fun (a, b) => a != b
    { model,
      spec := match badFinal with
        | ((r, _), _) :: _ => specFail s!"[C08,C04] after input had ended a request (query {showNatList (queryOf r)}, {r.count} items) was answered with something other than a fresh filter of the loaded input"
        | [] => if implL.length != rs.length then specFail "[C08] a request was never answered" else specOk,
      tags := ["hist", "nt"] ++ (if stale then ["stale-transient"] else []) ++
        (if rs.any (fun x => x.1.rev == 1) then ["reload"] else []) ++
        (if (rs.map (·.1.sort)).eraseDups.length > 1 then ["sort-toggle"] else []) ++
        (if rs.any (fun x => x.2.contains 9) then ["tab-query"] else []) }
  | "conv", [exact, sort, tac, nth, q, excluded, lines, _setup] =>
    -- the interactive session at quiescence against a fresh filter of the loaded input
    let cfg : Cfg := { U := ctx.unicode, sch := schemeDefault, norm := ctx.norm }
    let nthR : Option (List Tokenizer.Range) := if nth == "-" then none else Tokenizer.splitNth (nth.toList.map (·.toNat))
    let fo : Fzf.Filter.Opts := {
      cfg, criteria := Fzf.Filter.schemeCriteria "default", fuzzy := exact != "1", v2 := true, extended := true,
      caseMode := .smart, normalize := true, sort := sort == "1", tac := tac == "1", nth := nthR, withNth := none,
      delim := .awk, tail := 0, headerLines := 0, isSpace := Tok.isSpace }
    let ls := parseStrList lines
    let query := parseNatList q
    let ex := parseNatList excluded
    let pat := Fzf.Pattern.buildPattern cfg fo.fuzzy true true .smart true true true (Utf8.toRunes query)
    let items := Fzf.Filter.buildItems fo ls
    let all : List Nat :=
      if pat.isEmpty then (if fo.tac then items.reverse else items).map (·.index)
      else ((Fzf.Filter.runIdx fo Generated.slab16Size (Utf8.toRunes query) ls).getD []).map (·.1)
    let idx := all.filter fun i => !ex.contains i
    let model := s!"{idx.length} {ls.length} {showNatList idx} {if sort == "1" then 1 else 0}"
    let implS := " ".intercalate impl
    { model,
      spec := if implS == model then specOk else
        match impl with
        | [mc, tc, ix, so] =>
          if so != (if sort == "1" then "1" else "0") then specFail "[C08] the sort flag reported differs from the toggles applied"
          else if tc != toString ls.length then specFail s!"[C08] at quiescence {tc} items are loaded, the input has {ls.length}"
          else if mc != toString idx.length ∨ mc != toString (parseNatList ix).length then
            specFail s!"[C08] at quiescence the match count ({mc}) is not that of a fresh filter ({idx.length}) / of the list shown"
          else if (parseNatList ix).mergeSort (· ≤ ·) != idx.mergeSort (· ≤ ·) then
            specFail "[C08] at quiescence the match list holds other lines than a fresh filter of the current query"
          else specFail "[C08] at quiescence the match list is ordered differently from a fresh filter of the current query"
        | _ => specFail "[C08] unparsable state",
      tags := ["conv", "nt"] ++ (if ex.isEmpty then [] else ["exclude"]) ++ (if nth != "-" then ["nth"] else []) ++
        (if ls.length > 100 then ["multichunk"] else []) ++ (if query.isEmpty then ["empty-query"] else []) }
  | "conc", [lines, _qs, sort, tac, _yield] =>
    let ls := parseStrList lines
    let recs := if impl == ["_"] then [] else ((" ".intercalate impl).splitOn ";").map (·.splitOn "~")
    -- every search answers for exactly the prefix of the input its snapshot held
    let check (r : List String) : Option String :=
      match r with
      | [q, cnt, idx, frozen] =>
        let n := cnt.toNat!
        let want := results ctx (ls.take n) (parseNatList q) (sort == "1") (tac == "1")
        if frozen != "1" then some s!"[C13] the snapshot of {n} items changed while it was being searched"
        else if n > ls.length then some "[C13] a snapshot holds more items than were ever pushed"
        else if parseNatList idx != want then
          some s!"[C13] a search over a snapshot of {n} items published something other than the filter of those {n} items (query {q})"
        else none
      | _ => some "[C13] unparsable answer"
    let bad := recs.filterMap check
    let finals := recs.filter fun r => r.getD 1 "" == toString ls.length
    { model := " ".intercalate impl, same := some true,
      spec := match bad with
        | b :: _ => specFail b
        | [] => if recs.isEmpty then specFail "[C13] no search completed" else specOk,
      tags := ["conc", "nt"] ++ (if recs.length > finals.length then ["during-load"] else []) ++
        (if recs.any (fun r => let n := (r.getD 1 "0").toNat!; n % 100 != 0 ∧ n < ls.length) then ["partial-last-chunk"] else []) }
  | "race", [n] =>
    { model := "0", spec := if impl == ["0"] then specOk else
        specFail s!"[C13] Go's race detector reported {" ".intercalate impl} data race(s) while {n} concurrent loader/matcher cases ran",
      tags := ["race-detector", "nt"] }
  | _, _ => { model := "bad-op" }

end Driver.Matcher
