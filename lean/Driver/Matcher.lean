import Driver.Proto
import Driver.Algo
import Driver.Tok
import Fzf.Model.Filter
import Fzf.Model.Matcher
import Fzf.Model.ChunkHeap
namespace Driver.Matcher
open Fzf Fzf.Algo Driver

def resultsOpts (ctx : Algo.Ctx) (fuzzy : Bool) (lines : List Str) (query : Str) (sort tac : Bool) : List Nat :=
  let cfg : Cfg := { U := ctx.unicode, sch := schemeDefault, norm := ctx.norm }
  let fo : Fzf.Filter.Opts := {
    cfg, criteria := Fzf.Filter.schemeCriteria "default", fuzzy := fuzzy, v2 := true, extended := true,
    caseMode := .smart, normalize := true, sort := sort, tac := tac, nth := none, withNth := none,
    delim := .awk, tail := 0, headerLines := 0, isSpace := Tok.isSpace }
  let q := Utf8.toRunes query
  let pat := Fzf.Pattern.buildPattern cfg fuzzy true true .smart true true true q
  let items := Fzf.Filter.buildItems fo lines
  if pat.isEmpty then (if tac then items.reverse else items).map (·.index)
  else ((Fzf.Filter.runIdx fo Generated.slab16Size q lines).getD []).map (·.1)

def results (ctx : Algo.Ctx) (lines : List Str) (query : Str) (sort tac : Bool) : List Nat :=
  resultsOpts ctx true lines query sort tac

def run (ctx : Algo.Ctx) (op : String) (args impl : List String) : Outcome :=
  match op, args with
  | "pending", [lines, reqs] =>
    let ls := parseStrList lines
    let rs := (reqs.splitOn ";").map (·.splitOn "~")
    match rs.getLast? with
    | some [q, _, upto] =>
      let query := parseNatList q
      let n := upto.toNat!
      let idx := results ctx (ls.take n) query true false
      -- the pattern text the merger reports is the trimmed query
      -- (the second field is the merger's own count = number of matches)
      let model := s!"{showNatList (Utf8.fromRunes (Fzf.Pattern.trimQueryExtended (Utf8.toRunes query)))} {idx.length} {showNatList idx}"
      let spec := if " ".intercalate impl == model then specOk
        else specFail s!"[C08] with several requests pending the matcher published {" ".intercalate (impl.take 2)} instead of the latest request ({q} over {n} items)"
      { model, spec, tags := ["pending", "nt"] }
    | _ => { model := "bad" }
  | "scan", [lines, q, sort, tac, _parts, cancel] =>
    let ls := parseStrList lines
    let idx := results ctx ls (parseNatList q) (sort == "1") (tac == "1")
    let full := s!"0 1 {showNatList idx}"
    let implS := " ".intercalate impl
    let okOutcome := implS == full || (cancel != "0" && implS == "1 0 -")
    { model := if okOutcome then implS else full, same := some okOutcome,
      spec := if okOutcome then specOk else specFail "[C13] a scan returned something other than the complete result of its snapshot or a cancellation",
      tags := ["scan"] ++ (if ls.length > 100 then ["multichunk", "nt"] else []) ++ (if cancel != "0" then ["cancel"] else []) }
  | "hist", [linesA, linesB, reqs, tac] =>
    let sets := [parseStrList linesA, parseStrList linesB]
    let raw := (reqs.splitOn ";").map (·.splitOn "~")
    -- pattern strings (trimmed queries) numbered in order of appearance
    let pstr (q : String) : Str := Utf8.fromRunes (Fzf.Pattern.trimQueryExtended (Utf8.toRunes (parseNatList q)))
    let pats := (raw.map fun f => pstr (f.getD 0 "-")).eraseDups
    let firstSet := ((raw.headD []).getD 1 "0").toNat!
    let rs : List (Fzf.Matcher.SReq × Str) := raw.map fun f =>
      let set := (f.getD 1 "0").toNat!
      let upto := (f.getD 2 "0").toNat!
      ({ pat := pats.idxOf (pstr (f.getD 0 "-")), snap := set * 1000000 + upto, count := upto,
         final := f.getD 3 "0" == "1", sort := f.getD 4 "1" == "1", rev := if set == firstSet then 0 else 1 },
       parseNatList (f.getD 0 "-"))
    let queryOf (r : Fzf.Matcher.SReq) : Str := ((rs.find? fun x => x.1 == r).map (·.2)).getD []
    let scan (r : Fzf.Matcher.SReq) : List Nat :=
      let set := r.snap / 1000000
      results ctx ((sets.getD set []).take r.count) (queryOf r) r.sort (tac == "1")
    let published := Fzf.Matcher.serveAll scan (fun l => l.length < Generated.mergerCacheMax) { sort := true, rev := 0 } (rs.map (·.1))
    let model := ";".intercalate (published.map showNatList)
    let implL := ((" ".intercalate impl).splitOn ";").map parseNatList
    let fresh := rs.map fun x => scan x.1
    let badFinal := (List.zip (List.zip (rs.map (·.1)) implL) fresh).filter fun ((r, got), want) => r.final && got != want
    let stale := (List.zip published fresh).any fun (a, b) => a != b
    { model,
      spec := match badFinal with
        | ((r, _), _) :: _ => specFail s!"[C08,C04] after input had ended a request (query {showNatList (queryOf r)}, {r.count} items) was answered with something other than a fresh filter of the loaded input"
        | [] =>
          if implL.length != rs.length then specFail "[C08] a request was never answered"
          else match (List.zip (List.zip (rs.map (·.1)) implL) fresh).find? fun ((_, got), want) => got != want with
            | some ((r, _), _) => specFail s!"[C13] while input was arriving a request (query {showNatList (queryOf r)}, {r.count} items) was answered with something other than the filter of the items present when it was made"
            | none => specOk,
      tags := ["hist", "nt"] ++ (if stale then ["stale-transient"] else []) ++
        (if rs.any (fun x => x.1.rev == 1) then ["reload"] else []) ++
        (if (rs.map (·.1.sort)).eraseDups.length > 1 then ["sort-toggle"] else []) ++
        (if rs.any (fun x => x.2.contains 9) then ["tab-query"] else []) }
  | "histo", [linesA, linesB, reqs, tac, fuzzy, tail] =>
    -- the same with the matching mode and --tail: the chunk-heap model supplies, per request, the
    -- items of the snapshot and whether Snapshot dropped items (which bumps the minor revision)
    let sets := [parseStrList linesA, parseStrList linesB]
    let raw := (reqs.splitOn ";").map (·.splitOn "~")
    let tl := tail.toNat!
    let cz := Generated.chunkSize
    let pstr (q : String) : Str := Utf8.fromRunes (Fzf.Pattern.trimQueryExtended (Utf8.toRunes (parseNatList q)))
    let pats := (raw.map fun f => pstr (f.getD 0 "-")).eraseDups
    -- (current set, pushed so far, heap, major, minor) threaded through the requests
    let stepReq (acc : (Nat × Nat × ChunkHeap.CL × Nat × Nat) × List (Fzf.Matcher.SReq × Str × List Int × Bool × Nat))
        (f : List String) :=
      let ((curSet, pushed, cl, major, minor), out) := acc
      let set := (f.getD 1 "0").toNat!
      let upto := (f.getD 2 "0").toNat!
      let isNew := out.isEmpty || set != curSet
      let major := if !out.isEmpty && set != curSet then major + 1 else major
      let minor := if !out.isEmpty && set != curSet then 0 else minor
      let (pushed, cl) := if isNew then (0, (⟨[], []⟩ : ChunkHeap.CL)) else (pushed, cl)
      let target := min upto ((sets.getD set []).length)
      let cl := ((List.range (target - pushed)).map (· + pushed)).foldl (fun c (k : Nat) => ChunkHeap.push cz c (Int.ofNat k)) cl
      let pushed := max pushed target
      let ch := ChunkHeap.changed tl cl
      let r := ChunkHeap.snapshot tl cl
      let items := ChunkHeap.contents r.1 r.2
      let minor := if ch then minor + 1 else minor
      let k := out.length
      let sr : Fzf.Matcher.SReq :=
        { pat := pats.idxOf (pstr (f.getD 0 "-")), snap := k, count := items.length,
          final := f.getD 3 "0" == "1", sort := f.getD 4 "1" == "1", rev := major * 1000000 + minor }
      ((set, pushed, r.1, major, minor), out ++ [(sr, parseNatList (f.getD 0 "-"), items, ch, minor)])
    let recs := (raw.foldl stepReq ((0, 0, ⟨[], []⟩, 0, 0), [])).2
    let setOf (k : Nat) : Nat := ((raw.getD k []).getD 1 "0").toNat!
    let scan (r : Fzf.Matcher.SReq) : List Nat :=
      match recs[r.snap]? with
      | some (_, q, items, _, _) =>
        let first := (items.headD 0).toNat
        let ls := ((sets.getD (setOf r.snap) []).drop first).take items.length
        (resultsOpts ctx (fuzzy == "1") ls q r.sort (tac == "1")).map (· + first)
      | none => []
    let published := Fzf.Matcher.serveAll scan (fun l => l.length < Generated.mergerCacheMax) { sort := true, rev := 0 } (recs.map (·.1))
    let showRec (p : List Nat) (x : Fzf.Matcher.SReq × Str × List Int × Bool × Nat) : String :=
      let (_, _, items, ch, minor) := x
      s!"{showNatList p}~{(items.headD 0).toNat}.{items.length}.1~{if ch then 1 else 0}~{minor}"
    let model := ";".intercalate ((List.zip published recs).map fun (p, x) => showRec p x)
    let fresh := recs.map fun x => scan x.1
    let implR := ((" ".intercalate impl).splitOn ";").map (·.splitOn "~")
    -- spec: every request is answered with the filter of exactly the items of its snapshot; the snapshot
    -- holds the last `tail` items pushed so far; `changed` says whether items were dropped
    let bad := (List.zip (List.zip recs implR) fresh).findSome? fun ((x, ir), want) =>
      let (sr, q, items, ch, _) := x
      match ir with
      | [idx, shape, chS, _] =>
        let wantShape := s!"{(items.headD 0).toNat}.{items.length}.1"
        if shape != wantShape then some s!"[C13,C06] a snapshot holds items {shape} (first.count.contiguous) but the last {tl} of the items pushed so far are {wantShape}"
        else if chS != (if ch then "1" else "0") then some s!"[C13] Snapshot reported changed={chS} although it {if ch then "dropped" else "dropped no"} items"
        else if parseNatList idx != want then
          some s!"{if sr.final then "[C08,C13]" else "[C13]"} a request (query {showNatList q}, {items.length} items from {(items.headD 0).toNat}) was answered with something other than the filter of the items of its snapshot"
        else none
      | _ => some "[C13] unparsable answer"
    { model,
      spec := match bad with
        | some b => specFail b
        | none => if implR.length != recs.length then specFail "[C08] a request was never answered" else specOk,
      tags := ["histo", "nt"] ++ (if tl > 0 then ["tail"] else []) ++ (if fuzzy != "1" then ["exact"] else []) ++
        (if recs.any (fun x => x.2.2.2.1) then ["trimmed"] else []) ++
        (if recs.any (fun x => x.1.rev ≥ 1000000) then ["reload"] else []) }
  | "conv", [exact, sort, tac, nth, q, excluded, lines, _setup] =>
    -- the interactive session at quiescence against a fresh filter of the loaded input
    let cfg : Cfg := { U := ctx.unicode, sch := schemeDefault, norm := ctx.norm }
    let nthR : Option (List Tokenizer.Range) := if nth == "-" then none else Tokenizer.splitNth (nth.toList.map (·.toNat))
    let fo : Fzf.Filter.Opts := {
      cfg, criteria := Fzf.Filter.schemeCriteria "default", fuzzy := exact != "1", v2 := true, extended := true,
      caseMode := .smart, normalize := true, sort := sort == "1", tac := tac == "1", nth := nthR, withNth := none,
      delim := .awk, tail := 0, headerLines := 0, isSpace := Tok.isSpace }
    let ls := parseStrList lines
    let query := parseNatList q
    let ex := parseNatList excluded
    let pat := Fzf.Pattern.buildPattern cfg fo.fuzzy true true .smart true true true (Utf8.toRunes query)
    let items := Fzf.Filter.buildItems fo ls
    let all : List Nat :=
      if pat.isEmpty then (if fo.tac then items.reverse else items).map (·.index)
      else ((Fzf.Filter.runIdx fo Generated.slab16Size (Utf8.toRunes query) ls).getD []).map (·.1)
    let idx := all.filter fun i => !ex.contains i
    let model := s!"{idx.length} {ls.length} {showNatList idx} {if sort == "1" then 1 else 0}"
    let implS := " ".intercalate impl
    { model,
      spec := if implS == model then specOk else
        match impl with
        | [mc, tc, ix, so] =>
          if so != (if sort == "1" then "1" else "0") then specFail "[C08] the sort flag reported differs from the toggles applied"
          else if tc != toString ls.length then specFail s!"[C08,C06] at quiescence {tc} items are loaded, the input (without its header lines) has {ls.length}"
          else if mc != toString idx.length ∨ mc != toString (parseNatList ix).length then
            specFail s!"[C08,C05] at quiescence the match count ({mc}) is not that of a fresh filter ({idx.length}) / of the list shown"
          else if (parseNatList ix).mergeSort (· ≤ ·) != idx.mergeSort (· ≤ ·) then
            specFail "[C08,C05,C06] at quiescence the match list holds other lines than a fresh filter of the current query (same lines, query and options)"
          else specFail "[C08] at quiescence the match list is ordered differently from a fresh filter of the current query"
        | _ => specFail "[C08] unparsable state",
      tags := ["conv", "nt"] ++ (if ex.isEmpty then [] else ["exclude"]) ++ (if nth != "-" then ["nth"] else []) ++
        (if ls.length > 100 then ["multichunk"] else []) ++ (if query.isEmpty then ["empty-query"] else []) }
  | "conc", [lines, _qs, sort, tac, _yield] =>
    let ls := parseStrList lines
    let recs := if impl == ["_"] then [] else ((" ".intercalate impl).splitOn ";").map (·.splitOn "~")
    -- every search answers for exactly the prefix of the input its snapshot held
    let check (r : List String) : Option String :=
      match r with
      | [q, cnt, idx, frozen] =>
        let n := cnt.toNat!
        let want := results ctx (ls.take n) (parseNatList q) (sort == "1") (tac == "1")
        if frozen != "1" then some s!"[C13] the snapshot of {n} items changed while it was being searched"
        else if n > ls.length then some "[C13] a snapshot holds more items than were ever pushed"
        else if parseNatList idx != want then
          some s!"[C13] a search over a snapshot of {n} items published something other than the filter of those {n} items (query {q})"
        else none
      | _ => some "[C13] unparsable answer"
    let bad := recs.filterMap check
    let finals := recs.filter fun r => r.getD 1 "" == toString ls.length
    { model := " ".intercalate impl, same := some true,
      spec := match bad with
        | b :: _ => specFail b
        | [] => if recs.isEmpty then specFail "[C13] no search completed" else specOk,
      tags := ["conc", "nt"] ++ (if recs.length > finals.length then ["during-load"] else []) ++
        (if recs.any (fun r => let n := (r.getD 1 "0").toNat!; n % 100 != 0 ∧ n < ls.length) then ["partial-last-chunk"] else []) }
  | "race", [n] =>
    { model := "0", spec := if impl == ["0"] then specOk else
        specFail s!"[C13] Go's race detector reported {" ".intercalate impl} data race(s) while {n} concurrent loader/matcher cases ran",
      tags := ["race-detector", "nt"] }
  | _, _ => { model := "bad-op" }

end Driver.Matcher
