import Driver.Proto
import Fzf.Model.Http
namespace Driver.Http
open Fzf Fzf.Http Driver

def bytesOfString (s : String) : Str := s.toUTF8.toList.map (·.toNat)

/-- Model answer in the harness' format, given what parseSingleActionList says about the text
    (`bind`: none = not needed, some none = reject, some (some acts) = accepted). -/
def render (r : Resp) : String × String × String :=     -- (status, getCalled, body)
  let answer (code : String) (msg : String) := (code, s!"{msg}\n")
  match r with
  | .getOk l o => ("HTTP/1.1_200_OK", "1", "{\"limit\":" ++ toString l ++ ",\"offset\":" ++ toString o ++ "}\n")
  | .bad why => let (c, b) := answer "HTTP/1.1_400_Bad_Request" why; (c, "0", b)
  | .unauthorized => let (c, b) := answer "HTTP/1.1_401_Unauthorized" "invalid api key"; (c, "0", b)
  | .post _ => ("HTTP/1.1_200_OK", "0", "")

def run (op : String) (args impl : List String) : Outcome :=
  match op, args with
  | "req", [key, chunks, intended] =>
    let k := if key == "-" then [] else parseNatList key
    let cs := parseStrList chunks
    let r := handle k cs
    let (st, gc, body) := render r
    -- for an accepted POST the status depends on the action parser (external): take the implementation's word for
    -- accept/reject and check consistency below
    let (model, isPost) := match r with
      | .post _ => (s!"POST {gc} 1", true)
      | _ => (s!"{st} {gc} 1 {showNatList (bytesOfString body)} - {impl.getLast?.getD "-"}", false)
    let same := if isPost then
        (match impl with
         | [s, g, wf, _, _, _] => (s == "HTTP/1.1_200_OK" ∨ s == "HTTP/1.1_400_Bad_Request") ∧ g == "0" ∧ wf == "1"
         | _ => false)
      else " ".intercalate impl == model
    -- spec (C16)
    let hasKeyHeader : Bool := false
    let _ := hasKeyHeader
    let spec : Option (Except String Unit) := match impl with
      | [s, g, wf, _, del, bind] =>
        if wf != "1" then specFail "[C16] the answer is not a well-formed HTTP response"
        else if del != "-" ∧ s != "HTTP/1.1_200_OK" then specFail "[C16] actions were delivered although the request was rejected"
        else if del != "-" ∧ !(match r with | .post _ => true | _ => false) then
          specFail "[C16] actions were delivered for a malformed, incomplete or unauthorised request"
        else if !k.isEmpty ∧ (del != "-" ∨ g == "1") ∧ !(match r with | .unauthorized => false | _ => true) then
          specFail "[C16] an action was accepted or state revealed without the exact API key"
        else if g == "1" ∧ del != "-" then specFail "[C16] GET changed state"
        else
          -- a POST body is executed exactly as the same action list would be from --bind
          match r with
          | .post t =>
            if intended != "!" ∧ parseNatList intended == t ∧ bind != "-" then
              if bind == "reject" ∨ bind == "-" ∨ parseNatList bind == [] then
                (if del != "-" then specFail "[C16] actions delivered for a body that --bind rejects" else specOk)
              else if del != bind then specFail s!"[C16] delivered actions {del} differ from what --bind yields {bind}"
              else specOk
            else specOk
          | _ => specOk
      | _ => specFail "[C16] the request crashed the server or gave no answer"
    { model, spec, same := some same,
      tags := ["req"] ++ (match r with | .getOk _ _ => ["get", "nt"] | .post _ => ["post", "nt"] | .bad _ => ["bad"] | .unauthorized => ["unauthorized", "nt"]) ++
        (if cs.length > 3 then ["chunked"] else []) ++ (if !k.isEmpty then ["key"] else []) }
  | "seq", [_key, reqs] =>
    -- several requests against one server object: the implementation's answer to each, next to its
    -- answer to the same request alone (a server that has seen nothing else)
    let pairs := ((" ".intercalate impl).splitOn ";").map (·.splitOn "=")
    let bad := pairs.zipIdx.find? fun (p, _) => match p with | [a, b] => a != b | _ => true
    { model := " ".intercalate impl, same := some true,
      spec := match bad with
        | some (p, k) => specFail s!"[C16] request {k + 1} of a session was answered {p.headD "?"} but alone it is answered {p.getD 1 "?"}: a rejected or incomplete request had a side effect on a later one"
        | none => if pairs.length != (reqs.splitOn "@").length then specFail "[C16] a request of the session got no answer" else specOk,
      tags := ["seq", "nt"] }
  | "listen", [addr, key] =>
    -- a --listen address: HOST:PORT, :PORT or PORT (`parseListenAddress`), and what the real listener does with it
    let a := String.mk ((parseNatList addr).map Char.ofNat)
    let parts := a.splitOn ":"
    let parsed : Option (String × Nat) :=
      let hp : Option (String × String) := match parts with
        | [p] => some ("localhost", p)
        | [h, p] => some (if h.isEmpty then "localhost" else h, p)
        | _ => none
      match hp with
      | some (h, p) => if !p.isEmpty ∧ p.all Char.isDigit ∧ p.length ≤ 9 ∧ p.toNat! ≤ 65535 then some (h, p.toNat!) else none
      | none => none
    match parsed with
    | none =>
      { model := "reject", same := some (impl == ["reject"]),
        spec := if impl == ["reject"] then specOk else specFail "[C16] a malformed --listen address is accepted", tags := ["listen", "reject"] }
    | some (h, port) =>
      let isLoc := h == "localhost" || h == "127.0.0.1"
      let hostEnc := showNatList (h.toList.map Char.toNat)
      let model := s!"{hostEnc} {port} {if isLoc then 1 else 0}"
      match impl with
      | [ih, ip, il, started, loopback] =>
        let spec :=
          if key == "-" ∧ started == "1" ∧ loopback != "1" then
            specFail "[C16] without FZF_API_KEY the listener started on an address that is not a loopback address"
          else if key == "-" ∧ !isLoc ∧ started == "1" then
            specFail "[C16] a listener for a non-local address started without FZF_API_KEY"
          else if isLoc ∧ port == 0 ∧ started != "1" then specFail "[C16] the local listener did not start"
          else specOk
        { model, same := some ([ih, ip, il] == [hostEnc, toString port, if isLoc then "1" else "0"]), spec,
          tags := ["listen"] ++ (if isLoc then ["local"] else ["remote"]) ++ (if key != "-" then ["key"] else []) ++ ["nt"] }
      | _ => { model, same := some false, spec := specFail "[C16] a documented --listen address is rejected", tags := ["listen"] }
  | _, _ => { model := "bad-op" }

end Driver.Http
