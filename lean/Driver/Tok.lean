import Driver.Proto
import Fzf.Model.Tokenizer
import Fzf.Spec.Tokenizer
namespace Driver.Tok
open Fzf Fzf.Tokenizer Driver

def parseLocs (s : String) : List (Nat × Nat) :=
  if s == "_" then [] else (s.splitOn "/").map fun p =>
    match p.splitOn "-" with
    | [a, b] => (a.toNat!, b.toNat!)
    | _ => (0, 0)

def showTokens (ts : List Token) : String :=
  if ts.isEmpty then "_" else "|".intercalate (ts.map fun t => s!"{showNatList t.text}@{t.prefixLength}")

def parseTokens (s : String) : List Token :=
  if s == "_" then [] else (s.splitOn "|").map fun p =>
    match p.splitOn "@" with
    | [a, b] => ⟨parseNatList a, b.toNat!⟩
    | _ => ⟨[], 0⟩

def mkDelim (kind sep locs : String) : Delim :=
  if kind == "awk" then .awk else if kind == "str" then .str (parseNatList sep) else .regex (parseLocs locs)

/-- C10 partition clause, judged on the implementation's tokens. -/
def specPartition (kind : String) (text : Str) (toks : List Token) : Option (Except String Unit) :=
  let lead := if kind == "awk" then text.takeWhile isAwkWhite else []
  if lead ++ joinTokens toks != text then specFail "[C10] the fields concatenated do not give back the line"
  else
    let rec chk (ts : List Token) (before : Str) : Option String :=
      match ts with
      | [] => none
      | t :: rest =>
        if t.prefixLength != charLen before then
          some s!"[C10] field starts at character {charLen before} but offset {t.prefixLength} is recorded"
        else chk rest (before ++ t.text)
    match chk toks lead with
    | some e => specFail e
    | none =>
      if kind == "awk" ∧ !toks.all (fun t => Spec.isAwkField t.text) then specFail "[C10] an AWK field is not a non-blank run with its trailing blanks"
      else specOk

def isSpace (c : Nat) : Bool := c == 32 || (9 ≤ c && c ≤ 13) || c == 0x85 || c == 0xA0 || c == 0x1680 ||
  (0x2000 ≤ c && c ≤ 0x200A) || c == 0x2028 || c == 0x2029 || c == 0x202F || c == 0x205F || c == 0x3000

def run (op : String) (args impl : List String) : Outcome :=
  match op, args with
  | "range", [s] =>
    let str := parseNatList s
    let model := match parseRange str with
      | some r => s!"ok {r.begin_} {r.end_}"
      | none => "reject"
    -- spec: accepted iff a documented expression; the stored range means the same selection
    let reachable := str.all (fun c => (48 ≤ c ∧ c ≤ 57) ∨ c = 45 ∨ c = 46)
    let spec := if !reachable then none else match Spec.parseExpr str, impl with
      | none, ["reject"] => specOk
      | none, _ => specFail "[C10] accepts an expression outside the documented forms"
      | some _, ["reject"] => specFail "[C10] rejects a documented expression"
      | some e, ["ok", b, eS] =>
        let r : Range := ⟨parseInt b, parseInt eS⟩
        let toks := fun n => (List.range n).map fun i => (⟨[97 + i], i⟩ : Token)
        if (List.range 9).all fun n =>
            let got := (transform (toks n) [r]).headD default
            let want := Spec.selectToken (toks n) e
            got.text == want.text && ((Spec.select n e).isEmpty || got.prefixLength == want.prefixLength)
        then specOk else specFail "[C10] the stored range selects other fields than the expression"
      | _, _ => specFail "[C10] unparsable answer"
    { model, spec, tags := ["range"] ++ (if model != "reject" then ["nt"] else ["reject"]) }
  | "tokenize", [_, text] =>
    match impl with
    | [kind, sep, locs, toksS] =>
      let t := parseNatList text
      let toks := tokenize t (mkDelim kind sep locs)
      { model := s!"{kind} {sep} {locs} {showTokens toks}", spec := specPartition kind t (parseTokens toksS),
        tags := ["tokenize", kind] ++ (if toks.length ≥ 2 then ["nt"] else []) }
    | _ => { model := "?" , spec := specFail "[C10] tokenizer crashed or unparsable answer" }
  | "transform", [_, text, nth] =>
    match impl with
    | kind :: sep :: locs :: toksS :: rest =>
      let t := parseNatList text
      let d := mkDelim kind sep locs
      let toks := tokenize t d
      let exprs := splitOn 44 (parseNatList nth)
      let ranges := match splitNth (parseNatList nth) with
        | some rs => rs.map some
        | none => [none]
      if ranges.any Option.isNone then
        { model := s!"{kind} {sep} {locs} {showTokens toks} reject",
          spec := if rest != ["reject"] then specFail "[C10] accepts an expression outside the documented forms"
                  else if exprs.all (fun e => (Spec.parseExpr e).isSome) then specFail "[C10] rejects documented expressions" else specOk,
          tags := ["transform", "reject"] }
      else
        let rs := ranges.filterMap id
        let tr := transform toks rs
        let joined := joinTokens tr
        match rest with
        | [trS, joinedS, locs2, strippedS] =>
          let d2 := mkDelim kind sep locs2
          let stripped := stripLastDelimiter isSpace joined d2
          let model := s!"{kind} {sep} {locs} {showTokens toks} {showTokens tr} {showNatList joined} {locs2} {showNatList stripped}"
          -- spec: every output token is the documented selection over the implementation's own fields
          let itoks := parseTokens toksS
          let itr := parseTokens trS
          let exps := exprs.filterMap Spec.parseExpr
          let spec :=
            if exps.length != exprs.length then specFail "[C10] accepts an expression outside the documented forms"
            else if itr.length != exps.length then specFail "[C10] one output field per expression expected"
            else match (itr.zip exps).find? (fun (tk, e) =>
                let want := Spec.selectToken itoks e
                tk.text != want.text || (!(Spec.select itoks.length e).isEmpty && tk.prefixLength != want.prefixLength)) with
              | some (tk, e) => specFail s!"[C10] expression selects {showNatList (Spec.selectToken itoks e).text}@{(Spec.selectToken itoks e).prefixLength} but got {showNatList tk.text}@{tk.prefixLength}"
              | none =>
                -- trailing delimiter (one occurrence) and trailing white space are stripped, nothing else
                let ij := parseNatList joinedS
                let wantStrip := stripLastDelimiter isSpace ij d2
                if ij != joinTokens itr then specFail "[C10] the joined text is not the concatenation of the selected fields"
                else if parseNatList strippedS != wantStrip then
                  specFail s!"[C10] stripping the last delimiter of {joinedS} must give {showNatList wantStrip}"
                else specPartition kind t itoks
          { model, spec, tags := ["transform", kind] ++ (if toks.length ≥ 2 then ["nt"] else []) ++
              (if rs.any (fun r => r.begin_ < 0 ∨ r.end_ < 0) then ["negative"] else []) }
        | _ => { model := "?", spec := specFail "[C10] unparsable answer" }
    | _ => { model := "?", spec := specFail "[C10] tokenizer crashed or unparsable answer" }
  | _, _ => { model := "bad-op" }

end Driver.Tok
