import Fzf.Base.Str
/-
Line protocol shared with the Go harness (harness/proto.go).
-/
namespace Driver
open Fzf

def parseNatList (s : String) : List Nat :=
  if s == "-" || s == "" then [] else (s.splitOn ",").map (·.toNat!)

def parseInt (s : String) : Int :=
  if s.startsWith "-" then - ((s.drop 1).toNat! : Int) else (s.toNat! : Int)

def parseIntList (s : String) : List Int :=
  if s == "-" || s == "" then [] else (s.splitOn ",").map parseInt

def showNatList (l : List Nat) : String :=
  if l.isEmpty then "-" else ",".intercalate (l.map toString)

def showIntList (l : List Int) : String :=
  if l.isEmpty then "-" else ",".intercalate (l.map toString)

def parseStrList (s : String) : List Str :=
  if s == "_" then [] else (s.splitOn "|").map parseNatList

def showStrList (l : List Str) : String :=
  if l.isEmpty then "_" else "|".intercalate (l.map showNatList)

/-- Result of one case: the model's canonical answer and the spec's verdict on the
    implementation's answer (`none` = no spec applies to this op). -/
structure Outcome where
  model : String
  spec  : Option (Except String Unit) := none
  tags  : List String := []
  same  : Option Bool := none   -- overrides the default whole-answer comparison

def specOk : Option (Except String Unit) := some (.ok ())
def specFail (why : String) : Option (Except String Unit) := some (.error why)

end Driver
