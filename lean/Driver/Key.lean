import Driver.Proto
import Fzf.Model.KeyDecode
/-
`key dec <mouse> <yoffset> <buffer> <tty> => <ev>/<ev>/…`
-/
namespace Driver.Key
open Fzf Fzf.KeyDecode Driver

def b2s (b : Bool) : String := if b then "1" else "0"

def showEv (e : Ev) (left : Nat) : String :=
  let base := s!"{e.typ}.{e.ch}.{left}"
  match e.mouse with
  | none => base
  | some m => s!"{base}.{m.y}.{m.x}.{m.scroll}.{b2s m.left}.{b2s m.down}.{b2s m.double}.{b2s m.ctrl}.{b2s m.alt}.{b2s m.shift}"

/-- Decode until the buffer is used up. -/
def decodeAll (mouse : Bool) (yoff : Int) : Nat → Clicks → List Nat → List Nat → List String → List String
  | 0, _, _, _, acc => acc
  | fuel + 1, cs, b, tty, acc =>
    if b.isEmpty then acc else
    match getChar mouse yoff cs b tty with
    | .error _ => acc ++ ["panic"]
    | .ok none => acc ++ ["blocked"]
    | .ok (some (ev, b', tty', cs')) => decodeAll mouse yoff fuel cs' b' tty' (acc ++ [showEv ev b'.length])

def run (op : String) (args impl : List String) : Outcome :=
  match op, args with
  | "dec", [mouse, yoff, buf, tty] =>
    let b := parseNatList buf
    let evs := decodeAll (mouse == "1") (parseInt yoff) 4000 {} b (parseNatList tty) []
    let model := if evs.isEmpty then "_" else "/".intercalate evs
    -- C14: never a panic, and every call consumes at least one byte of the buffer (no spinning)
    let implEvs := match impl with | [x] => if x == "_" then [] else x.splitOn "/" | _ => []
    let lefts := implEvs.filterMap fun e => match e.splitOn "." with | _ :: _ :: l :: _ => l.toNat? | _ => none
    let spec :=
      if implEvs.any (· == "panic") then specFail "[C14] the input decoder panicked on this byte sequence"
      else if implEvs.length ≥ 4000 then specFail "[C14] the input decoder does not use up the buffer (no progress)"
      else
        -- the second chance may append the tty bytes once; otherwise the buffer shrinks strictly
        let rec mono (prev : Nat) (grew : Bool) : List Nat → Bool
          | [] => true
          | l :: rest => if l < prev then mono l grew rest else if !grew then mono l true rest else false
        if mono b.length false lefts then specOk else specFail "[C14] a decoding step did not consume any input"
    { model, spec,
      tags := ["dec"] ++ (if evs.any (· == "blocked") then ["blocked"] else []) ++
        (if evs.any (fun e => (e.splitOn ".").length > 3) then ["mouse"] else []) ++
        (if b.length ≥ 3 then ["nt"] else []) }
  | _, _ => { model := "bad-op" }

end Driver.Key
