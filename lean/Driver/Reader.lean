import Driver.Proto
import Fzf.Spec.Reader
import Fzf.Generated.Consts
namespace Driver.Reader
open Fzf Fzf.Reader Driver

def parseScript (s : String) : List (Nat × Err) :=
  if s == "_" then [] else (s.splitOn "/").map fun st =>
    if st.endsWith "e" then ((st.dropEnd 1).toString.toNat!, .eof)
    else if st.endsWith "x" then ((st.dropEnd 1).toString.toNat!, .other)
    else (st.toNat!, .nil)

/-- Same generator as `genStream` in harness/area_reader.go. -/
def genStream (seed total maxRec delim : Nat) : Str := Id.run do
  let m := 4294967296
  let mut x := (seed * 2654435761 + 12345) % m
  let mut out : Array Nat := Array.mkEmpty total
  for _ in [0:total + 1] do
    if out.size ≥ total then break
    x := (x * 1103515245 + 12345) % m
    let n := (x / 256) % (maxRec + 1)
    for _ in [0:n] do
      if out.size ≥ total then break
      x := (x * 1103515245 + 12345) % m
      out := out.push (97 + (x / 65536) % 26)
    if out.size < total then out := out.push delim
  return out.toList

def digest (recs : List Str) : String :=
  let total := (recs.map List.length).sum
  let sum := recs.foldl (fun (s : Nat) r => ((r.foldl (fun s b => (s * 31 + b) % 4294967296) s) * 31 + 7) % 4294967296) 0
  s!"digest:{recs.length}:{total}:{sum}"

def run (op : String) (args impl : List String) : Outcome :=
  -- `feedk`: the same stream through a pusher that rejects (but keeps) the first records: what is pushed is the same
  let (args, keep) := match op, args with | "feedk", [dn, stream, script, _] => ([dn, stream, script], true) | _, a => (a, false)
  let op := if op == "feedk" then "feed" else op
  match op, args with
  | "feed", [dn, stream, script] =>
    let delim := if dn == "1" then 0 else 10
    let big := stream.startsWith "gen:"
    let bs : Str := if big then
        match ((stream.splitOn ":").drop 1).map (·.toNat!) with
        | [seed, total, maxRec, d] => genStream seed total maxRec d
        | _ => []
      else parseNatList stream
    let sc := parseScript script
    let reads := cutReads Generated.readerSlabSize Generated.readerBufferSize bs sc
    let out := feed delim reads
    let shown := if big then digest out else showStrList out
    -- spec (C06): under what the OS can do, the pushed records are the records of the stream
    let osLike := sc.all fun (n, e) => e == .nil ∨ (n == 0 ∧ e == .eof)
    -- bytes delivered before the reader gives up (first (0, err) or 100 reads without progress)
    let delivered : List Str := (reads.foldl (fun (acc : List Str × Nat × Bool) r =>
      let (ds, zeros, stop) := acc
      if stop then acc
      else if r.data.isEmpty then
        if r.err == .nil then (ds, zeros + 1, decide (zeros + 1 ≥ 100)) else (ds, zeros, true)
      else (r.data :: ds, 0, r.err == .eof)) ([], 0, false)).1.reverse
    let consumed := delivered.flatten
    let want := splitRecords delim consumed
    let spec : Option (Except String Unit) := match impl with
      | [recs, stable] =>
        if stable != "1" then specFail "[C06,C13] a record's bytes changed after it was handed over (an item that has been read must never change)"
        else if !osLike then none
        else if recs != (if big then digest want else showStrList want) then
          specFail "[C06] the items are not the records of the stream"
        else specOk
      | _ => specFail "[C06] reader crashed or unparsable answer"
    { model := s!"{shown} 1", spec,
      tags := ["feed"] ++ (if big then ["large"] else []) ++ (if !osLike then ["nonOS"] else []) ++
        (if out.length ≥ 2 ∧ reads.length ≥ 3 then ["nt"] else []) ++ (if keep then ["rejecting-pusher"] else []) }
  | _, _ => { model := "bad-op" }

end Driver.Reader
