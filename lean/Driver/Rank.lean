import Driver.Proto
import Driver.Algo
import Fzf.Model.Rank
import Fzf.Model.ChunkList
import Fzf.Model.ChunkHeap
import Fzf.Base.Utf8
import Fzf.Generated.Consts
namespace Driver.Rank
open Fzf Fzf.Algo Fzf.Rank Driver

def parseRank (s : String) : R :=
  match (s.splitOn ".").map parseInt with
  | [a, b, c, d, i] => ⟨[a.toNat, b.toNat, c.toNat, d.toNat], i⟩
  | _ => default

def critOf (n : Nat) : Criterion :=
  match n with
  | 0 => .score | 1 => .chunk | 2 => .length | 3 => .begin_ | 4 => .end_ | _ => .pathname

def showChunks (cs : List (List Int)) : String :=
  if cs.isEmpty then "_" else "|".intercalate (cs.map showIntList)

/-- Lexicographic comparison of (p3, p2, p1, p0, then index by tac): the documented order. -/
def specLess (a b : R) (tac : Bool) : Bool :=
  let ka := [a.pts.getD 3 0, a.pts.getD 2 0, a.pts.getD 1 0, a.pts.getD 0 0]
  let kb := [b.pts.getD 3 0, b.pts.getD 2 0, b.pts.getD 1 0, b.pts.getD 0 0]
  if ka == kb then (if tac then a.index > b.index else a.index ≤ b.index) else decide (ka < kb)

def run (ctx : Algo.Ctx) (op : String) (args impl : List String) : Outcome :=
  match op, args with
  | "cmp", [a, b, tac] =>
    let (ra, rb, t) := (parseRank a, parseRank b, tac == "1")
    let m := compareRanks64 ra rb t
    let spec :=
      if compareRanksGeneric ra rb t != m then specFail "[C04] packed and generic comparison disagree"
      else if ra.index != rb.index ∧ impl != [if specLess ra rb t then "1" else "0"] then
        specFail "[C04] comparison is not (score, tiebreaks, input position) lexicographic"
      else specOk
    { model := if m then "1" else "0", spec, tags := ["cmp"] ++ (if ra.pts == rb.pts then ["tie", "nt"] else ["nt"]) }
  | "merge", [sorted, tac, lists, probes] =>
    let ls : List (List R) := if lists == "_" then [] else (lists.splitOn ";").map fun l =>
      if l == "-" then [] else (l.splitOn "&").map parseRank
    let (sorted, tac) := (sorted == "1", tac == "1")
    let ps := parseNatList probes
    -- model: lazily merged list probed in the given order
    let (_, outs) := ps.foldl (fun (acc : Merger × List Int) p =>
      match acc.1.get p with
      | some (m', r) => (m', acc.2 ++ [r.index])
      | none => (acc.1, acc.2 ++ [-1])) (Merger.new ls sorted tac, [])
    -- spec: the i-th element of the one sorted permutation (sorted) / of the concatenation (unsorted)
    let all := ls.flatten
    let want : List R := if sorted then all.mergeSort (fun a b => specLess a b tac) else (if tac then all.reverse else all)
    let spec := if parseIntList (impl.headD "-") == ps.map (fun p => (want.getD p default).index)
      then specOk else specFail "[C04] Get(i) is not the i-th element of the rank-ordered list"
    { model := showIntList outs, spec,
      tags := ["merge"] ++ (if sorted then ["sorted"] else []) ++ (if tac then ["tac"] else []) ++
        (if ls.length ≥ 2 ∧ ps.length ≥ 2 then ["nt"] else []) }
  | "pass", [pushes, snapAt, tail, tac, probes] =>
    let n := pushes.toNat!
    let cz := Generated.chunkSize
    let snaps := parseNatList snapAt
    let tl := tail.toNat!
    -- replay: push items 0..n-1, snapshot after the listed counts
    let step (st : ChunkList.Chunks × List ChunkList.Chunks) (k : Nat) : ChunkList.Chunks × List ChunkList.Chunks :=
      let (cs, out) := st
      let (cs, out) := (snaps.filter (· == k)).foldl (fun (acc : ChunkList.Chunks × List ChunkList.Chunks) _ =>
        let s := ChunkList.snapshot cz tl acc.1; (s, acc.2 ++ [s])) (cs, out)
      (if k < n then ChunkList.push cz cs k else cs, out)
    let (_, taken) := (List.range (n + 1)).foldl step ([], [])
    let counts := taken.map (ChunkList.countItems cz)
    let last := taken.getLast?.getD []
    let ps := parseNatList probes
    let got := if last.isEmpty then [] else ps.map fun p => (passGet cz last (tac == "1") p).getD (-1)
    let snapStr := if taken.isEmpty then "_" else ";".intercalate (taken.map showChunks)
    -- spec: a snapshot holds exactly the last `tail` items pushed so far, in order; Get(i) is the i-th of them
    let spec := match impl with
      | [snapS, countS, gotS] =>
        let isnaps := (snapS.splitOn ";").map fun s =>
          if s == "_" then ([] : List (List Int)) else (s.splitOn "|").map parseIntList
        let expect := snaps.map fun k =>
          let all := (List.range k).map (Int.ofNat ·)
          if tl > 0 then lastN tl all else all
        if isnaps.map List.flatten != expect then specFail "[C06] a snapshot does not hold exactly the last N items pushed so far"
        else if parseNatList countS != expect.map List.length then specFail "[C13] count reported with a snapshot differs from its size"
        else
          let lastE := expect.getLast?.getD []
          let wantGot := if lastE.isEmpty then [] else ps.map fun p =>
            (if tac == "1" then lastE.reverse else lastE).getD p (-1)
          if parseIntList gotS != wantGot then specFail "[C04] pass-through Get(i) is not the i-th item in input order" else specOk
      | _ => specFail "[C04] unparsable answer"
    { model := s!"{snapStr} {showNatList counts} {showIntList got}", spec,
      tags := ["pass"] ++ (if tl > 0 then ["tail"] else []) ++ (if last.length ≥ 2 then ["multichunk", "nt"] else []) ++
        (if (last.headD []).length < cz ∧ last.length ≥ 2 then ["partialfirst"] else []) }
  | "frozen", [pushes, snapAt, tail] =>
    let n := pushes.toNat!
    let cz := Generated.chunkSize
    let snaps := parseNatList snapAt
    let tl := tail.toNat!
    -- heap model: the list and the snapshots share cells; snapshots are re-read in the final heap
    let step (st : ChunkHeap.CL × List (ChunkHeap.CL × List Nat)) (k : Nat) :=
      let (cl, out) := st
      let (cl, out) := (snaps.filter (· == k)).foldl (fun (acc : ChunkHeap.CL × List (ChunkHeap.CL × List Nat)) _ =>
        let r := ChunkHeap.snapshot tl acc.1; (r.1, acc.2 ++ [(r.1, r.2)])) (cl, out)
      (if k < n then ChunkHeap.push cz cl k else cl, out)
    let (final, taken) := (List.range (n + 1)).foldl step (⟨[], []⟩, [])
    let showSnaps (l : List (List (List Int))) := if l.isEmpty then "_" else ";".intercalate (l.map showChunks)
    let atTime := taken.map fun (cl, ids) => ids.map cl.cell
    let atEnd := taken.map fun (_, ids) => ids.map final.cell
    let spec := match impl with
      | [a, b] => if a != b then specFail "[C13,C06] a snapshot changed after it was taken" else specOk
      | _ => specFail "[C13] unparsable answer"
    { model := s!"{showSnaps atTime} {showSnaps atEnd}", spec,
      tags := ["frozen"] ++ (if tl > 0 then ["tail"] else []) ++
        (if taken.any (fun (cl, ids) => (ids.map cl.cell).flatten.length < n) then ["nt", "grown-after"] else []) }
  | "slice", [parts, nchunks] =>
    let sl := sliceChunks parts.toNat! (List.range nchunks.toNat!)
    let model := if sl.isEmpty then "_" else ";".intercalate (sl.map showNatList)
    let spec := match impl with
      | [s] =>
        let isl := if s == "_" then [] else (s.splitOn ";").map parseNatList
        if isl.flatten != List.range nchunks.toNat! then specFail "[C04] the worker slices do not partition the chunks in order"
        else specOk
      | _ => specFail "[C04] unparsable answer"
    { model, spec, tags := ["slice"] ++ (if sl.length ≥ 2 then ["nt"] else []) }
  | "points", [sch, crits, line, offs, score] =>
    let cfg : Cfg := { U := ctx.unicode, sch := Algo.scheme sch, norm := ctx.norm }
    let bs := parseNatList line
    let runes := if Utf8.isAscii bs then bs.toArray else (Utf8.toRunes bs).toArray
    let os : List (Int × Int) := if offs == "_" then [] else (offs.splitOn "+").map fun o =>
      match o.splitOn "." with
      | [b, e] => (parseInt b, parseInt e)
      | _ => (0, 0)
    let pts := buildPoints cfg ((parseNatList crits).map critOf) runes os (parseInt score)
    let model := ".".intercalate (pts.map toString)
    -- the criterion definitions (score, chunk width, trimmed length, begin/end distance, pathname
    -- distance) are the model's `buildPoints`; a different key is a wrong sort key
    let spec := if impl == [model] then specOk
      else specFail s!"[C04] sort key {impl.headD ""} but the criteria define {model}"
    { model, spec, tags := ["points", "nt"] }
  | _, _ => { model := "bad-op" }

end Driver.Rank
