import Driver.Proto
import Driver.Tok
import Driver.Pat
import Fzf.Model.Placeholder
import Fzf.Spec.ShEval
import Fzf.Spec.Tokenizer
namespace Driver.Quote
open Fzf Fzf.Quote Fzf.Placeholder Fzf.Tokenizer Driver

def argvOf (s : String) : Option (List Str) := if s == "fail" ∨ s == "-" then none else some (parseStrList s)

/-- The words one part must contribute (none = not judged: escaped placeholder / unknown form). -/
def expectedWords (cx : Ctx) (part : Str) : Option (List Str) :=
  match part with
  | 92 :: _ => none
  | 123 :: _ =>
    let (fl, m) := parseFlags part
    if fl.file ∨ fl.raw then none else
    let items := if fl.plus then cx.selected else cx.current.toList
    if m = [123, 113, 125] then some [cx.query]
    else if m = [123, 125] then some (items.map fun (t, i) => if fl.number then natToStr i else t)
    else
      match (splitOn 44 ((m.drop 1).dropLast)).mapM Spec.parseExpr with
      | none => none
      | some es =>
        some (items.map fun (t, _) =>
          let toks := tokenize t cx.delim
          let str := es.flatMap fun e => (Spec.selectToken toks e).text
          let str := match cx.delim with
            | .str sep => if sep.length ≤ str.length ∧ str.drop (str.length - sep.length) = sep
                          then str.take (str.length - sep.length) else str
            | _ => str
          if fl.preserveSpace then str else trimSpace cx.isSpace str)
  | w => some [w]

def judge (what : String) (expansion : Str) (expected : Option (List Str)) (sh bash : String) (strict : Bool) :
    Option (Except String Unit) :=
  match expected with
  | none => none
  | some ws =>
    if sh != "-" ∧ argvOf sh != some ws then specFail s!"[C12] /bin/sh evaluates the {what} to {sh}, not to the original text(s) {showStrList ws}"
    else if bash != "-" ∧ argvOf bash != some ws then specFail s!"[C12] bash evaluates the {what} to {bash}, not to {showStrList ws}"
    else if strict ∧ ShEval.words expansion != some ws then
      specFail s!"[C12] the shell model reads {showNatList expansion} differently from the original text(s)"
    else specOk

def run (op : String) (args impl : List String) : Outcome :=
  match op, args, impl with
  | "entry", [sh, s], [q, a1, a2] =>
    let str := parseNatList s
    if sh == "fish" then
      let m := quoteEntryFish str
      { model := s!"{showNatList m} - -", tags := ["entry", "fish"],
        spec := if ShEval.fishQuoted (parseNatList q) == some str then specOk else specFail "[C12] fish would not read the quoted text back" }
    else
      let m := quoteEntry str
      -- the shell model must agree with the real shells on the model's own output (validates ShEval)
      let shOk := a1 == "-" ∨ argvOf a1 == ShEval.words m
      { model := s!"{showNatList m} {if a1 == "-" then "-" else showStrList [str]} {if a2 == "-" then "-" else showStrList [str]}",
        spec := if !shOk then specFail "[C12] shell model disagrees with /bin/sh" else judge "quoted text" (parseNatList q) (some [str]) a1 a2 true,
        tags := ["entry", "posix"] ++ (if str.any (fun c => ShEval.isMeta c || c == 39 || c == 92) then ["nt"] else []) }
  | "tmux", [as], [q, a1, a2] =>
    let xs := parseStrList as
    let m := joinWith 32 (xs.map quoteEntry)
    { model := s!"{showNatList m} {showStrList xs} {showStrList xs}", spec := judge "re-quoted arguments" (parseNatList q) (some xs) a1 a2 true,
      tags := ["tmux"] ++ (if xs.length ≥ 2 then ["nt"] else []) }
  | "expand", [parts, query, delim, items, sel], [e, a1, a2] =>
    let ps := parseStrList parts
    let ls := parseStrList items
    let indexed := ls.zipIdx
    let cur := indexed.head?
    let selected : List (Str × Nat) := if sel == "-" then cur.toList else (parseNatList sel).filterMap fun k => indexed[k]?
    let cx : Ctx := { query := parseNatList query, current := cur, selected, delim := Pat.parseDelim delim, isSpace := Tok.isSpace }
    let m := expand cx ps
    let exps := ps.map (expectedWords cx)
    let expected : Option (List Str) := if exps.all Option.isSome then some (exps.filterMap id).flatten else none
    let strict := !(ps.any fun p => p.head? == some 92)
    let shown := fun (x : Option (List Str)) => match x with | some ws => showStrList ws | none => "?"
    { model := s!"{showNatList m} {if a1 == "-" then "-" else shown expected} {if a2 == "-" then "-" else shown expected}",
      spec := judge "expansion" (parseNatList e) expected a1 a2 strict,
      same := some (showNatList m == e),
      tags := ["expand"] ++ (if selected.length ≥ 2 then ["multi"] else []) ++
        (if ls.any (fun l => l.any (fun c => ShEval.isMeta c || c == 39 || c == 92)) ∧ ps.any (fun p => p.head? == some 123) then ["nt"] else []) }
  | "pexpand", [parts, query, delim, items, sel], [got] =>
    -- the same expansion through the real terminal (lib/procs_expand.py): the words /bin/sh received
    let ps := parseStrList parts
    let ls := parseStrList items
    let indexed := ls.zipIdx
    let cur := indexed.head?
    let selected : List (Str × Nat) := if sel == "-" then cur.toList else (parseNatList sel).filterMap fun k => indexed[k]?
    let cx : Ctx := { query := parseNatList query, current := cur, selected, delim := Pat.parseDelim delim, isSpace := Tok.isSpace }
    let exps := ps.map (expectedWords cx)
    match (if exps.all Option.isSome then some (exps.filterMap id).flatten else none) with
    | none => { model := "?", same := some true, tags := ["pexpand"] }
    | some ws =>
      -- an expansion to nothing contributes no word
      let ws := ws
      { model := showStrList ws,
        spec := if parseStrList got == ws then specOk else specFail s!"[C12] the shell received {got}, the placeholders stand for {showStrList ws}",
        tags := ["pexpand"] ++ (if sel == "-" then ["nosel"] else ["sel"]) ++ (if ps.length ≥ 2 then ["nt"] else []) }
  | _, _, _ => { model := "bad-op", spec := if impl.head? == some "crash" then specFail "[C12] expansion crashed" else none }

end Driver.Quote
