import Driver.Proto
import Fzf.Model.Walker
namespace Driver.Walk
open Fzf Fzf.Walker Driver

def parseEntry (b : Str) : Entry :=
  match b with
  | 100 :: p => { kind := .dir, path := p }
  | 102 :: p => { kind := .file, path := p }
  | 108 :: p =>
    let path := p.takeWhile (· != 0)
    { kind := .link, path, target := p.drop (path.length + 1) }
  | _ => { kind := .file, path := [] }

def sortStrs (l : List Str) : List Str := l.mergeSort (fun a b => decide (a ≤ b))

def run (op : String) (args0 impl : List String) : Outcome :=
  let args := if args0.length == 7 then args0 ++ ["-"] else args0
  match op, args with
  | "run", [file, dir, hidden, follow, skips, root, tree, cwd] =>
    let b (x : String) := x == "1"
    let o : Opts := { file := b file, dir := b dir, hidden := b hidden, follow := b follow, skips := parseStrList skips }
    let es := (parseStrList tree).map parseEntry
    -- directories implied by deeper entries exist as well
    let out := sortStrs (walkCwd o es (parseNatList cwd) (parseNatList root))
    let got := parseStrList (impl.headD "_")
    -- spec (C19): every listed path names an entry of the tree once; nothing under a pruned or
    -- (without `hidden`) hidden directory is listed; with `hidden` unset, hidden *entries* are omitted
    let hiddenListed := got.filter fun p =>
      let comps := (splitOn 47 p).filter (· != [])
      !o.hidden && comps.any (fun c => c.head? == some 46 && c != [46, 46])
    let spec : Option (Except String Unit) :=
      if got.eraseDups.length != got.length then specFail "[C19] a path is listed more than once"
      else if got.any (fun p => [46, 47].isPrefixOf p) then specFail "[C19] a path is printed with a leading ./"
      else if !hiddenListed.isEmpty then specFail s!"[C19] hidden entry listed without the hidden option: {showNatList (hiddenListed.headD [])}"
      else if sortStrs got != out then specFail "[C19] the listed paths are not the files / directories the walker options describe"
      else specOk
    { model := showStrList out, spec,
      tags := ["run"] ++ (if o.follow then ["follow"] else []) ++ (if o.hidden then ["hidden"] else []) ++ (if o.dir then ["dir"] else []) ++
        (if !o.skips.isEmpty then ["skip"] else []) ++ (if es.any (·.kind == .link) then ["symlink"] else []) ++
        (if cwd != "-" then ["cwd"] else []) ++ (if root == "46,46" then ["dotdot"] else []) ++
        (if out.length ≥ 2 ∧ out.length < es.length then ["nt"] else []) }
  | _, _ => { model := "bad-op" }

end Driver.Walk
