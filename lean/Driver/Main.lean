import Driver.Proto
import Driver.History
import Driver.Algo
import Driver.Tok
import Driver.Pat
import Driver.Rank
import Driver.Filter
import Driver.Reader
import Driver.Quote
import Driver.Ansi
import Driver.Http
import Driver.Term
import Driver.Render
import Driver.Key
import Driver.Walk
import Driver.Bind
import Driver.Matcher
import Driver.Preview
/-
fzfmodel: reads protocol lines `<area> <op> <args>... => <impl answer>` on stdin and
prints, per line, `EQ|NE PASS|FAIL|NA | model=<answer> | <reason>`.
-/
open Driver

def dispatch (ctx : Driver.Algo.Ctx) (area op : String) (args impl : List String) : Outcome :=
  match area with
  | "hist" => Driver.History.run op args impl
  | "algo" => Driver.Algo.run ctx op args impl
  | "tok" => Driver.Tok.run op args impl
  | "pat" => Driver.Pat.run ctx op args impl
  | "rank" => Driver.Rank.run ctx op args impl
  | "filter" => Driver.Filter.run ctx op args impl
  | "reader" => Driver.Reader.run op args impl
  | "quote" => Driver.Quote.run op args impl
  | "ansi" => Driver.Ansi.run op args impl
  | "http" => Driver.Http.run op args impl
  | "term" => if op == "rend" then Driver.Render.run ctx op args impl else Driver.Term.run ctx op args impl
  | "walk" => Driver.Walk.run op args impl
  | "bind" => Driver.Bind.run op args impl
  | "matcher" => Driver.Matcher.run ctx op args impl
  | "preview" => Driver.Preview.run op args impl
  | "key" => Driver.Key.run op args impl
  | _ => { model := "bad-area" }

def processLine (ctx : Driver.Algo.Ctx) (line : String) : String :=
  let (lhs, rhs) := match line.splitOn " => " with
    | [a, b] => (a, b)
    | [a] => (a, "")
    | a :: rest => (a, " => ".intercalate rest)
    | [] => ("", "")
  let toks := (lhs.splitOn " ").filter (· ≠ "")
  let impl := (rhs.splitOn " ").filter (· ≠ "")
  match toks with
  | area :: op :: args =>
    let o := dispatch ctx area op args impl
    let eq := match o.same with
      | some b => if b then "EQ" else "NE"
      | none => if o.model == " ".intercalate impl || (o.model == "crash" && impl.head? == some "crash") then "EQ" else "NE"
    let tg := " | tags=" ++ ",".intercalate o.tags
    match o.spec with
    | none => s!"{eq} NA | model={o.model} |{tg}"
    | some (.ok _) => s!"{eq} PASS | model={o.model} |{tg}"
    | some (.error why) => s!"{eq} FAIL | model={o.model} | {why}{tg}"
  | _ => "NE NA | model=bad-line |"

partial def loop (ctx : Driver.Algo.Ctx) (h : IO.FS.Stream) (out : IO.FS.Stream) : IO Unit := do
  let line ← h.getLine
  if line.isEmpty then return ()
  let l := if line.endsWith "\n" then (line.dropEnd 1).toString else line
  if !l.isEmpty then
    out.putStrLn (processLine ctx l)
  loop ctx h out

def main (args : List String) : IO Unit := do
  let stdin ← IO.getStdin
  let stdout ← IO.getStdout
  let ctx ← Driver.Algo.loadCtx
  let ctx := { ctx with prop := args.headD "" }
  loop ctx stdin stdout
