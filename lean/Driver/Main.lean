import Driver.Proto
import Driver.History
/-
fzfmodel: reads protocol lines `<area> <op> <args>... => <impl answer>` on stdin and
prints, per line, `EQ|NE PASS|FAIL|NA | model=<answer> | <reason>`.
-/
open Driver

def dispatch (area op : String) (args impl : List String) : Outcome :=
  match area with
  | "hist" => Driver.History.run op args impl
  | _ => { model := "bad-area" }

def processLine (line : String) : String :=
  let (lhs, rhs) := match line.splitOn " => " with
    | [a, b] => (a, b)
    | [a] => (a, "")
    | a :: rest => (a, " => ".intercalate rest)
    | [] => ("", "")
  let toks := (lhs.splitOn " ").filter (· ≠ "")
  let impl := (rhs.splitOn " ").filter (· ≠ "")
  match toks with
  | area :: op :: args =>
    let o := dispatch area op args impl
    let eq := if o.model == " ".intercalate impl then "EQ" else "NE"
    let tg := " | tags=" ++ ",".intercalate o.tags
    match o.spec with
    | none => s!"{eq} NA | model={o.model} |{tg}"
    | some (.ok _) => s!"{eq} PASS | model={o.model} |{tg}"
    | some (.error why) => s!"{eq} FAIL | model={o.model} | {why}{tg}"
  | _ => "NE NA | model=bad-line |"

partial def loop (h : IO.FS.Stream) (out : IO.FS.Stream) : IO Unit := do
  let line ← h.getLine
  if line.isEmpty then return ()
  let l := if line.endsWith "\n" then (line.dropEnd 1).toString else line
  if !l.isEmpty then
    out.putStrLn (processLine l)
  loop h out

def main : IO Unit := do
  let stdin ← IO.getStdin
  let stdout ← IO.getStdout
  loop stdin stdout
