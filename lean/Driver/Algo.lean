import Driver.Proto
import Fzf.Model.Algo
import Fzf.Model.AlgoSlab
import Fzf.Spec.Algo
import Fzf.Generated.Normalize
import Fzf.Generated.Consts
namespace Driver.Algo
open Fzf Fzf.Algo Driver

/-- Run-length encoded unicode facts dumped from the Go runtime (`harness unicode`). -/
structure URange where
  lo : Nat
  hi : Nat
  cls : Nat
  delta : Int
  space : Bool
deriving Inhabited

structure Ctx where
  ranges : Array URange
  normArr : Array Nat
  prop : String := ""   -- property being checked (selects which answer fields are compared)

def Ctx.find (ctx : Ctx) (c : Nat) : URange := Id.run do
  let mut lo := 0
  let mut hi := ctx.ranges.size
  for _ in [0:24] do
    if lo + 1 ≥ hi then break
    let mid := (lo + hi) / 2
    if (ctx.ranges[mid]!).lo ≤ c then lo := mid else hi := mid
  let r := ctx.ranges[lo]!
  if r.lo ≤ c ∧ c ≤ r.hi then r else ⟨c, c, 1, 0, false⟩

def Ctx.unicode (ctx : Ctx) : Unicode where
  lower c := ((c : Int) + (ctx.find c).delta).toNat
  isSpace c := (ctx.find c).space
  classNA c := (ctx.find c).cls

/-- The hypothesis `CfgOk` of `C01_documented_syntax` about Go's tables, checked on the table the
    harness dumped: no non-ASCII rune is lower-cased to one of the syntax characters `! $ ' ^ |`. -/
def Ctx.lowerKeepsSyntax (ctx : Ctx) : Bool :=
  ctx.ranges.all fun r => [33, 36, 39, 94, 124].all fun (s : Nat) =>
    let c : Int := (s : Int) - r.delta
    !(c ≥ (max r.lo 128 : Nat) ∧ c ≤ (r.hi : Nat)) || r.delta == 0

def Ctx.norm (ctx : Ctx) (r : Nat) : Nat :=
  if r < 0x00C0 ∨ r > 0x2184 then r else ctx.normArr.getD (r - 0x00C0) r

def loadCtx : IO Ctx := do
  let path? ← IO.getEnv "FZF_UNICODE"
  let mut ranges : Array URange := #[]
  if let some path := path? then
    let txt ← IO.FS.readFile path
    for line in txt.splitOn "\n" do
      match (line.splitOn " ").filter (· ≠ "") with
      | [a, b, c, d, e] => ranges := ranges.push ⟨a.toNat!, b.toNat!, c.toNat!, parseInt d, e == "1"⟩
      | _ => pure ()
  if ranges.isEmpty then
    -- ASCII-only fallback
    ranges := #[⟨0, 8, 1, 0, false⟩, ⟨9, 13, 1, 0, true⟩, ⟨14, 31, 1, 0, false⟩, ⟨32, 32, 1, 0, true⟩,
                ⟨33, 64, 1, 0, false⟩, ⟨65, 90, 1, 32, false⟩, ⟨91, 0x10FFFF, 1, 0, false⟩]
  let normArr := Array.ofFn (n := 0x2184 - 0x00C0 + 1) fun i => normalizeRune Generated.normalizedTable (i.val + 0x00C0)
  return { ranges, normArr }

def scheme (s : String) : Scheme :=
  if s == "path" then schemePath else if s == "history" then schemeHistory else schemeDefault

def showRes (r : M Res) : String :=
  match r with
  | .error _ => "crash"
  | .ok r => s!"{r.start} {r.stop} {r.score} " ++ (match r.pos with | none => "nil" | some p => showNatList p)

def bool (s : String) : Bool := s == "1"

/-- Does the pattern satisfy the assumptions algo.go states (lower-cased unless case-sensitive,
    normalised when normalisation is on)? -/
def conforming (cfg : Cfg) (cs norm : Bool) (p : Array Nat) : Bool :=
  p.all fun c => (cs || toLower cfg c == c) && (!norm || cfg.norm c == c)

/-- Parsed implementation answer. -/
structure Ans where
  start : Int
  stop : Int
  score : Int
  pos : Option (List Nat)   -- ascending

def parseAns (impl : List String) : Option Ans :=
  match impl with
  | [a, b, c, ps] => some ⟨parseInt a, parseInt b, parseInt c,
      if ps == "nil" then none else some ((parseNatList ps).mergeSort (· ≤ ·))⟩
  | _ => none

/-- The anchored occurrence prefix / suffix / equal must report (documented whitespace trimming). -/
def anchored (cfg : Cfg) (fn : String) (t ft p : Array Nat) : Option Nat :=
  let n := t.size
  let m := p.size
  let lead := if cfg.U.isSpace (p.getD 0 0) then 0 else (t.toList.takeWhile cfg.U.isSpace).length
  let trail := if cfg.U.isSpace (p.getD (m - 1) 0) then 0 else (t.toList.reverse.takeWhile cfg.U.isSpace).length
  if fn == "prefix" then (if Spec.occursAt ft p lead then some lead else none)
  else if fn == "suffix" then (if n ≥ trail + m ∧ Spec.occursAt ft p (n - trail - m) then some (n - trail - m) else none)
  else (if lead + trail + m == n ∧ Spec.occursAt ft p lead then some lead else none)

/-- C02: the reported range / positions are a genuine witness; "no match" only if none exists. -/
def specWitness (cfg : Cfg) (fn : String) (cs norm : Bool) (t p : Array Nat) (a : Ans) : Option (Except String Unit) :=
  let n := t.size
  let m := p.size
  let ft := t.map (Spec.fold cfg cs norm)
  let pl := p.toList
  if fn == "v1" || fn == "v2" then
    if a.start < 0 then
      if Spec.isSubseq pl ft.toList then specFail "[C02] reported no match but the pattern is a subsequence of the folded line"
      else specOk
    else if !(0 ≤ a.start ∧ a.start ≤ a.stop ∧ a.stop ≤ n) then specFail s!"[C02] range [{a.start},{a.stop}) not inside the line of length {n}"
    else
      let s := a.start.toNat
      let e := a.stop.toNat
      if !Spec.isSubseq pl (ft.extract s e).toList then specFail s!"[C02] pattern is not a subsequence of the reported range [{s},{e})"
      else match a.pos with
        | some pos =>
          if !Spec.isWitness ft pl pos s e then specFail s!"[C02] positions {showNatList pos} are not a witness inside [{s},{e})"
          else specOk
        | none => specOk
  else if m == 0 then none
  else if fn == "exact" || fn == "boundary" then
    let occ := fun s => if fn == "exact" then Spec.occursAt ft p s else Spec.boundaryAt cfg t ft p s
    if a.start < 0 then
      match (List.range (n + 1 - m)).find? occ with
      | some s => specFail s!"[C02] reported no match but an occurrence satisfying the anchor starts at {s}"
      | none => specOk
    else if !(0 ≤ a.start ∧ a.stop == a.start + m ∧ a.stop ≤ n) then specFail s!"[C02] range [{a.start},{a.stop}) is not an occurrence of length {m}"
    else if !occ a.start.toNat then specFail s!"[C02] no occurrence satisfying the anchor at {a.start}"
    else specOk
  else
    match anchored cfg fn t ft p with
    | none => if a.start < 0 then specOk else specFail s!"[C02] reported [{a.start},{a.stop}) but the anchored occurrence does not exist"
    | some s =>
      if a.start < 0 then specFail s!"[C02] reported no match but the anchored occurrence is at {s}"
      else if a.start != s ∨ a.stop != s + m then specFail s!"[C02] reported [{a.start},{a.stop}) but the anchored occurrence is [{s},{s + m})"
      else specOk

/-- C03: the score is the one the documented model assigns (presupposes a valid witness). -/
def specScore (cfg : Cfg) (fn : String) (cs norm fwd : Bool) (t p : Array Nat) (a : Ans) : Option (Except String Unit) :=
  let m := p.size
  let ft := t.map (Spec.fold cfg cs norm)
  let pl := p.toList
  if a.start < 0 then (if a.score == 0 then specOk else specFail s!"[C03] non-match with score {a.score}")
  else
    let s := a.start.toNat
    let e := a.stop.toNat
    if m == 0 then (if a.score == 0 then specOk else specFail s!"[C03] empty pattern with score {a.score}")
    else if fn == "v1" then
      let pos := match a.pos with | some pos => pos | none => Spec.greedyPositions ft pl s e
      let exp := Spec.alignScore cfg t pos s e
      if a.score != exp then specFail s!"[C03] score {a.score} but the documented rules give {exp} for this alignment" else specOk
    else if fn == "v2" then
      if t.size * m > 3000000 then none
      else match Spec.refV2 cfg fwd t ft pl with
        | none => none
        | some (rs, re) =>
          if rs != a.score then specFail s!"[C03] score {a.score} but the recurrence over the whole line gives {rs}"
          else if re != e then specFail s!"[C03] end {e} but the recurrence peaks at {re}"
          else specOk
    else if fn == "boundary" then none
    else
      let exp := Spec.alignScore cfg t ((List.range m).map (· + s)) s (s + m)
      if a.score != exp then specFail s!"[C03] score {a.score} but the occurrence it reports scores {exp}" else specOk

def specVerdict (prop : String) (cfg : Cfg) (fn : String) (cs norm fwd : Bool) (t p : Array Nat) (fallback : Bool)
    (impl : List String) : Option (Except String Unit) :=
  if !conforming cfg cs norm p then none else
  -- V2 documents a fall-back to the greedy V1 for lines beyond the scratch memory
  let fn := if fn == "v2" ∧ fallback then "v1" else fn
  match parseAns impl with
  | none => if prop == "C03" then none else
      (if impl.head? == some "crash" then specFail "[C02] matching crashed" else specFail "[C02] unparsable answer")
  | some a =>
    let w := if prop == "C03" then none else specWitness cfg fn cs norm t p a
    match w with
    | some (.error e) => some (.error e)
    | _ =>
      if prop == "C02" then w
      else
        let okW := (specWitness cfg fn cs norm t p a) matches some (.ok _) | none
        if !okW then none else
        match specScore cfg fn cs norm fwd t p a with
        | none => w
        | sc => sc

/-- Stateless junk shared with the Go harness (`junk16` / `junk32` in area_algo.go). -/
def junk (seed : Nat) (addr : Nat) : Int :=
  let c16 := Generated.slab16Size
  let i := if addr < c16 then addr else addr - c16
  let h := ((seed + 1) * 2654435761 + (i + 1) * 40503) % 4294967296
  if addr < c16 then
    match seed % 3 with
    | 0 => (h % 60 : Nat) - 10
    | 1 => w16 (h % 65536 : Nat)
    | _ => (1 + h % 3 : Nat)
  else (h % 100000 : Nat) - 50

def runFn (cfg : Cfg) (op : String) (cs norm fwd wp : Bool) (t : Array Nat) (isBytes : Bool) (p : Array Nat)
    (slabCap : Option Nat) : M Res :=
  match op with
  | "v1" => fuzzyMatchV1 cfg cs norm fwd t isBytes p wp
  | "v2" => fuzzyMatchV2 cfg cs norm fwd t isBytes p wp slabCap
  | "exact" => exactMatchNaive cfg cs norm fwd false t isBytes p
  | "boundary" => exactMatchNaive cfg cs norm fwd true t isBytes p
  | "prefix" => prefixMatch cfg cs norm t p
  | "suffix" => suffixMatch cfg cs norm t p
  | "equal" => equalMatch cfg cs norm t p
  | _ => .error "bad fn"

/-- Same enumeration as `pureVariants` in harness/area_algo.go: (withPos, isBytes, nilSlab). -/
def pureVariants (ascii nilOK : Bool) : List (Bool × Bool × Bool) :=
  [false, true].flatMap fun wp =>
    ((if ascii then [false, true] else [false]).flatMap fun isBytes =>
      ([false, false, false] ++ (if nilOK then [true] else [])).map fun nilSlab => (wp, isBytes, nilSlab))

/-- C05 on one (line, term): the answer must not depend on the slab state, the representation, or
    (except for the documented V2 `Start` shortcut, F6) on whether positions were requested. -/
def specPure (fn : String) (vars : List (Bool × Bool × Bool)) (impl : List String) : Option (Except String Unit) :=
  if impl.length != vars.length then specFail s!"[C05] {impl.length} answers for {vars.length} variants" else
  let rows := vars.zip (impl.map (·.splitOn "/"))
  let noPos := rows.filter (fun r => !r.1.1)
  let withPos := rows.filter (fun r => r.1.1)
  let allSame (l : List ((Bool × Bool × Bool) × List String)) : Bool :=
    match l with
    | [] => true
    | r :: rs => rs.all (fun x => x.2 == r.2)
  if !allSame noPos then specFail "[C05] answers without positions differ across slab states / representations"
  else if !allSame withPos then specFail "[C05] answers with positions differ across slab states / representations"
  else match noPos.head?, withPos.head? with
    | some a, some b =>
      match a.2, b.2 with
      | [s1, e1, sc1, _], [s2, e2, sc2, _] =>
        if e1 != e2 ∨ sc1 != sc2 ∨ (s1 == "-1") != (s2 == "-1") then
          specFail s!"[C05] requesting positions changes the answer: {s1}/{e1}/{sc1} vs {s2}/{e2}/{sc2}"
        else if s1 != s2 then specFail s!"[C05] requesting positions changes Start: {s1} vs {s2} ({fn})"
        else specOk
      | _, _ => if a.2 == b.2 then specOk else specFail "[C05] crash depends on positions"
    | _, _ => specOk

def runPure (ctx : Ctx) (args impl : List String) : Outcome :=
  match args with
  | [fn, sch, cs, norm, fwd, _seed, text, pat] =>
    let cfg : Cfg := { U := ctx.unicode, sch := scheme sch, norm := ctx.norm }
    let t := (parseNatList text).toArray
    let p := (parseNatList pat).toArray
    let ascii := t.all (· < 128)
    let nilOK := decide (t.size * p.size ≤ Generated.slab16Size ∧ p.size ≤ 1000)
    let vars := pureVariants ascii nilOK
    let outs := vars.map fun (wp, isBytes, nilSlab) =>
      (showRes (runFn cfg fn (bool cs) (bool norm) (bool fwd) wp t isBytes p
        (if nilSlab then none else some Generated.slab16Size))).replace " " "/"
    let spec := if conforming cfg (bool cs) (bool norm) p then specPure fn vars impl else none
    let matched := outs.any (fun o => !o.startsWith "-1")
    { model := " ".intercalate outs, spec,
      same := if ctx.prop == "C05" && fn != "v2" then some true else none,
      tags := ["pure", fn] ++ (if ascii then ["bytes+runes"] else []) ++ (if matched then ["match"] else []) ++
        (if matched ∧ p.size ≥ 2 then ["nt"] else []) }
  | _ => { model := "bad-args" }

/-- algo <fn> <scheme> <cs> <norm> <fwd> <withPos> <slab> <repr> <text> <pattern> -/
def run (ctx : Ctx) (op : String) (args : List String) (impl : List String) : Outcome :=
  if op == "pure" then runPure ctx args impl else
  match args with
  | [sch, cs, norm, fwd, wp, slab, repr, text, pat] =>
    let cfg : Cfg := { U := ctx.unicode, sch := scheme sch, norm := ctx.norm }
    let t := (parseNatList text).toArray
    let p := (parseNatList pat).toArray
    let isBytes := repr == "b"
    let slabCap := if slab == "nil" then none else some Generated.slab16Size
    let (cs, norm, fwd, wp) := (bool cs, bool norm, bool fwd, bool wp)
    -- V2 is only usable without a slab as long as int16 cells cannot overflow (see F1)
    let r : M Res :=
      match op with
      | "v1" => fuzzyMatchV1 cfg cs norm fwd t isBytes p wp
      | "v2" => fuzzyMatchV2 cfg cs norm fwd t isBytes p wp slabCap
      | "exact" => exactMatchNaive cfg cs norm fwd false t isBytes p
      | "boundary" => exactMatchNaive cfg cs norm fwd true t isBytes p
      | "prefix" => prefixMatch cfg cs norm t p
      | "suffix" => suffixMatch cfg cs norm t p
      | "equal" => equalMatch cfg cs norm t p
      | _ => .error "bad fn"
    -- array-faithful layer: raw run over the same junk as the implementation's slab, and the
    -- checked run (⇒ the answer is the same for every slab content, Lemmas/Prog.lean)
    let slabDims := if slab == "nil" then none else some (Generated.slab16Size, Generated.slab32Size)
    let l1 : Option (M Res × M Res) :=
      if op == "v2" ∧ t.size * p.size ≤ 30000 ∧ (ctx.prop == "C05" ∨ ctx.prop == "" ∨ slab.startsWith "d") then
        let seed := if slab.startsWith "d" then (slab.drop 1).toString.toNat! else 1
        some (fuzzyMatchV2Slab cfg cs norm fwd t isBytes p wp slabDims (junk seed) false,
              fuzzyMatchV2Slab cfg cs norm fwd t isBytes p wp slabDims (junk (seed + 7)) true)
      else none
    let fallback := op == "v2" ∧ slabCap.any (fun c => t.size * p.size > c)
    let spec0 := specVerdict ctx.prop cfg op cs norm fwd t p fallback impl
    let spec := match l1 with
      | some (_, .error e) =>
        if (e.splitOn "uninit").length > 1 then specFail s!"[C05] the checked run reads a slab cell this call did not write: {e}"
        else specFail s!"[C02] the checked run of the array-faithful model fails: {e}"
      | _ => spec0
    let matched : Bool := match r with | .ok r => decide (r.start ≥ 0) | _ => false
    let tags := [op, sch] ++ (if matched then ["match"] else ["nomatch"]) ++
      (if isBytes then ["bytes"] else ["runes"]) ++ (if t.any (· > 127) then ["nonascii"] else []) ++
      (if slab == "nil" then ["noslab"] else if slab.startsWith "d" || slab.startsWith "h" || slab.startsWith "g" then ["dirty"] else []) ++
      (if !fwd then ["backward"] else []) ++ (if wp then ["withpos"] else []) ++
      (if op == "v2" ∧ (slabCap.any (fun c => t.size * p.size > c)) then ["v2fallback"] else []) ++
      (if t.size > 65535 then ["huge"] else []) ++
      (if l1.isSome then ["slabmodel"] else []) ++
      (if matched ∧ p.size ≥ 2 ∧ t.size > p.size then ["nt"] else [])
    -- compare only the answer fields the property speaks about
    let proj (toks : List String) : String :=
      match ctx.prop, toks with
      | "C02", [a, b, _, d] => s!"{a} {b} {d}"
      | "C03", [_, b, c, _] => s!"{b} {c}"
      | _, _ => " ".intercalate toks
    let modelStr := showRes r
    -- the three layers of the model must agree with each other, too
    let layersAgree := match l1 with
      | some (raw, chk) => showRes raw == modelStr && (showRes chk == modelStr || (showRes chk == "crash"))
      | none => true
    let modelStr := if layersAgree then modelStr else
      match l1 with
      | some (raw, chk) => s!"LAYERS-DISAGREE functional={modelStr} raw={showRes raw} checked={showRes chk}"
      | none => modelStr
    -- C05 is about V2's scratch memory; the other matchers' answers are C02/C03 matters
    let same := (ctx.prop == "C05" && op != "v2") ||
      proj ((modelStr.splitOn " ").filter (· ≠ "")) == proj impl || (modelStr == "crash" && impl.head? == some "crash")
    { model := modelStr, spec, tags, same := some same }
  | _ => { model := "bad-args" }

end Driver.Algo
