import Driver.Proto
import Driver.Algo
import Driver.Tok
import Driver.Pat
import Fzf.Model.Filter
import Fzf.Spec.Query
import Fzf.Spec.Reader
import Fzf.Spec.Ansi
namespace Driver.Filter
open Fzf Fzf.Algo Fzf.Pattern Fzf.Rank Fzf.Filter Driver

def lowerAscii (s : Str) : Str := s.map fun c => if 65 ≤ c ∧ c ≤ 90 then c + 32 else c

/-- filter run <scheme> <tiebreak|-> <exact> <algo> <ext> <case> <literal> <sort> <tac> <nth|-> <withnth|->
      <delim> <tail> <hdr> <query> <lines> => <exit> <records> -/
def run (ctx : Algo.Ctx) (op0 : String) (args impl : List String) : Outcome :=
  -- `proc1`: the same pipeline started with --select-1 --exit-0 --query instead of --filter on an input
  -- with at most one match: it must print and exit exactly as filter mode does
  let op := if op0 == "proc1" then "proc" else op0
  match op, args with
  | "run", [_argvSeed, sch, tie, exact, algo, ext, cm, literal, sort, tac, nth, withnth, delim, tail, hdr, q, lines] =>
    let cfg : Cfg := { U := ctx.unicode, sch := Algo.scheme sch, norm := ctx.norm }
    let crit : Option (List Criterion) :=
      if tie == "-" then some (schemeCriteria sch) else parseTiebreak (lowerAscii (parseNatList tie))
    let rng (s : String) : Option (Option (List Tokenizer.Range)) :=
      if s == "-" then some none else (Tokenizer.splitNth (parseNatList s)).map some
    match crit, rng nth, rng withnth with
    | some crit, some nthR, some withR =>
      let o : Opts := {
        cfg, criteria := crit, fuzzy := exact != "1", v2 := algo == "v2", extended := ext == "1",
        caseMode := if cm == "1" then .ignore else if cm == "2" then .respect else .smart,
        normalize := literal != "1", sort := sort == "1", tac := tac == "1", nth := nthR, withNth := withR,
        delim := Pat.parseDelim delim, tail := tail.toNat!, headerLines := hdr.toNat!, isSpace := Tok.isSpace }
      let ls := parseStrList lines
      let query := parseNatList q
      match Fzf.Filter.run o Generated.slab16Size query ls with
      | none => { model := "crash", spec := specFail "[C02] matching crashed" }
      | some out =>
        let model := s!"{if out.isEmpty then 1 else 0} {showStrList out}"
        -- projections per property
        let irecs := match impl with
          | [_, r] => parseStrList r
          | _ => []
        let sortL (l : List Str) := l.mergeSort (fun a b => decide (a ≤ b))
        let same : Bool := match ctx.prop with
          | "C01" => sortL irecs == sortL out            -- which lines
          | "C04" => irecs == out                         -- and in which order
          | _ => " ".intercalate impl == model
        -- spec (C01): exactly the lines satisfying the query are printed
        let (forward, _) := dirAndPos crit
        let pat := buildPattern cfg o.fuzzy o.v2 o.extended o.caseMode o.normalize forward false query
        let items := buildItems o ls
        let streaming := !o.sort && !o.tac
        let items := if o.tail > 0 ∧ !streaming then lastN o.tail items else items
        let satisfied := items.filter fun it =>
          if pat.extended then Query.sat cfg pat.termSets ((inputTokens o it).map (·.text))
          else
            let t : Term := ⟨if o.fuzzy then .fuzzy else .exact, false, pat.text, pat.cs, pat.norm⟩
            pat.text.isEmpty || Query.termSat cfg t ((inputTokens o it).map (·.text))
        let spec : Option (Except String Unit) :=
          if impl.length != 2 then specFail "[C07] unparsable answer"
          else if sortL irecs != sortL (satisfied.map (·.orig)) then
            specFail "[C01] the printed lines are not exactly the lines satisfying the query"
          else if impl.head? != some (if irecs.isEmpty then "1" else "0") then
            specFail "[C07] exit status is not 0 iff something was printed"
          else if ctx.prop == "C04" ∧ irecs != out then
            specFail "[C04] the printed order is not (score, tiebreaks, input position)"
          else specOk
        let nsat := satisfied.length
        { model, spec, same := some same,
          tags := ["run", sch] ++ (if o.sort then ["sort"] else ["nosort"]) ++ (if o.tac then ["tac"] else []) ++
            (if o.tail > 0 then ["tail"] else []) ++ (if withnth != "-" then ["withnth"] else []) ++
            (if nth != "-" then ["nth"] else []) ++ (if items.length > 100 then ["multichunk"] else []) ++
            (if nsat ≥ 2 ∧ nsat < items.length then ["nt"] else []) }
    | _, _, _ =>
      { model := "2 reject", tags := ["run", "reject"] }
  | "proc", [read0, print0, printq, ansi, sort, tac, withnth, delim, q, stream] =>
    -- the real binary under a pipe: byte stream in, byte stream and exit status out
    let cfg : Cfg := { U := ctx.unicode, sch := schemeDefault, norm := ctx.norm }
    let b (x : String) := x == "1"
    let inDelim := if b read0 then 0 else 10
    let term := if b print0 then 0 else 10
    let bs := parseNatList stream
    let recs := Reader.splitRecords inDelim bs
    -- --ansi: searchable and printed text is the record with its escape sequences removed
    let shown := if b ansi then recs.map fun r => (Ansi.Spec.strip r.toArray).toList else recs
    let withR : Option (List Tokenizer.Range) := if withnth == "-" then none else Tokenizer.splitNth (parseNatList withnth)
    let o : Opts := {
      cfg, criteria := schemeCriteria "default", fuzzy := true, v2 := true, extended := true, caseMode := .smart,
      normalize := true, sort := b sort, tac := b tac, nth := none, withNth := withR,
      delim := Pat.parseDelim delim, tail := 0, headerLines := 0, isSpace := Tok.isSpace }
    let query := parseNatList q
    match Fzf.Filter.run o Generated.slab16Size query shown with
    | none => { model := "crash", spec := specFail "[C02] matching crashed" }
    | some out =>
      let frame (xs : List Str) : Str := xs.flatMap (· ++ [term])
      let bytes := frame ((if b printq then [query] else []) ++ out)
      let code := if out.isEmpty then 1 else 0
      let model := s!"{code} {showNatList bytes}"
      -- spec (C07/C06): every printed record is an original record (ANSI stripped), byte for byte, each
      -- followed by the terminator; the query line comes first; exit status 0 iff a result was output
      let spec : Option (Except String Unit) := match impl with
        | [c, o'] =>
          let ob := parseNatList o'
          let printed := if ob.isEmpty then [] else (splitOn term ob)
          let printed := if ob.getLast? == some term then printed.dropLast else printed
          if !ob.isEmpty ∧ ob.getLast? != some term then specFail "[C07] output does not end with the record terminator"
          else
            let body := if b printq then printed.drop 1 else printed
            -- under --print0 / multi-line records a printed record may itself contain the other delimiter
            let allowed := shown
            if b printq ∧ printed.head? != some query ∧ !(b print0 == false ∧ query.contains 10) then specFail "[C07] --print-query line is not first"
            else if term == inDelim ∨ !(shown.any (·.contains term)) then
              if !body.all (fun r => allowed.contains r) then
                (if b ansi ∧ ctx.prop == "C11" then specFail "[C11] a printed record is not an input record with exactly its escape sequences removed"
                 else specFail "[C07] a printed record is not an input record byte for byte")
              else if b ansi ∧ ctx.prop == "C11" ∧ body != out then
                specFail "[C11] the lines found under --ansi are not the lines whose text without escape sequences matches"
              else if c != (if body.isEmpty then "1" else "0") then specFail "[C07] exit status is not 0 iff a result was output"
              else if body.length != out.length ∧ ctx.prop == "C06" then specFail "[C06] number of items differs from number of records"
              else specOk
            else if c != (if out.isEmpty then "1" else "0") then specFail "[C07] exit status is not 0 iff a result was output"
            else specOk
        | _ => specFail "[C14] fzf crashed in filter mode"
      { model, spec,
        tags := ["proc"] ++ (if op0 == "proc1" then ["select1-exit0"] else []) ++ (if b read0 then ["read0"] else []) ++ (if b print0 then ["print0"] else []) ++ (if b printq then ["printq"] else []) ++
          (if b ansi then ["ansi"] else []) ++ (if withnth != "-" then ["withnth"] else []) ++ (if recs.length > 100 then ["multichunk"] else []) ++
          (if out.length ≥ 1 ∧ out.length < recs.length then ["nt"] else []) }
  | _, _ => { model := "bad-op" }

end Driver.Filter
