import Driver.Proto
import Driver.Algo
import Driver.Tok
import Fzf.Model.Pattern
import Fzf.Model.Rank
import Fzf.Model.Tokenizer
import Fzf.Spec.Query
namespace Driver.Pat
open Fzf Fzf.Algo Fzf.Pattern Fzf.Rank Driver

def showTermSets (sets : List TermSet) : String :=
  if sets.isEmpty then "_" else ";".intercalate (sets.map fun s =>
    "&".intercalate (s.map fun t => s!"{t.typ.toNat}:{if t.inv then 1 else 0}:{if t.cs then 1 else 0}:{if t.norm then 1 else 0}:{showNatList t.text}"))

def caseOf (s : String) : CaseMode := if s == "1" then .ignore else if s == "2" then .respect else .smart

def kindOf (s : String) : TermType :=
  match s with
  | "f" => .fuzzy | "e" => .exact | "b" => .boundary | "p" => .prefix | "s" => .suffix | _ => .equal

def parseAST (s : String) : Option Query.Query :=
  if s == "_" then none else some ((s.splitOn ";").map fun set => (set.splitOn "&").map fun a =>
    match a.splitOn ":" with
    | [k, i, t] => ⟨kindOf k, i == "1", parseNatList t⟩
    | _ => ⟨.fuzzy, false, []⟩)

def critOf (n : Nat) : Criterion :=
  match n with
  | 0 => .score | 1 => .chunk | 2 => .length | 3 => .begin_ | 4 => .end_ | _ => .pathname

/-- `util.ToChars(bytes)`: (runes, isBytes). -/
def toChars (bs : Str) : Array Nat × Bool :=
  if Utf8.isAscii bs then (bs.toArray, true) else ((Utf8.toRunes bs).toArray, false)

/-- The tokens a pattern is matched against (`transformInput`), for AWK / literal delimiters. -/
def inputTokens (line : Str) (nth : Option (List Tokenizer.Range)) (delim : Tokenizer.Delim) : List Tok :=
  let (runes, isBytes) := toChars line
  match nth with
  | none => [⟨runes, isBytes, 0⟩]
  | some rs =>
    let str := if isBytes then line else Utf8.fromRunes runes.toList
    let toks := Tokenizer.transform (Tokenizer.tokenize str delim) rs
    let toks : List Tokenizer.Token := match delim with
      | .awk => toks
      | d => match toks.reverse with
        | last :: rest =>
          ((⟨Tokenizer.stripLastDelimiter Tok.isSpace last.text d, last.prefixLength⟩ : Tokenizer.Token) :: rest).reverse
        | [] => toks
    toks.map fun (t : Tokenizer.Token) => let (r, b) := toChars t.text; (⟨r, b, t.prefixLength⟩ : Tok)

def parseDelim (s : String) : Tokenizer.Delim :=
  if s == "awk" then .awk
  else
    -- delimiterRegexp: "\\t" means TAB; the harness only passes literal delimiters to this op
    let bs := parseNatList (s.drop 2).toString
    let rec unesc : Str → Str
      | 92 :: 116 :: rest => 9 :: unesc rest
      | c :: rest => c :: unesc rest
      | [] => []
    .str (unesc bs)

def showLineRes (cfg : Cfg) (crit : List Criterion) (runes : Array Nat) (r : M (Option MatchRes)) : String :=
  match r with
  | .error _ => "crash"
  | .ok none => "-"
  | .ok (some m) =>
    let pts := buildPoints cfg crit runes m.offsets m.score
    -- buildResult sorts the offsets slice in place, so MatchItem returns them ordered
    let offs := if m.offsets.length > 1 then sortOffsets m.offsets else m.offsets
    "+".intercalate (offs.map fun (b, e) => s!"{b}.{e}") ++ ":" ++ ".".intercalate (pts.map toString)

def run (ctx : Algo.Ctx) (op : String) (args impl : List String) : Outcome :=
  let cfg0 : Cfg := { U := ctx.unicode, sch := schemeDefault, norm := ctx.norm }
  match op, args with
  | "parse", [fuzzy, cm, norm, q] =>
    let sets := parseTerms cfg0 (fuzzy == "1") (caseOf cm) (norm == "1") (parseNatList q)
    { model := showTermSets sets, tags := ["parse"] ++ (if sets.length ≥ 2 then ["nt"] else []) }
  | "build", [fuzzy, v2, ext, cm, norm, q] =>
    let p := buildPattern cfg0 (fuzzy == "1") (v2 == "1") (ext == "1") (caseOf cm) (norm == "1") true true (parseNatList q)
    let b (x : Bool) := if x then "1" else "0"
    { model := s!"{showNatList p.text} {b p.cs} {b p.norm} {b p.sortable} {b p.cacheable} {showNatList (Utf8.fromRunes p.cacheKey)} {showTermSets p.termSets}",
      tags := ["build"] ++ (if p.termSets.length ≥ 2 then ["nt"] else []) }
  | "q", [sch, crits, fuzzy, v2, ext, cm, norm, fwd, ast, q, nth, delim, lines] =>
    let cfg : Cfg := { cfg0 with sch := Algo.scheme sch }
    let crit := (parseNatList crits).map critOf
    let (fuzzy, v2, ext, norm, fwd) := (fuzzy == "1", v2 == "1", ext == "1", norm == "1", fwd == "1")
    let query := parseNatList q
    let nthR : Option (Option (List Tokenizer.Range)) :=
      if nth == "-" then some none else (Tokenizer.splitNth (parseNatList nth)).map some
    match nthR with
    | none => { model := "reject", tags := ["q", "reject"] }
    | some nthR =>
    let d := parseDelim delim
    let ls := parseStrList lines
    let pat := buildPattern cfg fuzzy v2 ext (caseOf cm) norm fwd true query
    let outs := [false, true].map fun withPos =>
      let rs := ls.map fun line =>
        showLineRes cfg crit (toChars line).1 (matchItem cfg pat (inputTokens line nthR d) withPos Generated.slab16Size)
      if rs.isEmpty then "_" else ";".intercalate rs
    -- spec
    let implRows := impl.map fun s => if s == "_" then [] else s.splitOn ";"
    let spec : Option (Except String Unit) :=
      match implRows with
      | [noPos, withPos] =>
        if noPos.length != ls.length ∨ withPos.length != ls.length then specFail "[C01] one answer per line expected" else
        -- C05: requesting positions must not change the decision nor (V2 Start shortcut aside) the rank
        let flagsDiffer := (noPos.zip withPos).any fun (a, b) => (a == "-") != (b == "-")
        let keyDiffers := (noPos.zip withPos).any fun (a, b) => a != b
        let v2Fuzzy := v2 && (if ext then pat.termSets.any (·.any (·.typ == .fuzzy)) else fuzzy)
        if flagsDiffer then specFail "[C05] requesting positions changes which lines match"
        else if keyDiffers ∧ !v2Fuzzy then specFail "[C05] requesting positions changes offsets or rank points"
        else
        -- C01: the lines reported are exactly the lines satisfying the query
        match parseAST ast with
        | none => none
        | some a =>
          if !Query.wf a then none else
          let terms := a.map (·.map (Query.compile cfg (caseOf cm) norm))
          let terms := if ext then terms else
            -- --no-extended: one term, case and normalisation decided on the whole query
            terms
          match (ls.zip noPos).find? (fun (line, r) =>
              Query.sat cfg terms ((inputTokens line nthR d).map (·.text)) != (r != "-")) with
          | some (line, r) =>
            if r == "-" then specFail s!"[C01] line {showNatList line} satisfies the query but is not reported"
            else specFail s!"[C01] line {showNatList line} is reported but does not satisfy the query"
          | none =>
            -- the documented syntax is read as documented (theorem C01_documented_syntax; its hypothesis about
            -- Go's unicode tables is checked on the dumped table)
            if !ctx.lowerKeepsSyntax then
              specFail "[C01] unicode.ToLower maps a non-ASCII rune to one of the syntax characters ! $ ' ^ | (hypothesis of C01_documented_syntax)"
            else if ext ∧ pat.termSets != terms ∧ query == Query.render fuzzy a then
              specFail "[C01] the rendered query is not parsed into the documented terms"
            else specOk
      | _ => if impl.head? == some "crash" then specFail "[C01] matching crashed" else specFail "[C01] unparsable answer"
    let nMatch := (outs.headD "").splitOn ";" |>.filter (· != "-") |>.length
    { model := " ".intercalate outs, spec,
      tags := ["q", sch] ++ (if ext then ["extended"] else ["basic"]) ++ (if nth != "-" then ["nth"] else []) ++
        (if pat.termSets.any (·.length > 1) then ["or"] else []) ++ (if pat.termSets.any (·.any (·.inv)) then ["neg"] else []) ++
        (if (parseAST ast).any Query.wf then ["ast"] else ["raw"]) ++
        (if nMatch > 0 ∧ nMatch < ls.length ∧ (pat.termSets.length ≥ 2 ∨ pat.termSets.any (·.length > 1) ∨ pat.termSets.any (·.any (·.inv))) then ["nt"] else []) }
  | "qh", [sch, crits, fuzzy, v2, ext, cm, norm, fwd, q, nths, delim, lines] =>
    -- the same items under a sequence of field expressions: every row is what a fresh search gives
    let cfg : Cfg := { cfg0 with sch := Algo.scheme sch }
    let crit := (parseNatList crits).map critOf
    let (fuzzy, v2, ext, norm, fwd) := (fuzzy == "1", v2 == "1", ext == "1", norm == "1", fwd == "1")
    let query := parseNatList q
    let exprs := nths.splitOn ";"
    let parsed : List (Option (Option (List Tokenizer.Range))) := exprs.map fun nth =>
      if nth == "-" then some none else (Tokenizer.splitNth (parseNatList nth)).map some
    if parsed.any (·.isNone) then { model := "reject", tags := ["qh", "reject"] } else
    let d := parseDelim delim
    let ls := parseStrList lines
    let pat := buildPattern cfg fuzzy v2 ext (caseOf cm) norm fwd true query
    let rows := parsed.map fun nthR =>
      let rs := ls.map fun line =>
        showLineRes cfg crit (toChars line).1 (matchItem cfg pat (inputTokens line (nthR.getD none) d) false Generated.slab16Size)
      if rs.isEmpty then "_" else ";".intercalate rs
    let spec : Option (Except String Unit) :=
      if impl.length != rows.length then specFail "[C05] one row per field expression expected"
      else match (List.zip (List.zip exprs rows) impl).find? fun ((_, want), got) => want != got with
        | some ((e, _), _) => specFail s!"[C05] under the field expression {e} a line matched / ranked differently from a fresh search: the result depends on which expression was in force when the item was first searched"
        | none => specOk
    { model := " ".intercalate rows, spec,
      tags := ["qh", "nth"] ++ (if rows.eraseDups.length ≥ 2 then ["nt"] else []) }
  | _, _ => { model := "bad-op" }

end Driver.Pat
