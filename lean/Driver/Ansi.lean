import Driver.Proto
import Fzf.Spec.Ansi
namespace Driver.Ansi
open Fzf Fzf.Ansi Driver

def colonBytes (s : String) : Str := if s == "e" then [] else (s.splitOn ":").map (·.toNat!)
def showColon (b : Str) : String := if b.isEmpty then "e" else ":".intercalate (b.map toString)

def parseState (s : String) (id : Nat) : Option State :=
  if s == "-" then none else
  match s.splitOn "." with
  | [fg, bg, attr, lbg, url] =>
    let u : Option (Str × Str × Nat) := if url == "-" then none else
      match url.splitOn "~" with
      | [a, b] => some (colonBytes a, colonBytes b, id)
      | _ => none
    some { fg := parseInt fg, bg := parseInt bg, attr := attr.toNat!, lbg := parseInt lbg, url := u }
  | _ => none

def showState (s : Option State) : String :=
  match s with
  | none => "-"
  | some s =>
    let url := match s.url with
      | none => "-"
      | some (u, p, _) => s!"{showColon u}~{showColon p}"
    s!"{s.fg}.{s.bg}.{s.attr}.{s.lbg}.{url}"

def showOffsets (o : Option (List Offset)) : String :=
  match o with
  | none => "nil"
  | some [] => "_"
  | some os => "|".intercalate (os.map fun x => s!"{x.b}-{x.e}-{showState (some x.color)}")

def parseOffsets (s : String) : Option (List (Nat × Nat × String)) :=
  if s == "nil" then none else if s == "_" then some [] else
  some ((s.splitOn "|").map fun x =>
    match x.splitOn "-" with
    | b :: e :: rest => (b.toNat!, e.toNat!, "-".intercalate rest)
    | _ => (0, 0, ""))

def parseOps (s : String) : List Spec.Op :=
  if s == "_" then [] else (s.splitOn "/").flatMap fun op =>
    let kv := op.splitOn ":"
    let head := kv.headD ""
    if head == "t" then [Spec.Op.text (colonBytes (":".intercalate (kv.drop 1)))]
    else if head == "url" then [.url (colonBytes (":".intercalate (kv.drop 1))) []]
    else if head == "urlb" then [.url (colonBytes (":".intercalate (kv.drop 1))) [105, 100, 61, 49]]
    else if head == "nourl" then [.noUrl]
    else if head == "csi" then (if ":".intercalate (kv.drop 1) == "48:75" then [.eraseLine] else [.other])
    else if head == "esc" ∨ head == "so" ∨ head == "bs" then [.other]
    else
      (op.splitOn "+").map fun sub =>
        let sub := if sub.endsWith "c" || sub.endsWith "k" then (sub.dropEnd 1).toString else sub
        let kv := sub.splitOn ":"
        let v := (kv.getD 1 "0")
        match kv.headD "" with
        | "fg" => .fg v.toNat!
        | "bg" => .bg v.toNat!
        | "fg256" => .fg v.toNat!
        | "bg256" => .bg v.toNat!
        | "fgrgb" => match (v.splitOn ".").map (·.toNat!) with
          | [r, g, b] => .fg (16777216 + r * 65536 + g * 256 + b)
          | _ => .other
        | "bgrgb" => match (v.splitOn ".").map (·.toNat!) with
          | [r, g, b] => .bg (16777216 + r * 65536 + g * 256 + b)
          | _ => .other
        | "on" => .attrOn (match v with | "1" => 1 | "2" => 2 | "3" => 4 | "4" => 8 | "5" => 16 | "7" => 64 | _ => 128)
        | "off" => .attrOff (match v with | "22" => 3 | "23" => 4 | "24" => 8 | "25" => 16 | "27" => 64 | _ => 128)
        | "deffg" => .fg (-1)
        | "defbg" => .bg (-1)
        | _ => .reset

/-- Spans well-formed: ordered, non-overlapping, inside the text. -/
def offsetsWF (os : List (Nat × Nat × String)) (runeCount : Nat) : Bool :=
  let rec go (prevEnd : Nat) : List (Nat × Nat × String) → Bool
    | [] => true
    | (b, e, _) :: rest => decide (prevEnd ≤ b) && decide (b ≤ e) && decide (e ≤ runeCount) && go e rest
  go 0 os

/-- Per-character colouring described by the implementation's offsets. -/
def cellsOf (os : List (Nat × Nat × String)) (n : Nat) : List String :=
  (List.range n).map fun i =>
    match os.find? (fun (b, e, _) => b ≤ i ∧ i < e) with
    | some (_, _, st) => st
    | none => "-"

def cellStr (c : Spec.Cell) (lbg : Int) : String :=
  if c.fg == -1 ∧ c.bg == -1 ∧ c.attr == 0 ∧ c.url.isNone ∧ lbg < 0 then "-" else
  let url := match c.url with
    | none => "-"
    | some (u, p) => s!"{showColon u}~{showColon p}"
  s!"{c.fg}.{c.bg}.{c.attr}.{lbg}.{url}"

def runExtract (prev : String) (data : Str) : String × Bytes × Option (List Offset) × Option State :=
  let st := parseState prev 0
  let (trimmed, offs, state) := extractColor data.toArray st 1
  (s!"{showNatList trimmed.toList} {showOffsets offs} {showState state}", trimmed, offs, state)

def specBytes (data : Str) (impl : List String) : Option (Except String Unit) :=
  match impl with
  | [trimmed, offs, _] =>
    let t := parseNatList trimmed
    let want := (Spec.strip data.toArray).toList
    if t != want then specFail s!"[C11] stripping must give {showNatList want}"
    else if !data.any (fun c => c == 8 || c == 0x0e || c == 0x0f || c == 0x1b) ∧ t != data then specFail "[C11] text without control characters was altered"
    else match parseOffsets offs with
      | none => specOk
      | some os => if offsetsWF os (Utf8.runeCount t) then specOk else specFail "[C11] colour spans are not ordered, non-overlapping and inside the text"
  | _ => specFail "[C11] scanner crashed or unparsable answer"

def runOp (op : String) (args impl : List String) : Outcome :=
  match op, args with
  | "scan", [bs] =>
    let data := (parseNatList bs).toArray
    let m := match nextEscape data 0 with
      | some (a, b) => s!"{a} {b}"
      | none => "-1 -1"
    let want := match Spec.firstSeq data 0 with
      | some (a, b) => s!"{a} {b}"
      | none => "-1 -1"
    { model := m, spec := if " ".intercalate impl == want then specOk else specFail s!"[C11] the leftmost escape sequence is at {want}",
      tags := ["scan"] ++ (if m != "-1 -1" then ["nt"] else []) }
  | "extract", [prev, bs] =>
    let data := parseNatList bs
    let (m, _, _, _) := runExtract prev data
    { model := m, spec := specBytes data impl, tags := ["extract"] ++ (if data.any (· == 0x1b) then ["nt"] else []) }
  | "sgr", [prev, ops] =>
    match impl with
    | rendered :: rest =>
      let data := parseNatList rendered
      let (m, _, _, _) := runExtract prev data
      let os := parseOps ops
      -- expected colouring of every character
      let pen : Spec.Pen := match parseState prev 0 with
        | some s => { fg := s.fg, bg := s.bg, attr := s.attr, url := s.url.map fun (u, p, _) => (u, p) }
        | none => {}
      let cells := Spec.paint pen os
      let hasErase := os.any (fun o => match o with | .eraseLine => true | _ => false)
      let spec := match specBytes data rest, rest with
        | some (.error e), _ => some (.error e)
        | _, [trimmed, offs, _] =>
          let n := Utf8.runeCount (parseNatList trimmed)
          let text := os.flatMap fun o => match o with | .text b => b | _ => []
          if parseNatList trimmed != text then specFail "[C11] the stripped text is not the text of the stream"
          else if hasErase then specOk   -- line-background memory (0K) is not part of the colouring spec
          else
            let got := cellsOf ((parseOffsets offs).getD []) n
            let want := cells.map (cellStr · (-1))
            if got != want then specFail s!"[C11] character colours {got} differ from what a terminal shows {want}" else specOk
        | _, _ => specFail "[C11] unparsable answer"
      { model := s!"{rendered} {m}", spec,
        tags := ["sgr"] ++ (if cells.length ≥ 2 ∧ os.length ≥ 3 then ["nt"] else []) ++ (if prev != "-" then ["carried"] else []) }
    | _ => { model := "?", spec := specFail "[C11] crashed" }
  | _, _ => { model := "bad-op" }

/-- The harness appends `input-state-modified` when extractColor changed the state it was given. -/
def run (op : String) (args impl : List String) : Outcome :=
  if impl.getLast? == some "input-state-modified" then
    let o := runOp op args impl.dropLast
    { o with spec := specFail "[C11] extractColor modified the colour state it was given; its callers keep that state (the colour carried into the next field of --with-nth and into the next line), which then is the state at the END of the text instead of at its start" }
  else runOp op args impl

end Driver.Ansi
