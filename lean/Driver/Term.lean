import Driver.Proto
import Driver.Algo
import Driver.Tok
import Driver.Pat
import Fzf.Model.Terminal
import Fzf.Model.Filter
namespace Driver.Term
open Fzf Fzf.Algo Fzf.Terminal Driver

def dotBytes (s : String) : Str := if s == "e" then [] else (s.splitOn ".").map (·.toNat!)
def showDot (b : List Nat) : String := if b.isEmpty then "e" else ".".intercalate (b.map toString)

def parseAction (s : String) : Option Action :=
  match s.splitOn "=" with
  | [name] =>
    match name with
    | "beginning-of-line" => some .beginningOfLine | "end-of-line" => some .endOfLine
    | "backward-char" => some .backwardChar | "forward-char" => some .forwardChar
    | "backward-word" => some .backwardWord | "forward-word" => some .forwardWord
    | "delete-char" => some .deleteChar | "backward-delete-char" => some .backwardDeleteChar
    | "delete-char/eof" => some .deleteCharEof | "backward-delete-char/eof" => some .backwardDeleteCharEof
    | "unix-line-discard" => some .unixLineDiscard | "unix-word-rubout" => some .unixWordRubout
    | "backward-kill-word" => some .backwardKillWord | "kill-word" => some .killWord | "kill-line" => some .killLine
    | "yank" => some .yank | "clear-query" => some .clearQuery | "replace-query" => some .replaceQuery | "cancel" => some .cancel
    | "up" => some .up | "down" => some .down | "first" => some .first | "last" => some .last
    | "page-up" => some .pageUp | "page-down" => some .pageDown | "half-page-up" => some .halfPageUp | "half-page-down" => some .halfPageDown
    | "select" => some .select | "deselect" => some .deselect | "toggle" => some .toggle
    | "toggle-in" => some .toggleIn | "toggle-out" => some .toggleOut
    | "select-all" => some .selectAll | "deselect-all" => some .deselectAll | "toggle-all" => some .toggleAll
    | "clear-selection" => some .clearSelection | "toggle-sort" => some .toggleSort
    | "exclude" => some .exclude | "exclude-multi" => some .excludeMulti | "reload" => some .reload
    | "toggle-input" => some .toggleInput | "show-input" => some .showInput | "hide-input" => some .hideInput
    | "accept" => some .accept | "accept-non-empty" => some .acceptNonEmpty | "accept-or-print-query" => some .acceptOrPrintQuery
    | "abort" => some .abort | "print-query" => some .printQuery
    | _ => none
  | [name, arg] =>
    match name with
    | "put" => some (.put (Utf8.toRunes (dotBytes arg)))
    | "change-query" => some (.changeQuery (Utf8.toRunes (dotBytes arg)))
    | "print" => some (.print (dotBytes arg))
    | "pos" => some (.pos (parseInt arg))
    -- a press of one of the --expect keys ends the session like accept (the key is named in the output)
    | "xkey" => some .accept
    | "change-multi" => some (.changeMulti (if arg == "e" then none else (String.mk ((dotBytes arg).map Char.ofNat)).toNat?))
    | _ => none
  | _ => none

def optOf (opts : List (String × String)) (k : String) (d : String) : String :=
  ((opts.find? (·.1 == k)).map (·.2)).getD d

/-- `[\\pL\\pN]` from the unicode oracle. -/
def isWord (ctx : Algo.Ctx) (c : Nat) : Bool :=
  if c < 128 then (48 ≤ c && c ≤ 57) || (65 ≤ c && c ≤ 90) || (97 ≤ c && c ≤ 122)
  else let k := (ctx.find c).cls; k == 3 || k == 4 || k == 5 || k == 6

def showObs (s : TS) : String :=
  let cur := match currentItem s with | some i => toString i | none => "n"
  s!"{showDot (Utf8.fromRunes s.input)}~{s.cy}~{cur}~{s.results.length}~{showDot s.selected}"

structure Setup where
  o : String → String → String
  top : Opts
  init : TS
  parsed : List (List (Option Action))
  texts : Array Str
  ls : List Str
  headers : List Str
  fo : Fzf.Filter.Opts
  cfg : Cfg

def setup (ctx : Algo.Ctx) (optS lines steps : String) : Setup :=
    let opts := (optS.splitOn ";").filterMap fun kv => match kv.splitOn "=" with | [k, v] => some (k, v) | _ => none
    let o (k d : String) := optOf opts k d
    let all := parseStrList lines
    let hl := (o "hlines" "0").toNat!
    let ls := all.drop hl
    -- `--header-lines=N` reserves N rows whatever the input holds: records that are missing are blank rows
    let headers := let h := all.take hl; h ++ List.replicate (hl - h.length) []
    let cfg : Cfg := { U := ctx.unicode, sch := schemeDefault, norm := ctx.norm }
    let fo : Fzf.Filter.Opts := {
      cfg, criteria := Fzf.Filter.schemeCriteria "default", fuzzy := o "exact" "0" != "1", v2 := true, extended := true,
      caseMode := .smart, normalize := true, sort := true, tac := o "tac" "0" == "1", nth := none, withNth := none,
      delim := .awk, tail := 0, headerLines := 0, isSpace := Tok.isSpace }
    let resultsOf (q : Str) (sort : Bool) : List Nat :=
      -- interactive mode never streams: --no-sort keeps input order (reversed under --tac)
      let fo' := { fo with sort := sort }
      let items := Fzf.Filter.buildItems fo' ls
      let pat := Fzf.Pattern.buildPattern cfg fo'.fuzzy true true .smart true true true (Utf8.fromRunes q |> Utf8.toRunes)
      if pat.isEmpty then (if fo'.tac then items.reverse else items).map (·.index)
      else
        -- reuse the filter model with sorting forced through the non-streaming path
        match Fzf.Filter.runIdx { fo' with sort := sort, tac := fo'.tac } Generated.slab16Size q ls with
        | some out =>
          if !sort ∧ !fo'.tac then out.map (·.1) else out.map (·.1)
        | none => []
    let rows := (o "rows" "24").toNat!
    let layout := match o "layout" "default" with | "reverse" => Layout.reverse | "reverse-list" => .reverseList | _ => .default
    let texts := ls.toArray
    let top : Opts := {
      multi := (if (o "multi" "0").toNat! == 1000 then unlimitedMulti else (o "multi" "0").toNat!), cycle := o "cycle" "0" == "1", layout, track := o "track" "0" == "1", maxItems := rows - (o "fixed" "2").toNat!,
      inputRows := (o "fixed" "2").toNat!, total := ls.length,
      isWord := isWord ctx, resultsOf,
      itemText := fun i => (Fzf.Filter.toChars (texts.getD i [])).1.toList }
    let nosort := o "nosort" "0" == "1"
    let init : TS := constrain top { results := resultsOf [] (!nosort), sort := !nosort, inputless := o "noinput" "0" == "1" }
    let stepList := if steps == "_" then [] else steps.splitOn ";"
    -- the bindable names toggle-down / toggle-up are the two actions toggle+down / toggle+up
    let expand (a : String) : List String :=
      if a == "toggle-down" then ["toggle", "down"] else if a == "toggle-up" then ["toggle", "up"] else [a]
    let parsed := stepList.map fun st => ((st.splitOn "+").flatMap expand).map parseAction
    { o, top, init, parsed, texts, ls, headers, fo, cfg }

def run (ctx : Algo.Ctx) (op : String) (args impl : List String) : Outcome :=
  match op, args with
  | "sess", [optS, lines, steps] =>
    let su := setup ctx optS lines steps
    let o := su.o
    let top := su.top
    let init := su.init
    let parsed := su.parsed
    let texts := su.texts
    let ls := su.ls
    if parsed.any (·.any Option.isNone) then { model := "unknown-action" } else
    let ((_, final), obs) := parsed.foldl (fun (acc : (Opts × TS) × List String) as =>
      let r := stepM acc.1.1 acc.1.2 (as.filterMap id)
      -- once an action ends the session there is nothing left to observe
      (r, if r.2.outcome.isSome then acc.2 else acc.2 ++ [showObs r.2])) ((top, init), [])
    let multiChanges := parsed.any (·.any fun a => match a with | some (.changeMulti _) => true | _ => false)
    -- output on exit
    let printq := o "printq" "0" == "1"
    let nl (x : Str) := x ++ [if o "print0" "0" == "1" then 0 else 10]
    -- --accept-nth: the printed text is the selected fields of the record (AWK-style fields)
    let anth := o "anth" "_"
    let dlm : Fzf.Tokenizer.Delim := match o "dl" "_" with
      | "_" => .awk
      | d => .str (dotBytes d)
    let fieldsOf (raw : Str) (expr : String) : Option Str :=
      (Fzf.Tokenizer.splitNth (expr.toList.map Char.toNat)).map fun rs =>
        Fzf.Tokenizer.joinTokens (Fzf.Tokenizer.transform (Fzf.Tokenizer.tokenize raw dlm) rs)
    let isExpr (e : String) : Bool := !e.isEmpty && e.all fun c => c.isDigit || c == ',' || c == '-' || c == '.'
    -- a template: {EXPR} = the fields without their last delimiter, {n} = the item's index, anything else literal
    let rec evalT (cs : List Char) (raw : Str) (i : Nat) (fuel : Nat) : Str :=
      match fuel, cs with
      | 0, _ => []
      | _, [] => []
      | fuel + 1, '{' :: rest =>
        let inner := rest.takeWhile (· != '}')
        let after := (rest.dropWhile (· != '}')).drop 1
        let e := String.mk inner
        if rest.length == inner.length then [123] ++ evalT rest raw i fuel          -- no closing brace
        else if e == "n" then (toString i).toList.map Char.toNat ++ evalT after raw i fuel
        else if isExpr e then
          (match fieldsOf raw e with
            | some f => Fzf.Tokenizer.stripLastDelimiter Tok.isSpace f dlm
            | none => []) ++ evalT after raw i fuel
        else [123] ++ evalT rest raw i fuel
      | fuel + 1, c :: rest => (String.singleton c).toUTF8.toList.map (·.toNat) ++ evalT rest raw i fuel
    let outText (i : Nat) : Str :=
      let raw := texts.getD i []
      if anth == "_" then raw
      else if isExpr anth then
        match fieldsOf raw anth with
        | some f => Fzf.Tokenizer.stripLastDelimiter Tok.isSpace f dlm
        | none => raw
      else Fzf.Tokenizer.stripLastDelimiter Tok.isSpace (evalT anth.toList raw i (anth.length + 1)) dlm
    -- --expect: the key that ended the session, or an empty line
    let expectLine : Option Str :=
      if o "expect" "_" == "_" then none else
        match (if steps == "_" then [] else steps.splitOn ";").getLast? with
        | some st => (match st.splitOn "=" with
            | ["xkey", k] => some (dotBytes k)
            | _ => some [])
        | none => some []
    let (code, recs) := exitOutput printq outText (Utf8.fromRunes final.input) final expectLine
    let out : Str := recs.flatMap nl
    let model := s!"{if obs.isEmpty then "_" else "/".intercalate obs} {code} {showNatList out}"
    -- invariants of C09, judged on the implementation's own observations
    let spec : Option (Except String Unit) := match impl with
      | [iobs, icode, iout] =>
        let rowsObs := if iobs == "_" then [] else (iobs.splitOn "/").map (·.splitOn "~")
        let bad := rowsObs.find? fun r => match r with
          | [_, pos, cur, mc, sel] =>
            let n := mc.toNat!
            let p := parseInt pos
            let selN := (dotBytes sel).length
            !((n == 0 ∧ cur == "n") ∨ (n > 0 ∧ 0 ≤ p ∧ p < n ∧ cur != "n")) ∨ (!multiChanges ∧ selN > top.multi)
          | _ => true
        match bad with
        | some r => specFail s!"[C09] cursor outside the results or selection over the --multi limit: {r}"
        | none =>
          if icode == toString code ∧ parseNatList iout != out ∧ ctx.prop == "C07" then
            specFail s!"[C07] printed {iout} but the selection / current line / query gives {showNatList out}"
          else if icode != toString code ∧ ctx.prop == "C07" then specFail s!"[C07] exit status {icode}, expected {code}"
          else if ctx.prop == "C07" ∧ iobs != (if obs.isEmpty then "_" else "/".intercalate obs) ∧
              ((iobs.splitOn "/").zip obs).any (fun (a, b) => a != b ∧ (a.splitOn "~").take 4 == (b.splitOn "~").take 4) then
            -- same query, cursor and results, but the selection (which accept prints in this order) differs
            match ((iobs.splitOn "/").zip obs).zipIdx.find? (fun ((a, b), _) => a != b) with
            | some ((a, b), k) => specFail s!"[C07] after step {k + 1} the selection, in the order accept prints it, is {(a.splitOn "~").getD 4 "?"} but the actions prescribe {(b.splitOn "~").getD 4 "?"}"
            | none => specOk
          else if ctx.prop == "C09" ∧ iobs != (if obs.isEmpty then "_" else "/".intercalate obs) then
            -- first differing step
            let pairs := (iobs.splitOn "/").zip obs
            match pairs.zipIdx.find? (fun ((a, b), _) => a != b) with
            | some ((a, b), k) => specFail s!"[C09] after step {k + 1} the state is {a} but the actions prescribe {b}"
            | none => specFail "[C09] number of observed steps differs"
          else specOk
      | _ => specFail "[C14] session crashed or hung"
    { model, spec,
      tags := ["sess", o "layout" "default"] ++ (if top.multi > 0 then ["multi"] else []) ++ (if top.cycle then ["cycle"] else []) ++
        (if parsed.length ≥ 5 ∧ ls.length ≥ 2 then ["nt"] else []) ++
        (if o "noinput" "0" == "1" ∨ parsed.any (·.any fun a => a == some .toggleInput ∨ a == some .hideInput) then ["hidden-input"] else []) }
  | "robust", [_seed, _tier, how] =>
    -- hostile-conditions scenario (lib/procs_robust.py): the expected observation is a clean exit
    let kv := impl.filterMap fun t => match t.splitOn "=" with | [k, v] => some (k, v) | _ => none
    let g (k : String) : String := ((kv.find? (·.1 == k)).map (·.2)).getD "?"
    let okExit : List String := if how == "accept" then ["0", "1"] else ["130"]
    -- a scenario may end the session by itself before the exit request (a key byte that aborts or accepts)
    let exitOk := okExit.contains (g "exit") || ["0", "1", "130"].contains (g "exit")
    let problems : List String :=
      (if g "err" != "0" then ["fzf panicked (stack trace on stderr)"] else []) ++
      (if g "alive" != "1" then ["fzf stopped responding (liveness probe unanswered)"] else []) ++
      (if g "exit" == "hung" then ["fzf did not exit after the exit request"] else
       if g "exit" == "nostart" then (if g "err" != "0" then [] else []) else
       if !exitOk then [s!"exit status {g "exit"}"] else []) ++
      (if g "exit" != "hung" ∧ g "exit" != "nostart" then
        (if g "stty" != "1" then ["terminal modes (termios) not restored"] else []) ++
        (if g "alt" == "1" then ["alternate screen still on after exit"] else []) ++
        (if g "mouse" == "1" then ["mouse reporting still enabled after exit"] else []) ++
        (if g "tmp" != "0" ∧ g "tmp" != "-1" then [s!"{g "tmp"} temporary file(s) left in TMPDIR"] else []) ++
        (if g "kids" != "0" ∧ g "kids" != "-1" then [s!"{g "kids"} child process(es) of the preview command still running"] else [])
       else [])
    { model := "clean", same := some problems.isEmpty,
      spec := if problems.isEmpty then specOk else specFail ("[C14] " ++ "; ".intercalate problems),
      tags := ["robust", how, "nt"] }
  | _, _ => { model := "bad-op" }

end Driver.Term
