import Driver.Proto
import Fzf.Model.History
import Fzf.Spec.History
namespace Driver.History
open Fzf Fzf.History Driver

def parseNavs (s : String) : List Nav :=
  if s == "_" then [] else (s.splitOn "/").map fun tok =>
    if tok == "p" then .prev else if tok == "n" then .next
    else .edit (parseNatList (tok.drop 2).toString)

def toSlotOp : Nav → SlotOp
  | .prev => .prev | .next => .next | .edit t => .edit t

/-- hist sess <file|!> <max> <navs> <submit> => <file'> <input> <cursor> <nlines> -/
def run (op : String) (args : List String) (impl : List String) : Outcome :=
  match op, args with
  | "sess", [file, max, navs, submit] =>
    let data := if file == "!" then [] else parseNatList file
    let m := max.toNat!
    let ns := parseNavs navs
    let sub := submit == "1"
    let s := ns.foldl navStep { h := load data m, input := [] }
    let out := session data m ns sub
    let model := s!"{showNatList out} {showNatList s.input} {s.h.cursor} {s.h.lines.length}"
    -- spec: slot editor + file semantics, evaluated on the implementation's answer
    let es := entries data
    let sl := (ns.map toSlotOp).foldl Slots.step { slots := es ++ [[]], cursor := es.length, input := [] }
    let expFile := if sub && sl.input != [] then render (lastN m (es ++ [sl.input])) else data
    let spec := match impl with
      | [f, i, c, _] =>
        if parseNatList i != sl.input then specFail s!"input line {i} but the slot editor holds {showNatList sl.input}"
        else if parseNatList f != expFile then specFail s!"file {f} but last-{m} of entries++submitted is {showNatList expFile}"
        else if c.toNat! > es.length then specFail s!"cursor {c} outside stored range 0..{es.length}"
        else specOk
      | _ => specFail s!"implementation answered {impl}"
    let moved := ns.any (· == .prev)
    let edited := ns.any (fun | .edit _ => true | _ => false)
    let trunc := decide ((es ++ [sl.input]).length > m)
    let tags := (if file == "!" then ["missing"] else []) ++ (if moved then ["moved"] else []) ++
      (if edited then ["edited"] else []) ++ (if sub && sl.input != [] then ["written"] else []) ++
      (if sub && sl.input != [] && trunc then ["capped"] else []) ++
      (if moved && edited && sub && sl.input != [] && es != [] then ["nt"] else [])
    { model, spec, tags }
  | "psess", [file, max, navs, submit] =>
    -- the same session through the real terminal: prev-history / next-history / query changes posted
    -- to fzf under tmux; observed: the query after every step and the history file after exit
    let data := if file == "!" then [] else parseNatList file
    let m := max.toNat!
    let ns := parseNavs navs
    let sub := submit == "1"
    let (final, obs) := ns.foldl (fun (acc : _ × List String) n =>
      let s' := navStep acc.1 n
      (s', acc.2 ++ [showNatList s'.input])) (({ h := load data m, input := [] } : Sess), [])
    let _ := final
    let out := session data m ns sub
    let model := s!"{showNatList out} {if obs.isEmpty then "_" else "/".intercalate obs}"
    let es := entries data
    let sl := (ns.map toSlotOp).foldl Slots.step { slots := es ++ [[]], cursor := es.length, input := [] }
    let expFile := if sub && sl.input != [] then render (lastN m (es ++ [sl.input])) else data
    let spec := match impl with
      | [f, o] =>
        let lastObs := ((o.splitOn "/").getLast?).getD "_"
        if !ns.isEmpty ∧ parseNatList lastObs != sl.input then
          specFail s!"[C18] the query line is {lastObs} but the history slots hold {showNatList sl.input}"
        else if parseNatList f != expFile then specFail s!"[C18] file {f} but last-{m} of entries++submitted is {showNatList expFile}"
        else specOk
      | _ => specFail s!"implementation answered {impl}"
    { model, spec, tags := ["psess"] ++ (if ns.length ≥ 3 ∧ es != [] then ["nt"] else []) }
  | _, _ => { model := "bad-op" }

end Driver.History
