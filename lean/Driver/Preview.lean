import Driver.Proto
import Fzf.Model.Preview
namespace Driver.Preview
open Fzf Driver

/-- preview sess <kind> <n> <steps> => <current> <query> <last logged line> <last logged query> <shown> <max alive>
      <alive after exit> <temp files left> <commands logged>

    Judged against what the previewer model guarantees at quiescence (Props/C20): the last command
    started is the one for the current line (and query, when the template uses it), its output
    is in the preview pane, never more than one command alive, none after the session. -/
def run (op : String) (args impl : List String) : Outcome :=
  match op, args with
  | "sess", [kind, _n, steps] =>
    match impl with
    | [cur, q, lastk, lastq, shown, maxAlive, after, left, logged] =>
      let spec :=
        if maxAlive.toNat! > 1 then specFail s!"[C20] {maxAlive} preview commands were alive at the same time"
        else if after.toNat! > 0 then specFail s!"[C20] {after} preview command(s) survived the end of the session"
        else if left.toNat! > 0 then specFail s!"[C14] {left} temporary file(s) left behind after the session"
        else if cur != "-" ∧ lastk != cur then
          specFail s!"[C20] at quiescence the last preview command run is for line {lastk}, the cursor is on line {cur}"
        else if cur != "-" ∧ kind == "query" ∧ lastq != q then
          specFail s!"[C20] at quiescence the last preview command ran with query {lastq}, the query is {q}"
        else if cur != "-" ∧ shown != "1" then
          specFail s!"[C20] at quiescence the preview pane does not show the output for line {cur}"
        else specOk
      { model := " ".intercalate impl, same := some true, spec,
        tags := ["preview", kind] ++ (if logged.toNat! ≥ 3 then ["nt"] else []) ++ (if cur == "-" then ["no-match"] else []) ++
          (if (steps.splitOn "64,81,85,69,82,89,64").length > 1 then ["template-switched"] else []) }
    | _ => { model := "bad-answer", spec := specFail "[C20] the session could not be observed" }
  | "plus", [_n1, _n2, _tail, _sel] =>
    -- --tail trims selected lines away while input keeps arriving: the {+} of the last preview command
    -- must be the selection fzf itself reports at quiescence (or the current line when nothing is selected)
    match impl with
    | [cur, lastk, lastPlus, selNow, shown] =>
      let want := if selNow == "-" then cur else selNow
      let spec :=
        if cur != "-" ∧ lastk != cur then
          specFail s!"[C20] at quiescence the last preview command run is for line {lastk}, the cursor is on line {cur}"
        else if cur != "-" ∧ lastPlus != want then
          specFail s!"[C20] at quiescence the last preview command ran with the selection {lastPlus}, the selection is {want}"
        else if cur != "-" ∧ shown != "1" then
          specFail s!"[C20] at quiescence the preview pane does not show the output for the current selection"
        else specOk
      { model := " ".intercalate impl, same := some true, spec, tags := ["preview", "tail-plus", "nt"] }
    | _ => { model := "bad-answer", spec := specFail "[C20] the session could not be observed" }
  | _, _ => { model := "bad-op" }

end Driver.Preview
