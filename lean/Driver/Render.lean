import Driver.Term
import Fzf.Model.Render
/-
`term rend <opts> <lines> <steps> => <obs>@<screen>/<obs>@<screen>/…`
One entry before the first step and one after every step: the state fzf reports (GET /) and the
screen of the terminal emulator (rows `;`-separated, code points `.`-separated, `e` = empty row,
trailing blanks removed). The model replays the steps, renders its state from scratch and
compares; the C15 specification is judged on the implementation's screen against the state the
implementation itself reports.
-/
namespace Driver.Render
open Fzf Fzf.Algo Fzf.Terminal Fzf.Render Driver Driver.Term

def rstrip (r : Str) : Str := (r.reverse.dropWhile (· == 32)).reverse

def showRow (r : Str) : String := let r := rstrip r; if r.isEmpty then "e" else ".".intercalate (r.map toString)
def showScreen (s : List Str) : String := ";".intercalate (s.map showRow)
def parseRow (s : String) : Str := if s == "e" || s == "" then [] else (s.splitOn ".").map (·.toNat!)
def parseScreen (s : String) : List Str := (s.splitOn ";").map parseRow

def parseLinesOpt (s : String) : List Str := if s == "_" || s == "" then [] else (s.splitOn ":").map dotBytes

/-- A step that changes what is drawn but not the state of the session. -/
inductive RAct | toggleHeader | hideHeader | showHeader | changeHeader (ls : List Str) | changePrompt (p : Str)
  | toggleHscroll | clearScreen | term (as : List (Option Action))

def parseStep (st : String) : RAct :=
  match st.splitOn "=" with
  | ["toggle-header"] => .toggleHeader
  | ["hide-header"] => .hideHeader
  | ["show-header"] => .showHeader
  | ["toggle-hscroll"] => .toggleHscroll
  | ["clear-screen"] => .clearScreen
  | ["change-header", a] => .changeHeader (parseLinesOpt a)
  | ["change-prompt", a] => .changePrompt (dotBytes a)
  | _ =>
    let expand (a : String) : List String :=
      if a == "toggle-down" then ["toggle", "down"] else if a == "toggle-up" then ["toggle", "up"] else [a]
    .term (((st.splitOn "+").flatMap expand).map parseAction)

structure RS where
  ts : TS
  header0 : List Str
  headerItems : List Str
  headerVisible : Bool := true
  prompt : Str
  hscroll : Bool
  xoffset : Nat := 0   -- horizontal scroll offset of the query (Terminal.xoffset)

def isSub (p t : Str) : Bool := (List.range (t.length + 1)).any fun i => (t.drop i).take p.length == p

/-- Is `shown` one of the ways the property allows a line to appear in `mw` columns: the line
    itself when it fits, else ellipsis/contiguous-slice pieces no wider than `mw`. -/
def okTruncation (ell : Str) (mw : Nat) (line shown : Str) : Bool :=
  if line.length ≤ mw then shown == line
  else
    shown.length ≤ mw &&
    ((List.range (ell.length + 1)).any fun a => (List.range (ell.length + 1)).any fun b =>
      let pre := ell.take a
      let suf := ell.take b
      a + b > 0 && shown.take a == pre && lastN b shown == suf && a + b ≤ shown.length &&
      isSub ((shown.drop a).take (shown.length - a - b)) line)

def run (ctx : Algo.Ctx) (op : String) (args impl : List String) : Outcome :=
  match op, args with
  | "rend", [optS, lines, steps] =>
    let su := Driver.Term.setup ctx optS lines "_"
    let o := su.o
    let cols := (o "cols" "80").toNat!
    let rowsN := (o "rows" "24").toNat!
    let info := match o "info" "default" with | "inline" => Info.inline | "hidden" => .hidden | "inline-right" => .inlineRight | "right" => .right | _ => .default
    let ro0 : ROpts := {
      W := cols, H := rowsN, layout := su.top.layout, info, separator := o "sep" "1" == "1",
      prompt := Utf8.toRunes (dotBytes (o "prompt" "62.32")),
      pointer := Utf8.toRunes (dotBytes (o "pointer" "226.150.140")),
      marker := Utf8.toRunes (dotBytes (o "marker" "226.148.131")),
      ellipsis := Utf8.toRunes (dotBytes (o "ellipsis" "194.183.194.183")),
      hscroll := o "hscroll" "1" == "1", keepRight := o "keepright" "0" == "1", hscrollOff := (o "hoff" "10").toNat!,
      multi := if su.top.multi == 1000 then maxMulti else su.top.multi, headerFirst := o "hfirst" "0" == "1" }
    let header0 := (parseLinesOpt (o "header" "_")).map Utf8.toRunes
    let headerItems := su.headers.map Utf8.toRunes
    let roOf (r : RS) : ROpts :=
      { ro0 with header0 := if r.headerVisible then r.header0 else [], headerItems := if r.headerVisible then r.headerItems else [],
                 prompt := r.prompt, hscroll := r.hscroll, inputless := r.ts.inputless }
    let topOf (r : RS) : Opts :=
      let shown := { roOf r with inputless := false }
      { su.top with maxItems := maxItems shown, inputRows := promptLines shown }
    let fuzzy := o "exact" "0" != "1"
    let viewOf (r : RS) : View :=
      let ro := roOf r
      let s := r.ts
      let pat := Fzf.Pattern.buildPattern su.cfg fuzzy true true .smart true true false s.input
      let items := (Fzf.Filter.buildItems su.fo su.ls).toArray
      let off := s.offset.toNat
      let rows := (List.range (maxItems ro)).filterMap fun k =>
        match s.results[off + k]? with
        | none => none
        | some i =>
          let text := su.top.itemText i
          let (maxe, hasPos) :=
            if pat.isEmpty then (0, false) else
            match items[i]? with
            | none => (0, true)
            | some it =>
              match Fzf.Pattern.matchItem su.cfg pat (Fzf.Filter.inputTokens su.fo it) true Generated.slab16Size with
              | .ok (some m) => (((m.pos.getD []).map (· + 1)).foldl max 0, true)
              | _ => (0, true)
          some { text, maxe, hasPos, current := (off + k : Int) == s.cy, selected := s.selected.contains i }
      { input := (promptScroll ro s.input s.cx r.xoffset).2, found := s.results.length, total := su.ls.length, nsel := s.selected.length, rows }
    let init : RS := { ts := su.init, header0, headerItems, prompt := ro0.prompt, hscroll := ro0.hscroll }
    let init := { init with ts := constrain (topOf init) { init.ts with } }
    let stepList := if steps == "_" then [] else steps.splitOn ";"
    let acts := stepList.map parseStep
    let bad := acts.any fun a => match a with | .term as => as.any Option.isNone | _ => false
    if bad then { model := "unknown-action" } else
    let stepRS (r : RS) (a : RAct) : RS :=
      let r' := match a with
        | .toggleHeader => { r with headerVisible := !r.headerVisible }
        | .hideHeader => { r with headerVisible := false }
        | .showHeader => { r with headerVisible := true }
        | .changeHeader ls => { r with header0 := ls.map Utf8.toRunes }
        | .changePrompt p => { r with prompt := Utf8.toRunes p }
        | .toggleHscroll => { r with hscroll := !r.hscroll }
        | .clearScreen => r
        | .term as => { r with ts := step (topOf r) r.ts (as.filterMap id) }
      -- geometry may have changed: the list is constrained again before it is drawn
      let r' := { r' with ts := constrain (topOf r') r'.ts }
      -- the scroll offset of the query is only recomputed when the prompt is painted: not while the input is hidden
      -- beginning-of-line resets the scroll offset itself (also while the input is hidden)
      let xo0 := match a with
        | .term as => if as.any (· == some Action.beginningOfLine) && r.ts.outcome.isNone then 0 else r'.xoffset
        | _ => r'.xoffset
      { r' with xoffset := if r'.ts.inputless then xo0 else (promptScroll (roOf r') r'.ts.input r'.ts.cx xo0).1 }
    let states := (acts.foldl (fun (acc : RS × List RS) a => let r := stepRS acc.1 a; (r, acc.2 ++ [r])) (init, [init])).2
    let live := states.takeWhile (·.ts.outcome.isNone)
    -- a query wider than its room is scrolled horizontally: outside the model, the prompt row is
    -- left out of the comparison for that entry
    let promptY (ro : ROpts) : Nat := match ro.layout with | .reverse => 0 | _ => ro.H - 1
    let maskRow (rows : List Str) (y : Nat) : List Str := rows.zipIdx.map fun (r, i) => if i == y then [63] else r
    let entries := live.map fun r =>
      let ro := roOf r
      let scr := fullRender ro (viewOf r)
      s!"{showObs r.ts}@{showScreen scr}"
    let model := if entries.isEmpty then "_" else "/".intercalate entries
    let implAll := match impl with | [x] => if x == "_" then [] else x.splitOn "/" | _ => []
    -- the last entry may be the screen after a forced full redraw (clear-screen) of the final state
    let redraw := match implAll.getLast? with
      | some e => if e.startsWith "redraw@" then some ((e.drop 7).toString) else none
      | none => none
    let implEntries := if redraw.isSome then implAll.dropLast else implAll
    -- correspondence: same number of entries, same observations, same screens
    let maskImpl (ie : String) (r : RS) : String :=
      let ro := roOf r
      if true then ie else
      match ie.splitOn "@" with
      | [obs, scr] => s!"{obs}@{showScreen (maskRow (parseScreen scr) (promptY ro))}"
      | _ => ie
    let implMasked := (implEntries.zip live).map fun (ie, r) => maskImpl ie r
    let pairs := implMasked.zip (live.zip entries)
    let firstDiff := pairs.zipIdx.find? fun ((ie, (_, me)), _) => ie != me
    let same := implEntries.length == entries.length && firstDiff.isNone
    -- specification, judged on the implementation's screen and its own reported state
    let specOne (ie : String) (r : RS) : Option String :=
      match ie.splitOn "@" with
      | [obs, scr] =>
        match obs.splitOn "~" with
        | [q, pos, cur, mc, sel] =>
          let ro := roOf r
          let screen := parseScreen scr
          let query := Utf8.toRunes (dotBytes q)
          let cy := (parseInt pos).toNat
          let found := mc.toNat!
          let selected := dotBytes sel
          -- the model must agree on which results exist for the judgement to be about C15
          if found != r.ts.results.length then none else
          let H := ro.H
          let rowAt (y : Nat) : Str := ((screen.getD y []) ++ blanks cols).take (max cols (screen.getD y []).length)
          let pl := promptLines ro
          let n0 := ro.header0.length
          let n1 := ro.headerItems.length
          let fromBottom (y : Nat) : Nat := H - 1 - y
          -- with --header-first the --header lines (and, next to the list, the --header-lines) come before the input section
          let before := if ro.headerFirst then (match ro.layout with | .reverseList => n0 | _ => n0 + n1) else 0
          let promptY := match ro.layout with | .reverse => before | _ => H - 1 - before
          let infoY := match ro.layout with | .reverse => before + 1 | _ => H - 2 - before
          let promptTxt := rowAt promptY
          let wantPrompt := ro.prompt ++ query
          if !ro.inputless ∧ queryFits ro query ∧ r.xoffset == 0 ∧ ro.prompt.length + query.length + 2 < cols ∧ promptTxt.take wantPrompt.length != wantPrompt then
            some s!"[C15] the prompt line shows {showRow promptTxt}, the query is {q}"
          else
          let counter := infoText ro found (max found su.ls.length) selected.length
          let infoLine := if pl == 2 ∧ ro.info != .inlineRight then rowAt infoY else promptTxt
          if !ro.inputless ∧ ro.info != .hidden ∧ cols ≥ counter.length + ro.prompt.length + query.length + 8 ∧ !isSub counter infoLine then
            some s!"[C15] the info line shows {showRow infoLine}, expected the counter {showRow counter}"
          else
          -- list rows: screen row of the k-th visible result
          let mi := maxItems ro
          let listY (k : Nat) : Nat := match ro.layout with
            | .default => fromBottom (pl + n0 + n1 + k)
            | .reverse => pl + n0 + n1 + k
            | .reverseList => n1 + k
          let ind := Fzf.Render.ind ro
          let mw := cols - (ind + 1)
          -- the row holding the pointer designates the current result
          let ptrRows := (List.range mi).filter fun k => (rowAt (listY k)).take ro.pointer.length == ro.pointer
          if found > 0 ∧ mi > 0 ∧ ptrRows.length != 1 then
            some s!"[C15] {ptrRows.length} rows carry the pointer"
          else
          let k0 := ptrRows.headD 0
          let badRow := (List.range mi).findSome? fun k =>
            let row := rowAt (listY k)
            let idx : Int := (cy : Int) + (k : Int) - (k0 : Int)
            if idx < 0 ∨ idx ≥ found then
              (if found > 0 ∧ !(rstrip row).isEmpty ∧ idx ≥ found then some s!"[C15] row {listY k} shows {showRow row} but there is no result for it" else none)
            else
              match r.ts.results[idx.toNat]? with
              | none => none
              | some i =>
                let text := su.top.itemText i
                let mk := (row.drop ro.pointer.length).take ro.marker.length
                let isSel := selected.contains i
                let shown := rstrip (row.drop ind)
                let textR := rstrip text
                if isSel ∧ mk != ro.marker then some s!"[C15] row {listY k}: selected line {i} has no marker"
                else if !isSel ∧ mk == ro.marker ∧ ro.marker != blanks ro.marker.length ∧ !(rstrip ro.marker).isEmpty then some s!"[C15] row {listY k}: line {i} is not selected but carries the marker"
                else if k != k0 ∧ row.take ro.pointer.length == ro.pointer then some s!"[C15] row {listY k}: pointer on a line that is not current"
                else if (rstrip row).length > cols then some s!"[C15] row {listY k} is wider than the window"
                else if !(okTruncation ro.ellipsis mw textR shown || okTruncation ro.ellipsis mw text shown) then
                  some s!"[C15] row {listY k} shows {showRow shown} for line {i} ({showRow text}): neither the line nor a truncation of it"
                else none
          match badRow with
          | some w => some w
          | none =>
            -- header lines: shown where the layout puts them, never among the list rows
            let plh := if ro.headerFirst then 0 else pl
            let hdrY (j : Nat) : Nat := match ro.layout with
              | .default => fromBottom (plh + (n0 - 1 - j))
              | .reverse => plh + j
              | .reverseList => fromBottom (plh + (n0 - 1 - j))
            (List.range n0).findSome? fun j =>
              let want := rstrip (ro.header0.getD j [])
              let row := rowAt (hdrY j)
              if hdrY j < H ∧ want.length ≤ mw ∧ rstrip (row.drop ind) != want then
                some s!"[C15] header line {j} is not shown on row {hdrY j}: {showRow row}"
              else none
        | _ => some "[C15] malformed observation"
      | _ => some "[C15] malformed entry"
    let specBad := (implEntries.zip live).findSome? fun (ie, r) => specOne ie r
    let redrawBad : Option String := match redraw, implEntries.getLast? with
      | some scr, some e =>
        match e.splitOn "@" with
        | [_, last] =>
          if last == scr then none else
          let a := parseScreen last
          let b := parseScreen scr
          match (a.zip b).zipIdx.find? (fun ((x, y), _) => x != y) with
          | some ((x, y), k) => some s!"[C15] after this history row {k} shows {showRow x} but a full redraw of the same state shows {showRow y}"
          | none => some "[C15] the screen differs from a full redraw of the same state"
        | _ => none
      | _, _ => none
    let spec := match impl with
      | ["hung-or-crashed"] => specFail "[C14] session crashed or hung"
      | _ => match specBad with
        | some w => specFail w
        | none => match redrawBad with
          | some w => specFail w
          | none => specOk
    let why := match firstDiff with
      | some ((ie, (_, me)), k) => s!"entry {k}: impl {ie} model {me}"
      | none => ""
    { model := if same then "same" else s!"differs {why}", spec, same := some same,
      tags := ["rend", o "layout" "default", o "info" "default"] ++ (if n0tag header0 then ["header"] else []) ++
        (if su.headers.length > 0 then ["header-lines"] else []) ++
        (if live.any (fun r => (viewOf r).rows.any fun x => x.text.length > cols - (Fzf.Render.ind (roOf r) + 1)) then ["truncated"] else []) ++
        (if acts.length ≥ 4 ∧ su.ls.length ≥ 2 then ["nt"] else []) ++
        (if live.any (·.ts.inputless) then ["hidden-input"] else []) ++ (if ro0.headerFirst then ["header-first"] else []) }
  | _, _ => { model := "bad-op" }
where
  n0tag (h : List Str) : Bool := !h.isEmpty

end Driver.Render
