import Driver.Proto
import Fzf.Model.Bind
import Fzf.Model.Args
namespace Driver.Bind
open Fzf Driver

def strOfBytes (b : Str) : String := String.fromUTF8! (ByteArray.mk (b.map (·.toUInt8)).toArray)

def validUtf8 (b : Str) : Bool := (String.validateUTF8 (ByteArray.mk (b.map (·.toUInt8)).toArray))

def run (op : String) (args impl : List String) : Outcome :=
  match op, args with
  | "mask", [s] =>
    let str := parseNatList s
    let m := Fzf.Bind.mask Generated.argActions str
    let got := parseNatList (impl.headD "-")
    { model := showNatList m,
      spec := if got.length != str.length then specFail "[C17] masking changed the length of the bind string (offsets would drift)" else specOk,
      tags := ["mask"] ++ (if m != str then ["nt"] else []) }
  | "keymap", [s, intent] =>
    let str := parseNatList s
    match impl with
    | ["reject"] =>
      { model := "reject", same := some true,
        spec := if intent != "_" ∧ intent != "!" then specFail "[C17] a bind string in a documented form is rejected" else specOk,
        tags := ["keymap", "reject"] ++ (if intent == "!" then ["nt", "put-nonprintable"] else []) }
    | ["ok", parsed, expected] =>
      let m := Fzf.Bind.mask Generated.argActions str
      { model := s!"ok {parsed} {expected}", same := some true,
        spec := if intent == "!" then specFail "[C17] `put` without argument is accepted for a key that is not a printable character"
          else if intent == "_" then specOk
          else if parsed != expected then specFail s!"[C17] keys received {parsed} but the bind string lists {expected}"
          else if m.length != str.length then specFail "[C17] masking changed the length" else specOk,
        tags := ["keymap"] ++ (if intent != "_" then ["nt", "structured"] else ["raw"]) }
    | _ => { model := "?", spec := specFail "[C17] bind parsing crashed" }
  | "override", [env, _g, f1, f2] =>
    -- "later occurrences override earlier ones; the command line takes precedence over the environment":
    -- parsing  prefix ++ first ++ second  must yield the configuration of  prefix ++ second
    match impl with
    | [s12, s2, sf1, sf2, eq, diff, crash] =>
      let spec :=
        if s12 == "crash" ∨ s2 == "crash" then specFail s!"[C17] option parsing crashed: {crash}"
        else if s12 == "ok" ∧ s2 == "ok" ∧ eq != "1" then
          specFail s!"[C17] an earlier occurrence of an option shows through a later one ({if env == "1" then "environment then command line" else "same argument vector"}): {diff}"
        else if sf1 == "ok" ∧ sf2 == "ok" ∧ s2 == "ok" ∧ s12 != "ok" then
          specFail "[C17] two individually valid occurrences of an option are rejected together"
        else specOk
      { model := " ".intercalate impl, same := some true, spec,
        tags := ["override"] ++ (if env == "1" then ["env"] else []) ++ (if s12 == "ok" ∧ f1 != f2 then ["nt"] else []) ++
          (if s2 != "ok" then ["reject"] else []) }
    | _ => { model := "?", spec := specFail "[C17] option parsing crashed" }
  | "opts", [env, argv] =>
    let toStrs (x : String) : Option (List String) :=
      let bs := parseStrList x
      if bs.all validUtf8 then some (bs.map strOfBytes) else none
    match toStrs env, toStrs argv with
    | some e, some a =>
      let r := Fzf.Args.parse e a
      let model := match r with
        | none => "reject"
        | some d => "ok"
      -- compare the modelled fields only
      let implFields : List (String × String) := match impl with
        | ["ok", dump] => (dump.splitOn ";").filterMap fun kv => match kv.splitOn "=" with
          | [k, v] => some (k, strOfBytes (parseNatList v))
          | _ => none
        | _ => []
      let same := match r, impl with
        | none, ["reject"] => true
        | some d, ["ok", _] => Fzf.Args.defaults.all fun (k, _) => (implFields.find? (·.1 == k)).map (·.2) == some (d.get k)
        | _, _ => false
      { model, same := some same,
        spec := if impl.head? == some "ok" ∨ impl == ["reject"] then specOk else specFail "[C17] option parsing crashed",
        tags := ["opts"] ++ (if !e.isEmpty then ["env"] else []) ++ (if r.isSome ∧ a.length ≥ 2 then ["nt"] else []) ++ (if r.isNone then ["reject"] else []) }
    | _, _ => { model := "skip", same := some true }
  | _, _ => { model := "bad-op" }

end Driver.Bind
