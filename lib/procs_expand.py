"""C12 process-level driver: placeholder expansion through the real terminal. fzf runs with
--disabled --read0 --multi inside a private tmux server; items are selected in a seeded order, then
`execute-silent(printf '%s\\0' X <template> > file)` is posted: the words the real /bin/sh receives
are compared with the texts the template stands for (Lean placeholder model), including the case
of an empty selection where {+} falls back to the current item — that fallback is decided in
Terminal.buildPlusList, which the in-process hook does not reach."""
import os, random, time
from concurrent.futures import ThreadPoolExecutor

import procs
from procs import Session, enc_bytes, enc_strlist

PIECES = ['a', 'b c', "'", '"', '$HOME', '$(echo x)', '`id`', '\\', '\n', '*', '?', '[a]', ';', '&', '|', '>', '~', '!', '#', '{x,y}', 'é', '  ', '\t',
          "''", "'\\''", '-n', '%s', '=', '{}', '{+}', '{1}', '{q}', '{n}', '\\{}', '{+1}']
PHS = ['{}', '{q}', '{+}', '{n}', '{+n}', '{1}', '{-1}', '{2..}', '{+1}', '{..2}', '{+2}', '{1..2}', '{+1..2}', '{}', '{+}', '{q}']
WORDS = ['echo', '--opt', 'x/y.z', 'A_1', '-']


def nasty(r):
    return ''.join(r.choice(PIECES) for _ in range(r.randint(0, 4)))


def gen(r):
    nl = r.randint(1, 4)
    lines = []
    for _ in range(nl):
        l = nasty(r)
        if r.random() < 0.4:
            l = nasty(r) + ' ' + nasty(r) + ' ' + nasty(r)
        lines.append(l or 'x')
    # distinct, non-empty records (an empty record would end the list in --read0 mode differently)
    lines = list(dict.fromkeys(lines))
    parts = [r.choice(WORDS) if r.random() < 0.3 else r.choice(PHS) for _ in range(r.randint(1, 4))]
    if r.random() < 0.5:
        # a multi-item placeholder next to a query placeholder
        parts = [r.choice(['{+}', '{+n}', '{+1}']), r.choice(['{q}', '{q}', 'echo'])] + parts[:2]
        r.shuffle(parts)
    sel, how = [], 'steps'
    k = r.random()
    if k < 0.35:
        sel = [r.randrange(len(lines)) for _ in range(r.randint(1, 3))]
        sel = list(dict.fromkeys(sel))
    elif k < 0.6:
        # several items selected by ONE action list (one key press): selection order is still the order of the actions
        while len(lines) < 6:
            l = nasty(r) + '%d' % len(lines)
            if l not in lines:
                lines.append(l)
        how = r.choice(['chain', 'chain', 'all'])
        sel = list(range(len(lines))) if how == 'all' else r.sample(range(len(lines)), r.randint(4, len(lines)))
        if not any(p.startswith('{+') for p in parts):
            parts = [r.choice(['{+}', '{+n}', '{+1}'])] + parts[:2]
    return dict(lines=lines, parts=parts, sel=sel, how=how, query=nasty(r).replace('\n', ' ').replace('\t', ' '))


def run_case(fzf, tmp, c):
    s = Session(fzf, ['--disabled', '--read0', '--multi', '--query=' + c['query']], [], tmp, width=80, height=12,
                input_cmd="cat '{d}/input0'",
                # NUL-terminated records (the Session's own input file is newline-terminated)
                prepare=lambda d: open(os.path.join(d, 'input0'), 'wb').write(b''.join(l.encode() + b'\0' for l in c['lines'])))
    try:
        st = s.wait_ready()
        if st is None:
            return None, 'did not start: ' + s.stderr().decode('utf-8', 'replace')[-200:]
        s.settle(want=lambda x: x['totalCount'] == len(c['lines']))
        if c.get('how') == 'all':
            s.post('select-all')
        elif c.get('how') == 'chain':
            s.post('+'.join('pos(%d)+select' % (k + 1) for k in c['sel']))
        else:
            for k in c['sel']:
                s.post('pos(%d)+select' % (k + 1))
        s.post('first')
        out = os.path.join(s.dir, 'words')
        template = ' '.join(c['parts'])
        s.post("execute-silent(printf '%%s\\0' X %s > '%s.tmp'; mv '%s.tmp' '%s')" % (template, out, out, out))
        t0 = time.time()
        while not os.path.exists(out) and time.time() - t0 < 5:
            time.sleep(0.02)
        if not os.path.exists(out):
            return None, 'the command did not run'
        data = open(out, 'rb').read()
        s.post('abort')
        s.wait_exit(3.0)
    finally:
        s.close()
    words = data.split(b'\0')
    if not words or words[0] != b'X':
        return None, 'unexpected output'
    words = words[1:-1]
    sel = ','.join(str(k) for k in c['sel']) or '-'
    lhs = 'quote pexpand %s %s awk %s %s' % (enc_strlist([p.encode() for p in c['parts']]), enc_bytes(c['query'].encode()),
                                            enc_strlist([l.encode() for l in c['lines']]), sel)
    return lhs + ' => ' + enc_strlist(words), None


def drv_expand(tier, seed, ctx):
    from vcheck import evaluate
    n = 40 if tier == 'quick' else 800
    r = random.Random(seed * 48271 + 5)
    cases = [gen(r) for _ in range(n)]
    notes = []

    def work(c):
        try:
            return run_case(ctx['fzf'], ctx['tmp'], c)
        except Exception as e:
            return None, 'driver error: %r' % (e,)
    with ThreadPoolExecutor(max_workers=8) as ex:
        outs = list(ex.map(work, cases))
    lines = [l for l, _ in outs if l]
    bad = [i for l, i in outs if not l]
    if bad:
        notes.append('%d expansion sessions could not be driven: %s' % (len(bad), bad[0]))
    rs = evaluate(ctx['driver'], lines)
    for x in rs:
        x['proc'] = dict(kind='tmux-expand')
    return rs, notes


procs.DRIVERS['expand'] = drv_expand


def replay(rp, ctx):
    from vcheck import evaluate
    toks = rp['case'].split(' => ')[0].split(' ')
    dec = lambda x: bytes(int(v) for v in x.split(',')).decode('utf-8', 'replace') if x not in ('-', '') else ''
    parts = [dec(x) for x in toks[2].split('|')]
    lines = [dec(x) for x in toks[5].split('|')]
    sel = [] if toks[6] == '-' else [int(x) for x in toks[6].split(',')]
    line, _ = run_case(ctx['fzf'], ctx['tmp'], dict(lines=lines, parts=parts, sel=sel, how='chain' if len(sel) >= 4 else 'steps', query=dec(toks[3])))
    rs = evaluate(ctx['driver'], [line]) if line else []
    for x in rs:
        x['proc'] = dict(kind='tmux-expand')
    return rs
