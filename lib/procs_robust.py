"""C14 driver: the real fzf inside a private tmux server under hostile conditions — hostile input
lines (wide, combining, control, invalid bytes, very long, empty), random option sets (layouts,
borders, margins, preview windows, wrap, gaps, headers), window sizes from 1x1, histories of
actions, raw key / mouse bytes and resizes — followed by a liveness probe and a random exit path
(accept, abort, ctrl-c, SIGTERM, SIGINT), possibly while a preview command is still running.
Observed: exit status, stderr, termios before/after, alternate-screen and mouse flags of the
pane, TMPDIR contents, process table. One protocol line per scenario; the scenario is a pure
function of the number in the line, so a replay regenerates it."""
import json, os, random, re, signal, subprocess, time
from concurrent.futures import ThreadPoolExecutor

import procs
from procs import Session

LINES = ['alpha', 'beta gamma', '', ' ', 'a\tb\tc', '日本語のテキスト', 'éäô combining', '👨‍👩‍👧 family', 'x' * 300,
         'wide ＷＩＤＥ ｗｉｄｅ', 'ctrl \x01\x02\x7f end', 'esc \x1b[31mred\x1b[0m', 'tab\t\t\tend', 'a' * 5000, 'مرحبا بالعالم', '​​ zero width',
         'src/main.go', 'foo/bar/baz', 'UPPER', '123', '~!@#$%^&*()', 'line with trailing spaces    ', '한국어', '﻿bom']
RAW = [b'\xff\xfe\xfd', b'ok \xc3', b'\xe6\x97', b'\xf0\x9f', b'\x80\x80', b'a\x00b', b'\xc0\xaf', b'caf\xc3\xa9 \xff']
ACTIONS = ['up', 'down', 'page-up', 'page-down', 'half-page-up', 'half-page-down', 'first', 'last', 'toggle', 'toggle-all', 'select-all',
           'deselect-all', 'toggle-preview', 'toggle-preview-wrap', 'toggle-wrap', 'toggle-header', 'toggle-hscroll', 'toggle-multi-line',
           'toggle-sort', 'toggle-track', 'clear-screen', 'clear-query', 'refresh-preview', 'preview-up', 'preview-down', 'preview-page-down',
           'preview-top', 'preview-bottom', 'offset-up', 'offset-down', 'offset-middle', 'kill-line', 'unix-line-discard', 'backward-word',
           'forward-word', 'beginning-of-line', 'end-of-line', 'delete-char', 'backward-delete-char', 'yank', 'replace-query', 'toggle-input',
           'hide-input', 'show-input', 'hide-header', 'show-header', 'toggle-search', 'pos(3)', 'pos(-1)', 'pos(100000)', 'put(x)', 'put(日本)',
           'put(' + 'q' * 60 + ')', 'change-query(a)', 'change-query(' + 'long ' * 40 + ')', 'change-prompt(>>> )', 'change-prompt(' + 'P' * 90 + ')',
           'change-header(H1)', 'change-header(' + 'wide header ' * 20 + ')', 'change-preview-window(up)', 'change-preview-window(right,90%)',
           'change-preview-window(hidden)', 'change-preview-window(left,1)', 'change-preview-window(down,99%,border-none)', 'change-border-label(L)',
           'change-list-label(LL)', 'change-pointer(=>)', 'change-ghost(ghost)', 'execute-silent(true)', 'exclude', 'toggle-bind', 'change-nth(1)',
           'change-multi(2)', 'change-multi', 'preview(echo hi)', 'reload(printf "r1\\nr2\\n")', 'reload-sync(true)', 'bg-cancel', 'search(ab)']
KEYS = ['1b5b41', '1b5b42', '1b5b43', '1b5b44', '1b5b5a', '1b5b337e', '1b5b357e', '1b5b367e', '1b5b313b3241', '1b5b32303020', '1b5b3230307e6162631b5b3230317e',
        '1b5b3c303b353b354d', '1b5b3c303b353b356d', '1b5b3c303b3939393b3939394d', '1b5b3c36343b313b314d', '1b5b3c36353b323b324d', '1b5b3c303b313b314d1b5b3c303b313b316d',
        '1b5b3c323b323b324d', '1b5b3c33323b393b394d', '1b5b3c303b303b304d', '1b5b3c2d313b313b314d', '1b5b3c303b313b', '1b5b3c', '1b5b', '1b4f', '1b', '1b1b', '1b7f', '1b61',
        'ff', 'c3', 'e697a5', 'f09f9880', '00', '7f', '09', '01', '05', '0b', '15', '17', '19', '1b5b31323b3334 52'.replace(' ', ''), '1b5b313b3130', '1b5b33', '61', '20', '41']
EXITS = ['accept', 'abort', 'ctrl-c', 'sigterm', 'sigint', 'accept', 'abort']


GEOM_BASE = 500000   # scenario numbers with (seed mod 1000003) >= GEOM_BASE are the directed geometry family


def gen_geometry(seed, tier):
    """Directed: items that take several screen rows (--read0 records with embedded newlines, --wrap of
    long / wide lines), --gap, small windows, and cursor / scroll movement to every edge of the list."""
    r = random.Random(seed)
    read0 = r.random() < 0.5
    n = r.choice([2, 4, 6, 9, 15, 40])
    lines = []
    for k in range(n):
        if read0:
            parts = [r.choice(['aaa', 'bbb ccc', '日本語', 'x' * r.choice([5, 30, 90]), '', 'tab\tq']) for _ in range(r.choice([1, 2, 2, 3, 5]))]
            lines.append(('%d ' % k + '\n'.join(parts)).encode())
        else:
            lines.append(('%d ' % k + r.choice(['short', 'w' * r.choice([30, 70, 150, 400]), 'ＷＩＤＥ' * r.choice([3, 12, 40]), 'mix 日本 ' * r.choice([2, 9, 30])])).encode())
    a = ['--no-color'] if r.random() < 0.5 else []
    a.append('--layout=' + r.choice(['default', 'reverse', 'reverse-list']))
    if read0:
        a.append('--read0')
    if not read0 or r.random() < 0.4:
        a.append('--wrap')
    if r.random() < 0.8:
        a.append('--gap=%d' % r.choice([1, 1, 2, 3]))
    if r.random() < 0.25:
        a.append('--border=' + r.choice(['rounded', 'horizontal', 'top', 'none']))
    if r.random() < 0.2:
        a.append('--info=' + r.choice(['inline', 'hidden', 'right']))
    if r.random() < 0.2:
        a.append('--header=' + r.choice(['H', 'two\nlines']))
    if r.random() < 0.15:
        a.append('--header-lines=1')
    if r.random() < 0.3:
        a.append('--multi')
    if r.random() < 0.15:
        a.append('--no-input')
    if r.random() < 0.15:
        a.append('--cycle')
    if r.random() < 0.15:
        a.append('--scroll-off=%d' % r.choice([0, 1, 5]))
    if r.random() < 0.15:
        a.append('--highlight-line')
    if r.random() < 0.1:
        a.append('--marker-multi-line=' + r.choice(['╻┃╹', 'abc']))
    w, h = r.choice([20, 40, 60, 80]), r.choice([4, 5, 6, 7, 8, 9, 10, 11, 12, 13, 14, 24])
    moves = ['down', 'down', 'down', 'up', 'up', 'last', 'first', 'page-down', 'page-up', 'half-page-down', 'half-page-up', 'offset-down', 'offset-up',
             'offset-middle', 'toggle', 'toggle-wrap', 'toggle-multi-line', 'pos(3)', 'pos(-1)', 'toggle-input', 'change-query(1)', 'clear-query', 'toggle-sort']
    steps = []
    for _ in range(r.randint(4, 16 if tier == 'quick' else 60)):
        x = r.random()
        if x < 0.85:
            k = r.choice([1, 1, 2, 4, 12])
            m = r.choice(moves)
            steps.append(('post', '+'.join([m] * k) if m in ('down', 'up') else m))
        else:
            steps.append(('resize', (r.choice([20, 40, 60]), r.choice([3, 4, 5, 6, 7, 8, 9, 10, 12]))))
    marker = '9%07d' % (seed % 10**7)
    return dict(seed=seed, lines=lines, args=a, w=w, h=h, steps=steps, exit=r.choice(EXITS), endless=False, marker=marker,
                exit_delay=0, read0=read0)


MOUSE_BASE = 700000  # … and those >= MOUSE_BASE the directed mouse family


def gen_mouse(seed, tier):
    """Directed: mouse gestures (press, drag with the button held, release, wheel, right button, double click) at and around
    every edge of the list window — last column, border, margin, header and prompt rows, outside the window — over lists
    short enough to have no scrollbar and long enough to have one."""
    r = random.Random(seed)
    n = r.choice([1, 3, 5, 5, 8, 30, 200])
    lines = [('%d item' % k).encode() for k in range(n)]
    a = ['--no-color'] if r.random() < 0.5 else []
    layout = r.choice(['default', 'default', 'reverse', 'reverse-list'])
    a.append('--layout=' + layout)
    simple = r.random() < 0.5     # nothing but a border around the list: the geometry is known, gestures start on item rows
    border = None
    if simple or r.random() < 0.7:
        border = r.choice(['rounded', 'rounded', 'sharp', 'horizontal', 'top', 'bottom', 'vertical'])
        a.append('--border=' + border)
    if simple:
        w, h = r.choice([(80, 24), (40, 10), (30, 8), (60, 15)])
        top = 2 if border in ('rounded', 'sharp', 'horizontal', 'top') else 1
        bottom = h - 1 if border in ('rounded', 'sharp', 'horizontal', 'bottom') else h
        xlast = w - 1 if border in ('rounded', 'sharp', 'vertical') else w
        if layout == 'default':
            rows = [bottom - 2 - k for k in range(n) if bottom - 2 - k >= top]
        elif layout == 'reverse':
            rows = [top + 2 + k for k in range(n) if top + 2 + k <= bottom]
        else:
            rows = [top + k for k in range(n) if top + k <= bottom - 2]
        rows = rows or [top]

        def ev0(b, x, y, up=False):
            return ('\x1b[<%d;%d;%d%s' % (b, x, y, 'm' if up else 'M')).encode().hex()
        steps = []
        for _ in range(r.randint(3, 8)):
            x = r.choice([xlast, xlast, xlast, xlast - 1, xlast + 1, 3])
            y = r.choice(rows)
            seq = ev0(0, x, y)
            for y2 in r.choice([[h], [1], [bottom, h], [top, 1], [r.choice(rows)], [r.choice(rows), h], [h + 1]]):
                seq += ev0(32, x, max(1, y2))
            if r.random() < 0.7:
                seq += ev0(0, x, 1, up=True)
            steps.append(('keys', seq))
            if r.random() < 0.3:
                steps.append(('post', r.choice(['down', 'up', 'toggle', 'change-query(1)', 'clear-query'])))
        marker = '9%07d' % (seed % 10**7)
        return dict(seed=seed, lines=lines, args=a, w=w, h=h, steps=steps, exit=r.choice(EXITS), endless=False, marker=marker, exit_delay=0)
    if r.random() < 0.3:
        a.append('--margin=' + r.choice(['1', '2,3', '1,0']))
    if r.random() < 0.25:
        a.append('--preview=echo {}')
        a.append('--preview-window=' + r.choice(['up', 'down', 'right', 'up,3', 'down,2']))
    if r.random() < 0.2:
        a.append('--style=full')
    if r.random() < 0.3:
        a.append('--multi')
    if r.random() < 0.2:
        a.append('--header=H')
    if r.random() < 0.15:
        a.append('--no-scrollbar')
    if r.random() < 0.1:
        a.append('--list-border')
    if r.random() < 0.1:
        a.append('--input-border')
    w, h = r.choice([(80, 24), (80, 24), (40, 10), (30, 8), (60, 15)])

    def ev(b, x, y, up=False):
        return ('\x1b[<%d;%d;%d%s' % (b, x, y, 'm' if up else 'M')).encode().hex()

    def xs():
        return r.choice([w - 1, w - 1, w, w - 2, 1, 2, w - 3, r.randint(1, w), r.randint(1, w)])

    def ys():
        k = r.random()
        if k < 0.35:
            return r.randint(max(1, h - 9), h)       # the prompt edge of the default layout
        if k < 0.7:
            return r.randint(1, min(h, 9))           # … and of the reverse layouts
        return r.randint(1, h)
    steps = []
    for _ in range(r.randint(4, 10 if tier == 'quick' else 40)):
        x, y = xs(), ys()
        g = r.random()
        if g < 0.6:
            # press, drag (button held) through one or two points, release
            seq = ev(0, x, y)
            for _ in range(r.choice([1, 2, 2, 3])):
                x2 = x if r.random() < 0.6 else xs()
                y2 = r.choice([h, 1, h - 1, 2, h + 1, ys(), ys()])
                seq += ev(32, x2, max(1, y2))
            if r.random() < 0.8:
                seq += ev(0, x2, max(1, y2), up=True)
            steps.append(('keys', seq))
        elif g < 0.75:
            steps.append(('keys', ev(0, x, y) + ev(0, x, y, up=True) + (ev(0, x, y) + ev(0, x, y, up=True) if r.random() < 0.5 else '')))
        elif g < 0.85:
            steps.append(('keys', ev(r.choice([64, 65, 68, 69]), x, y) * r.choice([1, 3])))
        elif g < 0.92:
            steps.append(('keys', ev(2, x, y) + ev(2, x, y, up=True)))
        else:
            steps.append(('post', r.choice(['toggle-preview', 'change-query(1)', 'clear-query', 'last', 'first', 'toggle-input'])))
    marker = '9%07d' % (seed % 10**7)
    return dict(seed=seed, lines=lines, args=a, w=w, h=h, steps=steps, exit=r.choice(EXITS), endless=False, marker=marker, exit_delay=0)


def gen_scenario(seed, tier):
    if seed % 1000003 >= MOUSE_BASE:
        return gen_mouse(seed, tier)
    if seed % 1000003 >= GEOM_BASE:
        return gen_geometry(seed, tier)
    r = random.Random(seed)
    n = r.choice([0, 1, 2, 5, 12, 30, 60])
    lines = []
    for _ in range(n):
        if r.random() < 0.15:
            lines.append(r.choice(RAW))
        else:
            lines.append(r.choice(LINES).encode())
    a = ['--no-color'] if r.random() < 0.5 else []
    a.append('--layout=' + r.choice(['default', 'reverse', 'reverse-list']))
    a.append('--info=' + r.choice(['default', 'inline', 'inline-right', 'right', 'hidden', 'inline:XX ']))
    if r.random() < 0.5:
        a.append('--border=' + r.choice(['rounded', 'sharp', 'double', 'horizontal', 'vertical', 'top', 'left', 'none', 'block', 'thinblock']))
    if r.random() < 0.25:
        a.append('--margin=' + r.choice(['1', '0,3', '10%', '1,2,3,4', '45%']))
    if r.random() < 0.25:
        a.append('--padding=' + r.choice(['1', '0,2', '20%', '3']))
    marker = '9%07d' % (seed % 10**7)   # an endless preview is recognised by its unique `sleep` argument
    endless = r.random() < 0.35
    if r.random() < 0.6:
        body = r.choice(['echo {}', 'echo {q} {n}; echo {+}', 'cat {f}', 'printf "%s\\n" {} {} {}; seq 200', 'echo \'\\033[31mred\\033[m\'; echo {}'])
        if endless:
            # not in tail position: the shell must not `exec` the sleep, so that a child of the shell exists
            body += '; sleep %s; true' % marker
        a.append('--preview=' + body)
        a.append('--preview-window=' + r.choice(['right', 'up', 'down', 'left', 'right,50%', 'up,1', 'down,99%', 'hidden', 'right,wrap', 'left,border-none,3',
                                                  'up,follow', 'right,<30(up,2)', 'down,~2']))
    else:
        endless = False
    if r.random() < 0.3:
        a.append('--header=' + r.choice(['HEADER', 'two\nlines', 'wide header ' * 15]))
    if r.random() < 0.25:
        a.append('--header-lines=%d' % r.choice([1, 2, 5]))
    if r.random() < 0.2:
        a.append('--header-first')
    if r.random() < 0.5:
        a.append('--multi')
    if r.random() < 0.3:
        a.append('--wrap')
    if r.random() < 0.3:
        a.append('--no-multi-line')
    if r.random() < 0.2:
        a.append('--gap=%d' % r.choice([1, 2]))
    if r.random() < 0.2:
        a.append('--ansi')
    if r.random() < 0.2:
        a.append('--style=' + r.choice(['full', 'minimal', 'default']))
    if r.random() < 0.2:
        a.append('--tabstop=%d' % r.choice([1, 2, 8, 16]))
    if r.random() < 0.2:
        a.append('--pointer=' + r.choice(['>', '=>', '', '日']))
    if r.random() < 0.2:
        a.append('--ellipsis=' + r.choice(['', '...', '日本', '…']))
    if r.random() < 0.2:
        a.append('--prompt=' + r.choice(['', 'P' * 50, '日本> ']))
    if r.random() < 0.2:
        a.append('--query=' + r.choice(['a', 'q' * 120, '日本 語', "'x !y ^z"]))
    if r.random() < 0.1:
        a.append('--no-input')
    if r.random() < 0.15:
        a.append('--scrollbar=' + r.choice(['', '|', '██']))
    if r.random() < 0.15:
        a.append('--no-mouse')
    if r.random() < 0.15:
        a.append('--cycle')
    if r.random() < 0.15:
        a.append('--keep-right')
    if r.random() < 0.1:
        a.append('--track')
    if r.random() < 0.1:
        a.append('--input-border')
    if r.random() < 0.1:
        a.append('--header-border')
    if r.random() < 0.1:
        a.append('--list-border')
    sizes = [(1, 1), (2, 1), (1, 2), (2, 2), (3, 3), (4, 2), (5, 5), (8, 3), (10, 4), (20, 6), (40, 10), (80, 24), (200, 50), (3, 24), (80, 2), (12, 12)]
    w, h = r.choice(sizes + [(80, 24), (40, 10)])
    nsteps = r.randint(2, 12 if tier == 'quick' else 60)
    steps = []
    for _ in range(nsteps):
        x = r.random()
        if x < 0.5:
            steps.append(('post', '+'.join(r.choice(ACTIONS) for _ in range(r.choice([1, 1, 2, 3])))))
        elif x < 0.8:
            steps.append(('keys', ''.join(r.choice(KEYS) for _ in range(r.choice([1, 1, 2, 4])))))
        else:
            steps.append(('resize', r.choice(sizes)))
    # a reload command that is still running (and has a {f} file open) when the exit is requested
    if r.random() < 0.2:
        steps.append(('post', 'reload(cat {f}; echo more; sleep %s; true)' % marker))
    return dict(seed=seed, lines=lines, args=a, w=w, h=h, steps=steps, exit=r.choice(EXITS), endless=endless, marker=marker,
                exit_delay=r.choice([0, 0, 0.05, 0.3, 0.7]))


def pane_flag(s, fmt):
    p = subprocess.run(['tmux', '-L', s.sock, 'display-message', '-p', '-t', '0', fmt], stdout=subprocess.PIPE, stderr=subprocess.DEVNULL)
    return p.stdout.decode().strip()


def find_marked(marker):
    p = subprocess.run(['ps', '-eo', 'pid,args'], stdout=subprocess.PIPE)
    out = []
    for l in p.stdout.decode('utf-8', 'replace').split('\n'):
        m = re.match(r'\s*(\d+)\s+sleep %s\s*$' % marker, l)
        if m:
            out.append(int(m.group(1)))
    return out


def fzf_pid(s):
    # the fzf process is the one listening on the session's port: find it by its command line
    p = subprocess.run(['ps', '-eo', 'pid,args'], stdout=subprocess.PIPE)
    for l in p.stdout.decode('utf-8', 'replace').split('\n'):
        if 'localhost:%d' % s.port in l and '--listen' in l and 'sh -c' not in l and 'tmux' not in l:
            m = re.match(r'\s*(\d+)', l)
            if m:
                return int(m.group(1))
    return None


def run_scenario(fzf, tmp, sc):
    tdir = None
    s = None
    res = dict(alive=0, exit='none', stty=0, alt=-1, mouse=-1, tmp=-1, kids=-1, err=0)
    try:
        extra = {}
        if sc.get('read0'):
            data = b''.join(l + b'\0' for l in sc['lines'])
            extra = dict(input_cmd="cat '{d}/in0'", prepare=lambda d: open(os.path.join(d, 'in0'), 'wb').write(data))
        s = Session(fzf, sc['args'], sc['lines'], tmp, width=sc['w'], height=sc['h'], **extra,
                    wrap="stty -g > '{d}/stty.before'; mkdir -p '{d}/tmpdir'; export TMPDIR='{d}/tmpdir'; %s; stty -g > '{d}/stty.after'; sleep 600")
        st = s.wait_ready(10.0)
        if st is None:
            err = s.stderr()
            res['err'] = 1 if (b'panic' in err or b'goroutine ' in err) else 0
            res['exit'] = 'nostart'
            res['detail'] = err.decode('utf-8', 'replace')[-400:]
            return res
        for kind, arg in sc['steps']:
            if os.path.exists(s.rc):
                break
            if kind == 'post':
                s.post(arg, timeout=4.0)
            elif kind == 'keys':
                s.send_keys('-H', *[arg[i:i + 2] for i in range(0, len(arg), 2)])
            else:
                s.resize(arg[0], arg[1])
            time.sleep(0.02)
        ended_early = os.path.exists(s.rc)
        if not ended_early:
            # liveness probe: the event loop must still answer
            alive = False
            for _ in range(4):
                try:
                    s.get(timeout=3.0)
                    alive = True
                    break
                except Exception:
                    if os.path.exists(s.rc):
                        break
                    time.sleep(0.1)
            ended_early = os.path.exists(s.rc)
            res['alive'] = 1 if (alive or ended_early) else 0
            if alive:
                if sc['endless']:
                    # make sure a preview command is (re)started right before the exit
                    s.post('refresh-preview')
                    time.sleep(sc['exit_delay'])
                how = sc['exit']
                if how in ('accept', 'abort'):
                    s.post(how)
                elif how == 'ctrl-c':
                    s.send_keys('-H', '03')
                else:
                    pid = fzf_pid(s)
                    if pid:
                        os.kill(pid, signal.SIGTERM if how == 'sigterm' else signal.SIGINT)
                    else:
                        s.post('abort')
        else:
            res['alive'] = 1
        rc = s.wait_exit(8.0)
        if rc is None and not ended_early:
            # an exit request can be swallowed by a pending prompt (e.g. jump mode): ask again, plainly
            s.post('abort')
            rc = s.wait_exit(4.0)
            if rc is None:
                s.send_keys('-H', '03')
                rc = s.wait_exit(4.0)
        res['exit'] = 'hung' if rc is None else str(rc)
        err = s.stderr()
        if b'panic' in err or b'goroutine ' in err:
            res['err'] = 1
            res['detail'] = err.decode('utf-8', 'replace')[-600:]
        if rc is not None:
            time.sleep(0.15)
            try:
                before = open(os.path.join(s.dir, 'stty.before')).read()
                t0 = time.time()
                while not os.path.exists(os.path.join(s.dir, 'stty.after')) and time.time() - t0 < 2:
                    time.sleep(0.02)
                after = open(os.path.join(s.dir, 'stty.after')).read()
                res['stty'] = 1 if before == after else 0
                if before != after:
                    res['detail'] = 'stty before %s after %s' % (before.strip(), after.strip())
            except Exception:
                res['stty'] = 0
            res['alt'] = 1 if pane_flag(s, '#{alternate_on}') == '1' else 0
            res['mouse'] = 1 if pane_flag(s, '#{mouse_any_flag}') == '1' else 0
            try:
                left = os.listdir(os.path.join(s.dir, 'tmpdir'))
            except Exception:
                left = []
            res['tmp'] = len(left)
            if left:
                res['detail'] = 'left in TMPDIR: %s' % left[:5]
            kids = find_marked(sc['marker'])
            if kids:
                time.sleep(0.7)
                kids = find_marked(sc['marker'])
            res['kids'] = len(kids)
    finally:
        for pid in find_marked(sc['marker']):
            try:
                os.kill(pid, signal.SIGKILL)
            except Exception:
                pass
        if s is not None:
            s.close()
    return res


def line_of(sc, tier, res):
    return 'term robust %d %s %s => alive=%d exit=%s stty=%d alt=%d mouse=%d tmp=%d kids=%d err=%d' % (
        sc['seed'], tier, sc['exit'], res['alive'], res['exit'], res['stty'], res['alt'], res['mouse'], res['tmp'], res['kids'], res['err'])


def describe(sc):
    return dict(argv=sc['args'], window=[sc['w'], sc['h']], lines=[l.decode('utf-8', 'replace')[:80] for l in sc['lines'][:20]],
                steps=[list(x) if not isinstance(x[1], tuple) else [x[0], list(x[1])] for x in sc['steps']], exit=sc['exit'], endless_preview=sc['endless'])


def drv_robust(tier, seed, ctx):
    from vcheck import evaluate
    n = 60 if tier == 'quick' else 1200
    seeds = ([seed * 1000003 + k for k in range(n)] + [seed * 1000003 + GEOM_BASE + k for k in range(n // 3)] +
             [seed * 1000003 + MOUSE_BASE + k for k in range(max(10, n // 3))])
    scs = [gen_scenario(x, tier) for x in seeds]
    notes = []

    def work(sc):
        try:
            return run_scenario(ctx['fzf'], ctx['tmp'], sc)
        except Exception as e:
            return dict(driver_error=repr(e))
    with ThreadPoolExecutor(max_workers=8) as ex:
        outs = list(ex.map(work, scs))
    lines, infos = [], []
    for sc, res in zip(scs, outs):
        if 'driver_error' in res:
            notes.append('driver error: ' + res['driver_error'])
            continue
        lines.append(line_of(sc, tier, res))
        infos.append((sc, res))
    rs = evaluate(ctx['driver'], lines)
    keep, flaky = [], 0
    for r, (sc, res) in zip(rs, infos):
        if r['eq'] and r['spec'] != 'FAIL':
            keep.append(r)
            continue
        # believed only if it repeats
        again = []
        for _ in range(2):
            try:
                res2 = run_scenario(ctx['fzf'], ctx['tmp'], sc)
                again.append(evaluate(ctx['driver'], [line_of(sc, tier, res2)])[0])
            except Exception:
                again.append(None)
        bad = [a for a in again if a is not None and (not a['eq'] or a['spec'] == 'FAIL')]
        if len(bad) == 2:
            r['proc'] = dict(kind='tmux-robust', scenario=describe(sc), observed=res)
            keep.append(r)
        else:
            flaky += 1
            ok = next((a for a in again if a is not None and a['eq'] and a['spec'] != 'FAIL'), None)
            if ok:
                keep.append(ok)
    for r in keep:
        r.setdefault('proc', dict(kind='tmux-robust'))
    if flaky:
        notes.append('%d scenario(s) gave a verdict that did not repeat when re-run (timing); the re-run is reported' % flaky)
    if notes and notes[0].startswith('driver error'):
        notes = ['%d scenarios could not be driven: %s' % (len([x for x in notes if x.startswith('driver error')]), notes[0])] + [x for x in notes if not x.startswith('driver error')]
    return keep, notes


procs.DRIVERS['robust'] = drv_robust


def replay(rp, ctx):
    from vcheck import evaluate
    toks = rp['case'].split(' => ')[0].split(' ')
    sc = gen_scenario(int(toks[2]), toks[3])
    res = run_scenario(ctx['fzf'], ctx['tmp'], sc)
    rs = evaluate(ctx['driver'], [line_of(sc, toks[3], res)])
    for r in rs:
        r['proc'] = dict(kind='tmux-robust', scenario=describe(sc), observed=res)
    return rs
